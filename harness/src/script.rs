//! Scripted hasher and RNG. Both are re-implemented bit for bit in lean/Pds/Model/Script.lean,
//! so that the Lean model can be driven with exactly the hash values / random words the real
//! crate sees.
use rand::RngCore;
use serde::{Deserialize, Serialize};
use std::hash::{BuildHasher, Hasher};

#[derive(Clone, Copy, Debug, PartialEq, Eq, Serialize, Deserialize)]
pub struct ScriptBH {
    pub mul: u64,
    pub add: u64,
    pub sh: u32,
    pub seed: u64,
}

impl ScriptBH {
    pub fn xor() -> Self {
        ScriptBH { mul: 1, add: 0, sh: 64, seed: 0 }
    }
    pub fn hash_words(&self, words: &[u64]) -> u64 {
        let mut h = self.build_hasher();
        for w in words {
            h.write_u64(*w);
        }
        h.finish()
    }
    /// The word that the overridden `BuildHasher::hash_one` xors into the result of the provided
    /// method. It lives in the bits of `sh` above the low eight (which are the shift), so that the
    /// `hasher` header line, the serialised form and the Lean `HashCfg` keep their four fields.
    pub fn one(&self) -> u64 {
        ((self.sh >> 8) as u64).wrapping_mul(0x9E3779B97F4A7C15)
    }
    /// what `BuildHasher::hash_one(&key)` returns for this hasher (specialising hashers such as ahash
    /// override `hash_one`; code that must use `hash_one` and re-derives it from `build_hasher` differs)
    pub fn hash_one_words(&self, words: &[u64]) -> u64 {
        self.hash_words(words) ^ self.one()
    }
    pub fn header(&self) -> String {
        format!("hasher {} {} {} {}", self.mul, self.add, self.sh, self.seed)
    }
}

pub struct ScriptHasher {
    cfg: ScriptBH,
    acc: u64,
}

impl ScriptHasher {
    #[inline]
    fn word(&mut self, w: u64) {
        self.acc = (self.acc ^ w).wrapping_mul(self.cfg.mul).wrapping_add(self.cfg.add);
    }
}

impl Hasher for ScriptHasher {
    fn finish(&self) -> u64 {
        let sh = self.cfg.sh & 0xff;
        if sh < 64 {
            self.acc ^ (self.acc >> sh)
        } else {
            self.acc
        }
    }
    fn write(&mut self, bytes: &[u8]) {
        for b in bytes {
            self.word(*b as u64);
        }
    }
    fn write_u8(&mut self, i: u8) {
        self.word(i as u64)
    }
    fn write_u16(&mut self, i: u16) {
        self.word(i as u64)
    }
    fn write_u32(&mut self, i: u32) {
        self.word(i as u64)
    }
    fn write_u64(&mut self, i: u64) {
        self.word(i)
    }
    fn write_usize(&mut self, i: usize) {
        self.word(i as u64)
    }
}

impl BuildHasher for ScriptBH {
    type Hasher = ScriptHasher;
    fn build_hasher(&self) -> ScriptHasher {
        ScriptHasher { cfg: *self, acc: self.seed }
    }
    fn hash_one<T: std::hash::Hash>(&self, x: T) -> u64 {
        let mut h = self.build_hasher();
        x.hash(&mut h);
        h.finish() ^ self.one()
    }
}

/// splitmix64 (used both as the harness' own PRNG and as the body of ScriptRng).
#[derive(Clone, Debug)]
pub struct SplitMix(pub u64);

impl SplitMix {
    pub fn next(&mut self) -> u64 {
        self.0 = self.0.wrapping_add(0x9E3779B97F4A7C15);
        let mut z = self.0;
        z = (z ^ (z >> 30)).wrapping_mul(0xBF58476D1CE4E5B9);
        z = (z ^ (z >> 27)).wrapping_mul(0x94D049BB133111EB);
        z ^ (z >> 31)
    }
    pub fn below(&mut self, n: u64) -> u64 {
        if n == 0 {
            0
        } else {
            self.next() % n
        }
    }
    pub fn range(&mut self, lo: u64, hi_incl: u64) -> u64 {
        lo + self.below(hi_incl - lo + 1)
    }
    pub fn chance(&mut self, num: u64, den: u64) -> bool {
        self.below(den) < num
    }
    pub fn pick<'a, T>(&mut self, xs: &'a [T]) -> &'a T {
        &xs[self.below(xs.len() as u64) as usize]
    }
    pub fn f01(&mut self) -> f64 {
        (self.next() >> 11) as f64 / (1u64 << 53) as f64
    }
    pub fn fork(&mut self) -> SplitMix {
        SplitMix(self.next())
    }
}

/// RNG handed to the real crate: a queue of forced words, then splitmix64.
/// `used` counts the words consumed so far (reported by the `*.rngused` observation).
#[derive(Clone, Debug)]
pub struct ScriptRng {
    pub forced: std::collections::VecDeque<u64>,
    pub sm: SplitMix,
    pub used: u64,
}

impl ScriptRng {
    pub fn new(seed: u64) -> Self {
        ScriptRng { forced: Default::default(), sm: SplitMix(seed), used: 0 }
    }
}

impl RngCore for ScriptRng {
    fn next_u32(&mut self) -> u32 {
        (self.next_u64() >> 32) as u32
    }
    fn next_u64(&mut self) -> u64 {
        self.used += 1;
        if let Some(w) = self.forced.pop_front() {
            w
        } else {
            self.sm.next()
        }
    }
    fn fill_bytes(&mut self, dest: &mut [u8]) {
        for chunk in dest.chunks_mut(8) {
            let w = self.next_u64().to_le_bytes();
            chunk.copy_from_slice(&w[..chunk.len()]);
        }
    }
    fn try_fill_bytes(&mut self, dest: &mut [u8]) -> Result<(), rand::Error> {
        self.fill_bytes(dest);
        Ok(())
    }
}
