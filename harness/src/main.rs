mod alloc;
mod exec;
mod script;
mod serde_doc;
mod gen;
mod watch;

use std::io::{BufRead, Write};

#[global_allocator]
static GLOBAL: alloc::Counting = alloc::Counting;

/// seconds one operation on the real crate may take before it counts as not returning
fn hang_secs(default: u64) -> u64 {
    std::env::var("PDS_HARNESS_HANG_SECS").ok().and_then(|x| x.parse().ok()).unwrap_or(default)
}

fn main() {
    alloc::count_this_thread();
    if std::env::var("PDS_HARNESS_PANICS").is_err() {
        std::panic::set_hook(Box::new(|_| {}));
    }
    let args: Vec<String> = std::env::args().collect();
    if args.len() < 2 {
        eprintln!("usage: pds-harness replay <ops> | gen <prop> <tier> <seed> <outdir>");
        std::process::exit(2);
    }
    match args[1].as_str() {
        "replay" => {
            // run an ops file against the real crate, print the answers
            let f = std::fs::File::open(&args[2]).expect("ops file");
            let mut ex = exec::Exec::new();
            watch::start(hang_secs(5), watch::OnHang::PrintAnswer);
            for line in std::io::BufReader::new(f).lines() {
                let line = line.unwrap();
                let t = line.trim();
                if !t.is_empty() && !t.starts_with('#') {
                    watch::touch(t);
                }
                if let Some(a) = ex.step(&line) {
                    watch::answer(&a);
                }
            }
            watch::disarm();
            watch::flush();
        }
        "gen" => {
            let prop = &args[2];
            let tier = &args[3];
            let seed: u64 = args[4].parse().expect("seed");
            let outdir = &args[5];
            std::fs::create_dir_all(outdir).unwrap();
            let _ = std::fs::remove_file(format!("{}/hang.ops", outdir));
            watch::start(hang_secs(20), watch::OnHang::WriteOps(format!("{}/hang.ops", outdir)));
            gen::run(prop, tier, seed, outdir);
        }
        "oracle" => {
            // re-run the property oracle on an existing ops file (replay / shrinking)
            let prop = &args[2];
            watch::start(hang_secs(5), watch::OnHang::OracleFail);
            let ok = gen::oracle_file(prop, &args[3]);
            std::process::exit(if ok { 0 } else { 1 });
        }
        _ => {
            eprintln!("unknown subcommand");
            std::process::exit(2);
        }
    }
}
