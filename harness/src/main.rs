mod alloc;
mod exec;
mod script;
mod serde_doc;
mod gen;

use std::io::{BufRead, Write};

#[global_allocator]
static GLOBAL: alloc::Counting = alloc::Counting;

fn main() {
    if std::env::var("PDS_HARNESS_PANICS").is_err() {
        std::panic::set_hook(Box::new(|_| {}));
    }
    let args: Vec<String> = std::env::args().collect();
    if args.len() < 2 {
        eprintln!("usage: pds-harness replay <ops> | gen <prop> <tier> <seed> <outdir>");
        std::process::exit(2);
    }
    match args[1].as_str() {
        "replay" => {
            // run an ops file against the real crate, print the answers
            let f = std::fs::File::open(&args[2]).expect("ops file");
            let mut ex = exec::Exec::new();
            let out = std::io::stdout();
            let mut out = std::io::BufWriter::new(out.lock());
            for line in std::io::BufReader::new(f).lines() {
                let line = line.unwrap();
                if let Some(a) = ex.step(&line) {
                    writeln!(out, "{}", a).unwrap();
                }
            }
        }
        "gen" => {
            let prop = &args[2];
            let tier = &args[3];
            let seed: u64 = args[4].parse().expect("seed");
            let outdir = &args[5];
            gen::run(prop, tier, seed, outdir);
        }
        "oracle" => {
            // re-run the property oracle on an existing ops file (replay / shrinking)
            let prop = &args[2];
            let ok = gen::oracle_file(prop, &args[3]);
            std::process::exit(if ok { 0 } else { 1 });
        }
        _ => {
            eprintln!("unknown subcommand");
            std::process::exit(2);
        }
    }
}
