//! Watchdog: the real crate is called in-process, so an operation that never returns (a changed
//! loop condition, a corrupted table that makes a scan cycle) would hang the whole check. Every
//! operation handed to the crate is recorded here first; a background thread notices when one does
//! not come back within the limit, writes the operations of the current case (the last line is
//! the one that hangs) and ends the process with a distinct exit code.
use std::sync::Mutex;
use std::time::{Duration, Instant};

struct State {
    case_ops: Vec<String>,
    last: Instant,
    limit: Duration,
    label: String,
    armed: bool,
}

static STATE: Mutex<Option<State>> = Mutex::new(None);
/// replay mode: answers not yet written to stdout
static PENDING: Mutex<Vec<u8>> = Mutex::new(Vec::new());

pub enum OnHang {
    /// gen mode: write `<path>` (ops of the current case), exit 3
    WriteOps(String),
    /// replay mode: print `hang` as the answer of the op, exit 0 (the stream ends there)
    PrintAnswer,
    /// oracle mode: print an ORACLE-FAIL line, exit 1
    OracleFail,
}

pub fn start(limit_secs: u64, on: OnHang) {
    *STATE.lock().unwrap() = Some(State {
        case_ops: vec![],
        last: Instant::now(),
        limit: Duration::from_secs(limit_secs),
        label: String::new(),
        armed: true,
    });
    std::thread::spawn(move || loop {
        std::thread::sleep(Duration::from_millis(250));
        let g = STATE.lock().unwrap();
        let s = match g.as_ref() {
            Some(s) => s,
            None => continue,
        };
        if !s.armed || s.last.elapsed() < s.limit {
            continue;
        }
        let hanging = s.case_ops.last().cloned().unwrap_or_default();
        match &on {
            OnHang::WriteOps(path) => {
                let mut text = String::new();
                if s.label.is_empty() {
                    text.push_str(&format!("# the real crate does not return from `{}` within {} s\n", hanging, s.limit.as_secs()));
                    for l in &s.case_ops {
                        text.push_str(l);
                        text.push('\n');
                    }
                } else {
                    text.push_str(&format!("# {} on the real crate did not finish within {} s\n", s.label, s.limit.as_secs()));
                }
                let _ = std::fs::write(path, text);
                println!("HANG {}", if s.label.is_empty() { hanging } else { s.label.clone() });
                std::process::exit(if s.label.is_empty() { 3 } else { 4 });
            }
            OnHang::PrintAnswer => {
                flush();
                println!("hang");
                std::process::exit(0);
            }
            OnHang::OracleFail => {
                let case = s.case_ops.first().and_then(|l| l.split_whitespace().nth(1).map(|x| x.to_string())).unwrap_or("0".into());
                println!("ORACLE-FAIL case={} line={} the real crate does not return from `{}`", case, s.case_ops.len().saturating_sub(1), hanging);
                std::process::exit(1);
            }
        }
    });
}

/// Called with every op line just before it is handed to the real crate.
#[inline]
pub fn touch(line: &str) {
    let mut g = STATE.lock().unwrap();
    if let Some(s) = g.as_mut() {
        if line.starts_with("case ") {
            s.case_ops.clear();
        }
        s.case_ops.push(line.to_string());
        s.last = Instant::now();
    }
}

/// A phase that does not go through `touch` (sampling experiments): one limit for the whole phase.
pub fn phase(label: &str, limit_secs: u64) {
    let mut g = STATE.lock().unwrap();
    if let Some(s) = g.as_mut() {
        s.label = label.to_string();
        s.limit = Duration::from_secs(limit_secs);
        s.last = Instant::now();
    }
}

pub fn disarm() {
    let mut g = STATE.lock().unwrap();
    if let Some(s) = g.as_mut() {
        s.armed = false;
    }
}

/// replay mode: buffer an answer line (the watchdog flushes the buffer before it reports a hang)
pub fn answer(a: &str) {
    let mut p = PENDING.lock().unwrap();
    p.extend_from_slice(a.as_bytes());
    p.push(b'\n');
    if p.len() > (1 << 16) {
        use std::io::Write;
        std::io::stdout().write_all(&p).unwrap();
        p.clear();
    }
}

pub fn flush() {
    use std::io::Write;
    let mut p = PENDING.lock().unwrap();
    std::io::stdout().write_all(&p).unwrap();
    p.clear();
}
