//! Trace oracles: each evaluates the *statement* of a property on a trace (ops + the real
//! crate's answers), against an exact reference kept beside it (maps, sets, exact counts).
//! They are independent of the Lean model. Return value: (line index within the case, message).
use crate::script::ScriptBH;
use std::collections::{BTreeMap, BTreeSet, HashMap};

type Fails = Vec<(usize, String)>;

fn toks(s: &str) -> Vec<&str> {
    s.split_whitespace().collect()
}
fn pu(s: &str) -> u64 {
    s.parse().unwrap()
}
pub fn pf(s: &str) -> f64 {
    f64::from_bits(u64::from_str_radix(s, 16).unwrap())
}
pub fn af(s: &str) -> f64 {
    // answer float "f:<hex>"
    pf(&s[2..])
}
fn parse_bh(t: &[&str]) -> ScriptBH {
    ScriptBH { mul: pu(t[1]), add: pu(t[2]), sh: pu(t[3]) as u32, seed: pu(t[4]) }
}

/// Expand `both` lines into two plain (op, answer) pairs so that every oracle sees plain ops.
pub fn expand(ops: &[String], ans: &[String]) -> Vec<(usize, String, String)> {
    let mut out = vec![];
    for (i, (o, a)) in ops.iter().zip(ans.iter()).enumerate() {
        let t = toks(o);
        if t.first() == Some(&"both") {
            let parts: Vec<&str> = a.splitn(2, " | ").collect();
            let rest = t[4..].join(" ");
            out.push((i, format!("{} {} {}", t[1], t[2], rest).trim().to_string(), parts[0].to_string()));
            out.push((i, format!("{} {} {}", t[1], t[3], rest).trim().to_string(), parts.get(1).unwrap_or(&"").to_string()));
        } else {
            out.push((i, o.clone(), a.clone()));
        }
    }
    out
}

/// every `both` line must have two equal answers (C06 merged-vs-reference, C12 before/after,
/// C19 cleared-vs-fresh and clone independence are all expressed this way by the generators)
pub fn oracle_both_equal(ops: &[String], ans: &[String], what: &str) -> Fails {
    let mut f = vec![];
    for (i, (o, a)) in ops.iter().zip(ans.iter()).enumerate() {
        if o.starts_with("both ") {
            let parts: Vec<&str> = a.splitn(2, " | ").collect();
            if parts.len() != 2 || parts[0] != parts[1] {
                f.push((i, format!("{}: `{}` answered differently: {}", what, o, a)));
            }
        }
    }
    f
}

// ---------------------------------------------------------------------------------------------
// C01: no false negatives (bloom, cuckoo, qf, set)
pub fn oracle_c01(ops: &[String], ans: &[String]) -> Fails {
    let mut fails = vec![];
    // reference: instance -> key -> (inserted ok) - (deleted ok) since last clear
    let mut refs: HashMap<u64, BTreeMap<u64, i64>> = HashMap::new();
    let mut tainted: BTreeSet<u64> = BTreeSet::new(); // a delete of a non-inserted element succeeded
    for (i, o, a) in expand(ops, ans) {
        let t = toks(&o);
        if t.len() < 2 {
            continue;
        }
        let op = t[0];
        let Some((st, verb)) = op.split_once('.') else { continue };
        if !["bloom", "cuckoo", "qf", "set"].contains(&st) {
            continue;
        }
        let id = pu(t[1]);
        match verb {
            "new" | "props" => {
                refs.insert(id, BTreeMap::new());
                tainted.remove(&id);
            }
            "insert" => {
                if a == "true" || a == "false" {
                    *refs.entry(id).or_default().entry(pu(t[2])).or_insert(0) += 1;
                }
            }
            "delete" => {
                if a == "true" {
                    let e = refs.entry(id).or_default().entry(pu(t[2])).or_insert(0);
                    if *e <= 0 {
                        tainted.insert(id); // precondition of the property violated by the history
                    } else {
                        *e -= 1;
                    }
                }
            }
            "clear" => {
                refs.insert(id, BTreeMap::new());
                tainted.remove(&id);
            }
            "clone" => {
                let c = refs.get(&id).cloned().unwrap_or_default();
                let j = pu(t[2]);
                refs.insert(j, c);
                if tainted.contains(&id) {
                    tainted.insert(j);
                } else {
                    tainted.remove(&j);
                }
            }
            "union" => {
                if a == "ok" {
                    let other = refs.get(&pu(t[2])).cloned().unwrap_or_default();
                    let me = refs.entry(id).or_default();
                    for (k, v) in other {
                        if v > 0 {
                            *me.entry(k).or_insert(0) += v;
                        }
                    }
                    if tainted.contains(&pu(t[2])) {
                        tainted.insert(id);
                    }
                }
            }
            "query" => {
                if tainted.contains(&id) {
                    continue;
                }
                let present = refs.get(&id).and_then(|m| m.get(&pu(t[2]))).map(|c| *c > 0).unwrap_or(false);
                if present && a != "true" {
                    fails.push((i, format!("false negative: {} of an inserted element answered {}", o, a)));
                }
            }
            _ => {}
        }
        if a == "panic" && !["new", "props", "union"].contains(&verb) {
            // a usable filter must not panic on insert/query
            let m0 = false;
            if !m0 {
                // bloom with m = 0 is constructed deliberately by the generator (documented panic)
            }
        }
    }
    fails
}

// ---------------------------------------------------------------------------------------------
// C02: CMS bounds
pub fn oracle_c02(ops: &[String], ans: &[String]) -> Fails {
    let mut fails = vec![];
    struct R {
        w: BTreeMap<u64, u128>,
        total: u128,
        d: u64,
    }
    let mut refs: HashMap<u64, R> = HashMap::new();
    let mut last_add: Option<(u64, u64, String)> = None; // (inst, key, returned)
    for (i, o, a) in expand(ops, ans) {
        let t = toks(&o);
        if t.len() < 2 || !t[0].starts_with("cms.") {
            continue;
        }
        let id = pu(t[1]);
        let prev_add = last_add.take();
        match t[0] {
            "cms.new" => {
                if a == "ok" {
                    refs.insert(id, R { w: BTreeMap::new(), total: 0, d: pu(t[4]) });
                } else {
                    refs.remove(&id);
                }
            }
            "cms.add" | "cms.addn" => {
                let n: u128 = if t[0] == "cms.add" { 1 } else { pu(t[3]) as u128 };
                if a == "panic" || a == "poisoned" {
                    refs.remove(&id);
                    continue;
                }
                if let Some(r) = refs.get_mut(&id) {
                    *r.w.entry(pu(t[2])).or_insert(0) += n;
                    r.total += n;
                    let v: u128 = a.parse().unwrap();
                    let tw = r.w[&pu(t[2])];
                    if r.d >= 1 && (v < tw || v > r.total) {
                        fails.push((i, format!("add returned {} outside [true={}, total={}]", v, tw, r.total)));
                    }
                    if r.w.len() == 1 && r.d >= 1 && v != tw {
                        fails.push((i, format!("single-element stream not exact: {} vs {}", v, tw)));
                    }
                    last_add = Some((id, pu(t[2]), a.clone()));
                }
            }
            "cms.query" => {
                if a == "panic" || a == "poisoned" {
                    continue;
                }
                if let Some(r) = refs.get(&id) {
                    let v: u128 = a.parse().unwrap();
                    let tw = r.w.get(&pu(t[2])).cloned().unwrap_or(0);
                    if v < tw {
                        fails.push((i, format!("underestimate: query={} true={}", v, tw)));
                    }
                    if v > r.total {
                        fails.push((i, format!("query={} exceeds stream total {}", v, r.total)));
                    }
                    if r.w.len() == 1 && tw > 0 && v != tw {
                        fails.push((i, format!("single-element stream not exact: {} vs {}", v, tw)));
                    }
                    if let Some((pid, pk, pv)) = prev_add {
                        if pid == id && pk == pu(t[2]) && pv != a {
                            fails.push((i, format!("add returned {} but query_point right after gives {}", pv, a)));
                        }
                    }
                }
            }
            "cms.merge" => {
                if a != "ok" {
                    refs.remove(&id);
                    continue;
                }
                let other: Option<(BTreeMap<u64, u128>, u128)> = refs.get(&pu(t[2])).map(|r| (r.w.clone(), r.total));
                match (refs.get_mut(&id), other) {
                    (Some(r), Some((ow, ot))) => {
                        for (k, v) in ow {
                            *r.w.entry(k).or_insert(0) += v;
                        }
                        r.total += ot;
                    }
                    _ => {
                        refs.remove(&id);
                    }
                }
            }
            "cms.clear" => {
                if let Some(r) = refs.get_mut(&id) {
                    r.w.clear();
                    r.total = 0;
                }
            }
            "cms.clone" => {
                if let Some(r) = refs.get(&id) {
                    let c = R { w: r.w.clone(), total: r.total, d: r.d };
                    refs.insert(pu(t[2]), c);
                } else {
                    // unknown source (poisoned / dropped from the reference): the copy is unknown too
                    refs.remove(&pu(t[2]));
                }
            }
            _ => {}
        }
    }
    fails
}

// ---------------------------------------------------------------------------------------------
// C13: quotient filter = exact set of classes (class = low q+r bits of the 64-bit hash)
pub fn oracle_c13(ops: &[String], ans: &[String]) -> Fails {
    let mut fails = vec![];
    let mut bh = ScriptBH::xor();
    struct R {
        q: u64,
        r: u64,
        set: BTreeSet<u64>,
    }
    let mut refs: HashMap<u64, R> = HashMap::new();
    let class = |bh: &ScriptBH, r: &R, key: u64| -> u64 {
        let h = bh.hash_one_words(&[key]);
        if r.q + r.r >= 64 {
            h
        } else {
            h & ((1u64 << (r.q + r.r)) - 1)
        }
    };
    for (i, o, a) in expand(ops, ans) {
        let t = toks(&o);
        if t[0] == "hasher" {
            bh = parse_bh(&t);
            continue;
        }
        if t.len() < 2 || !t[0].starts_with("qf.") {
            continue;
        }
        let id = pu(t[1]);
        match t[0] {
            "qf.new" => {
                let (q, r) = (pu(t[2]), pu(t[3]));
                let valid = r > 0 && r <= 64 && q > 0 && q + r <= 64;
                if valid != (a == "ok") {
                    fails.push((i, format!("constructor accept/reject mismatch for q={} r={}: {}", q, r, a)));
                }
                if a == "ok" {
                    refs.insert(id, R { q, r, set: BTreeSet::new() });
                } else {
                    refs.remove(&id);
                }
            }
            "qf.insert" => {
                if let Some(r) = refs.get_mut(&id) {
                    let c = class(&bh, r, pu(t[2]));
                    let cap = 1u64 << r.q;
                    let want = if r.set.contains(&c) {
                        "false"
                    } else if r.set.len() as u64 == cap {
                        "full"
                    } else {
                        r.set.insert(c);
                        "true"
                    };
                    if a != want {
                        fails.push((i, format!("insert answered {} but the exact set of classes requires {}", a, want)));
                        refs.remove(&id);
                    }
                }
            }
            "qf.query" => {
                if let Some(r) = refs.get(&id) {
                    let c = class(&bh, r, pu(t[2]));
                    let want = if r.set.contains(&c) { "true" } else { "false" };
                    if a != want {
                        fails.push((i, format!("query answered {} but class membership is {}", a, want)));
                    }
                }
            }
            "qf.len" => {
                if let Some(r) = refs.get(&id) {
                    if a != r.set.len().to_string() {
                        fails.push((i, format!("len answered {} but {} distinct classes are stored", a, r.set.len())));
                    }
                }
            }
            "qf.empty" => {
                if let Some(r) = refs.get(&id) {
                    if (a == "true") != r.set.is_empty() {
                        fails.push((i, format!("is_empty answered {} with {} classes stored", a, r.set.len())));
                    }
                }
            }
            "qf.clear" => {
                if let Some(r) = refs.get_mut(&id) {
                    r.set.clear();
                }
            }
            "qf.clone" => {
                if let Some(r) = refs.get(&id) {
                    let c = R { q: r.q, r: r.r, set: r.set.clone() };
                    refs.insert(pu(t[2]), c);
                } else {
                    // unknown source (poisoned / dropped from the reference): the copy is unknown too
                    refs.remove(&pu(t[2]));
                }
            }
            "qf.union" => {
                if a == "panic" {
                    refs.remove(&id);
                    continue;
                }
                let other: Option<BTreeSet<u64>> = refs.get(&pu(t[2])).map(|r| r.set.clone());
                if let (Some(r), Some(os)) = (refs.get_mut(&id), other) {
                    let u: BTreeSet<u64> = r.set.union(&os).cloned().collect();
                    let fits = u.len() as u64 <= (1u64 << r.q);
                    if fits != (a == "ok") {
                        fails.push((i, format!("union answered {} but the union has {} classes (capacity {})", a, u.len(), 1u64 << r.q)));
                        refs.remove(&id);
                    } else if fits {
                        r.set = u;
                    }
                }
            }
            _ => {}
        }
    }
    fails
}

// ---------------------------------------------------------------------------------------------
// C14: cuckoo filter = exact multiset of classes; classes are determined by *probing the real
// code* exactly as the property defines indistinguishability.
pub fn oracle_c14(ops: &[String], ans: &[String]) -> Fails {
    use crate::script::ScriptRng;
    use pdatastructs::filters::cuckoofilter::CuckooFilter;
    use pdatastructs::filters::Filter;
    let mut fails = vec![];
    let mut bh = ScriptBH::xor();
    struct R {
        cfg: (usize, usize, usize),
        bh: ScriptBH,
        counts: BTreeMap<u64, i64>, // class representative -> copies
        total: i64,
    }
    let mut refs: HashMap<u64, R> = HashMap::new();
    // class representative of a key under (cfg, hasher): the smallest key of the case's universe
    // that is indistinguishable from it
    let mut universe: Vec<u64> = vec![];
    for o in ops {
        let t = toks(o);
        let t: Vec<&str> = if t.first() == Some(&"both") { let mut v = vec![t[1], t[2]]; v.extend_from_slice(&t[4..]); v } else { t };
        if t.len() >= 3 && ["cuckoo.insert", "cuckoo.delete", "cuckoo.query"].contains(&t[0]) {
            universe.push(pu(t[2]));
        }
    }
    universe.sort();
    universe.dedup();
    let mut rep_cache: HashMap<((usize, usize, usize), (u64, u64, u32, u64), u64), u64> = HashMap::new();
    let mut rep = |cfg: (usize, usize, usize), bh: &ScriptBH, key: u64| -> u64 {
        let ck = (cfg, (bh.mul, bh.add, bh.sh, bh.seed), key);
        if let Some(r) = rep_cache.get(&ck) {
            return *r;
        }
        let mut f = CuckooFilter::<u64, ScriptRng, ScriptBH>::with_params_and_hash(ScriptRng::new(1), cfg.0, cfg.1, cfg.2, *bh);
        f.insert(&key).unwrap();
        let mut r = key;
        for y in universe.iter() {
            if f.query(y) {
                // symmetric check, as the definition is stated for "a filter holding only one of them"
                r = *y;
                break;
            }
        }
        rep_cache.insert(ck, r);
        r
    };
    for (i, o, a) in expand(ops, ans) {
        let t = toks(&o);
        if t[0] == "hasher" {
            bh = parse_bh(&t);
            continue;
        }
        if t.len() < 2 || !t[0].starts_with("cuckoo.") {
            continue;
        }
        let id = pu(t[1]);
        match t[0] {
            "cuckoo.new" => {
                if a == "ok" {
                    refs.insert(id, R { cfg: (pu(t[3]) as usize, pu(t[4]) as usize, pu(t[5]) as usize), bh, counts: BTreeMap::new(), total: 0 });
                } else {
                    refs.remove(&id);
                }
            }
            "cuckoo.insert" => {
                if let Some(r) = refs.get_mut(&id) {
                    let c = rep(r.cfg, &r.bh, pu(t[2]));
                    match a.as_str() {
                        "true" => {
                            *r.counts.entry(c).or_insert(0) += 1;
                            r.total += 1;
                        }
                        "false" => {
                            fails.push((i, "successful insert reported Ok(false) (documented: Ok(true))".into()));
                            *r.counts.entry(c).or_insert(0) += 1;
                            r.total += 1;
                        }
                        "full" => {
                            if (r.total as usize) < r.cfg.0 {
                                fails.push((i, format!("insert failed although only {} < bucketsize elements are stored", r.total)));
                            }
                        }
                        _ => fails.push((i, format!("insert answered {}", a))),
                    }
                }
            }
            "cuckoo.delete" => {
                if let Some(r) = refs.get_mut(&id) {
                    let c = rep(r.cfg, &r.bh, pu(t[2]));
                    let have = r.counts.get(&c).cloned().unwrap_or(0) > 0;
                    if have != (a == "true") {
                        fails.push((i, format!("delete answered {} but {} copies of the class are stored", a, r.counts.get(&c).cloned().unwrap_or(0))));
                        refs.remove(&id);
                        continue;
                    }
                    if have {
                        *r.counts.get_mut(&c).unwrap() -= 1;
                        r.total -= 1;
                    }
                }
            }
            "cuckoo.query" => {
                if let Some(r) = refs.get(&id) {
                    let c = rep(r.cfg, &r.bh, pu(t[2]));
                    let have = r.counts.get(&c).cloned().unwrap_or(0) > 0;
                    if have != (a == "true") {
                        fails.push((i, format!("query answered {} but {} copies of the class are stored", a, r.counts.get(&c).cloned().unwrap_or(0))));
                    }
                }
            }
            "cuckoo.len" => {
                if let Some(r) = refs.get(&id) {
                    if a != r.total.to_string() {
                        fails.push((i, format!("len answered {} but ok-inserts - ok-deletes = {}", a, r.total)));
                    }
                }
            }
            "cuckoo.empty" => {
                if let Some(r) = refs.get(&id) {
                    if (a == "true") != (r.total == 0) {
                        fails.push((i, format!("is_empty answered {} with {} stored", a, r.total)));
                    }
                }
            }
            "cuckoo.clear" => {
                if let Some(r) = refs.get_mut(&id) {
                    r.counts.clear();
                    r.total = 0;
                }
            }
            "cuckoo.clone" => {
                if let Some(r) = refs.get(&id) {
                    let c = R { cfg: r.cfg, bh: r.bh, counts: r.counts.clone(), total: r.total };
                    refs.insert(pu(t[2]), c);
                } else {
                    // unknown source (poisoned / dropped from the reference): the copy is unknown too
                    refs.remove(&pu(t[2]));
                }
            }
            "cuckoo.union" => {
                if a == "ok" {
                    let other: Option<(BTreeMap<u64, i64>, i64)> = refs.get(&pu(t[2])).map(|r| (r.counts.clone(), r.total));
                    if let (Some(r), Some((oc, ot))) = (refs.get_mut(&id), other) {
                        for (k, v) in oc {
                            *r.counts.entry(k).or_insert(0) += v;
                        }
                        r.total += ot;
                    }
                } else if a == "panic" {
                    refs.remove(&id);
                }
            }
            _ => {}
        }
    }
    fails
}

// ---------------------------------------------------------------------------------------------
// C18: reservoir validity (items are position ids 0..n-1 per instance unless cloned/cleared)
pub fn oracle_c18(ops: &[String], ans: &[String]) -> Fails {
    let mut fails = vec![];
    struct R {
        k: u64,
        added: Vec<u64>,
    }
    let mut refs: HashMap<u64, R> = HashMap::new();
    for (i, o, a) in expand(ops, ans) {
        let t = toks(&o);
        if t.len() < 2 || !t[0].starts_with("res.") {
            continue;
        }
        let id = pu(t[1]);
        match t[0] {
            "res.new" => {
                let k = pu(t[2]);
                if (k > 0) != (a == "ok") {
                    fails.push((i, format!("constructor accept/reject mismatch k={} {}", k, a)));
                }
                if a == "ok" {
                    refs.insert(id, R { k, added: vec![] });
                }
            }
            "res.add" => {
                if a != "ok" {
                    fails.push((i, format!("add answered {}", a)));
                }
                if let Some(r) = refs.get_mut(&id) {
                    r.added.push(pu(t[2]));
                }
            }
            "res.extend" | "res.extendf" => {
                if a != "ok" {
                    fails.push((i, format!("extend answered {}", a)));
                }
                if let Some(r) = refs.get_mut(&id) {
                    for x in &t[2..] {
                        // extendf: items >= 2^40 are filtered out before they reach the sampler
                        if t[0] == "res.extend" || pu(x) < (1u64 << 40) {
                            r.added.push(pu(x));
                        }
                    }
                }
            }
            "res.extendp" => {
                // the iterator fails after j items (caught): exactly those j items were added
                let j = pu(t[2]) as usize;
                let want = if j < t.len() - 3 { "caught" } else { "ok" };
                if a != want {
                    fails.push((i, format!("extend from an iterator failing after {} of {} items answered {}", j, t.len() - 3, a)));
                }
                if let Some(r) = refs.get_mut(&id) {
                    for x in t[3..].iter().take(j) {
                        r.added.push(pu(x));
                    }
                }
            }
            "res.clear" => {
                if let Some(r) = refs.get_mut(&id) {
                    r.added.clear();
                }
            }
            "res.clone" => {
                if let Some(r) = refs.get(&id) {
                    let c = R { k: r.k, added: r.added.clone() };
                    refs.insert(pu(t[2]), c);
                } else {
                    // unknown source (poisoned / dropped from the reference): the copy is unknown too
                    refs.remove(&pu(t[2]));
                }
            }
            "res.empty" => {
                if let Some(r) = refs.get(&id) {
                    if (a == "true") != r.added.is_empty() {
                        fails.push((i, format!("is_empty answered {} after {} adds", a, r.added.len())));
                    }
                }
            }
            "res.get" => {
                if a == "poisoned" || a == "panic" {
                    continue;
                }
                if let Some(r) = refs.get(&id) {
                    let at = toks(&a);
                    // "<k> <i> : items..."
                    let n = r.added.len() as u64;
                    if pu(at[0]) != r.k || pu(at[1]) != n {
                        fails.push((i, format!("k()/i() = {} {} but k={} and {} adds", at[0], at[1], r.k, n)));
                    }
                    let items: Vec<u64> = at[3..].iter().map(|x| pu(x)).collect();
                    if items.len() as u64 != n.min(r.k) {
                        fails.push((i, format!("reservoir holds {} items, expected min(n,k) = {}", items.len(), n.min(r.k))));
                    }
                    if n <= r.k && items != r.added {
                        fails.push((i, "reservoir is not the stream prefix while n <= k".into()));
                    }
                    // items are distinct ids in the generators, so "no position twice" = no duplicate
                    let mut s = items.clone();
                    s.sort();
                    s.dedup();
                    if s.len() != items.len() {
                        fails.push((i, "a stream position occurs twice in the reservoir".into()));
                    }
                    for x in &items {
                        if !r.added.contains(x) {
                            fails.push((i, format!("item {} was never added", x)));
                        }
                    }
                }
            }
            _ => {}
        }
    }
    fails
}

// ---------------------------------------------------------------------------------------------
// C09: lossy counter
pub fn oracle_c09(ops: &[String], ans: &[String]) -> Fails {
    let mut fails = vec![];
    struct R {
        eps: f64,
        width: u64,
        counts: BTreeMap<u64, u64>,
        n: u64,
        tracked: Option<BTreeSet<u64>>, // known exactly right after a query(0) with no add in between
    }
    let mut refs: HashMap<u64, R> = HashMap::new();
    for (i, o, a) in expand(ops, ans) {
        let t = toks(&o);
        if t.len() < 2 || !t[0].starts_with("lossy.") {
            continue;
        }
        let id = pu(t[1]);
        match t[0] {
            "lossy.neww" | "lossy.newe" => {
                if a == "ok" {
                    refs.insert(id, R { eps: 0.0, width: 0, counts: BTreeMap::new(), n: 0, tracked: Some(BTreeSet::new()) });
                } else {
                    refs.remove(&id);
                }
            }
            "lossy.getters" => {
                if let Some(r) = refs.get_mut(&id) {
                    let at = toks(&a);
                    r.eps = af(at[0]);
                    r.width = pu(at[1]);
                    if !(1.0 / (r.width as f64) <= r.eps * (1.0 + 1e-12)) {
                        fails.push((i, format!("1/width = {} exceeds epsilon = {}", 1.0 / r.width as f64, r.eps)));
                    }
                }
            }
            "lossy.add" => {
                if let Some(r) = refs.get_mut(&id) {
                    let key = pu(t[2]);
                    if let Some(tr) = &r.tracked {
                        if (a == "true") != !tr.contains(&key) {
                            fails.push((i, format!("add returned {} but tracked={}", a, tr.contains(&key))));
                        }
                    }
                    *r.counts.entry(key).or_insert(0) += 1;
                    r.n += 1;
                    r.tracked = None;
                }
            }
            "lossy.addrep" => {
                if let Some(r) = refs.get_mut(&id) {
                    let key = pu(t[2]);
                    let n = pu(t[3]);
                    *r.counts.entry(key).or_insert(0) += n;
                    r.n += n;
                    r.tracked = None;
                    let want_n = r.n.to_string();
                    if a.split_whitespace().nth(1) != Some(want_n.as_str()) {
                        fails.push((i, format!("n() = {} after {} adds", a, r.n)));
                    }
                }
            }
            "lossy.n" => {
                if let Some(r) = refs.get(&id) {
                    if a != r.n.to_string() {
                        fails.push((i, format!("n() = {} after {} adds", a, r.n)));
                    }
                }
            }
            "lossy.clear" => {
                if let Some(r) = refs.get_mut(&id) {
                    r.counts.clear();
                    r.n = 0;
                    r.tracked = Some(BTreeSet::new());
                }
            }
            "lossy.clone" => {
                if let Some(r) = refs.get(&id) {
                    let c = R { eps: r.eps, width: r.width, counts: r.counts.clone(), n: r.n, tracked: r.tracked.clone() };
                    refs.insert(pu(t[2]), c);
                } else {
                    // unknown source (poisoned / dropped from the reference): the copy is unknown too
                    refs.remove(&pu(t[2]));
                }
            }
            "lossy.query" => {
                if let Some(r) = refs.get_mut(&id) {
                    if r.width == 0 {
                        continue; // getters not observed
                    }
                    let thr = pf(t[2]);
                    let inner = a.trim_start_matches('[').trim_end_matches(']');
                    let got: BTreeSet<u64> = inner.split_whitespace().map(pu).collect();
                    let n = r.n as f64;
                    for (k, c) in &r.counts {
                        let c = *c as f64;
                        // must contain: true >= s*n and true > eps*n  (margins guard float rounding)
                        if c >= thr * n * (1.0 + 1e-9) + 1e-9 && c > r.eps * n * (1.0 + 1e-9) + 1e-9 && !got.contains(k) {
                            fails.push((i, format!("missed element {} with frequency {} >= s*n = {} (n={}, eps={})", k, c, thr * n, n, r.eps)));
                        }
                    }
                    for k in &got {
                        let c = r.counts.get(k).cloned().unwrap_or(0) as f64;
                        if c < (thr - r.eps) * n * (1.0 - 1e-9) - 1e-9 {
                            fails.push((i, format!("intruder {} with frequency {} < (s-eps)*n = {}", k, c, (thr - r.eps) * n)));
                        }
                        if c == 0.0 {
                            fails.push((i, format!("element {} was never added", k)));
                        }
                    }
                    if thr == 0.0 {
                        // size bound width*(H(ceil(n/width)) + 1)
                        let b = (r.n + r.width - 1) / r.width;
                        let h: f64 = (1..=b).map(|x| 1.0 / x as f64).sum();
                        let bound = r.width as f64 * (h + 1.0);
                        if got.len() as f64 > bound + 1e-9 {
                            fails.push((i, format!("{} tracked entries exceed width*(H({})+1) = {}", got.len(), b, bound)));
                        }
                        r.tracked = Some(got);
                    }
                }
            }
            _ => {}
        }
    }
    fails
}

// ---------------------------------------------------------------------------------------------
// C10: CMSHeap
pub fn oracle_c10(ops: &[String], ans: &[String]) -> Fails {
    use crate::exec::HKey;
    use pdatastructs::countminsketch::CountMinSketch;
    let mut fails = vec![];
    struct R {
        k: u64,
        counts: BTreeMap<u64, u64>,
        class: BTreeMap<u64, u64>,
        shadow: CountMinSketch<HKey>,
        e: u64, // largest overestimate seen so far on this stream
    }
    let mut refs: HashMap<u64, R> = HashMap::new();
    let mut cfg: HashMap<u64, (u64, u64, u64)> = HashMap::new();
    for (i, o, a) in expand(ops, ans) {
        let t = toks(&o);
        if t.len() < 2 || !t[0].starts_with("heap.") {
            continue;
        }
        let id = pu(t[1]);
        match t[0] {
            "heap.new" => {
                let (k, w, d) = (pu(t[2]), pu(t[3]), pu(t[4]));
                if (k > 0) != (a == "ok") {
                    fails.push((i, format!("constructor accept/reject mismatch k={} {}", k, a)));
                }
                if a == "ok" {
                    cfg.insert(id, (k, w, d));
                    refs.insert(id, R { k, counts: BTreeMap::new(), class: BTreeMap::new(), shadow: CountMinSketch::with_params(w as usize, d as usize), e: 0 });
                }
            }
            "heap.add" | "heap.extend" => {
                if a != "ok" {
                    fails.push((i, format!("add answered {} (must never panic)", a)));
                    refs.remove(&id);
                    continue;
                }
                let items: Vec<(u64, u64)> = if t[0] == "heap.add" {
                    vec![(pu(t[2]), pu(t[3]))]
                } else {
                    t[2..].iter().map(|x| { let p: Vec<&str> = x.split(':').collect(); (pu(p[0]), pu(p[1])) }).collect()
                };
                for (x, class) in items {
                if let Some(r) = refs.get_mut(&id) {
                    *r.counts.entry(x).or_insert(0) += 1;
                    r.class.insert(x, class);
                    r.shadow.add(&HKey { id: x, class });
                    for (y, c) in &r.counts {
                        let est = r.shadow.query_point(&HKey { id: *y, class: r.class[y] }) as u64;
                        if est < *c {
                            fails.push((i, "shadow sketch underestimates (C02)".into()));
                        } else if est - c > r.e {
                            r.e = est - c;
                        }
                    }
                }
                }
            }
            "heap.clear" => {
                if let Some(r) = refs.get_mut(&id) {
                    let (_, w, d) = cfg[&id];
                    r.counts.clear();
                    r.class.clear();
                    r.shadow = CountMinSketch::with_params(w as usize, d as usize);
                    r.e = 0;
                }
            }
            "heap.clone" => {
                if let Some(r) = refs.get(&id) {
                    let c = R { k: r.k, counts: r.counts.clone(), class: r.class.clone(), shadow: r.shadow.clone(), e: r.e };
                    cfg.insert(pu(t[2]), cfg[&id]);
                    refs.insert(pu(t[2]), c);
                } else {
                    // unknown source (poisoned / dropped from the reference): the copy is unknown too
                    refs.remove(&pu(t[2]));
                }
            }
            "heap.empty" => {
                if let Some(r) = refs.get(&id) {
                    if (a == "true") != r.counts.is_empty() {
                        fails.push((i, format!("is_empty answered {} after {} distinct adds", a, r.counts.len())));
                    }
                }
            }
            "heap.iter" => {
                if let Some(r) = refs.get(&id) {
                    let inner = a.trim_start_matches('[').trim_end_matches(']');
                    let got: Vec<u64> = inner.split_whitespace().map(pu).collect();
                    let want_len = (r.k as usize).min(r.counts.len());
                    let set: BTreeSet<u64> = got.iter().cloned().collect();
                    if got.len() != want_len || set.len() != got.len() {
                        fails.push((i, format!("iter yields {} elements ({} distinct), expected min(k, distinct) = {}", got.len(), set.len(), want_len)));
                    }
                    for x in &got {
                        if !r.counts.contains_key(x) {
                            fails.push((i, format!("element {} was never added", x)));
                        }
                    }
                    for (x, cx) in &r.counts {
                        if !set.contains(x) {
                            let others = r.counts.iter().filter(|(y, cy)| *y != x && **cy + r.e >= *cx).count();
                            if (others as u64) < r.k {
                                fails.push((i, format!("element {} (count {}) is missing although only {} others have count >= {} - E (E={})", x, cx, others, cx, r.e)));
                            }
                        }
                    }
                }
            }
            _ => {}
        }
    }
    fails
}

// ---------------------------------------------------------------------------------------------
// C15 / C16 / C04 (shape part): t-digest
pub struct TdRef {
    pub delta: f64,
    pub scale: u64,
    pub xs: Vec<(f64, f64)>, // (x, w) with w > 0
    pub unit: bool,
}
pub fn oracle_td(ops: &[String], ans: &[String], prop: &str) -> Fails {
    let mut fails = vec![];
    let mut refs: HashMap<u64, TdRef> = HashMap::new();
    // per instance: last answers for repeated-read check and grid monotonicity
    let mut last_read: HashMap<u64, (String, String)> = HashMap::new();
    let mut lastq: HashMap<u64, (f64, f64)> = HashMap::new();
    let mut qgrid: HashMap<u64, Vec<(f64, f64)>> = HashMap::new();
    let mut cgrid: HashMap<u64, Vec<(f64, f64)>> = HashMap::new();
    for (i, o, a) in expand(ops, ans) {
        let t = toks(&o);
        if t.len() < 2 || !t[0].starts_with("td.") {
            continue;
        }
        let id = pu(t[1]);
        let is_read = ["td.quantile", "td.cdf", "td.count", "td.sum", "td.mean", "td.ncent"].contains(&t[0]);
        if is_read {
            if let Some((po, pa)) = last_read.get(&id) {
                if *po == o && *pa != a && !(pa.starts_with("f:7ff8") || a.contains("7ff8") || a.contains("fff8")) {
                    fails.push((i, format!("repeated read `{}` changed its answer: {} then {}", o, pa, a)));
                }
            }
            last_read.insert(id, (o.clone(), a.clone()));
        } else if !["td.min", "td.max", "td.empty", "td.getters"].contains(&t[0]) {
            last_read.remove(&id);
            lastq.remove(&id);
            qgrid.remove(&id);
            cgrid.remove(&id);
        }
        match t[0] {
            "td.new" => {
                if a == "ok" {
                    refs.insert(id, TdRef { delta: pf(t[3]), scale: pu(t[2]), xs: vec![], unit: true });
                } else {
                    refs.remove(&id);
                }
            }
            "td.insert" | "td.insertw" => {
                if let Some(r) = refs.get_mut(&id) {
                    let x = pf(t[2]);
                    let w = if t[0] == "td.insert" { 1.0 } else { pf(t[3]) };
                    if a == "ok" {
                        if w > 0.0 {
                            r.xs.push((x, w));
                            if w != 1.0 {
                                r.unit = false;
                            }
                        }
                    } else {
                        let valid = x.is_finite() && w.is_finite() && w >= 0.0;
                        if valid {
                            fails.push((i, format!("insert of a valid sample answered {}", a)));
                        }
                        refs.remove(&id);
                    }
                }
            }
            "td.clear" => {
                if let Some(r) = refs.get_mut(&id) {
                    r.xs.clear();
                    r.unit = true;
                }
            }
            "td.clone" => {
                if let Some(r) = refs.get(&id) {
                    let c = TdRef { delta: r.delta, scale: r.scale, xs: r.xs.clone(), unit: r.unit };
                    refs.insert(pu(t[2]), c);
                } else {
                    // unknown source (poisoned / dropped from the reference): the copy is unknown too
                    refs.remove(&pu(t[2]));
                }
            }
            _ => {}
        }
        let Some(r) = refs.get(&id) else { continue };
        if a == "panic" || a == "poisoned" {
            if is_read && t[0] == "td.quantile" {
                let q = pf(t[2]);
                if (0.0..=1.0).contains(&q) {
                    fails.push((i, format!("quantile({}) panicked", q)));
                }
            } else if is_read && !(t[0] == "td.cdf" && pf(t[2]).is_nan()) {
                fails.push((i, format!("`{}` panicked", o)));
            }
            continue;
        }
        let sw: f64 = r.xs.iter().map(|p| p.1).sum();
        let wmin = r.xs.iter().map(|p| p.1).fold(f64::INFINITY, f64::min);
        let (lo, hi) = r.xs.iter().fold((f64::INFINITY, f64::NEG_INFINITY), |(a, b), p| (a.min(p.0), b.max(p.0)));
        let range = if r.xs.is_empty() { 0.0 } else { (hi - lo).abs().max(hi.abs()).max(lo.abs()) };
        // "a few ulps of the data range, scaled by total weight over smallest weight"
        let tol = if r.xs.is_empty() { 0.0 } else { 64.0 * f64::EPSILON * range * (sw / wmin).max(1.0) + f64::MIN_POSITIVE };
        if prop == "C16" {
            match t[0] {
                "td.count" => {
                    let v = af(&a);
                    if (v - sw).abs() > 1e-9 * sw.abs() + 1e-300 {
                        fails.push((i, format!("count() = {} but the inserted weights sum to {}", v, sw)));
                    }
                }
                "td.sum" => {
                    // compensated reference sum
                    let (mut s, mut c) = (0.0f64, 0.0f64);
                    let mut mag = 0.0;
                    for (x, w) in &r.xs {
                        let y = x * w - c;
                        let tt = s + y;
                        c = (tt - s) - y;
                        s = tt;
                        mag += (x * w).abs();
                    }
                    let v = af(&a);
                    if (v - s).abs() > 1e-9 * mag + 1e-300 {
                        fails.push((i, format!("sum() = {} but the weighted sum is {}", v, s)));
                    }
                }
                "td.min" => {
                    let v = af(&a);
                    if (!r.xs.is_empty() && v != lo) || (r.xs.is_empty() && v != f64::INFINITY) {
                        fails.push((i, format!("min() = {} but the smallest inserted value is {}", v, lo)));
                    }
                }
                "td.max" => {
                    let v = af(&a);
                    if (!r.xs.is_empty() && v != hi) || (r.xs.is_empty() && v != f64::NEG_INFINITY) {
                        fails.push((i, format!("max() = {} but the largest inserted value is {}", v, hi)));
                    }
                }
                "td.empty" => {
                    if (a == "true") != r.xs.is_empty() {
                        fails.push((i, format!("is_empty() = {} with {} positive-weight inserts", a, r.xs.len())));
                    }
                }
                _ => {}
            }
        }
        if prop == "C15" {
            match t[0] {
                "td.quantile" => {
                    let q = pf(t[2]);
                    let v = af(&a);
                    if r.xs.is_empty() {
                        if !v.is_nan() {
                            fails.push((i, format!("quantile on an empty digest = {}, expected NaN", v)));
                        }
                        continue;
                    }
                    if !(v >= lo - tol && v <= hi + tol) {
                        fails.push((i, format!("quantile({}) = {} outside [min,max] = [{}, {}]", q, v, lo, hi)));
                    }
                    if q == 0.0 && (v - lo).abs() > tol {
                        fails.push((i, format!("quantile(0) = {} != min = {}", v, lo)));
                    }
                    if q == 1.0 && (v - hi).abs() > tol {
                        fails.push((i, format!("quantile(1) = {} != max = {}", v, hi)));
                    }
                    let g = qgrid.entry(id).or_default();
                    for (q0, v0) in g.iter() {
                        if (*q0 <= q && *v0 > v + tol) || (*q0 >= q && *v0 < v - tol) {
                            fails.push((i, format!("quantile not monotone: q={} -> {}, q={} -> {}", q0, v0, q, v)));
                            break;
                        }
                    }
                    g.push((q, v));
                    lastq.insert(id, (q, v));
                }
                "td.cdf" => {
                    let x = pf(t[2]);
                    let v = af(&a);
                    if r.xs.is_empty() {
                        if v != 0.0 {
                            fails.push((i, format!("cdf on an empty digest = {}", v)));
                        }
                        continue;
                    }
                    let ctol = 64.0 * f64::EPSILON * (sw / wmin).max(1.0);
                    // mutual consistency: cdf(quantile(q)) is q to within the digest's resolution (the
                    // maximal cluster width of the scale function, plus the half-weight of a singleton
                    // tail centroid); applies to unit-weight digests, where that width is known
                    if let Some((q, qv)) = lastq.remove(&id) {
                        if qv.to_bits() == x.to_bits() && r.unit {
                            let n = r.xs.len() as f64;
                            let d = r.delta;
                            let wres = match r.scale {
                                0 => 2.0 / d,
                                1 => std::f64::consts::PI / d,
                                2 => if n >= d { ((n / d).ln() + 6.0) / d } else { 1.0 },
                                _ => if n >= d { (2.0 * (n / d).ln() + 10.5) / d } else { 1.0 },
                            };
                            // ties in the data put an atom under the estimate: the cdf may sit anywhere in its jump
                            // (values within the stated few-ulp allowance of x count as the same atom)
                            let atom = r.xs.iter().filter(|p| (p.0 - x).abs() <= tol).count() as f64 / n;
                            let allow = wres + 2.0 / n + atom + ctol;
                            if (v - q).abs() > allow {
                                fails.push((i, format!("cdf(quantile({})) = {} differs from q by more than the digest's resolution {:.5} (quantile gave {})", q, v, allow, x)));
                            }
                        }
                    }
                    if !(v >= -ctol && v <= 1.0 + ctol) {
                        fails.push((i, format!("cdf({}) = {} outside [0,1]", x, v)));
                    }
                    if x < lo && v != 0.0 {
                        fails.push((i, format!("cdf({}) = {} below min {}", x, v, lo)));
                    }
                    if x >= hi && (v - 1.0).abs() > ctol {
                        fails.push((i, format!("cdf({}) = {} at/above max {}", x, v, hi)));
                    }
                    let g = cgrid.entry(id).or_default();
                    for (x0, v0) in g.iter() {
                        if (*x0 <= x && *v0 > v + ctol) || (*x0 >= x && *v0 < v - ctol) {
                            fails.push((i, format!("cdf not monotone: x={} -> {}, x={} -> {}", x0, v0, x, v)));
                            break;
                        }
                    }
                    g.push((x, v));
                }
                _ => {}
            }
        }
        if prop == "C04" && t[0] == "td.ncent" && r.unit {
            let nc: f64 = a.parse().unwrap();
            if nc > r.delta + 3.0 {
                fails.push((i, format!("{} centroids exceed delta + 3 = {} (n = {})", nc, r.delta + 3.0, r.xs.len())));
            }
        }
    }
    fails
}

// ---------------------------------------------------------------------------------------------
// C20: deserialised sketches satisfy the constructor invariants
pub fn oracle_c20(ops: &[String], ans: &[String]) -> Fails {
    let mut fails = vec![];
    let mut deser_ok: BTreeSet<u64> = BTreeSet::new();
    for (i, o, a) in expand(ops, ans) {
        let t = toks(&o);
        if t.len() < 2 {
            continue;
        }
        let id = pu(t[1]);
        match t[0] {
            "hll.eq" => {
                // the generator asks for `==` only between a sketch and its round-tripped copy at
                // moments where both have seen the same operations
                if ops.first().map(|l| l.contains("c20.roundtrip")).unwrap_or(false) && a != "true" {
                    fails.push((i, format!("serialise/deserialise round trip is not `==` to the original: {}", a)));
                }
            }
            "hll.deser" => {
                if a == "panic" {
                    fails.push((i, "deserialisation of a corrupted document panicked instead of returning an error".into()));
                }
                if a == "ok" {
                    deser_ok.insert(id);
                } else {
                    deser_ok.remove(&id);
                    // a document produced by the real serialiser must deserialise
                }
            }
            "hll.regs" if deser_ok.contains(&id) => {
                let at = toks(&a);
                if at.len() >= 2 {
                    let (b, m) = (pu(at[0]), pu(at[1]));
                    if !(4..=18).contains(&b) || m != (1u64 << b.min(40)) {
                        fails.push((i, format!("deserialised sketch violates the constructor invariants: b={} registers={}", b, m)));
                    }
                }
            }
            "hll.addh" | "hll.add" | "hll.count" | "hll.merge" if deser_ok.contains(&id) => {
                if a == "panic" || a == "poisoned" {
                    fails.push((i, format!("`{}` on a successfully deserialised sketch answered {}", o, a)));
                }
            }
            _ => {}
        }
    }
    fails
}

// ---------------------------------------------------------------------------------------------
// C19: is_empty() is true exactly when nothing has been added since creation or the last clear
pub fn oracle_c19_empty(ops: &[String], ans: &[String]) -> Fails {
    let mut fails = vec![];
    // instance -> Some(has content) ; None = unknown (e.g. after union/merge/clone of unknown)
    let mut state: HashMap<u64, Option<bool>> = HashMap::new();
    let mut bloom_k0: BTreeSet<u64> = BTreeSet::new();
    for (i, o, a) in expand(ops, ans) {
        let t = toks(&o);
        if t.len() < 2 {
            continue;
        }
        let Some((st, verb)) = t[0].split_once('.') else { continue };
        if !["bloom", "cms", "hll", "qf", "cuckoo", "res", "heap", "td", "set"].contains(&st) {
            continue;
        }
        let id = pu(t[1]);
        match verb {
            "new" | "neww" | "newe" | "props" | "with" => {
                if a.starts_with("ok") && verb != "with" {
                    state.insert(id, Some(false));
                    if st == "bloom" && verb == "new" && pu(t[3]) == 0 {
                        bloom_k0.insert(id);
                    } else {
                        bloom_k0.remove(&id);
                    }
                } else {
                    state.remove(&id);
                }
            }
            "clear" => {
                if state.contains_key(&id) {
                    state.insert(id, Some(false));
                }
            }
            "clone" => {
                let v = state.get(&id).cloned();
                let j = pu(t[2]);
                match v {
                    Some(x) => {
                        state.insert(j, x);
                    }
                    None => {
                        state.remove(&j);
                    }
                }
            }
            "union" | "merge" => {
                if a == "ok" {
                    let other = state.get(&pu(t[2])).cloned().flatten();
                    let me = state.get(&id).cloned().flatten();
                    let v = match (me, other) {
                        (Some(x), Some(y)) => Some(x || y),
                        _ => None,
                    };
                    if state.contains_key(&id) {
                        state.insert(id, v);
                    }
                } else if a == "panic" {
                    state.remove(&id);
                }
            }
            "insert" | "add" | "addh" | "addn" | "insertw" | "addmany" => {
                let added = match (st, verb) {
                    ("qf", _) | ("cuckoo", _) => a == "true" || a == "false",
                    ("cms", "addn") => a != "panic" && a != "poisoned" && pu(t[3]) > 0,
                    ("td", "insertw") => a == "ok" && pf(t[3]) > 0.0,
                    ("hll", "addmany") => a == "ok" && pu(t[3]) > 0,
                    ("bloom", _) => !bloom_k0.contains(&id) && (a == "true" || a == "false"),
                    _ => a != "panic" && a != "poisoned" && a != "full",
                };
                if a == "panic" || a == "poisoned" {
                    state.remove(&id);
                } else if added && state.contains_key(&id) {
                    state.insert(id, Some(true));
                }
            }
            "delete" => {
                if a == "true" && state.contains_key(&id) {
                    state.insert(id, None); // may or may not have become empty
                }
            }
            "empty" => {
                if let Some(Some(has)) = state.get(&id) {
                    if (a == "true") == *has {
                        fails.push((i, format!("`{}` answered {} although {} since creation / the last clear", o, a, if *has { "something was added" } else { "nothing was added" })));
                    }
                }
            }
            _ => {}
        }
    }
    fails
}

// C03 (trace part): count() returns normally for any register contents
pub fn oracle_c03(ops: &[String], ans: &[String]) -> Fails {
    let mut fails = vec![];
    let mut prev_panic = false;
    for (i, o, a) in expand(ops, ans) {
        if o.starts_with("hll.count") && a == "panic" && !prev_panic {
            fails.push((i, "count() panicked on a valid sketch".into()));
            prev_panic = true;
        }
        if o.starts_with("case ") {
            prev_panic = false;
        }
    }
    fails
}
