//! HyperLogLog: generators and oracles (C17; later C03, C06, C19, C20).
use super::Ctx;
use crate::script::ScriptBH;
use std::collections::{BTreeSet, HashMap};

pub fn boundary_hashes(b: u64, rng: &mut crate::script::SplitMix) -> Vec<u64> {
    let mut v = vec![0u64, u64::MAX, (1u64 << b) - 1, 1u64 << b, (1u64 << b) + 1, 1u64 << 63, (1u64 << 63) - 1];
    for _ in 0..6 {
        v.push(1u64 << rng.below(64));
    }
    // all rank values for one register: first set bit at every position above b
    let j = rng.below(1 << b);
    for pos in b..64 {
        v.push((1u64 << pos) | j);
    }
    v
}

fn pick_b(ctx: &mut Ctx) -> u64 {
    // bias towards small precisions (more register collisions), but all 15 occur
    if ctx.rng.chance(2, 3) {
        ctx.rng.range(4, 8)
    } else {
        ctx.rng.range(4, 18)
    }
}

/// A *saturated* sketch (every register non-zero) that then was the receiver of a merge, or was
/// rebuilt from its registers, or went through serialisation, is cleared and re-used with low-rank
/// hashes: it must behave like a fresh one (any lower bound cached over the registers is void).
/// Uses instances 20-23 under the current hasher.
pub fn hll_saturated_lifecycle(ctx: &mut Ctx, b: u64) {
    let m = 1u64 << b;
    ctx.op(format!("hll.new 20 {}", b));
    // ranks >= 2 everywhere first (no register ever holds 1), then a full pass of rank >= 1
    for j in 0..m {
        let sh = 62 - ctx.rng.below(3);
        ctx.op(format!("hll.addh 20 {}", (1u64 << sh) | j));
    }
    ctx.op(format!("hll.addmany 20 {} {}", ctx.rng.clone().next(), 30 * m));
    ctx.op("hll.regs 20".into());
    match ctx.rng.below(3) {
        0 => {
            ctx.op(format!("hll.new 21 {}", b));
            ctx.op("hll.merge 21 20".into());
        }
        1 => {
            ctx.op("hll.rebuild 20 21".into());
        }
        _ => {
            let doc = ctx.op("hll.ser 20".into());
            ctx.op(format!("hll.deser 21 {}", doc));
        }
    }
    ctx.op("hll.eq 21 20".into());
    ctx.op("hll.clear 21".into());
    ctx.op("hll.regs 21".into());
    ctx.op(format!("hll.new 22 {}", b));
    for _ in 0..(2 * m).min(64) {
        // mostly rank 1 and 2 (the lowest ranks there are)
        let top = 1u64 << (63 - ctx.rng.below(2));
        let low = ctx.rng.below(m);
        let v = ((top | (ctx.rng.next() >> 2)) & !(m - 1)) | low;
        ctx.op(format!("both hll.addh 21 22 {}", v));
    }
    ctx.op("both hll.regs 21 22".into());
    ctx.op("both hll.count 21 22".into());
    ctx.op("hll.eq 21 22".into());
    ctx.stat("hll.saturated.lifecycle", 1);
}

pub fn gen_c17(ctx: &mut Ctx) {
    let ncases = 60 * ctx.tier_scale;
    for c in 0..ncases {
        ctx.case("hll.c17");
        let bh = ctx.rand_hasher();
        ctx.hasher(bh);
        let b = if c < 15 { 4 + c } else { pick_b(ctx) };
        ctx.stat(&format!("b.{}", b), 1);
        ctx.op(format!("hll.new 1 {}", b));
        ctx.op(format!("hll.new 2 {}", b));
        ctx.op("hll.regs 1".into());
        ctx.op("hll.empty 1".into());
        // multiset of adds: boundary + random + low-entropy hashes
        let mut adds: Vec<(bool, u64)> = vec![]; // (hashed?, value)
        let n = ctx.rng.range(1, 40 + 10 * b);
        let bnd = boundary_hashes(b, &mut ctx.rng);
        for _ in 0..n {
            let r = ctx.rng.below(10);
            let v = if r < 3 {
                *ctx.rng.pick(&bnd)
            } else if r < 6 {
                ctx.rng.next()
            } else if r < 8 {
                // many leading zeros: exercises large ranks
                ctx.rng.next() >> ctx.rng.below(64)
            } else {
                // few distinct registers
                (ctx.rng.next() << b) | ctx.rng.below(3)
            };
            adds.push((ctx.rng.chance(3, 4), v));
        }
        for (hashed, v) in &adds {
            if *hashed {
                ctx.op(format!("hll.addh 1 {}", v));
            } else {
                ctx.op(format!("hll.add 1 {}", v));
            }
            if ctx.rng.chance(1, 8) {
                ctx.op("hll.regs 1".into());
            }
        }
        ctx.op("hll.regs 1".into());
        ctx.op("hll.empty 1".into());
        ctx.op("hll.count 1".into());
        // permuted + duplicated replay into instance 2
        let mut perm = adds.clone();
        let extra = ctx.rng.below(adds.len() as u64 + 1);
        for _ in 0..extra {
            let x = *ctx.rng.pick(&adds);
            perm.push(x);
        }
        for i in (1..perm.len()).rev() {
            let j = ctx.rng.below(i as u64 + 1) as usize;
            perm.swap(i, j);
        }
        for (hashed, v) in &perm {
            if *hashed {
                ctx.op(format!("hll.addh 2 {}", v));
            } else {
                ctx.op(format!("hll.add 2 {}", v));
            }
        }
        ctx.op("hll.regs 2".into());
        ctx.op("hll.count 2".into());
        // the same set split over two sketches and merged
        ctx.op(format!("hll.new 8 {}", b));
        ctx.op(format!("hll.new 9 {}", b));
        for (idx, (hashed, v)) in adds.iter().enumerate() {
            let inst = if idx % 2 == 0 { 8 } else { 9 };
            ctx.op(format!("{} {} {}", if *hashed { "hll.addh" } else { "hll.add" }, inst, v));
        }
        ctx.op("hll.merge 8 9".into());
        ctx.op("hll.regs 8".into());
        // reconstruct from registers
        ctx.op("hll.rebuild 1 3".into());
        ctx.op("hll.regs 3".into());
        ctx.op("hll.count 3".into());
        // `==`: the reconstruction and the permuted replay are equal sketches, a sketch of another
        // precision or with one more register set is not
        ctx.op("hll.eq 1 3".into());
        ctx.op("hll.eq 1 2".into());
        ctx.op("hll.eq 3 2".into());
        ctx.op("hll.eq 1 8".into());
        ctx.op("hll.eq 1 9".into());
        if b <= 8 {
            // explicit register vector, and wrong shapes must be rejected
            let regs = ctx.op("hll.regs 1".into());
            let toks: Vec<&str> = regs.split_whitespace().collect();
            let body = toks[2..].join(" ");
            ctx.op(format!("hll.with 4 {} {}", b, body));
            ctx.op("hll.regs 4".into());
            ctx.op("hll.eq 4 1".into());
            // cleared and used again: still 2^b registers
            ctx.op("hll.clear 4".into());
            ctx.op("hll.regs 4".into());
            ctx.op(format!("hll.addh 4 {}", ctx.rng.clone().next()));
            ctx.op("hll.regs 4".into());
            ctx.op("hll.count 4".into());
            ctx.op(format!("hll.with 5 {} {}", b + 1, body));
            ctx.op(format!("hll.with 6 {} {} 0", b, body));
            ctx.stat("with.rejects", 2);
        }
        // reads around clear(): count() is a function of the registers at every moment
        ctx.op("hll.count 2".into());
        ctx.op("hll.clear 2".into());
        ctx.op("hll.count 2".into());
        ctx.op("hll.regs 2".into());
        ctx.op("hll.empty 2".into());
        for (hashed, v) in adds.iter().take(3) {
            ctx.op(format!("{} 2 {}", if *hashed { "hll.addh" } else { "hll.add" }, v));
            ctx.op("hll.count 2".into());
        }
        ctx.op("hll.regs 2".into());
        // a sketch that received its content only through merge is as good as any other: as the
        // `other` of a further merge, for is_empty and for `==`
        ctx.op(format!("hll.new 11 {}", b));
        ctx.op("hll.merge 11 1".into());
        ctx.op("hll.empty 11".into());
        ctx.op("hll.eq 11 1".into());
        ctx.op(format!("hll.new 12 {}", b));
        ctx.op("hll.merge 12 11".into());
        ctx.op("hll.regs 12".into());
        ctx.op("hll.count 12".into());
        ctx.op("hll.eq 12 1".into());
        ctx.op("hll.clear 11".into());
        ctx.op("hll.merge 11 12".into());
        ctx.op("hll.merge 12 11".into());
        ctx.op("hll.regs 11".into());
        ctx.op("hll.empty 11".into());
        // clone_from between sketches of different precision and hasher, then both keep evolving
        let b2 = if b == 18 { 4 } else if ctx.rng.chance(1, 2) { b + 1 } else { 4 + (b + 3) % 15 };
        let bh2 = ctx.rand_hasher();
        ctx.hasher(bh2);
        ctx.op(format!("hll.new 10 {}", b2));
        ctx.hasher(bh);
        ctx.op(format!("hll.addh 10 {}", ctx.rng.clone().next()));
        ctx.op("hll.count 10".into());
        ctx.op("hll.eq 10 1".into());
        ctx.op("hll.clonefrom 10 1".into());
        ctx.op("hll.eq 10 1".into());
        ctx.op("hll.regs 10".into());
        ctx.op("hll.count 10".into());
        for _ in 0..6 {
            let v = ctx.rng.next() >> ctx.rng.below(40);
            ctx.op(format!("hll.addh 10 {}", v));
            ctx.op(format!("hll.addh 1 {}", v));
        }
        // keys hashed by the sketch's own (copied) hasher: re-adding known keys changes nothing
        ctx.op("hll.regs 10".into());
        for (hashed, v) in adds.iter().filter(|x| !x.0).take(8) {
            let _ = hashed;
            ctx.op(format!("hll.add 10 {}", v));
            ctx.op(format!("hll.add 1 {}", v));
        }
        ctx.op("hll.regs 10".into());
        ctx.op("hll.regs 1".into());
        ctx.op("hll.eq 1 10".into());
        ctx.op(format!("hll.addh 10 {}", (1u64 << 63) | 1));
        ctx.op(format!("hll.addh 10 {}", (1u64 << b) | 2));
        ctx.op("hll.eq 1 10".into());
        ctx.op("hll.count 10".into());
        ctx.op("hll.count 1".into());
        if b <= 6 && ctx.rng.chance(1, 2) {
            hll_saturated_lifecycle(ctx, b);
        }
        // the very first add after construction, clear and reconstruction is a boundary hash
        {
            let h0 = *ctx.rng.pick(&[u64::MAX, 0u64, u64::MAX - 1, 1u64 << 63, (1u64 << b) - 1, u64::MAX >> 1]);
            let h1 = ctx.rng.next();
            ctx.op(format!("hll.new 13 {}", b));
            ctx.op(format!("hll.addh 13 {}", h0));
            ctx.op("hll.regs 13".into());
            ctx.op("hll.empty 13".into());
            ctx.op(format!("hll.addh 13 {}", h1));
            ctx.op(format!("hll.addh 13 {}", h0));
            ctx.op("hll.regs 13".into());
            ctx.op("hll.clear 13".into());
            ctx.op(format!("hll.addh 13 {}", h0));
            ctx.op(format!("hll.addh 13 {}", h0));
            ctx.op("hll.regs 13".into());
            ctx.op("hll.count 13".into());
            ctx.op("hll.rebuild 13 14".into());
            ctx.op(format!("hll.addh 14 {}", u64::MAX));
            ctx.op(format!("hll.addh 14 {}", h1));
            ctx.op("hll.regs 14".into());
            ctx.op(format!("hll.new 15 {}", b));
            ctx.op(format!("hll.addh 15 {}", h1));
            ctx.op(format!("hll.addh 15 {}", u64::MAX));
            ctx.op(format!("hll.addh 15 {}", h0));
            ctx.op("hll.regs 15".into());
            ctx.op("hll.eq 14 15".into());
        }
        if ctx.rng.chance(1, 4) {
            let bad = *ctx.rng.pick(&[0u64, 1, 3, 19, 20, 64]);
            ctx.op(format!("hll.new 7 {}", bad));
            ctx.stat("new.rejects", 1);
        }
    }
}

/// Hash that the sketch must have used for an op line, given the current scripted hasher.
fn op_hash(bh: &ScriptBH, t: &[&str]) -> u64 {
    let v: u64 = t[2].parse().unwrap();
    if t[0] == "hll.addh" {
        v
    } else {
        bh.hash_one_words(&[v])
    }
}

/// C17's own statement, evaluated on the trace: registers are the per-register maximum over the
/// *set* of added hashes of the 1-based position of the first set bit among the upper 64-b bits.
/// registers prescribed by C17 for precision `b` and a set of added hashes
fn regs_of(b: u64, s: &BTreeSet<u64>) -> Vec<u8> {
    let m = 1usize << b;
    let mut regs = vec![0u8; m];
    for h in s {
        let j = (h & ((1u64 << b) - 1)) as usize;
        let mut rank = 64 - b + 1;
        for (pos, bit) in (b..64).rev().enumerate() {
            if (h >> bit) & 1 == 1 {
                rank = pos as u64 + 1;
                break;
            }
        }
        if rank as u8 > regs[j] {
            regs[j] = rank as u8;
        }
    }
    regs
}

pub fn oracle_c17(ops: &[String], ans: &[String]) -> Vec<(usize, String)> {
    let mut fails = vec![];
    let mut bh = ScriptBH::xor();
    let mut sets: HashMap<u64, (u64, BTreeSet<u64>)> = HashMap::new();
    let mut regs_seen: HashMap<u64, String> = HashMap::new();
    let mut counts: HashMap<(u64, Vec<u64>), String> = HashMap::new();
    let mut hashers: HashMap<u64, (u64, u64, u32, u64)> = HashMap::new();
    let mut with_b: HashMap<u64, (u64, (u64, u64, u32, u64))> = HashMap::new();
    // `both <op> i j args` with answer `a | b` is `<op> i args` -> a followed by `<op> j args` -> b
    let mut flat: Vec<(usize, String, String)> = vec![];
    for (i, (o, a)) in ops.iter().zip(ans.iter()).enumerate() {
        let t: Vec<&str> = o.split_whitespace().collect();
        if t[0] == "both" && t.len() >= 4 {
            let parts: Vec<&str> = a.splitn(2, " | ").collect();
            if parts.len() == 2 {
                flat.push((i, format!("{} {} {}", t[1], t[2], t[4..].join(" ")), parts[0].to_string()));
                flat.push((i, format!("{} {} {}", t[1], t[3], t[4..].join(" ")), parts[1].to_string()));
                continue;
            }
        }
        flat.push((i, o.clone(), a.clone()));
    }
    for (i, o, a) in flat.iter() {
        let i = *i;
        let t: Vec<&str> = o.split_whitespace().collect();
        match t[0] {
            "hll.addmany" => {
                let id: u64 = t[1].parse().unwrap();
                if let Some((_, s)) = sets.get_mut(&id) {
                    let mut sm = crate::script::SplitMix(t[2].parse().unwrap());
                    for _ in 0..t[3].parse::<u64>().unwrap() {
                        s.insert(sm.next());
                    }
                }
            }
            "hll.deser" => {
                // the document decides what the instance is; this oracle does not parse it
                let id: u64 = t[1].parse().unwrap();
                sets.remove(&id);
                hashers.remove(&id);
            }
            "hasher" => {
                bh = ScriptBH {
                    mul: t[1].parse().unwrap(),
                    add: t[2].parse().unwrap(),
                    sh: t[3].parse().unwrap(),
                    seed: t[4].parse().unwrap(),
                }
            }
            "hll.new" => {
                let b: u64 = t[2].parse().unwrap();
                let valid = (4..=18).contains(&b);
                if valid != (a == "ok") {
                    fails.push((i, format!("constructor accept/reject mismatch for b={}: {}", b, a)));
                }
                if a == "ok" {
                    sets.insert(t[1].parse().unwrap(), (b, BTreeSet::new()));
                    hashers.insert(t[1].parse().unwrap(), (bh.mul, bh.add, bh.sh, bh.seed));
                }
            }
            "hll.add" | "hll.addh" => {
                let id: u64 = t[1].parse().unwrap();
                if a != "ok" {
                    fails.push((i, format!("add answered {}", a)));
                }
                if let Some((_, s)) = sets.get_mut(&id) {
                    s.insert(op_hash(&bh, &t));
                }
            }
            "hll.clear" => {
                let id: u64 = t[1].parse().unwrap();
                if let Some((_, s)) = sets.get_mut(&id) {
                    s.clear();
                } else if let Some((b, h)) = with_b.get(&id) {
                    sets.insert(id, (*b, BTreeSet::new()));
                    hashers.insert(id, *h);
                }
            }
            "hll.merge" => {
                // merging is adding the other sketch's hashes: the state stays a function of the set
                let id: u64 = t[1].parse().unwrap();
                let id2: u64 = t[2].parse().unwrap();
                if a != "ok" {
                    fails.push((i, format!("merge of equal-precision sketches answered {}", a)));
                }
                let other = sets.get(&id2).map(|x| x.1.clone());
                if let (Some((_, s)), Some(o)) = (sets.get_mut(&id), other) {
                    s.extend(o);
                }
            }
            "hll.clone" => {
                // (also `hll.clonefrom j i`, rewritten by gen::oracle)
                let id: u64 = t[1].parse().unwrap();
                let id2: u64 = t[2].parse().unwrap();
                match sets.get(&id).cloned() {
                    Some(x) => {
                        sets.insert(id2, x);
                    }
                    None => {
                        sets.remove(&id2);
                    }
                }
                match hashers.get(&id).cloned() {
                    Some(x) => {
                        hashers.insert(id2, x);
                    }
                    None => {
                        hashers.remove(&id2);
                    }
                }
            }
            "hll.empty" => {
                let id: u64 = t[1].parse().unwrap();
                if let Some((_, s)) = sets.get(&id) {
                    // a hash whose rank is recorded makes some register non-zero
                    if a != if s.is_empty() { "true" } else { "false" } {
                        fails.push((i, format!("is_empty() answered {} for a sketch that has received {} distinct hashes", a, s.len())));
                    }
                }
            }
            "hll.eq" => {
                // `==`: same precision, same registers, same hasher
                let id: u64 = t[1].parse().unwrap();
                let id2: u64 = t[2].parse().unwrap();
                if let (Some((b1, s1)), Some((b2, s2)), Some(h1), Some(h2)) = (sets.get(&id), sets.get(&id2), hashers.get(&id), hashers.get(&id2)) {
                    let want = b1 == b2 && h1 == h2 && regs_of(*b1, s1) == regs_of(*b2, s2);
                    if a != if want { "true" } else { "false" } {
                        fails.push((i, format!("`==` answered {} for sketches that are {}equal (b={}/{})", a, if want { "" } else { "not " }, b1, b2)));
                    }
                }
            }
            "hll.count" => {
                // count() depends only on the registers, hence only on (b, set of hashes added)
                let id: u64 = t[1].parse().unwrap();
                if let Some((b, s)) = sets.get(&id) {
                    let key = (*b, s.iter().cloned().collect::<Vec<u64>>());
                    if s.is_empty() && a != "0" {
                        fails.push((i, format!("count() = {} on a sketch whose registers are all zero", a)));
                    }
                    match counts.get(&key) {
                        Some(prev) if prev != a => fails.push((i, format!("count() is not a function of the registers: {} earlier, {} now (b={})", prev, a, b))),
                        Some(_) => {}
                        None => {
                            counts.insert(key, a.clone());
                        }
                    }
                }
            }
            "hll.rebuild" => {
                let id: u64 = t[1].parse().unwrap();
                let id2: u64 = t[2].parse().unwrap();
                if let Some(x) = sets.get(&id).cloned() {
                    sets.insert(id2, x);
                }
                if let Some(x) = hashers.get(&id).cloned() {
                    hashers.insert(id2, x);
                }
                if a != "ok" {
                    fails.push((i, "reconstruction from own registers rejected".into()));
                }
            }
            "hll.with" => {
                let b: u64 = t[2].parse().unwrap();
                let valid = (4..=18).contains(&b) && (t.len() - 3) as u64 == (1u64 << b);
                if valid != (a == "ok") {
                    fails.push((i, format!("with_registers accept/reject mismatch: {}", a)));
                }
                // arbitrary registers are not a set of hashes; the instance becomes known again
                // (as the empty sketch of precision b) when it is cleared
                let id: u64 = t[1].parse().unwrap();
                sets.remove(&id);
                hashers.remove(&id);
                if a == "ok" {
                    with_b.insert(id, (b, (bh.mul, bh.add, bh.sh, bh.seed)));
                } else {
                    with_b.remove(&id);
                }
            }
            "hll.regs" => {
                let id: u64 = t[1].parse().unwrap();
                if let Some((b, s)) = sets.get(&id) {
                    let regs = regs_of(*b, s);
                    let want = format!("{} {}", b, crate::exec::regs_repr(&regs));
                    if &want != a {
                        fails.push((i, format!("registers differ from max-rank definition (b={})", b)));
                    }
                    regs_seen.insert(id, a.clone());
                }
            }
            _ => {}
        }
    }
    fails
}
