//! Generic history generators, one per structure. Property-specific generators (props.rs) call
//! them with a focus; the trace oracles (oracles.rs) are independent of how traces were made.
use super::Ctx;
use crate::script::ScriptBH;

pub fn fx(x: f64) -> String {
    format!("{:016x}", x.to_bits())
}

/// key universe: small (collisions, repeats) with occasional huge values
pub struct Keys {
    pub univ: Vec<u64>,
}
impl Keys {
    pub fn new(ctx: &mut Ctx, n: u64) -> Self {
        let mode = ctx.rng.below(4);
        let univ = (0..n)
            .map(|i| match mode {
                0 => i,
                1 => i * 2,                 // same parity (xor hasher: h1, h2 correlated)
                2 => ctx.rng.next(),        // arbitrary 64-bit
                _ => i * 64 + ctx.rng.below(3), // clustered
            })
            .collect();
        let mut univ: Vec<u64> = univ;
        // boundary keys: under the identity-like hasher they are boundary *hash values* (a fingerprint hash of
        // u64::MAX or 0, the top bit alone, both sides of 2^32)
        if n >= 4 && ctx.rng.chance(1, 2) {
            for b in [0u64, u64::MAX, u64::MAX - 1, 1u64 << 63, (1u64 << 32) - 1, 1u64 << 32] {
                if ctx.rng.chance(1, 2) {
                    let at = ctx.rng.below(univ.len() as u64) as usize;
                    univ[at] = b;
                }
            }
            ctx.stat("keys.boundary", 1);
        }
        Keys { univ }
    }
    pub fn pick(&self, ctx: &mut Ctx) -> u64 {
        *ctx.rng.pick(&self.univ)
    }
}

// ---------------------------------------------------------------------------------------------
pub fn bloom_history(ctx: &mut Ctx, nops: u64) {
    let bh = ctx.rand_hasher();
    ctx.hasher(bh);
    let m = if ctx.rng.chance(4, 5) { ctx.rng.range(1, 64) } else { ctx.rng.range(65, 4096) };
    let k = if ctx.rng.chance(1, 20) { 0 } else { ctx.rng.range(1, 8) };
    ctx.stat(&format!("bloom.m.{}", if m <= 8 { "1-8" } else if m <= 64 { "9-64" } else { "65+" }), 1);
    for i in 1..=3 {
        ctx.op(format!("bloom.new {} {} {}", i, m, k));
    }
    ctx.op("bloom.getters 1".into());
    let keys = Keys::new(ctx, *ctx.rng.clone().pick(&[4u64, 16, 64, 1000]));
    for _ in 0..nops {
        let i = ctx.rng.range(1, 3);
        let r = ctx.rng.below(100);
        let key = keys.pick(ctx);
        if r < 40 {
            ctx.op(format!("bloom.insert {} {}", i, key));
        } else if r < 70 {
            ctx.op(format!("bloom.query {} {}", i, key));
        } else if r < 76 {
            let j = ctx.rng.range(1, 3);
            ctx.op(format!("bloom.union {} {}", i, j));
            ctx.stat("bloom.union", 1);
        } else if r < 79 {
            ctx.op(format!("bloom.clear {}", i));
        } else if r < 86 {
            ctx.op(format!("bloom.len {}", i));
        } else if r < 92 {
            ctx.op(format!("bloom.empty {}", i));
        } else if r < 95 {
            ctx.op(format!("bloom.clone {} {}", i, ctx.rng.clone().range(1, 3)));
        } else {
            // sweep: query the whole universe
            for key in keys.univ.iter().take(64) {
                ctx.op(format!("bloom.query {} {}", i, key));
            }
        }
    }
    // clone_from into a filter of another shape / hasher that already holds other content; the
    // receiver must then be a copy in every respect and evolve like the source
    if ctx.rng.chance(1, 2) {
        // every dimension varies on its own: another hasher or the same one, another m, another k
        let bh2 = if ctx.rng.chance(1, 2) { ctx.rand_hasher() } else { bh };
        ctx.hasher(bh2);
        let (m2, k2) = *ctx.rng.pick(&[(m + 1, k), (m, k + 1), (m, k + 3), (m, (k / 2).max(1)), ((m / 2).max(1), k.max(1)), (2 * m + 3, k.max(1)), (m, k.max(1))]);
        ctx.op(format!("bloom.new 7 {} {}", m2, k2));
        ctx.hasher(bh);
        for _ in 0..ctx.rng.clone().below(5) {
            let kk = keys.pick(ctx);
            ctx.op(format!("bloom.insert 7 {}", kk));
        }
        let src = ctx.rng.range(1, 3);
        let a = ctx.op(format!("bloom.clonefrom 7 {}", src));
        if a == "ok" {
            ctx.stat("bloom.clonefrom", 1);
            ctx.op("bloom.getters 7".into());
            ctx.op(format!("both bloom.len 7 {}", src));
            for key in keys.univ.iter().take(24) {
                ctx.op(format!("both bloom.query 7 {} {}", src, key));
            }
            for _ in 0..6 {
                let kk = keys.pick(ctx);
                ctx.op(format!("both bloom.insert 7 {} {}", src, kk));
            }
            ctx.op(format!("both bloom.len 7 {}", src));
            ctx.op(format!("bloom.union 7 {}", src));
            ctx.op(format!("both bloom.len 7 {}", src));
        }
    }
    // mismatching shapes must be rejected by union
    if ctx.rng.chance(1, 4) {
        ctx.op(format!("bloom.new 8 {} {}", m + 1, k));
        ctx.op("bloom.union 1 8".into());
        ctx.stat("bloom.union.reject", 1);
    }
    if ctx.rng.chance(1, 6) {
        ctx.op("bloom.new 9 0 3".into());
        ctx.op("bloom.new 10 0 0".into());
        ctx.op("bloom.query 10 5".into());
        ctx.stat("bloom.m0", 1);
    }
}

pub fn set_history(ctx: &mut Ctx, nops: u64) {
    ctx.op("set.new 1".into());
    ctx.op("set.new 2".into());
    for _ in 0..nops {
        let i = ctx.rng.range(1, 2);
        let key = ctx.rng.below(12);
        match ctx.rng.below(10) {
            0..=3 => ctx.op(format!("set.insert {} {}", i, key)),
            4..=6 => ctx.op(format!("set.query {} {}", i, key)),
            7 => ctx.op(format!("set.union {} {}", i, 3 - i)),
            8 => ctx.op(format!("set.len {}", i)),
            _ => {
                if ctx.rng.chance(1, 4) {
                    ctx.op(format!("set.clear {}", i))
                } else {
                    ctx.op(format!("set.empty {}", i))
                }
            }
        };
    }
}

// ---------------------------------------------------------------------------------------------
pub fn cms_history(ctx: &mut Ctx, nops: u64) {
    let bh = ctx.rand_hasher();
    ctx.hasher(bh);
    let (w, d) = match ctx.rng.below(10) {
        0 | 1 => (ctx.rng.range(7, 300), ctx.rng.range(1, 8)),
        // more rows than any fixed-size scratch buffer would hold (delta down to e^-70)
        2 => (ctx.rng.range(2, 9), *ctx.rng.pick(&[33u64, 40, 64, 65, 70])),
        _ => (ctx.rng.range(1, 6), ctx.rng.range(1, 6)),
    };
    let ct = *ctx.rng.pick(&["u8", "u16", "u32", "u64", "usize"]);
    ctx.stat(&format!("cms.ctype.{}", ct), 1);
    ctx.stat(if w == d { "cms.w=d" } else { "cms.w!=d" }, 1);
    for i in 1..=3 {
        ctx.op(format!("cms.new {} {} {} {}", i, ct, w, d));
    }
    // a fourth sketch of the same shape under a different hasher (clone_from source/receiver)
    let bh2 = ctx.rand_hasher();
    ctx.hasher(bh2);
    ctx.op(format!("cms.new 4 {} {} {}", ct, w, d));
    ctx.hasher(bh);
    ctx.op("cms.getters 1".into());
    // whole-row collisions under the xor hasher: keys that agree modulo 2w
    let collide = ctx.rng.chance(1, 3);
    let nk = *ctx.rng.pick(&[3u64, 8, 40]);
    let keys: Vec<u64> = (0..nk).map(|i| if collide { 5 + i * 2 * w } else { ctx.rng.below(1000) }).collect();
    if collide {
        ctx.stat("cms.rowcollide", 1);
    }
    let cmax: u64 = match ct {
        "u8" => 255,
        "u16" => 65535,
        "u32" => u32::MAX as u64,
        _ => u64::MAX,
    };
    for _ in 0..nops {
        let i = ctx.rng.range(1, 3);
        let key = *ctx.rng.pick(&keys);
        let r = ctx.rng.below(100);
        if r < 30 {
            let a = ctx.op(format!("cms.add {} {}", i, key));
            if a == "panic" {
                ctx.stat("cms.overflow", 1);
                ctx.op(format!("cms.new {} {} {} {}", i, ct, w, d));
            }
            if ctx.rng.chance(1, 2) {
                ctx.op(format!("cms.query {} {}", i, key));
            }
        } else if r < 50 {
            let n = if ctx.rng.chance(1, 10) { cmax / ctx.rng.range(2, 5) } else { ctx.rng.below(20) };
            let a = ctx.op(format!("cms.addn {} {} {}", i, key, n));
            if a == "panic" {
                ctx.stat("cms.overflow", 1);
                ctx.op(format!("cms.new {} {} {} {}", i, ct, w, d));
            }
        } else if r < 80 {
            ctx.op(format!("cms.query {} {}", i, key));
        } else if r < 88 {
            let j = ctx.rng.range(1, 3);
            let a = ctx.op(format!("cms.merge {} {}", i, j));
            ctx.stat("cms.merge", 1);
            if a == "panic" {
                ctx.stat("cms.overflow", 1);
                ctx.op(format!("cms.new {} {} {} {}", i, ct, w, d));
            }
        } else if r < 91 {
            ctx.op(format!("cms.clear {}", i));
        } else if r < 95 {
            ctx.op(format!("cms.empty {}", i));
        } else if r < 96 {
            ctx.op(format!("cms.clone {} {}", i, ctx.rng.clone().range(1, 3)));
        } else if r < 98 {
            // clone_from between sketches with different hashers, then keep using the receiver
            let (dst, src) = if ctx.rng.chance(1, 2) { (4, i) } else { (i, 4) };
            if ctx.rng.chance(1, 2) {
                let k4 = *ctx.rng.pick(&keys);
                ctx.op(format!("cms.add 4 {}", k4));
            }
            let a = ctx.op(format!("cms.clonefrom {} {}", dst, src));
            if a == "ok" {
                ctx.stat("cms.clonefrom", 1);
                for key in keys.iter().take(12) {
                    ctx.op(format!("both cms.query {} {} {}", dst, src, key));
                }
                let k = *ctx.rng.pick(&keys);
                ctx.op(format!("both cms.add {} {} {}", dst, src, k));
            }
        } else {
            for key in keys.iter().take(40) {
                ctx.op(format!("cms.query {} {}", i, key));
            }
        }
    }
    // clone_from into a sketch of another shape (narrower / wider / other depth), other hasher
    if ctx.rng.chance(1, 2) {
        let bh3 = if ctx.rng.chance(1, 2) { ctx.rand_hasher() } else { bh };
        ctx.hasher(bh3);
        // incl. the same number of cells split differently: transposed, (w*d, 1), (1, w*d), halved/doubled
        let (w2, d2) = *ctx.rng.pick(&[((w / 2).max(1), d), (w + 3, d), (w, d + 1), (w, (d / 2).max(1)), (2 * w + 1, (d / 2).max(1)), (1, 1),
            (d, w), (d, w), (w * d, 1), (1, w * d), if w % 2 == 0 { (w / 2, d * 2) } else { (w * 2, (d / 2).max(1)) }]);
        if w2 * d2 == w * d && (w2, d2) != (w, d) {
            ctx.stat("cms.clonefrom.samecells", 1);
        }
        ctx.op(format!("cms.new 5 {} {} {}", ct, w2, d2));
        ctx.hasher(bh);
        for _ in 0..ctx.rng.clone().below(4) {
            ctx.op(format!("cms.add 5 {}", *ctx.rng.clone().pick(&keys)));
        }
        let src = ctx.rng.range(1, 3);
        let a = ctx.op(format!("cms.clonefrom 5 {}", src));
        if a == "ok" {
            ctx.stat("cms.clonefrom.shape", 1);
            ctx.op("cms.getters 5".into());
            for key in keys.iter().take(16) {
                ctx.op(format!("both cms.query 5 {} {}", src, key));
            }
            for _ in 0..8 {
                let k = *ctx.rng.pick(&keys);
                let a = ctx.op(format!("both cms.add 5 {} {}", src, k));
                if a.contains("panic") || a.contains("poisoned") {
                    break;
                }
            }
            for key in keys.iter().take(16) {
                ctx.op(format!("both cms.query 5 {} {}", src, key));
            }
            ctx.op(format!("cms.merge 5 {}", src));
            ctx.op("cms.empty 5".into());
        }
    }
    // content that arrives only through merge (and zero-weight adds), then clear, then reads and a
    // first add: every way of putting content into a sketch must count for `clear`
    {
        ctx.hasher(bh);
        let src = ctx.rng.range(1, 3);
        ctx.op(format!("cms.new 6 {} {} {}", ct, w, d));
        let a = ctx.op(format!("cms.merge 6 {}", src));
        if a == "ok" {
            ctx.stat("cms.mergeonly.clear", 1);
            if ctx.rng.chance(1, 2) {
                ctx.op(format!("cms.addn 6 {} 0", *ctx.rng.clone().pick(&keys)));
            }
            ctx.op("cms.empty 6".into());
            ctx.op("cms.clear 6".into());
            ctx.op("cms.empty 6".into());
            for key in keys.iter().take(12) {
                ctx.op(format!("cms.query 6 {}", key));
            }
            let k = *ctx.rng.pick(&keys);
            ctx.op(format!("cms.add 6 {}", k));
            ctx.op(format!("cms.query 6 {}", k));
        }
    }
    if ctx.rng.chance(1, 5) {
        ctx.op(format!("cms.new 8 {} {} {}", ct, w + 1, d));
        ctx.op("cms.merge 1 8".into());
        ctx.op(format!("cms.new 9 {} 0 2", ct));
        ctx.op(format!("cms.new 10 {} 3 0", ct));
        ctx.op("cms.add 10 4".into());
        ctx.stat("cms.reject", 1);
    }
}

// ---------------------------------------------------------------------------------------------
pub struct CuckooCfg {
    pub bs: u64,
    pub nb: u64,
    pub lf: u64,
}
pub fn cuckoo_cfg(ctx: &mut Ctx) -> CuckooCfg {
    let bs = *ctx.rng.pick(&[2u64, 2, 3, 4, 8]);
    let hi = if ctx.rng.chance(4, 5) { 3 } else { 6 };
    let nb = 1u64 << ctx.rng.range(1, hi);
    let lf = *ctx.rng.pick(&[2u64, 3, 4, 8, 8, 16, 63, 64]);
    CuckooCfg { bs, nb, lf }
}
pub fn cuckoo_new(ctx: &mut Ctx, i: u64, c: &CuckooCfg) {
    let seed = ctx.rng.next();
    // extreme words in front of the splitmix stream
    let mut forced: Vec<String> = vec![];
    if ctx.rng.chance(1, 3) {
        for _ in 0..ctx.rng.below(6) {
            forced.push(ctx.rng.pick(&[0u64, u64::MAX, 1u64 << 63, (1u64 << 63) - 1]).to_string());
        }
    }
    ctx.op(format!("cuckoo.new {} {} {} {} {} {}", i, seed, c.bs, c.nb, c.lf, forced.join(" ")));
}
pub fn cuckoo_history(ctx: &mut Ctx, nops: u64) {
    let bh = ctx.rand_hasher();
    ctx.hasher(bh);
    let c = cuckoo_cfg(ctx);
    ctx.stat(&format!("cuckoo.lf.{}", c.lf), 1);
    ctx.stat(&format!("cuckoo.slots.{}", c.bs * c.nb), 1);
    for i in 1..=3 {
        cuckoo_new(ctx, i, &c);
    }
    ctx.op("cuckoo.getters 1".into());
    let cap = c.bs * c.nb;
    let keys = Keys::new(ctx, *ctx.rng.clone().pick(&[3u64, cap, 2 * cap + 3, 200]));
    for _ in 0..nops {
        let i = ctx.rng.range(1, 3);
        let key = keys.pick(ctx);
        let r = ctx.rng.below(100);
        if r < 45 {
            let a = ctx.op(format!("cuckoo.insert {} {}", i, key));
            if a == "full" {
                ctx.stat("cuckoo.insert.full", 1);
            }
        } else if r < 60 {
            let a = ctx.op(format!("cuckoo.delete {} {}", i, key));
            if a == "true" {
                ctx.stat("cuckoo.delete.true", 1);
            }
        } else if r < 82 {
            ctx.op(format!("cuckoo.query {} {}", i, key));
        } else if r < 86 {
            let j = ctx.rng.range(1, 3);
            let a = ctx.op(format!("cuckoo.union {} {}", i, j));
            ctx.stat(if a == "full" { "cuckoo.union.full" } else { "cuckoo.union.ok" }, 1);
        } else if r < 92 {
            ctx.op(format!("cuckoo.len {}", i));
        } else if r < 94 {
            ctx.op(format!("cuckoo.empty {}", i));
        } else if r < 95 {
            ctx.op(format!("cuckoo.clear {}", i));
        } else if r < 97 {
            ctx.op(format!("cuckoo.clone {} {}", i, ctx.rng.clone().range(1, 3)));
        } else {
            for key in keys.univ.iter().take(40) {
                ctx.op(format!("cuckoo.query {} {}", i, key));
            }
        }
    }
    // clone_from into a filter of another geometry (same slot count split differently, other
    // fingerprint width, other size), other hasher, holding other content
    if ctx.rng.chance(1, 2) {
        let bh2 = if ctx.rng.chance(1, 2) { ctx.rand_hasher() } else { bh };
        ctx.hasher(bh2);
        let c2 = match ctx.rng.below(5) {
            0 if c.nb >= 4 => CuckooCfg { bs: c.bs * 2, nb: c.nb / 2, lf: c.lf },
            1 => CuckooCfg { bs: c.bs, nb: c.nb * 2, lf: c.lf },
            2 => CuckooCfg { bs: c.bs, nb: c.nb, lf: *ctx.rng.pick(&[2u64, 5, 8, 13, 32, 64]) },
            3 => CuckooCfg { bs: 2, nb: (c.bs * c.nb / 2).next_power_of_two().max(2), lf: c.lf },
            _ => cuckoo_cfg(ctx),
        };
        cuckoo_new(ctx, 7, &c2);
        ctx.hasher(bh);
        for _ in 0..ctx.rng.clone().below(5) {
            let kk = keys.pick(ctx);
            ctx.op(format!("cuckoo.insert 7 {}", kk));
        }
        let src = ctx.rng.range(1, 3);
        let a = ctx.op(format!("cuckoo.clonefrom 7 {}", src));
        if a == "ok" {
            ctx.stat("cuckoo.clonefrom", 1);
            ctx.op("cuckoo.getters 7".into());
            ctx.op(format!("both cuckoo.len 7 {}", src));
            for key in keys.univ.iter().take(30) {
                ctx.op(format!("both cuckoo.query 7 {} {}", src, key));
            }
            for _ in 0..8 {
                let k = keys.pick(ctx);
                if ctx.rng.chance(2, 3) {
                    ctx.op(format!("both cuckoo.insert 7 {} {}", src, k));
                } else {
                    ctx.op(format!("both cuckoo.delete 7 {} {}", src, k));
                }
            }
            ctx.op(format!("both cuckoo.len 7 {}", src));
            for key in keys.univ.iter().take(30) {
                ctx.op(format!("both cuckoo.query 7 {} {}", src, key));
            }
        }
    }
    if ctx.rng.chance(1, 5) {
        for (bs, nb, lf) in [(1u64, 4u64, 8u64), (2, 5, 8), (2, 1, 8), (2, 0, 8), (2, 4, 1), (2, 4, 65), (0, 4, 8), (u64::MAX, 2, 2), (2, 1u64 << 63, 2), (2, 1u64 << 61, 64)] {
            ctx.op(format!("cuckoo.new 9 1 {} {} {}", bs, nb, lf));
        }
        ctx.op(format!("cuckoo.new 8 1 {} {} {}", c.bs, c.nb * 2, c.lf));
        ctx.op("cuckoo.union 1 8".into());
        ctx.stat("cuckoo.reject", 1);
    }
}

// ---------------------------------------------------------------------------------------------
/// quotient filter key with chosen (quotient, remainder) under the xor (identity) hasher
pub fn qf_key(ctx: &mut Ctx, q: u64, r: u64, quo: u64, rem: u64) -> u64 {
    let low = (quo << r) | rem;
    if q + r >= 64 {
        low
    } else {
        (ctx.rng.next() << (q + r)) | low
    }
}
pub fn qf_history(ctx: &mut Ctx, nops: u64) {
    let ident = ctx.rng.chance(2, 3);
    let bh = if ident { ScriptBH::xor() } else { ctx.rand_hasher() };
    ctx.hasher(bh);
    let (q, r) = match ctx.rng.below(10) {
        0 => (ctx.rng.range(1, 4), 64 - ctx.rng.range(1, 4)), // q + r up to 64
        1 => (4, 60),
        // tables of several 64-slot blocks (the bit vectors are arrays of 64-bit words): clusters are
        // then concentrated around a block boundary, see `block` below
        2 => (ctx.rng.range(6, 8), ctx.rng.range(2, 6)),
        _ => (ctx.rng.range(1, 5), ctx.rng.range(1, 6)),
    };
    let (q, r) = if q + r > 64 { (q, 64 - q) } else { (q, r) };
    ctx.stat(&format!("qf.q.{}", q), 1);
    for i in 1..=3 {
        ctx.op(format!("qf.new {} {} {}", i, q, r));
    }
    ctx.op("qf.getters 1".into());
    let nslots = 1u64 << q;
    let nrem = ctx.rng.range(1, 4).min(if r >= 63 { 4 } else { 1u64 << r });
    // quotient universe: all, or concentrated near the end of the array (wrapping clusters)
    let conc = ctx.rng.chance(1, 2);
    let block = 64 * ctx.rng.below((nslots / 64).max(1));
    if q >= 6 {
        ctx.stat("qf.blockboundary", 1);
    }
    let mut pool: Vec<u64> = vec![];
    for _ in 0..(2 * nslots + 4) {
        let quo = if q >= 6 {
            // within [-9, +6] of a multiple of 64 (slot 0 = the wrap-around boundary included)
            (block + nslots - 9 + ctx.rng.below(16)) % nslots
        } else if conc {
            (nslots - 1 - ctx.rng.below(nslots.min(3))) % nslots
        } else {
            ctx.rng.below(nslots)
        };
        let rem = ctx.rng.below(nrem) + if r > 3 { ctx.rng.below(2) * 5 } else { 0 };
        // wide remainders: set high bits too (above bit 31, the top bit)
        let rem = if r > 8 && ctx.rng.chance(1, 2) { rem | (1u64 << (r - 1).min(63)) | if r > 34 { 1u64 << 33 } else { 0 } } else { rem };
        let rem = if r >= 64 { rem } else { rem % (1u64 << r) };
        pool.push(if ident { qf_key(ctx, q, r, quo, rem) } else { ctx.rng.below(4 * nslots) });
    }
    for _ in 0..nops {
        let i = ctx.rng.range(1, 3);
        let key = *ctx.rng.pick(&pool);
        let rr = ctx.rng.below(100);
        if rr < 50 {
            let a = ctx.op(format!("qf.insert {} {}", i, key));
            if a == "full" {
                ctx.stat("qf.insert.full", 1);
            }
        } else if rr < 78 {
            ctx.op(format!("qf.query {} {}", i, key));
        } else if rr < 84 {
            let j = ctx.rng.range(1, 3);
            let a = ctx.op(format!("qf.union {} {}", i, j));
            ctx.stat(if a == "full" { "qf.union.full" } else { "qf.union.ok" }, 1);
        } else if rr < 90 {
            ctx.op(format!("qf.len {}", i));
        } else if rr < 92 {
            ctx.op(format!("qf.empty {}", i));
        } else if rr < 93 {
            ctx.op(format!("qf.clear {}", i));
        } else if rr < 95 {
            ctx.op(format!("qf.clone {} {}", i, ctx.rng.clone().range(1, 3)));
        } else {
            for key in pool.iter().take(40) {
                ctx.op(format!("qf.query {} {}", i, key));
            }
        }
    }
    // clone_from into a filter with another quotient / remainder width holding other content
    if ctx.rng.chance(1, 2) && q + r < 64 {
        let (q2, r2) = *ctx.rng.pick(&[(q + 1, r), ((q - 1).max(1), r), (q, r + 1), (q + 1, (r - 1).max(1)), (q, r)]);
        // the receiver's hasher varies on its own too (a copy must hash like its source)
        let bh_src = bh;
        if ctx.rng.chance(1, 2) {
            let bh2 = ctx.rand_hasher();
            ctx.hasher(bh2);
            ctx.stat("qf.clonefrom.otherhasher", 1);
        }
        ctx.op(format!("qf.new 7 {} {}", q2, r2));
        ctx.hasher(bh_src);
        for _ in 0..ctx.rng.clone().below(4) {
            ctx.op(format!("qf.insert 7 {}", *ctx.rng.clone().pick(&pool)));
        }
        let src = ctx.rng.range(1, 3);
        let a = ctx.op(format!("qf.clonefrom 7 {}", src));
        if a == "ok" {
            ctx.stat("qf.clonefrom", 1);
            ctx.op("qf.getters 7".into());
            ctx.op(format!("both qf.len 7 {}", src));
            for key in pool.iter().take(30) {
                ctx.op(format!("both qf.query 7 {} {}", src, key));
            }
            for _ in 0..6 {
                let key = *ctx.rng.pick(&pool);
                ctx.op(format!("both qf.insert 7 {} {}", src, key));
            }
            ctx.op(format!("both qf.len 7 {}", src));
            for key in pool.iter().take(30) {
                ctx.op(format!("both qf.query 7 {} {}", src, key));
            }
        }
    }
    if ctx.rng.chance(1, 5) {
        for (q, r) in [(0u64, 4u64), (4, 0), (4, 65), (40, 30), (1, 64)] {
            ctx.op(format!("qf.new 9 {} {}", q, r));
        }
        ctx.op(format!("qf.new 8 {} {}", q, if r > 1 { r - 1 } else { r + 1 }));
        ctx.op("qf.union 1 8".into());
        ctx.stat("qf.reject", 1);
    }
}

// ---------------------------------------------------------------------------------------------
pub fn res_history(ctx: &mut Ctx) {
    let k = if ctx.rng.chance(4, 5) { ctx.rng.range(1, 16) } else { ctx.rng.range(17, 64) };
    let n = match ctx.rng.below(5) {
        0 => ctx.rng.below(k + 1),
        1 => 4 * k + ctx.rng.below(3),
        _ => ctx.rng.range(k, 12 * k),
    };
    ctx.stat(&format!("res.phase.{}", if n <= k { "fill" } else if n <= 4 * k { "plain" } else { "skip" }), 1);
    let seed = ctx.rng.next();
    let mut forced: Vec<String> = vec![];
    if ctx.rng.chance(1, 2) {
        // extreme words somewhere in the stream (positions are approximate: rejections shift them)
        let total = ctx.rng.below(n + 4);
        for _ in 0..total {
            let w = match ctx.rng.below(6) {
                0 => 0u64,
                1 => u64::MAX,
                2 => 1u64 << 12,          // smallest non-zero mantissa for the unit draw
                3 => u64::MAX << 12,
                _ => ctx.rng.next(),
            };
            forced.push(w.to_string());
        }
        ctx.stat("res.forced", 1);
    }
    ctx.op(format!("res.new 1 {} {} {}", k, seed, forced.join(" ")));
    ctx.op("res.empty 1".into());
    ctx.op("res.get 1".into());
    let mut i = 0u64;
    while i < n {
        if ctx.rng.chance(1, 12) {
            // a batch through Extend (any point of the stream, any phase)
            let len = ctx.rng.range(1, (2 * k).max(3)).min(n - i);
            let mut items: Vec<String> = (i..i + len).map(|x| x.to_string()).collect();
            if ctx.rng.chance(1, 2) {
                // through a filtering iterator (inexact size_hint): junk items >= 2^40 are
                // dropped by the filter, in particular a junk tail after the last real item
                let mut mixed = vec![];
                for it in items.drain(..) {
                    if ctx.rng.chance(1, 3) {
                        mixed.push(((1u64 << 40) + ctx.rng.below(1000)).to_string());
                    }
                    mixed.push(it);
                }
                for _ in 0..ctx.rng.below(3 * k + 4) {
                    mixed.push(((1u64 << 40) + ctx.rng.below(1000)).to_string());
                }
                ctx.op(format!("res.extendf 1 {}", mixed.join(" ")));
                ctx.stat("res.extendf", 1);
            } else if ctx.rng.chance(1, 4) {
                // the iterator fails (panics) after j items; the caller catches it and carries on:
                // exactly the j consumed items count
                let j = ctx.rng.below(len + 1);
                ctx.op(format!("res.extendp 1 {} {}", j, items.join(" ")));
                ctx.op("res.get 1".into());
                ctx.stat("res.extendp", 1);
                // the items that were not consumed arrive later, one by one
                for x in (i + j)..(i + len) {
                    ctx.op(format!("res.add 1 {}", x));
                }
            } else {
                ctx.op(format!("res.extend 1 {}", items.join(" ")));
            }
            ctx.op("res.get 1".into());
            ctx.stat("res.extend", 1);
            i += len;
            continue;
        }
        ctx.op(format!("res.add 1 {}", i));
        if i < k + 2 || ctx.rng.chance(1, 6) || i + 1 == 4 * k || i == 4 * k {
            ctx.op("res.get 1".into());
        }
        i += 1;
        let i = i - 1;
        if ctx.rng.chance(1, 60) {
            ctx.op("res.clone 1 2".into());
            ctx.op("res.add 2 999999".into());
            ctx.op("res.get 2".into());
            ctx.op("res.get 1".into());
        }
    }
    ctx.op("res.get 1".into());
    ctx.op("res.empty 1".into());
    if ctx.rng.chance(1, 3) {
        ctx.op("res.clear 1".into());
        ctx.op("res.get 1".into());
        ctx.op("res.empty 1".into());
        for i in 0..(k + 3) {
            ctx.op(format!("res.add 1 {}", 1000 + i));
        }
        ctx.op("res.get 1".into());
    }
    // clone_from into a sampler with another k that has seen other items
    if ctx.rng.chance(1, 2) {
        let k2 = *ctx.rng.pick(&[k + 3, (k / 2).max(1), 1, k, 2 * k + 1]);
        ctx.op(format!("res.new 7 {} {}", k2, ctx.rng.clone().next()));
        // the receiver may be anywhere in its own stream: filling, exact phase, deep inside a skip gap
        let pre = if ctx.rng.chance(1, 3) { ctx.rng.range(4 * k2, 12 * k2 + 3).min(400) } else { ctx.rng.below(3 * k2 + 2) };
        for t in 0..pre {
            ctx.op(format!("res.add 7 {}", 700_000 + t));
        }
        let a = ctx.op("res.clonefrom 7 1".into());
        if a == "ok" {
            ctx.stat("res.clonefrom", 1);
            ctx.op("both res.get 7 1".into());
            ctx.op("both res.empty 7 1".into());
            for t in 0..(3 * k + 6) {
                ctx.op(format!("both res.add 7 1 {}", 800_000 + t));
                if t % 3 == 0 {
                    ctx.op("both res.get 7 1".into());
                }
            }
            ctx.op("both res.get 7 1".into());
        }
    }
    if ctx.rng.chance(1, 10) {
        ctx.op("res.new 5 0 1".into());
    }
}

// ---------------------------------------------------------------------------------------------
pub fn lossy_history(ctx: &mut Ctx, n: u64) {
    let dyadic = ctx.rng.chance(3, 4);
    if ctx.rng.chance(1, 2) {
        let w = if ctx.rng.chance(3, 4) { ctx.rng.range(1, 16) } else { ctx.rng.range(17, 200) };
        ctx.op(format!("lossy.neww 1 {}", w));
        ctx.stat("lossy.with_width", 1);
    } else {
        let eps = if dyadic { 1.0 / (1u64 << ctx.rng.range(1, 6)) as f64 } else { *ctx.rng.pick(&[0.1, 0.3, 0.07, 0.9, 0.34]) };
        ctx.op(format!("lossy.newe 1 {}", fx(eps)));
        ctx.stat("lossy.with_epsilon", 1);
    }
    ctx.op("lossy.getters 1".into());
    let alpha = *ctx.rng.pick(&[2u64, 5, 20, 1000]);
    let adversarial = ctx.rng.chance(1, 3);
    // window-aligned stream: a hot element exactly on the first and last position of each window,
    // fresh elements in between (worst case for the table bound)
    let aligned = ctx.rng.chance(1, 4);
    let width_guess: u64 = {
        // read back the width from the getters answer
        let g = ctx.ans.last().cloned().unwrap_or_default();
        g.split_whitespace().nth(1).and_then(|x| x.parse().ok()).unwrap_or(8)
    };
    if aligned {
        ctx.stat("lossy.aligned", 1);
    }
    for t in 0..n {
        if aligned {
            let pos = (t + 1) % width_guess;
            let key = if pos == 0 || pos == 1 { 7 } else { 100_000 + t };
            ctx.op(format!("lossy.add 1 {}", key));
            if ctx.rng.chance(1, 6) || pos == 0 {
                ctx.op(format!("lossy.query 1 {}", fx(0.0)));
                ctx.op("lossy.n 1".into());
            }
            continue;
        }
        // skewed alphabet; adversarial mode re-introduces element 7 right after window boundaries
        let key = if adversarial && ctx.rng.chance(1, 3) {
            7
        } else if ctx.rng.chance(1, 2) {
            ctx.rng.below(alpha.min(3))
        } else {
            ctx.rng.below(alpha)
        };
        ctx.op(format!("lossy.add 1 {}", key));
        if t < 40 || ctx.rng.chance(1, 10) {
            let thr = if dyadic { ctx.rng.below(17) as f64 / 16.0 } else { ctx.rng.f01() };
            ctx.op(format!("lossy.query 1 {}", fx(thr)));
            ctx.op(format!("lossy.query 1 {}", fx(0.0)));
            ctx.op("lossy.n 1".into());
        }
        if ctx.rng.chance(1, 200) {
            ctx.op("lossy.clone 1 2".into());
            ctx.op("lossy.add 2 424242".into());
            ctx.op(format!("lossy.query 2 {}", fx(0.0)));
            ctx.op(format!("lossy.query 1 {}", fx(0.0)));
        }
        if ctx.rng.chance(1, 400) {
            ctx.op("lossy.clear 1".into());
            ctx.op("lossy.n 1".into());
            ctx.op(format!("lossy.query 1 {}", fx(0.0)));
        }
    }
    // clone_from into a counter with another width that tracks elements the source does not
    if ctx.rng.chance(1, 2) {
        let w2 = *ctx.rng.pick(&[width_guess + 3, (width_guess / 2).max(1), 1, width_guess, 50]);
        ctx.op(format!("lossy.neww 7 {}", w2));
        for t in 0..ctx.rng.clone().below(2 * w2 + 3) {
            ctx.op(format!("lossy.add 7 {}", 9000 + t % 4));
        }
        let a = ctx.op("lossy.clonefrom 7 1".into());
        if a == "ok" {
            ctx.stat("lossy.clonefrom", 1);
            ctx.op("both lossy.getters 7 1".into());
            ctx.op("both lossy.n 7 1".into());
            ctx.op(format!("both lossy.query 7 1 {}", fx(0.0)));
            ctx.op(format!("both lossy.query 7 1 {}", fx(0.9)));
            ctx.op(format!("both lossy.query 7 1 {}", fx(0.5)));
            for t in 0..(2 * width_guess + 5) {
                let key = if t % 5 == 0 { 9000 + t % 4 } else { ctx.rng.below(alpha) };
                ctx.op(format!("both lossy.add 7 1 {}", key));
            }
            ctx.op(format!("both lossy.query 7 1 {}", fx(0.0)));
            ctx.op("both lossy.n 7 1".into());
        }
    }
    if ctx.rng.chance(1, 8) {
        ctx.op("lossy.neww 5 0".into());
        ctx.op(format!("lossy.newe 5 {}", fx(0.0)));
        ctx.op(format!("lossy.newe 5 {}", fx(1.0)));
    }
}

// ---------------------------------------------------------------------------------------------
pub fn heap_history(ctx: &mut Ctx, n: u64) {
    // k = "keep everything" (huge) now and then
    let k = if ctx.rng.chance(1, 12) { *ctx.rng.pick(&[u64::MAX, 1u64 << 63, 1u64 << 60, u64::MAX - 1]) } else { ctx.rng.range(1, 5) };
    let (mut w, mut d) = match ctx.rng.below(4) {
        0 => (1, 1),
        1 => (ctx.rng.range(1, 3), ctx.rng.range(1, 3)),
        2 => (ctx.rng.range(4, 16), ctx.rng.range(1, 4)),
        _ => (256, 4),
    };
    if ctx.rng.chance(1, 6) {
        // the sketch sized by with_point_query_properties, delta over its whole range (0, 1)
        let eps = *ctx.rng.pick(&[0.5f64, 0.1, 0.01, 0.9]);
        let delta = *ctx.rng.pick(&[0.9999999999f64, 1.0 - 1e-12, 0.99, 0.5, 0.36, 0.37, 0.1, 1e-3]);
        let a = ctx.op(format!("heap.props 1 {} {} {}", k, fx(eps), fx(delta)));
        let t: Vec<&str> = a.split_whitespace().collect();
        if t.len() == 3 && t[0] == "ok" {
            w = t[1].parse().unwrap();
            d = t[2].parse().unwrap();
            ctx.stat("heap.props", 1);
        } else {
            ctx.op(format!("heap.new 1 {} {} {}", k, w, d));
        }
    } else {
        ctx.op(format!("heap.new 1 {} {} {}", k, w, d));
    }
    ctx.stat(&format!("heap.sketch.{}", if w * d == 1 { "1x1" } else if w <= 3 { "tiny" } else if w <= 16 { "small" } else { "wide" }), 1);
    ctx.op("heap.empty 1".into());
    ctx.op("heap.iter 1".into());
    let alpha = *ctx.rng.pick(&[2u64, 4, 8, 30]);
    let nclass = ctx.rng.range(1, alpha);
    // the result is read after every add, or only now and then
    let iter_den = *ctx.rng.pick(&[1u64, 1, 1, 4, 25]);
    for t in 0..n {
        let id = if ctx.rng.chance(1, 2) { ctx.rng.below(alpha.min(3)) } else { ctx.rng.below(alpha) };
        let class = id % nclass;
        let cols: Vec<String> = crate::exec::heap_cols(w as usize, d as usize, class).iter().map(|c| c.to_string()).collect();
        if ctx.rng.chance(1, 15) {
            // a small batch through Extend
            let mut items = vec![format!("{}:{}:{}", id, class, cols.join(","))];
            // runs of equal items (first-seen elements while the heap has room, held ones, outsiders)
            for _ in 0..(if ctx.rng.chance(1, 2) { ctx.rng.below(5) } else { 0 }) {
                items.push(items[0].clone());
            }
            for _ in 0..ctx.rng.clone().below(3) {
                let id2 = ctx.rng.below(alpha);
                let c2 = id2 % nclass;
                let cc: Vec<String> = crate::exec::heap_cols(w as usize, d as usize, c2).iter().map(|c| c.to_string()).collect();
                items.push(format!("{}:{}:{}", id2, c2, cc.join(",")));
            }
            ctx.op(format!("heap.extend 1 {}", items.join(" ")));
        } else {
            ctx.op(format!("heap.add 1 {} {} {}", id, class, cols.join(" ")));
        }
        if ctx.rng.chance(1, iter_den) {
            ctx.op("heap.iter 1".into());
        }
        if t % 17 == 5 {
            ctx.op("heap.empty 1".into());
        }
        if ctx.rng.chance(1, 150) {
            ctx.op("heap.clone 1 2".into());
            let cols: Vec<String> = crate::exec::heap_cols(w as usize, d as usize, 77).iter().map(|c| c.to_string()).collect();
            ctx.op(format!("heap.add 2 9977 77 {}", cols.join(" ")));
            ctx.op("heap.iter 2".into());
            ctx.op("heap.iter 1".into());
        }
        if ctx.rng.chance(1, 300) {
            ctx.op("heap.clear 1".into());
            ctx.op("heap.iter 1".into());
            ctx.op("heap.empty 1".into());
        }
    }
    ctx.op("heap.iter 1".into());
    // blind stretches: a read, clear(), then exactly as many adds as before with no read in between,
    // then a read (anything memoised by the first read must be gone)
    if ctx.rng.chance(1, 2) {
        ctx.op(format!("heap.new 5 {} {} {}", k, w, d));
        let sl = ctx.rng.range(1, 9);
        for life in 0..3u64 {
            for _ in 0..sl {
                let id = 100 * (life + 1) + ctx.rng.below(alpha.min(4));
                let class = id % nclass;
                let cols: Vec<String> = crate::exec::heap_cols(w as usize, d as usize, class).iter().map(|c| c.to_string()).collect();
                ctx.op(format!("heap.add 5 {} {} {}", id, class, cols.join(" ")));
            }
            ctx.op("heap.iter 5".into());
            ctx.op("heap.empty 5".into());
            if life < 2 {
                ctx.op("heap.clear 5".into());
            }
        }
        ctx.stat("heap.blind", 1);
    }
    // clone_from into a heap with another k / sketch shape that holds other elements
    if ctx.rng.chance(1, 2) {
        let k2 = *ctx.rng.pick(&[k.saturating_add(2), (k / 2).max(1), 1, k, 9]);
        let (w2, d2) = *ctx.rng.pick(&[(w, d), (w + 1, d), (2, 2), (64, 3)]);
        ctx.op(format!("heap.new 7 {} {} {}", k2, w2, d2));
        for _ in 0..ctx.rng.clone().below(2 * k2.min(8) + 3) {
            let id = 500 + ctx.rng.below(6);
            let cols: Vec<String> = crate::exec::heap_cols(w2 as usize, d2 as usize, id % 3).iter().map(|c| c.to_string()).collect();
            ctx.op(format!("heap.add 7 {} {} {}", id, id % 3, cols.join(" ")));
        }
        let a = ctx.op("heap.clonefrom 7 1".into());
        if a == "ok" {
            ctx.stat("heap.clonefrom", 1);
            ctx.op("both heap.iter 7 1".into());
            ctx.op("both heap.empty 7 1".into());
            for _ in 0..(4 * k.min(8) + 8) {
                let id = if ctx.rng.chance(1, 3) { 900 + ctx.rng.below(2 * k.min(8) + 2) } else { ctx.rng.below(alpha) };
                let class = id % nclass;
                let cols: Vec<String> = crate::exec::heap_cols(w as usize, d as usize, class).iter().map(|c| c.to_string()).collect();
                ctx.op(format!("both heap.add 7 1 {} {} {}", id, class, cols.join(" ")));
                ctx.op("both heap.iter 7 1".into());
            }
        }
    }
    if ctx.rng.chance(1, 8) {
        ctx.op("heap.new 5 0 4 4".into());
    }
}

// ---------------------------------------------------------------------------------------------
/// Large, sparsely used tables (more than 2^16 and 2^17 positions): positions, slot numbers and column
/// indices must not be narrowed to 16 bits or to fewer words than the table has. `which` selects the
/// structure; instances 31-33.
pub fn big_table_case(ctx: &mut Ctx, which: &str) {
    let bh = ScriptBH { mul: ctx.rng.next() | 1, add: ctx.rng.next(), sh: 29, seed: ctx.rng.next() };
    ctx.hasher(bh);
    let keys: Vec<u64> = (0..40).map(|_| ctx.rng.next()).collect();
    let (newop, add, query, merge, len): (String, &str, &str, &str, Option<&str>) = match which {
        "bloom" => (format!("{} {}", *ctx.rng.pick(&[65_537u64, 70_001, 131_075, 1 << 17]), ctx.rng.range(1, 4)), "bloom.insert", "bloom.query", "bloom.union", Some("bloom.len")),
        "cms" => (format!("u32 {} {}", *ctx.rng.pick(&[65_537u64, 70_001, 131_075]), ctx.rng.range(1, 3)), "cms.add", "cms.query", "cms.merge", None),
        "qf" => (format!("{} {}", *ctx.rng.pick(&[16u64, 17]), ctx.rng.range(2, 9)), "qf.insert", "qf.query", "qf.union", Some("qf.len")),
        _ => (String::new(), "cuckoo.insert", "cuckoo.query", "cuckoo.union", Some("cuckoo.len")),
    };
    for id in 31..=33 {
        if which == "cuckoo" {
            let c = CuckooCfg { bs: 4, nb: 1 << 15, lf: *ctx.rng.clone().pick(&[8u64, 9, 16]) };
            ctx.op(format!("cuckoo.new {} {} {} {} {}", id, 7 + id, c.bs, c.nb, c.lf));
        } else {
            ctx.op(format!("{}.new {} {}", which, id, newop));
        }
    }
    for (i, k) in keys.iter().enumerate() {
        let id = if i % 3 == 0 { 32 } else { 31 };
        ctx.op(format!("{} {} {}", add, id, k));
        ctx.op(format!("{} 33 {}", add, k));
    }
    ctx.op(format!("{} 31 32", merge));
    for k in keys.iter() {
        ctx.op(format!("both {} 31 33 {}", query, k));
    }
    for _ in 0..40 {
        ctx.op(format!("both {} 31 33 {}", query, ctx.rng.clone().next()));
        ctx.rng.next();
    }
    if let Some(l) = len {
        ctx.op(format!("both {} 31 33", l));
    }
    ctx.op(format!("{}.clear 31", which));
    ctx.op(format!("{} 31 {}", query, keys[0]));
    ctx.op(format!("{} 31 {}", add, keys[1]));
    ctx.op(format!("{} 31 {}", query, keys[1]));
    ctx.stat(&format!("bigtable.{}", which), 1);
}

// ---------------------------------------------------------------------------------------------
pub fn td_history(ctx: &mut Ctx, n: u64) {
    td_history_shaped(ctx, n, None)
}

/// `force_atom`: Some(true/false) = a heavy weighted atom exactly at max() / min() (shape 6)
pub fn td_history_shaped(ctx: &mut Ctx, n: u64, force_atom: Option<bool>) {
    let scale = ctx.rng.below(4);
    let delta = if force_atom.is_some() { *ctx.rng.pick(&[10.0f64, 30.0, 100.0, 1000.0]) } else { *ctx.rng.pick(&[1.1f64, 2.0, 4.0, 10.0, 100.0, 1000.0]) };
    // (rarely) a backlog bound at the top of the usize range: "compress on reads only"
    let bl = if ctx.rng.chance(1, 25) { *ctx.rng.pick(&[u64::MAX, 1u64 << 62, (1u64 << 63) + 5]) } else { *ctx.rng.pick(&[0u64, 1, 5, 10, 100]) };
    ctx.stat(&format!("td.scale.{}", scale), 1);
    ctx.op(format!("td.new 1 {} {} {}", scale, fx(delta), bl));
    ctx.op("td.getters 1".into());
    ctx.op("td.empty 1".into());
    ctx.op(format!("td.quantile 1 {}", fx(0.5)));
    ctx.op(format!("td.cdf 1 {}", fx(0.0)));
    // every legal argument on the empty digest (cdf only rejects NaN)
    for x in [f64::INFINITY, f64::NEG_INFINITY, f64::MAX, f64::MIN, -0.0, 5e-324] {
        ctx.op(format!("td.cdf 1 {}", fx(x)));
    }
    for q in [0.0, 1.0, -0.0] {
        ctx.op(format!("td.quantile 1 {}", fx(q)));
    }
    let shape = if force_atom.is_some() { 6 } else { ctx.rng.below(8) };
    let near = *ctx.rng.pick(&[0.1f64, 0.3, 1e-3, 7.7, 123.456, 1e10 / 3.0]);
    let weighted = if force_atom.is_some() { true } else if shape == 6 { ctx.rng.chance(2, 3) } else { ctx.rng.chance(1, 3) };
    // shape 6: a heavy atom sitting exactly at max() (or min()), spread over several centroids
    let atom_at_max = force_atom.unwrap_or(ctx.rng.chance(1, 2));
    let atom_w = *ctx.rng.pick(&[3.0f64, 3.0, 7.0, 0.3, 0.7]);
    ctx.stat(&format!("td.shape.{}", shape), 1);
    // whole history scaled to a tiny / huge weight unit (positive weights far below f64::EPSILON)
    let wunit = if weighted && force_atom.is_none() && ctx.rng.chance(1, 3) { *ctx.rng.pick(&[1e-30f64, 1e-18, 1e6]) } else { 1.0 };
    // how often the history is read: from every third insert to (almost) never before the end
    let read_den = *ctx.rng.pick(&[3u64, 12, 12, 60, 1_000_000]);
    let frac_only = weighted && force_atom.is_none() && ctx.rng.chance(1, 4);
    if frac_only {
        ctx.stat("td.weights.frac_only", 1);
    }
    let mut inserted: Vec<f64> = vec![];
    for t in 0..n {
        let x = match shape {
            0 => t as f64,
            1 => (n - t) as f64,
            2 => ctx.rng.below(5) as f64,                      // heavy ties
            // non-negative data with a share of negative zeros (-0.0 == 0.0, but its bit pattern is the largest)
            7 => if ctx.rng.chance(1, 3) { -0.0 } else if ctx.rng.chance(1, 4) { 0.0 } else { ctx.rng.f01() * 3.0 },
            3 => (ctx.rng.f01() * 12.0).exp() * if ctx.rng.chance(1, 2) { 1.0 } else { -1.0 }, // heavy tails
            // (almost) equal values: sum/count rounding puts centroid means an ulp outside [min, max]
            5 => near * (1.0 + *ctx.rng.pick(&[0.0, 0.0, 0.0, 1e-16, 2.3e-16, -1.2e-16, 1e-3])),
            6 => {
                if ctx.rng.chance(1, 2) {
                    near
                } else if atom_at_max {
                    near * ctx.rng.f01() * 0.999
                } else {
                    near * (1.001 + ctx.rng.f01())
                }
            }
            _ => (ctx.rng.f01() + ctx.rng.f01() + ctx.rng.f01() - 1.5) * 100.0,
        };
        if weighted {
            let w = match ctx.rng.below(9) {
                0 => if ctx.rng.chance(1, 3) { -0.0 } else { 0.0 },
                1 => 0.5,
                2 => 3.0,
                3 => 1e-6,
                4 => 1e6,
                5 => 0.1,
                6 => 0.3,
                7 => 1e-20,
                _ => 1.0,
            };
            // histories in which every weight is below 1 (K2/K3 must count samples, not weight)
            let w = if frac_only && w >= 1.0 { *ctx.rng.pick(&[0.5f64, 0.25, 0.999, 0.125]) } else { w };
            // the dedicated atom cases keep the other weights moderate, so that the oracle's rounding allowance
            // (proportional to total weight / smallest weight) stays far below the weight of one atom centroid
            let w = if force_atom.is_some() && (w > 10.0 || (w > 0.0 && w < 0.05)) { 1.0 } else { w };
            let w = if shape == 6 && x == near { atom_w } else { w };
            let w = w * wunit;
            ctx.op(format!("td.insertw 1 {} {}", fx(x), fx(w)));
            if ctx.rng.chance(1, 10) {
                ctx.op("td.empty 1".into());
                ctx.op("td.min 1".into());
                ctx.op("td.max 1".into());
            }
            if w > 0.0 {
                inserted.push(x);
            }
        } else {
            ctx.op(format!("td.insert 1 {}", fx(x)));
            inserted.push(x);
        }
        if ctx.rng.chance(1, 25) && !inserted.is_empty() {
            // first read after some inserts is an out-of-range cdf (data possibly still in the backlog)
            let (lo, hi) = inserted.iter().fold((f64::INFINITY, f64::NEG_INFINITY), |(a, b), x| (a.min(*x), b.max(*x)));
            let x = if ctx.rng.chance(1, 2) { hi + hi.abs() * 0.5 + 1.0 } else { lo - lo.abs() * 0.5 - 1.0 };
            ctx.op(format!("td.cdf 1 {}", fx(x)));
            if ctx.rng.chance(1, 2) {
                ctx.op(format!("td.cdf 1 {}", fx(f64::INFINITY)));
            }
        }
        if ctx.rng.chance(1, read_den) || t + 1 == n {
            // a read somewhere in the history
            match ctx.rng.below(8) {
                0 => ctx.op("td.count 1".into()),
                1 => ctx.op("td.sum 1".into()),
                2 => ctx.op("td.mean 1".into()),
                3 => ctx.op("td.ncent 1".into()),
                4 => ctx.op("td.min 1".into()),
                5 => ctx.op("td.max 1".into()),
                6 => ctx.op(format!("td.quantile 1 {}", fx(ctx.rng.clone().f01()))),
                _ => {
                    let x = if inserted.is_empty() { 0.0 } else { *ctx.rng.clone().pick(&inserted) };
                    ctx.op(format!("td.cdf 1 {}", fx(x)))
                }
            };
        }
    }
    // full observation
    for op in ["td.count 1", "td.sum 1", "td.mean 1", "td.min 1", "td.max 1", "td.ncent 1", "td.empty 1"] {
        ctx.op(op.into());
    }
    for i in 0..=16 {
        let a = ctx.op(format!("td.quantile 1 {}", fx(i as f64 / 16.0)));
        // mutual consistency: cdf at the value quantile just returned
        if a.starts_with("f:") && !a.starts_with("f:7ff") && !a.starts_with("f:fff") {
            ctx.op(format!("td.cdf 1 {}", &a[2..]));
        }
    }
    for _ in 0..6 {
        let q = ctx.rng.f01();
        let q = if ctx.rng.chance(1, 3) { q * 0.02 } else if ctx.rng.chance(1, 2) { 1.0 - q * 0.02 } else { q };
        let a = ctx.op(format!("td.quantile 1 {}", fx(q)));
        if a.starts_with("f:") && !a.starts_with("f:7ff") && !a.starts_with("f:fff") {
            ctx.op(format!("td.cdf 1 {}", &a[2..]));
        }
    }
    if !inserted.is_empty() {
        let (lo, hi) = inserted.iter().fold((f64::INFINITY, f64::NEG_INFINITY), |(a, b), x| (a.min(*x), b.max(*x)));
        for i in -1..=9 {
            let x = lo + (hi - lo) * (i as f64) / 8.0;
            ctx.op(format!("td.cdf 1 {}", fx(x)));
        }
        for _ in 0..4 {
            let x = *ctx.rng.pick(&inserted);
            ctx.op(format!("td.cdf 1 {}", fx(x)));
        }
    }
    if ctx.rng.chance(1, 3) {
        ctx.op("td.clone 1 2".into());
        ctx.op(format!("td.insert 2 {}", fx(12345.0)));
        ctx.op("td.count 2".into());
        ctx.op("td.count 1".into());
        ctx.op("td.clear 1".into());
        ctx.op("td.empty 1".into());
        ctx.op(format!("td.quantile 1 {}", fx(0.5)));
        ctx.op(format!("td.cdf 1 {}", fx(1.0)));
        ctx.op(format!("td.cdf 1 {}", fx(f64::INFINITY)));
        ctx.op(format!("td.cdf 1 {}", fx(f64::NEG_INFINITY)));
        ctx.op("td.count 1".into());
        ctx.op("td.mean 1".into());
        ctx.op("td.min 1".into());
        ctx.op("td.max 1".into());
        for i in 0..20 {
            ctx.op(format!("td.insert 1 {}", fx(i as f64 * 1.5)));
        }
        ctx.op("td.ncent 1".into());
        ctx.op(format!("td.quantile 1 {}", fx(0.3)));
    }
    // positive weights at the very bottom of the f64 range (subnormal, smallest normal): such an insert
    // is an insert -- is_empty, min, max and count see it -- whether it comes first or into a loaded digest
    if ctx.rng.chance(1, 3) {
        ctx.stat("td.weights.subnormal", 1);
        let w = *ctx.rng.pick(&[5e-324f64, 1e-310, 2.2250738585072014e-308, 1e-300]);
        ctx.op(format!("td.new 8 {} {} {}", scale, fx(delta), bl));
        ctx.op(format!("td.insertw 8 {} {}", fx(1000.0), fx(w)));
        for o in ["td.empty 8", "td.min 8", "td.max 8", "td.count 8"] {
            ctx.op(o.into());
        }
        ctx.op(format!("td.insert 8 {}", fx(3.0)));
        ctx.op(format!("td.insertw 8 {} {}", fx(-7.0), fx(w)));
        for o in ["td.empty 8", "td.min 8", "td.max 8", "td.count 8", "td.ncent 8"] {
            ctx.op(o.into());
        }
        // reads on a digest whose lowest centroid weighs a subnormal (half of it underflows to 0)
        ctx.op(format!("td.new 9 {} {} {}", scale, fx(delta), bl));
        ctx.op(format!("td.insertw 9 {} {}", fx(-2.0), fx(w)));
        ctx.op(format!("td.quantile 9 {}", fx(0.0)));
        ctx.op(format!("td.quantile 9 {}", fx(0.3)));
        ctx.op(format!("td.cdf 9 {}", fx(-2.0)));
        for x in [1.0, 2.0, 3.0, 4.0] {
            ctx.op(format!("td.insert 9 {}", fx(x)));
        }
        for q in [0.0, 1e-300, 0.5, 1.0] {
            ctx.op(format!("td.quantile 9 {}", fx(q)));
        }
        ctx.op(format!("td.cdf 9 {}", fx(-2.0)));
        ctx.op(format!("td.cdf 9 {}", fx(0.0)));
        ctx.op(format!("td.insertw 1 {} {}", fx(1e9), fx(w)));
        for o in ["td.empty 1", "td.min 1", "td.max 1"] {
            ctx.op(o.into());
        }
    }
    // a finite insert whose product x*w overflows (sum() is +inf then, which is outside what C16 can
    // promise): its weight, its value and its presence still count (count / min / max / is_empty)
    if ctx.rng.chance(1, 4) {
        ctx.stat("td.product.overflow", 1);
        ctx.op(format!("td.new 10 {} {} {}", scale, fx(delta), bl));
        let (x, w) = *ctx.rng.pick(&[(1e308f64, 4.0f64), (1e200, 1e200), (f64::MAX, 2.0), (3e307, 7.0)]);
        ctx.op(format!("td.insertw 10 {} {}", fx(x), fx(w)));
        for o in ["td.empty 10", "td.count 10", "td.min 10", "td.max 10"] {
            ctx.op(o.into());
        }
        for t in 0..6 {
            ctx.op(format!("td.insertw 10 {} {}", fx(1.0 + t as f64), fx(if t % 2 == 0 { 1.0 } else { 2.5 })));
        }
        for o in ["td.count 10", "td.min 10", "td.max 10", "td.empty 10", "td.ncent 10"] {
            ctx.op(o.into());
        }
    }
    // clone_from into a digest with another compression / backlog size / sample count whose
    // backlog is not empty (fewer inserts than its backlog size and no read since)
    if ctx.rng.chance(1, 2) {
        let scale2 = if ctx.rng.chance(3, 4) { scale } else { ctx.rng.below(4) };
        let delta2 = *ctx.rng.pick(&[delta, 2.0 * delta + 1.0, 1.5, 1000.0, 500.0]);
        let bl2 = *ctx.rng.pick(&[bl, 0, 3, 50]);
        ctx.op(format!("td.new 7 {} {} {}", scale2, fx(delta2), bl2));
        for t in 0..ctx.rng.clone().below(4) {
            ctx.op(format!("td.insertw 7 {} {}", fx(-50.0 - t as f64), fx(if t == 0 { 7.0 } else { 1.0 })));
        }
        let a = ctx.op("td.clonefrom 7 1".into());
        if a == "ok" {
            ctx.stat("td.clonefrom", 1);
            ctx.op("both td.getters 7 1".into());
            for o in ["td.count", "td.sum", "td.min", "td.max", "td.ncent", "td.empty"] {
                ctx.op(format!("both {} 7 1", o));
            }
            for t in 0..ctx.rng.clone().range(3, 60) {
                let x = (ctx.rng.f01() - 0.3) * 1000.0 * (1.0 + t as f64);
                ctx.op(format!("both td.insert 7 1 {}", fx(x)));
            }
            for o in ["td.count", "td.sum", "td.min", "td.max", "td.ncent"] {
                ctx.op(format!("both {} 7 1", o));
            }
            for i in 0..=4 {
                ctx.op(format!("both td.quantile 7 1 {}", fx(i as f64 / 4.0)));
            }
        }
    }
    if ctx.rng.chance(1, 6) {
        ctx.op(format!("td.new 5 0 {} 3", fx(1.0)));
        ctx.op(format!("td.new 5 2 {} 3", fx(f64::INFINITY)));
        ctx.op(format!("td.new 6 1 {} 3", fx(3.0)));
        ctx.op(format!("td.insert 6 {}", fx(f64::NAN)));
        ctx.op(format!("td.new 6 1 {} 3", fx(3.0)));
        ctx.op(format!("td.insertw 6 {} {}", fx(1.0), fx(-1.0)));
        ctx.op(format!("td.new 6 1 {} 3", fx(3.0)));
        ctx.op(format!("td.insert 6 {}", fx(1.0)));
        ctx.op(format!("td.quantile 6 {}", fx(1.5)));
    }
}
