//! Property-specific generators. Comparisons between two instances (merged vs reference, before
//! vs after a failed op, cleared vs fresh, clone vs original) are expressed with `both` lines so
//! that the expectation travels inside the ops file (replayable, shrinkable).
use super::structs::*;
use super::Ctx;
use crate::script::ScriptBH;

/// Bloom unions whose other operand holds one or two elements in a tiny filter (few set bits,
/// probe positions often coincide): the union must still transfer them.
pub fn bloom_sparse_unions(ctx: &mut Ctx, ncases: u64) {
    for _ in 0..ncases {
        ctx.case("bloom.sparse-union");
        let bh = ctx.rand_hasher();
        ctx.hasher(bh);
        let m = ctx.rng.range(4, 40);
        let k = ctx.rng.range(2, 8);
        for id in 1..=3 {
            ctx.op(format!("bloom.new {} {} {}", id, m, k));
        }
        let na = ctx.rng.below(4);
        let mut a_keys = vec![];
        for _ in 0..na {
            let x = ctx.rng.below(50);
            a_keys.push(x);
            ctx.op(format!("bloom.insert 1 {}", x));
            ctx.op(format!("bloom.insert 3 {}", x));
        }
        let nb = ctx.rng.range(1, 2);
        let mut b_keys = vec![];
        for _ in 0..nb {
            let x = ctx.rng.below(50);
            b_keys.push(x);
            ctx.op(format!("bloom.insert 2 {}", x));
            ctx.op(format!("bloom.insert 3 {}", x));
        }
        ctx.op("bloom.len 2".into());
        ctx.op("bloom.union 1 2".into());
        for x in a_keys.iter().chain(b_keys.iter()) {
            ctx.op(format!("bloom.query 1 {}", x));
        }
        for x in 0..50 {
            ctx.op(format!("both bloom.query 1 3 {}", x));
        }
        ctx.op("both bloom.len 1 3".into());
        ctx.op("both bloom.empty 1 3".into());
    }
}

pub fn gen_c01(ctx: &mut Ctx) {
    for w in ["bloom", "cuckoo", "qf"] {
        ctx.case("bigtable");
        crate::gen::structs::big_table_case(ctx, w);
    }
    bloom_sparse_unions(ctx, 60 * ctx.tier_scale);
    gen_c06_cuckoo_sparse(ctx, 20 * ctx.tier_scale);
    cuckoo_boundary_fingerprints(ctx);
    for _ in 0..(12 * ctx.tier_scale) {
        ctx.case("bloom");
        bloom_history(ctx, 150);
        ctx.case("cuckoo");
        cuckoo_history(ctx, 200);
        ctx.case("qf");
        qf_history(ctx, 150);
        ctx.case("set");
        set_history(ctx, 60);
    }
}

pub fn gen_c02(ctx: &mut Ctx) {
    ctx.case("bigtable");
    crate::gen::structs::big_table_case(ctx, "cms");
    for _ in 0..(40 * ctx.tier_scale) {
        ctx.case("cms");
        cms_history(ctx, 150);
    }
    // single distinct element on every counter type
    for ct in ["u8", "u16", "u32", "u64", "usize"] {
        ctx.case("cms.single");
        let bh = ctx.rand_hasher();
        ctx.hasher(bh);
        let (w, d) = (ctx.rng.range(1, 5), ctx.rng.range(1, 5));
        ctx.op(format!("cms.new 1 {} {} {}", ct, w, d));
        let key = ctx.rng.next();
        for _ in 0..20 {
            let n = ctx.rng.range(1, 6);
            ctx.op(format!("cms.addn 1 {} {}", key, n));
            ctx.op(format!("cms.query 1 {}", key));
        }
    }
}

// --------------------------------------------------------------------------------------------
struct Fam {
    name: &'static str,
    add: &'static str,      // op that feeds one key
    obs_key: &'static [&'static str], // per-key observations
    obs: &'static [&'static str],     // whole-instance observations
    merge: &'static str,
    set_like: bool,
    commutative: bool,
}
const FAMS: &[Fam] = &[
    Fam { name: "bloom", add: "bloom.insert", obs_key: &["bloom.query"], obs: &["bloom.len", "bloom.empty"], merge: "bloom.union", set_like: true, commutative: true },
    Fam { name: "cms", add: "cms.add", obs_key: &["cms.query"], obs: &["cms.empty"], merge: "cms.merge", set_like: false, commutative: true },
    Fam { name: "hll", add: "hll.add", obs_key: &[], obs: &["hll.regs", "hll.count", "hll.empty"], merge: "hll.merge", set_like: true, commutative: true },
    Fam { name: "qf", add: "qf.insert", obs_key: &["qf.query"], obs: &["qf.len", "qf.empty"], merge: "qf.union", set_like: true, commutative: true },
    Fam { name: "cuckoo", add: "cuckoo.insert", obs_key: &["cuckoo.query"], obs: &["cuckoo.len", "cuckoo.empty"], merge: "cuckoo.union", set_like: false, commutative: false },
];

fn fam_new(ctx: &mut Ctx, f: &Fam, id: u64, cfg: &[u64]) {
    match f.name {
        "bloom" => ctx.op(format!("bloom.new {} {} {}", id, cfg[0], cfg[1])),
        "cms" => ctx.op(format!("cms.new {} u32 {} {}", id, cfg[0], cfg[1])),
        "hll" => ctx.op(format!("hll.new {} {}", id, cfg[0])),
        "qf" => ctx.op(format!("qf.new {} {} {}", id, cfg[0], cfg[1])),
        _ => ctx.op(format!("cuckoo.new {} {} {} {} {}", id, 1000 + id, cfg[0], cfg[1], cfg[2])),
    };
}

fn fam_cfg(ctx: &mut Ctx, f: &Fam) -> (Vec<u64>, u64) {
    // (config, capacity hint)
    match f.name {
        "bloom" => {
            let m = ctx.rng.range(1, 96);
            (vec![m, ctx.rng.range(1, 5)], m)
        }
        "cms" => {
            let (w, d) = (ctx.rng.range(1, 8), ctx.rng.range(1, 5));
            (vec![w, d], w * d)
        }
        "hll" => {
            let b = if ctx.rng.chance(3, 4) { ctx.rng.range(4, 7) } else { ctx.rng.range(8, 18) };
            (vec![b], 1 << b)
        }
        "qf" => {
            // mostly tiny fingerprints (collisions); one in four with wide remainders (33..60 bits)
            let q = ctx.rng.range(1, 5);
            let r = if ctx.rng.chance(1, 4) { *ctx.rng.pick(&[33u64, 40, 58, 64 - q]) } else { ctx.rng.range(1, 6) };
            (vec![q, r], 1 << q)
        }
        _ => {
            let c = cuckoo_cfg(ctx);
            (vec![c.bs, c.nb, c.lf], c.bs * c.nb)
        }
    }
}

/// a configuration that shares a derived quantity with `cfg` (the same number of cells / slots / fingerprint
/// bits split differently, one dimension changed): what an allocation-reusing `clone_from` may confuse
fn fam_cfg_sibling(ctx: &mut Ctx, f: &Fam, cfg: &[u64]) -> Vec<u64> {
    match f.name {
        "bloom" => {
            if ctx.rng.chance(1, 2) { vec![cfg[0], cfg[1] % 5 + 1] } else { vec![cfg[0] + ctx.rng.range(1, 64), cfg[1]] }
        }
        "cms" => {
            let (w, d) = (cfg[0], cfg[1]);
            match ctx.rng.below(4) {
                0 | 1 if w != d => vec![d, w],
                2 => vec![w * d, 1],
                _ => if w % 2 == 0 { vec![w / 2, d * 2] } else { vec![w * 2, (d / 2).max(1)] },
            }
        }
        "hll" => vec![if cfg[0] >= 18 || (cfg[0] > 4 && ctx.rng.chance(1, 2)) { cfg[0] - 1 } else { cfg[0] + 1 }],
        "qf" => {
            let (q, r) = (cfg[0], cfg[1]);
            if r > 1 && ctx.rng.chance(1, 2) { vec![q + 1, r - 1] } else if q > 1 && q + r < 64 { vec![q - 1, r + 1] } else { vec![q, (r % 6) + 1] }
        }
        _ => {
            let (bs, nb, lf) = (cfg[0], cfg[1], cfg[2]);
            if nb >= 4 && ctx.rng.chance(1, 2) { vec![bs * 2, nb / 2, lf] } else { vec![bs, nb, *ctx.rng.pick(&[2u64, 5, 8, 13, 32])] }
        }
    }
}

/// feeds the keys; returns the keys whose insert/add succeeded (a failed insert is a no-op, C12)
fn feed_ok(ctx: &mut Ctx, f: &Fam, id: u64, keys: &[u64]) -> Vec<u64> {
    let mut okk = vec![];
    for k in keys {
        let a = ctx.op(format!("{} {} {}", f.add, id, k));
        if a != "full" && a != "panic" && a != "poisoned" {
            okk.push(*k);
        }
    }
    okk
}

fn feed(ctx: &mut Ctx, f: &Fam, id: u64, keys: &[u64]) -> bool {
    feed_ok(ctx, f, id, keys).len() == keys.len()
}

fn observe_both(ctx: &mut Ctx, f: &Fam, i: u64, j: u64, univ: &[u64]) {
    for o in f.obs {
        ctx.op(format!("both {} {} {}", o, i, j));
    }
    for o in f.obs_key {
        for k in univ {
            ctx.op(format!("both {} {} {} {}", o, i, j, k));
        }
    }
}

fn stream(ctx: &mut Ctx, univ: &[u64], n: u64) -> Vec<u64> {
    (0..n).map(|_| *ctx.rng.pick(univ)).collect()
}

/// quotient-filter unions whose other operand holds a cluster that starts exactly in the last
/// slot of the table (its followers wrap to slots 0, 1, ...), or runs that straddle the end
pub fn gen_c06_qf_lastslot(ctx: &mut Ctx, ncases: u64) {
    for c in 0..ncases {
        ctx.case("c06.qf.lastslot");
        ctx.hasher(ScriptBH::xor());
        let (q, r) = (ctx.rng.range(2, 4), if c % 3 == 2 { *ctx.rng.pick(&[33u64, 40, 58]) } else { ctx.rng.range(2, 4) });
        let n = 1u64 << q;
        for id in 1..=4 {
            ctx.op(format!("qf.new {} {} {}", id, q, r));
        }
        let mut univ = vec![];
        // B: a cluster starting at slot n-1 (c even) or n-2, with 2..4 fingerprints, plus a second run
        let start = if c % 2 == 0 { n - 1 } else { n - 2 };
        let mut sb = vec![];
        for i in 0..ctx.rng.clone().range(2, 4) {
            sb.push(qf_key(ctx, q, r, start, ((i + 1) | if r > 32 { 1u64 << (r - 1) } else { 0 }) % (1u64 << r)));
        }
        if ctx.rng.chance(1, 2) {
            sb.push(qf_key(ctx, q, r, 0, 1));
        }
        if ctx.rng.chance(1, 2) {
            sb.push(qf_key(ctx, q, r, (start + 1) % n, 2));
        }
        let mut sa = vec![];
        for _ in 0..ctx.rng.clone().below(3) {
            let quo = ctx.rng.below(n);
            sa.push(qf_key(ctx, q, r, quo, 3));
        }
        univ.extend(sa.iter().cloned());
        univ.extend(sb.iter().cloned());
        for quo in 0..n {
            univ.push(qf_key(ctx, q, r, quo, 0));
        }
        for k in &sa {
            ctx.op(format!("qf.insert 1 {}", k));
            ctx.op(format!("qf.insert 3 {}", k));
        }
        for k in &sb {
            ctx.op(format!("qf.insert 2 {}", k));
            ctx.op(format!("qf.insert 3 {}", k));
        }
        ctx.op("qf.clone 2 4".into());
        let a = ctx.op("qf.union 1 2".into());
        ctx.stat(&format!("c06.qf.lastslot.{}", a), 1);
        if a == "ok" {
            ctx.op("both qf.len 1 3".into());
            for k in &univ {
                ctx.op(format!("both qf.query 1 3 {}", k));
            }
            // merging twice changes nothing
            ctx.op("qf.union 1 2".into());
            ctx.op("both qf.len 1 3".into());
        }
        ctx.op("both qf.len 2 4".into());
        for k in &univ {
            ctx.op(format!("both qf.query 2 4 {}", k));
        }
    }
}

/// merges of sketches built by `with_registers_and_hash` from arbitrary bytes (a register is a plain u8:
/// foreign or deserialised sketches may hold any value): the result is the register-wise maximum, whatever
/// the values; commutative, idempotent
pub fn gen_c06_hll_bytes(ctx: &mut Ctx, ncases: u64) {
    for c in 0..ncases {
        ctx.case("c06.hll.bytes");
        let b = 4 + c % 3;
        let m = 1u64 << b;
        let mk = |ctx: &mut Ctx, mode: u64| -> Vec<u64> {
            (0..m).map(|_| match mode {
                0 => ctx.rng.below(256),
                1 => *ctx.rng.pick(&[0u64, 1, 61, 64, 127, 128, 129, 200, 255]),
                _ => if ctx.rng.chance(1, 4) { 128 + ctx.rng.below(128) } else { ctx.rng.below(20) },
            }).collect()
        };
        let (ma, mb) = (ctx.rng.below(3), ctx.rng.below(3));
        let ra = mk(ctx, ma);
        let rb = mk(ctx, mb);
        let rmax: Vec<u64> = ra.iter().zip(rb.iter()).map(|(x, y)| *x.max(y)).collect();
        let js = |v: &Vec<u64>| v.iter().map(|x| x.to_string()).collect::<Vec<_>>().join(" ");
        ctx.op(format!("hll.with 1 {} {}", b, js(&ra)));
        ctx.op(format!("hll.with 2 {} {}", b, js(&rb)));
        ctx.op(format!("hll.with 3 {} {}", b, js(&rmax))); // reference: register-wise max
        ctx.op(format!("hll.with 4 {} {}", b, js(&rb)));   // snapshot of B
        ctx.op(format!("hll.with 5 {} {}", b, js(&rb)));
        ctx.op("hll.merge 1 2".into());
        ctx.op("both hll.regs 1 3".into());
        ctx.op("both hll.count 1 3".into());
        ctx.op("both hll.regs 2 4".into());
        ctx.op("hll.eq 1 3".into());
        ctx.op(format!("hll.with 6 {} {}", b, js(&ra)));
        ctx.op("hll.merge 5 6".into()); // B.merge(A)
        ctx.op("both hll.regs 1 5".into());
        ctx.op("hll.merge 1 2".into()); // twice
        ctx.op("both hll.regs 1 3".into());
        ctx.op("hll.merge 1 1".into()); // with itself
        ctx.op("both hll.regs 1 3".into());
    }
}

pub fn gen_c06(ctx: &mut Ctx) {
    gen_c06_hll_bytes(ctx, 24 * ctx.tier_scale);
    gen_c06_cuckoo_loaded(ctx, 40 * ctx.tier_scale);
    gen_c06_cuckoo_sparse(ctx, 60 * ctx.tier_scale);
    gen_c06_qf_lastslot(ctx, 12 * ctx.tier_scale);
    bloom_sparse_unions(ctx, 60 * ctx.tier_scale);
    for round in 0..(16 * ctx.tier_scale) {
        for f in FAMS {
            ctx.case(&format!("c06.{}", f.name));
            let bh = ctx.rand_hasher();
            ctx.hasher(bh);
            let (cfg, cap) = fam_cfg(ctx, f);
            let nuniv = ctx.rng.range(2, 2 * cap.min(40) + 2);
            let keys = Keys::new(ctx, nuniv);
            // stream shapes: overlapping, disjoint, empty, near capacity
            let shape = round % 4;
            let na = match shape { 2 => 0, 3 => cap.min(60), _ => ctx.rng.below(cap.min(40) + 1) };
            let nb = match shape { 3 => ctx.rng.below(3), _ => ctx.rng.below(cap.min(40) + 1) };
            let (ua, ub): (Vec<u64>, Vec<u64>) = if shape == 1 {
                let h = keys.univ.len() / 2;
                (keys.univ[..h.max(1)].to_vec(), keys.univ[h.min(keys.univ.len() - 1)..].to_vec())
            } else {
                (keys.univ.clone(), keys.univ.clone())
            };
            let sa = stream(ctx, &ua, na);
            let sb = stream(ctx, &ub, nb);
            let sc = stream(ctx, &keys.univ, ctx.rng.clone().below(6));
            ctx.stat(&format!("c06.shape.{}", ["overlap", "disjoint", "emptyA", "nearcap"][shape as usize]), 1);
            for id in 1..=9 {
                fam_new(ctx, f, id, &cfg);
            }
            // 1 = A, 2 = B, 3 = reference (A then B), 4 = snapshot of B, 5 = B.merge(A)
            // failed inserts (cuckoo / quotient Full) are no-ops: the reference receives exactly the
            // keys that A and B accepted
            let sa = feed_ok(ctx, f, 1, &sa);
            let sb = feed_ok(ctx, f, 2, &sb);
            let mut ok = feed(ctx, f, 3, &sa);
            ok &= feed(ctx, f, 3, &sb);
            ok &= feed(ctx, f, 5, &sb);
            ok &= feed(ctx, f, 6, &sa);
            if !ok {
                // the reference itself ran out of room: nothing to compare against, but the union
                // must then not succeed with fewer elements than both streams hold
                ctx.stat("c06.reference.full", 1);
                ctx.op(format!("{} 1 2", f.merge));
                for o in f.obs {
                    ctx.op(format!("{} 1", o));
                }
                continue;
            }
            ctx.op(format!("{}.clone 2 4", f.name));
            let a = ctx.op(format!("{} 1 2", f.merge));
            if a != "ok" {
                ctx.stat(&format!("c06.{}.merge.{}", f.name, a), 1);
                continue;
            }
            ctx.stat(&format!("c06.{}.merge.ok", f.name), 1);
            observe_both(ctx, f, 1, 3, &keys.univ); // merged == processed both streams
            observe_both(ctx, f, 2, 4, &keys.univ); // B unchanged
            if f.commutative {
                let a = ctx.op(format!("{} 5 6", f.merge)); // B.merge(A)
                if a == "ok" {
                    observe_both(ctx, f, 1, 5, &keys.univ);
                }
                // associativity: (A+B)+C vs A+(B+C)
                feed(ctx, f, 7, &sc); // C
                feed(ctx, f, 8, &sb);
                feed(ctx, f, 9, &sa);
                let a1 = ctx.op(format!("{} 1 7", f.merge)); // (A+B)+C
                let a2 = ctx.op(format!("{} 8 7", f.merge)); // B+C
                let a3 = ctx.op(format!("{} 9 8", f.merge)); // A+(B+C)
                if a1 == "ok" && a2 == "ok" && a3 == "ok" {
                    observe_both(ctx, f, 1, 9, &keys.univ);
                }
            }
            if f.set_like {
                // merging with itself / twice changes nothing
                ctx.op(format!("{}.clone 3 6", f.name));
                ctx.op(format!("{} 3 3", f.merge));
                observe_both(ctx, f, 3, 6, &keys.univ);
                ctx.op(format!("{} 3 4", f.merge));
                ctx.op(format!("{} 3 4", f.merge));
                observe_both(ctx, f, 3, 6, &keys.univ);
            }
        }
    }
}

/// cuckoo unions into a well-filled receiver: transferred fingerprints meet full buckets, so the
/// alternate bucket computed from the slot position (`counter / bucketsize`) matters
pub fn gen_c06_cuckoo_loaded(ctx: &mut Ctx, ncases: u64) {
    let f = &FAMS[4];
    for _ in 0..ncases {
        ctx.case("c06.cuckoo.loaded");
        let bh = ctx.rand_hasher();
        ctx.hasher(bh);
        let c = CuckooCfg { bs: *ctx.rng.pick(&[2u64, 2, 3, 4]), nb: 1u64 << ctx.rng.range(1, 4), lf: *ctx.rng.pick(&[4u64, 8, 16, 64]) };
        let cap = c.bs * c.nb;
        let cfg = vec![c.bs, c.nb, c.lf];
        let keys = Keys::new(ctx, 4 * cap + 5);
        for id in 1..=4 {
            fam_new(ctx, f, id, &cfg);
        }
        let na = cap / 2 + ctx.rng.below(cap / 3 + 1);
        let nb = 1 + ctx.rng.below(cap / 3 + 1);
        let sa = stream(ctx, &keys.univ, na);
        let sb = stream(ctx, &keys.univ, nb);
        let sa = feed_ok(ctx, f, 1, &sa);
        let mut sb = feed_ok(ctx, f, 2, &sb);
        // B's own history may contain deletions (holes in front of stored fingerprints)
        if ctx.rng.chance(1, 2) {
            let nd = 1 + ctx.rng.below(sb.len() as u64 / 2 + 1);
            for _ in 0..nd {
                if sb.is_empty() {
                    break;
                }
                let idx = ctx.rng.below(sb.len() as u64) as usize;
                let a = ctx.op(format!("cuckoo.delete 2 {}", sb[idx]));
                if a == "true" {
                    sb.remove(idx);
                    ctx.stat("c06.cuckoo.loaded.deleted", 1);
                }
            }
            // and refills after the deletions
            if ctx.rng.chance(1, 2) {
                let ne = 1 + ctx.rng.below(3);
                let extra = stream(ctx, &keys.univ, ne);
                sb.extend(feed_ok(ctx, f, 2, &extra));
            }
        }
        let ok = feed(ctx, f, 3, &sa) && feed(ctx, f, 3, &sb);
        ctx.op("cuckoo.clone 2 4".into());
        let a = ctx.op("cuckoo.union 1 2".into());
        ctx.stat(&format!("c06.cuckoo.loaded.union.{}", a), 1);
        if a == "ok" && ok {
            ctx.stat("c06.cuckoo.loaded.compared", 1);
            observe_both(ctx, f, 1, 3, &keys.univ);
        }
        observe_both(ctx, f, 2, 4, &keys.univ);
    }
}

/// cuckoo unions of *sparse* filters whose fingerprint width does not divide 64: slots straddle the
/// 64-bit words of the packed table, and most words of `other` are zero (what a word-wise scan skips);
/// half of the cases use small fingerprint values (high bits zero) under the identity-like hasher
pub fn gen_c06_cuckoo_sparse(ctx: &mut Ctx, ncases: u64) {
    let f = &FAMS[4];
    for _ in 0..ncases {
        ctx.case("c06.cuckoo.sparse");
        let small = ctx.rng.chance(1, 2);
        let bh = if small { ScriptBH::xor() } else { ctx.rand_hasher() };
        ctx.hasher(bh);
        let lf = *ctx.rng.pick(&[3u64, 5, 7, 9, 11, 12, 13, 21, 33, 63]);
        let c = CuckooCfg { bs: *ctx.rng.pick(&[2u64, 3, 4, 5, 8]), nb: 1u64 << ctx.rng.range(1, 6), lf };
        let cfg = vec![c.bs, c.nb, c.lf];
        let fpmod = (1u64 << lf) - 1;
        let mut univ: Vec<u64> = vec![];
        // a third of the identity-hasher cases: fingerprints whose low bits are all zero (the part of a slot that
        // lies in the previous 64-bit word of the packed table is then zero although the slot is used)
        let lowzero = small && ctx.rng.chance(1, 2);
        for _ in 0..12 {
            univ.push(if lowzero {
                let z = ctx.rng.range(lf / 2, lf - 1);
                let hi = 1 + ctx.rng.below((1u64 << (lf - z)) - 1);
                ((hi << z) - 1).wrapping_add(fpmod.wrapping_mul(ctx.rng.below(4000)))
            } else if small { ctx.rng.below(4).wrapping_add(fpmod.wrapping_mul(ctx.rng.below(4000))) } else { ctx.rng.next() });
        }
        if lowzero {
            ctx.stat("c06.cuckoo.sparse.lowzero", 1);
        }
        for id in 1..=4 {
            fam_new(ctx, f, id, &cfg);
        }
        let sa = stream(ctx, &univ, ctx.rng.clone().below(3));
        let sb = stream(ctx, &univ, 1 + ctx.rng.clone().below(3));
        let sa = feed_ok(ctx, f, 1, &sa);
        let sb = feed_ok(ctx, f, 2, &sb);
        let ok = feed(ctx, f, 3, &sa) && feed(ctx, f, 3, &sb);
        ctx.op("cuckoo.clone 2 4".into());
        let a = ctx.op("cuckoo.union 1 2".into());
        if a == "ok" && ok {
            ctx.stat("c06.cuckoo.sparse.compared", 1);
            observe_both(ctx, f, 1, 3, &univ);
        }
        observe_both(ctx, f, 2, 4, &univ);
    }
}

// --------------------------------------------------------------------------------------------
/// observe instance i against its pre-operation snapshot j over the whole universe, including
/// (cuckoo) how often each element can still be deleted, which is done on clones
fn unchanged_check(ctx: &mut Ctx, st: &str, i: u64, j: u64, univ: &[u64]) {
    ctx.op(format!("both {}.len {} {}", st, i, j));
    ctx.op(format!("both {}.empty {} {}", st, i, j));
    for k in univ {
        ctx.op(format!("both {}.query {} {} {}", st, i, j, k));
    }
    if st == "cuckoo" {
        ctx.op(format!("cuckoo.clone {} 20", i));
        ctx.op(format!("cuckoo.clone {} 21", j));
        for k in univ.iter().take(24) {
            for _ in 0..3 {
                let a = ctx.op(format!("both cuckoo.delete 20 21 {}", k));
                if a.starts_with("false") {
                    break;
                }
            }
        }
        ctx.op("both cuckoo.len 20 21".into());
    }
}

/// A failing insert, then deletions, then further failing inserts / a failing union without any
/// successful insert in between: whatever a failed call leaves behind internally (an undo log,
/// scratch state) must not leak into the next failure's rollback.
/// A successful union (no successful insert afterwards) directly followed by a failing insert or union:
/// whatever the successful call left behind (an undo log, a backup, a cached flag) must not be replayed
/// by the failing one.  The table is filled to the first failure, some elements are deleted, a union
/// with a filter holding at most that many elements refills it, and the next call fails.
fn c12_success_then_fail(ctx: &mut Ctx, round: u64) {
    ctx.case("c12.cuckoo.okfail");
    let bh = ctx.rand_hasher();
    ctx.hasher(bh);
    let c = match round % 3 {
        0 => CuckooCfg { bs: *ctx.rng.pick(&[2u64, 4]), nb: *ctx.rng.pick(&[2u64, 4]), lf: *ctx.rng.pick(&[3u64, 8, 16]) },
        _ => cuckoo_cfg(ctx),
    };
    let cap = c.bs * c.nb;
    cuckoo_new(ctx, 1, &c);
    cuckoo_new(ctx, 2, &c);
    cuckoo_new(ctx, 3, &c);
    let keys = Keys::new(ctx, 4 * cap + 6);
    let mut held: Vec<u64> = vec![];
    let mut guard = 0;
    let mut failed = false;
    while guard < 8 * cap + 40 {
        guard += 1;
        let k = keys.pick(ctx);
        let a = ctx.op(format!("cuckoo.insert 1 {}", k));
        if a == "true" {
            held.push(k);
        } else if a == "full" {
            failed = true;
            break;
        }
    }
    if failed && !held.is_empty() {
        for _step in 0..3 {
            let nd = ctx.rng.range(1, 3.min(held.len() as u64).max(1));
            let mut dels = 0;
            for _ in 0..nd {
                if held.is_empty() {
                    break;
                }
                let idx = ctx.rng.below(held.len() as u64) as usize;
                if ctx.op(format!("cuckoo.delete 1 {}", held[idx])) == "true" {
                    held.remove(idx);
                    dels += 1;
                }
            }
            // B holds at most `dels` elements, so the union has room
            ctx.op("cuckoo.clear 2".into());
            let mut inb = vec![];
            for _ in 0..dels {
                let kk = keys.pick(ctx);
                if ctx.op(format!("cuckoo.insert 2 {}", kk)) == "true" {
                    inb.push(kk);
                }
            }
            let a = ctx.op("cuckoo.union 1 2".into());
            if a != "ok" {
                continue;
            }
            held.extend(inb);
            ctx.stat("c12.okfail.union.ok", 1);
            // directly afterwards: calls that fail (an insert of a fresh key, or a union with a loaded filter)
            for _try in 0..4 {
                ctx.op("cuckoo.clone 1 9".into());
                let a = if ctx.rng.chance(1, 3) {
                    for _ in 0..(cap / 2 + 1) {
                        let kk = keys.pick(ctx);
                        ctx.op(format!("cuckoo.insert 3 {}", kk));
                    }
                    ctx.op("cuckoo.union 1 3".into())
                } else {
                    let kk = keys.pick(ctx);
                    let a = ctx.op(format!("cuckoo.insert 1 {}", kk));
                    if a == "true" {
                        held.push(kk);
                    }
                    a
                };
                if a == "full" {
                    ctx.stat("c12.okfail.then.full", 1);
                    unchanged_check(ctx, "cuckoo", 1, 9, &keys.univ);
                    break;
                } else {
                    break; // a success ends the stretch this case is about
                }
            }
        }
    }
    // quotient filter: union that exactly fills the table, then a failing insert / union
    ctx.case("c12.qf.okfail");
    ctx.hasher(ScriptBH::xor());
    let (q, r) = (ctx.rng.range(1, 4), ctx.rng.range(1, 5));
    let cap = 1u64 << q;
    for i in 1..=3 {
        ctx.op(format!("qf.new {} {} {}", i, q, r));
    }
    let mut univ = vec![];
    for _ in 0..(3 * cap + 3) {
        let quo = ctx.rng.below(cap);
        let rem = ctx.rng.below(1u64 << r.min(3));
        univ.push(qf_key(ctx, q, r, quo, rem));
    }
    let na = ctx.rng.below(cap);
    for _ in 0..na {
        let k = *ctx.rng.pick(&univ);
        ctx.op(format!("qf.insert 1 {}", k));
    }
    // B = enough further classes to fill A up
    let mut guard = 0;
    loop {
        guard += 1;
        let la: u64 = ctx.op("qf.len 1".into()).parse().unwrap_or(cap);
        ctx.op("qf.clone 1 4".into());
        let u = ctx.op("qf.union 4 2".into());
        let l4: u64 = ctx.op("qf.len 4".into()).parse().unwrap_or(cap);
        if u != "ok" || l4 >= cap || guard > 6 * cap || la >= cap {
            break;
        }
        let k = *ctx.rng.pick(&univ);
        ctx.op(format!("qf.insert 2 {}", k));
    }
    let a = ctx.op("qf.union 1 2".into());
    if a == "ok" {
        ctx.stat("c12.okfail.qf.union.ok", 1);
        for _try in 0..3 {
            ctx.op("qf.clone 1 9".into());
            let a = if ctx.rng.chance(1, 3) {
                for _ in 0..cap {
                    let k = *ctx.rng.pick(&univ);
                    ctx.op(format!("qf.insert 3 {}", k));
                }
                ctx.op("qf.union 1 3".into())
            } else {
                let k = *ctx.rng.pick(&univ);
                ctx.op(format!("qf.insert 1 {}", k))
            };
            if a == "full" {
                ctx.stat("c12.okfail.qf.then.full", 1);
                unchanged_check(ctx, "qf", 1, 9, &univ);
                break;
            }
        }
    }
}

fn c12_cuckoo_fail_delete_fail(ctx: &mut Ctx, round: u64) {
    ctx.case("c12.cuckoo.fdf");
    let bh = ctx.rand_hasher();
    ctx.hasher(bh);
    // small fingerprints and few buckets make the bucket graph fall apart into components, so
    // that inserts keep failing although slots are free elsewhere
    let c = match round % 3 {
        0 => CuckooCfg { bs: *ctx.rng.pick(&[2u64, 4]), nb: 2, lf: *ctx.rng.pick(&[2u64, 3, 8]) },
        1 => CuckooCfg { bs: 2, nb: *ctx.rng.pick(&[4u64, 8, 16]), lf: *ctx.rng.pick(&[2u64, 3, 8]) },
        _ => cuckoo_cfg(ctx),
    };
    let cap = c.bs * c.nb;
    cuckoo_new(ctx, 1, &c);
    cuckoo_new(ctx, 2, &c);
    let keys = Keys::new(ctx, 4 * cap + 6);
    let mut held: Vec<u64> = vec![];
    // fill until the first failure
    let mut guard = 0;
    let mut failed = false;
    while guard < 8 * cap + 40 {
        guard += 1;
        let k = keys.pick(ctx);
        ctx.op("cuckoo.clone 1 9".into());
        let a = ctx.op(format!("cuckoo.insert 1 {}", k));
        if a == "true" {
            held.push(k);
        } else if a == "full" {
            failed = true;
            unchanged_check(ctx, "cuckoo", 1, 9, &keys.univ);
            break;
        }
    }
    if !failed {
        return;
    }
    let nb_el = ctx.rng.range(cap / 2 + 1, cap + 2);
    for _ in 0..nb_el {
        let kk = keys.pick(ctx);
        ctx.op(format!("cuckoo.insert 2 {}", kk));
    }
    for _step in 0..6 {
        // deletions of held elements
        let nd = ctx.rng.range(1, 3);
        for _ in 0..nd {
            if held.is_empty() {
                break;
            }
            let idx = ctx.rng.below(held.len() as u64) as usize;
            let a = ctx.op(format!("cuckoo.delete 1 {}", held[idx]));
            if a == "true" {
                held.remove(idx);
            }
        }
        // failing calls: try keys until one fails (successes are kept, they belong to the history)
        let mut hit = false;
        if ctx.rng.chance(1, 3) {
            ctx.op("cuckoo.clone 1 9".into());
            let a = ctx.op("cuckoo.union 1 2".into());
            if a == "full" {
                hit = true;
                ctx.stat("c12.cuckoo.fdf.union.full", 1);
                unchanged_check(ctx, "cuckoo", 1, 9, &keys.univ);
            } else if a == "ok" {
                // everything B held is now in A as well (not tracked key by key)
                break;
            }
        }
        for _ in 0..(cap + 4) {
            if hit {
                break;
            }
            let k = keys.pick(ctx);
            ctx.op("cuckoo.clone 1 9".into());
            let a = ctx.op(format!("cuckoo.insert 1 {}", k));
            if a == "full" {
                hit = true;
                ctx.stat("c12.cuckoo.fdf.insert.full", 1);
                unchanged_check(ctx, "cuckoo", 1, 9, &keys.univ);
            } else if a == "true" {
                held.push(k);
            }
        }
    }
}

/// Boundary fingerprints: under the identity-like hasher the keys are the fingerprint hashes themselves —
/// 0, 1, both neighbours of 2^l − 1 and of its multiples, u64::MAX — for every fingerprint width incl. 64
/// (a fingerprint of 0 is the free-slot marker: such an element would be stored nowhere).
pub fn cuckoo_boundary_fingerprints(ctx: &mut Ctx) {
    for &lf in &[2u64, 3, 8, 16, 63, 64] {
        ctx.case("cuckoo.boundaryfp");
        ctx.hasher(ScriptBH::xor());
        let c = CuckooCfg { bs: *ctx.rng.pick(&[2u64, 4]), nb: *ctx.rng.pick(&[2u64, 4, 8]), lf };
        cuckoo_new(ctx, 1, &c);
        cuckoo_new(ctx, 2, &c);
        let xm = if lf == 64 { u64::MAX } else { (1u64 << lf) - 1 };
        let mut univ: Vec<u64> = vec![0, 1, xm - 1, xm, xm.wrapping_add(1), u64::MAX, u64::MAX - 1, xm.wrapping_mul(2), xm.wrapping_mul(2).wrapping_sub(1), 1u64 << 63];
        for _ in 0..6 {
            univ.push(ctx.rng.next());
        }
        for k in univ.clone() {
            let a = ctx.op(format!("cuckoo.insert 1 {}", k));
            if a == "true" {
                ctx.op(format!("cuckoo.query 1 {}", k));
            }
            ctx.op("cuckoo.len 1".into());
        }
        for k in &univ {
            ctx.op(format!("cuckoo.query 1 {}", k));
        }
        // fill the rest of the table, then everything accepted so far must still be found and deletable
        for _ in 0..(2 * c.bs * c.nb) {
            let k = *ctx.rng.pick(&univ);
            ctx.op(format!("cuckoo.insert 1 {}", k));
        }
        for k in &univ {
            ctx.op(format!("cuckoo.query 1 {}", k));
        }
        ctx.op("cuckoo.union 2 1".into());
        for k in &univ {
            ctx.op(format!("both cuckoo.query 1 2 {}", k));
        }
        ctx.op("both cuckoo.len 1 2".into());
        for k in &univ {
            ctx.op(format!("cuckoo.delete 1 {}", k));
            ctx.op(format!("cuckoo.query 1 {}", k));
        }
        ctx.op("cuckoo.len 1".into());
    }
}

/// Failing inserts into a table large enough that the eviction walk (500 kicks) ends on a slot it
/// has not visited before; every element accepted earlier must survive each rejected insert.
pub fn cuckoo_big_full(ctx: &mut Ctx, ncases: u64) {
    for _ in 0..ncases {
        ctx.case("cuckoo.big");
        let bh = ctx.rand_hasher();
        ctx.hasher(bh);
        let c = CuckooCfg { bs: *ctx.rng.pick(&[3u64, 4, 4]), nb: *ctx.rng.pick(&[32u64, 64]), lf: *ctx.rng.pick(&[12u64, 16, 24, 32]) };
        let cap = c.bs * c.nb;
        cuckoo_new(ctx, 1, &c);
        let mut held: Vec<u64> = vec![];
        let mut fulls = 0;
        let mut tries = 0;
        while fulls < 12 && tries < cap + 60 {
            tries += 1;
            let k = ctx.rng.next() >> 8;
            let a = ctx.op(format!("cuckoo.insert 1 {}", k));
            if a == "true" {
                held.push(k);
            } else if a == "full" {
                fulls += 1;
                ctx.stat("cuckoo.insert.full", 1);
                ctx.stat("cuckoo.big.insert.full", 1);
                ctx.op("cuckoo.len 1".into());
                ctx.op(format!("cuckoo.query 1 {}", k));
            }
        }
        for k in &held {
            ctx.op(format!("cuckoo.query 1 {}", k));
        }
        // every accepted element can be deleted exactly as often as it was accepted
        for k in &held {
            let a = ctx.op(format!("cuckoo.delete 1 {}", k));
            if a == "true" {
                ctx.stat("cuckoo.delete.true", 1);
            }
        }
        ctx.op("cuckoo.len 1".into());
        ctx.op("cuckoo.empty 1".into());
    }
}

pub fn gen_c12(ctx: &mut Ctx) {
    for round in 0..(30 * ctx.tier_scale) {
        // ---- cuckoo: failing inserts after evictions -------------------------------------
        ctx.case("c12.cuckoo.insert");
        let bh = ctx.rand_hasher();
        ctx.hasher(bh);
        let c = cuckoo_cfg(ctx);
        let cap = c.bs * c.nb;
        cuckoo_new(ctx, 1, &c);
        let keys = Keys::new(ctx, 3 * cap + 4);
        let mut fulls = 0;
        let mut tries = 0;
        while fulls < 3 && tries < 6 * cap + 40 {
            tries += 1;
            let k = keys.pick(ctx);
            ctx.op("cuckoo.clone 1 9".into());
            let a = ctx.op(format!("cuckoo.insert 1 {}", k));
            if a == "full" {
                fulls += 1;
                ctx.stat("c12.cuckoo.insert.full", 1);
                unchanged_check(ctx, "cuckoo", 1, 9, &keys.univ);
                // a later successful operation behaves as if the failed one had not happened
                let d = keys.pick(ctx);
                ctx.op(format!("both cuckoo.delete 1 9 {}", d));
                ctx.op(format!("both cuckoo.query 1 9 {}", d));
                ctx.op("both cuckoo.len 1 9".into());
            } else if ctx.rng.chance(1, 5) {
                let d = keys.pick(ctx);
                ctx.op(format!("cuckoo.delete 1 {}", d));
            }
        }
        // ---- cuckoo: failure, deletions, failure again (no successful insert in between) ---
        c12_cuckoo_fail_delete_fail(ctx, round);
        // ---- cuckoo / quotient: a SUCCESSFUL union (or delete, clear) directly followed by a failing call
        c12_success_then_fail(ctx, round);
        // ---- cuckoo: failing union at first / middle / last transferred fingerprint -------
        ctx.case("c12.cuckoo.union");
        let bh = ctx.rand_hasher();
        ctx.hasher(bh);
        let c = cuckoo_cfg(ctx);
        let cap = c.bs * c.nb;
        cuckoo_new(ctx, 1, &c);
        cuckoo_new(ctx, 2, &c);
        let keys = Keys::new(ctx, 3 * cap + 4);
        // fill A until `free` slots remain (roughly), B with `nb` elements
        let free = match round % 3 { 0 => 0, 1 => ctx.rng.below(cap / 2 + 1), _ => 1 };
        let mut n = 0;
        let mut guard = 0;
        while n + free < cap && guard < 10 * cap {
            guard += 1;
            let kk = keys.pick(ctx);
            let a = ctx.op(format!("cuckoo.insert 1 {}", kk));
            if a == "true" {
                n += 1;
            }
        }
        let nb_el = ctx.rng.range(1, cap);
        for _ in 0..nb_el {
            let kk = keys.pick(ctx);
            ctx.op(format!("cuckoo.insert 2 {}", kk));
        }
        ctx.op("cuckoo.clone 1 9".into());
        ctx.op("cuckoo.clone 2 8".into());
        let a = ctx.op("cuckoo.union 1 2".into());
        ctx.stat(&format!("c12.cuckoo.union.{}.free{}", a, match round % 3 { 0 => "0", 1 => "some", _ => "1" }), 1);
        if a == "full" {
            unchanged_check(ctx, "cuckoo", 1, 9, &keys.univ);
            let d = keys.pick(ctx);
            ctx.op(format!("both cuckoo.delete 1 9 {}", d));
            ctx.op("both cuckoo.len 1 9".into());
        }
        // the other operand is never modified
        unchanged_check(ctx, "cuckoo", 2, 8, &keys.univ);

        // ---- quotient filter ------------------------------------------------------------------
        ctx.case("c12.qf");
        ctx.hasher(ScriptBH::xor());
        let (q, r) = (ctx.rng.range(1, 4), ctx.rng.range(1, 5));
        let cap = 1u64 << q;
        ctx.op(format!("qf.new 1 {} {}", q, r));
        ctx.op(format!("qf.new 2 {} {}", q, r));
        let mut univ = vec![];
        for _ in 0..(3 * cap + 3) {
            let quo = ctx.rng.below(cap);
            let rem = ctx.rng.below(1u64 << r.min(3));
            univ.push(qf_key(ctx, q, r, quo, rem));
        }
        let mut guard = 0;
        let mut fulls = 0;
        while fulls < 2 && guard < 8 * cap + 20 {
            guard += 1;
            let k = *ctx.rng.pick(&univ);
            ctx.op("qf.clone 1 9".into());
            let a = ctx.op(format!("qf.insert 1 {}", k));
            if a == "full" {
                fulls += 1;
                ctx.stat("c12.qf.insert.full", 1);
                unchanged_check(ctx, "qf", 1, 9, &univ);
            }
        }
        // union that must fail part-way: B holds classes A lacks
        let nb_el = ctx.rng.range(1, cap);
        for _ in 0..nb_el {
            let k = *ctx.rng.pick(&univ);
            ctx.op(format!("qf.insert 2 {}", k));
        }
        if ctx.rng.chance(1, 2) {
            // make room in A first so that the failure happens at a later fingerprint
            ctx.op("qf.clear 1".into());
            let keep = ctx.rng.below(cap);
            for _ in 0..keep {
                let k = *ctx.rng.pick(&univ);
                ctx.op(format!("qf.insert 1 {}", k));
            }
        }
        ctx.op("qf.clone 1 9".into());
        ctx.op("qf.clone 2 8".into());
        let a = ctx.op("qf.union 1 2".into());
        ctx.stat(&format!("c12.qf.union.{}", a), 1);
        if a == "full" {
            unchanged_check(ctx, "qf", 1, 9, &univ);
            let k = *ctx.rng.pick(&univ);
            ctx.op(format!("both qf.insert 1 9 {}", k));
            ctx.op("both qf.len 1 9".into());
        }
        unchanged_check(ctx, "qf", 2, 8, &univ);

        // ---- quotient filter: the union exceeds the capacity by one or two classes, also for tables of
        // 128 and 256 slots (any "is there room" pre-check that rounds is off by exactly these) -----------
        if round % 5 == 0 {
            ctx.case("c12.qf.marginal");
            ctx.hasher(ScriptBH::xor());
            let q = *ctx.rng.pick(&[3u64, 5, 7, 7, 8]);
            let r = ctx.rng.range(2, 6);
            let cap = 1u64 << q;
            ctx.op(format!("qf.new 1 {} {}", q, r));
            ctx.op(format!("qf.new 2 {} {}", q, r));
            let over = ctx.rng.range(1, 2);
            let na = ctx.rng.range(cap / 4, cap - 1);
            let nbq = cap + over - na;
            // distinct classes: (quotient i, remainder 1) for A, (quotient i, remainder 2) for B
            let mut univ = vec![];
            for i in 0..na {
                let k = qf_key(ctx, q, r, i % cap, 1);
                univ.push(k);
                ctx.op(format!("qf.insert 1 {}", k));
            }
            for i in 0..nbq {
                let k = qf_key(ctx, q, r, (i * 3 + 1) % cap, 2);
                univ.push(k);
                ctx.op(format!("qf.insert 2 {}", k));
            }
            ctx.op("qf.clone 1 9".into());
            ctx.op("qf.clone 2 8".into());
            let a = ctx.op("qf.union 1 2".into());
            ctx.stat(&format!("c12.qf.marginal.{}.q{}", a, q), 1);
            let probe: Vec<u64> = univ.iter().cloned().step_by(((univ.len() / 48).max(1)) as usize).collect();
            if a == "full" {
                unchanged_check(ctx, "qf", 1, 9, &probe);
                let k = qf_key(ctx, q, r, 0, 3);
                ctx.op(format!("both qf.insert 1 9 {}", k));
                ctx.op("both qf.len 1 9".into());
            }
            unchanged_check(ctx, "qf", 2, 8, &probe);
        }
        // ---- quotient filter: operands with a shared ancestor ("clone, then diverge") -----------
        // every cluster head of B is already in A, the new fingerprints sit in shifted slots
        ctx.case("c12.qf.shared");
        ctx.hasher(ScriptBH::xor());
        let (q, r) = (ctx.rng.range(2, 4), ctx.rng.range(2, 5));
        let cap = 1u64 << q;
        ctx.op(format!("qf.new 1 {} {}", q, r));
        ctx.op(format!("qf.new 2 {} {}", q, r));
        let mut univ = vec![];
        let nbase = ctx.rng.range(1, cap / 2);
        let mut base_quos = vec![];
        for _ in 0..nbase {
            let quo = ctx.rng.below(cap);
            let k = qf_key(ctx, q, r, quo, 0);
            univ.push(k);
            base_quos.push(quo);
            ctx.op(format!("qf.insert 1 {}", k));
            ctx.op(format!("qf.insert 2 {}", k));
        }
        let nextra = ctx.rng.range(1, 3);
        for _ in 0..nextra {
            let quo = *ctx.rng.pick(&base_quos);
            let rem = ctx.rng.range(1, (1u64 << r) - 1);
            let k = qf_key(ctx, q, r, quo, rem);
            univ.push(k);
            ctx.op(format!("qf.insert 2 {}", k));
        }
        let free = ctx.rng.below(nextra + 1);
        let mut guard = 0;
        loop {
            guard += 1;
            let len: u64 = ctx.op("qf.len 1".into()).parse().unwrap_or(cap);
            if len + free >= cap || guard > 6 * cap {
                break;
            }
            let quo = ctx.rng.below(cap);
            let rem = ctx.rng.range(1, (1u64 << r) - 1);
            let k = qf_key(ctx, q, r, quo, rem);
            univ.push(k);
            ctx.op(format!("qf.insert 1 {}", k));
        }
        ctx.op("qf.clone 1 9".into());
        ctx.op("qf.clone 2 8".into());
        let a = ctx.op("qf.union 1 2".into());
        ctx.stat(&format!("c12.qf.shared.union.{}", a), 1);
        if a == "full" {
            unchanged_check(ctx, "qf", 1, 9, &univ);
            let quo = ctx.rng.below(cap);
            let k = qf_key(ctx, q, r, quo, 1);
            ctx.op(format!("both qf.insert 1 9 {}", k));
            ctx.op("both qf.len 1 9".into());
        }
        unchanged_check(ctx, "qf", 2, 8, &univ);
    }
    cuckoo_big_full(ctx, 2 * ctx.tier_scale);
}

pub fn gen_c13(ctx: &mut Ctx) {
    ctx.case("bigtable");
    crate::gen::structs::big_table_case(ctx, "qf");
    for _ in 0..(50 * ctx.tier_scale) {
        ctx.case("qf");
        qf_history(ctx, 220);
    }
    // exhaustive insertion orders for the tiniest tables: every sequence of length L over all
    // (quotient, remainder) pairs
    let configs: &[(u64, u64, usize)] = if ctx.tier_scale > 1 { &[(1, 1, 5), (1, 2, 4), (2, 1, 4), (2, 2, 3)] } else { &[(1, 1, 4), (2, 1, 3)] };
    for (q, r, len) in configs {
        let nfp = 1u64 << (q + r);
        let total = nfp.pow(*len as u32);
        for code in 0..total {
            ctx.case("qf.exhaustive");
            ctx.hasher(ScriptBH::xor());
            ctx.op(format!("qf.new 1 {} {}", q, r));
            let mut c = code;
            for _ in 0..*len {
                ctx.op(format!("qf.insert 1 {}", c % nfp));
                c /= nfp;
            }
            ctx.op("qf.len 1".into());
            for fp in 0..nfp {
                ctx.op(format!("qf.query 1 {}", fp));
            }
        }
    }
}

pub fn gen_c14(ctx: &mut Ctx) {
    ctx.case("bigtable");
    crate::gen::structs::big_table_case(ctx, "cuckoo");
    for _ in 0..(50 * ctx.tier_scale) {
        ctx.case("cuckoo");
        cuckoo_history(ctx, 260);
    }
    cuckoo_big_full(ctx, 4 * ctx.tier_scale);
    cuckoo_boundary_fingerprints(ctx);
    // unions of sparse filters whose fingerprint width does not divide 64 (slots straddle the words of the
    // packed table): the multiset of the receiver is the sum of both
    gen_c06_cuckoo_sparse(ctx, 30 * ctx.tier_scale);
}

/// one extreme RNG word (all ones / all zeros) at every possible call position of a short run
pub fn res_extreme_sweep(ctx: &mut Ctx) {
    for k in [1u64, 2, 3] {
        let n = 12 * k + 3;
        for word in [u64::MAX, 0u64] {
            for pos in 0..(n + 4) {
                ctx.case("res.sweep");
                let seed = 1000 + k;
                let mut sm = crate::script::SplitMix(seed ^ 0x55);
                let mut forced: Vec<String> = (0..pos).map(|_| sm.next().to_string()).collect();
                forced.push(word.to_string());
                ctx.op(format!("res.new 1 {} {} {}", k, seed, forced.join(" ")));
                for i in 0..n {
                    ctx.op(format!("res.add 1 {}", i));
                }
                ctx.op("res.get 1".into());
            }
        }
    }
}

/// enormous k: the stream never leaves the fill phase, and 4 * k must not overflow
pub fn res_huge_k(ctx: &mut Ctx) {
    for k in [1u64 << 62, (1u64 << 62) + 1, u64::MAX / 4 + 1, u64::MAX] {
        ctx.case("res.hugek");
        ctx.op(format!("res.new 1 {} 5", k));
        for i in 0..6 {
            ctx.op(format!("res.add 1 {}", i));
        }
        ctx.op("res.get 1".into());
        ctx.op("res.empty 1".into());
    }
}

pub fn gen_c18(ctx: &mut Ctx) {
    res_huge_k(ctx);
    for _ in 0..(120 * ctx.tier_scale) {
        ctx.case("res");
        res_history(ctx);
    }
    res_extreme_sweep(ctx);
}

/// Very long histories (more than 2^16 and 2^17 windows) with tiny widths, then newcomers: an
/// element that shows up twice inside one window must stay tracked, and one that becomes frequent
/// afterwards must be reported, however many windows have gone by.
pub fn lossy_long(ctx: &mut Ctx, ncases: u64) {
    for c in 0..ncases {
        ctx.case("lossy.long");
        let w = 1 + (c % 3);
        ctx.op(format!("lossy.neww 1 {}", w));
        ctx.op("lossy.getters 1".into());
        let windows = *ctx.rng.pick(&[65_540u64, 66_000, 131_080, 70_000]);
        let n0 = windows * w + ctx.rng.below(w);
        ctx.op(format!("lossy.addrep 1 7 {}", n0));
        ctx.op(format!("lossy.query 1 {}", fx(0.0)));
        // newcomers: pairs inside one window, singletons, and a burst
        for t in 0..(12 * w + 20) {
            let key = 1000 + (t / 2) % 5;
            ctx.op(format!("lossy.add 1 {}", key));
            if t % 3 == 0 {
                ctx.op(format!("lossy.query 1 {}", fx(0.0)));
            }
        }
        let burst = n0 + 50;
        ctx.op(format!("lossy.addrep 1 4242 {}", burst));
        ctx.op(format!("lossy.query 1 {}", fx(0.0)));
        ctx.op(format!("lossy.query 1 {}", fx(0.5)));
        ctx.op("lossy.n 1".into());
        ctx.stat("lossy.long", 1);
    }
}

/// Harmonic build-up: in window i of B, about width/(B-i+2) new elements with B-i+2 occurrences
/// each (all of them survive every prune), then a window of never-seen elements: the table grows
/// to about width*(H_B + 1) entries, close to its bound and far above 2*width, before the next prune.
pub fn lossy_harmonic(ctx: &mut Ctx, ncases: u64) {
    for c in 0..ncases {
        ctx.case("lossy.harmonic");
        let w = *ctx.rng.pick(&[12u64, 20, 30, 60]);
        let bwin = 4 + c % 3;
        ctx.op(format!("lossy.neww 1 {}", w));
        ctx.op("lossy.getters 1".into());
        let mut next_id = 1000u64;
        let mut t = 0u64;
        for i in 1..=bwin {
            let occ = bwin - i + 2;
            let m = (w - 1) / occ;
            let mut win: Vec<u64> = vec![];
            for _ in 0..m {
                for _ in 0..occ {
                    win.push(next_id);
                }
                next_id += 1;
            }
            // an element seen once per window (pruned each time), then singletons up to the window end
            win.push(7);
            while (win.len() as u64) < w {
                win.push(next_id);
                next_id += 1;
            }
            // interleave deterministically
            for j in (1..win.len()).rev() {
                let k = ctx.rng.below(j as u64 + 1) as usize;
                win.swap(j, k);
            }
            for x in win.iter().take(w as usize) {
                ctx.op(format!("lossy.add 1 {}", x));
                t += 1;
                if t % 7 == 0 {
                    ctx.op(format!("lossy.query 1 {}", fx(0.0)));
                }
            }
            ctx.op(format!("lossy.query 1 {}", fx(0.0)));
        }
        // the window of fresh elements, with a recurring element in between
        for j in 0..(2 * w) {
            let x = if j % 9 == 4 { 7 } else { next_id + j };
            ctx.op(format!("lossy.add 1 {}", x));
            if j % 5 == 0 {
                ctx.op(format!("lossy.query 1 {}", fx(0.0)));
                let thr = (ctx.rng.below(9) as f64) / 64.0;
                ctx.op(format!("lossy.query 1 {}", fx(thr)));
            }
        }
        ctx.op(format!("lossy.query 1 {}", fx(0.0)));
        ctx.op("lossy.n 1".into());
        ctx.stat("lossy.harmonic", 1);
    }
}

pub fn gen_c09(ctx: &mut Ctx) {
    for _ in 0..(60 * ctx.tier_scale) {
        ctx.case("lossy");
        lossy_history(ctx, 400);
    }
    lossy_harmonic(ctx, 6 * ctx.tier_scale.min(4));
    // width 1 (epsilon = 1): every add closes a window
    ctx.case("lossy.w1");
    ctx.op("lossy.neww 1 1".into());
    ctx.op("lossy.getters 1".into());
    for i in 0..12u64 {
        ctx.op(format!("lossy.add 1 {}", i % 3));
        ctx.op("lossy.n 1".into());
        ctx.op(format!("lossy.query 1 {}", fx(0.0)));
    }
    lossy_long(ctx, 3 * ctx.tier_scale.min(4));
}

/// collision-free sketches, tiny k, bursty streams over a tiny alphabet: elements are incremented
/// while held, evicted by a newcomer, and come back — the exact top-k clause (E = 0) applies
pub fn heap_bursty(ctx: &mut Ctx, ncases: u64) {
    for _ in 0..ncases {
        ctx.case("heap.bursty");
        let k = ctx.rng.range(1, 3);
        let (w, d) = (512u64, 4u64);
        ctx.op(format!("heap.new 1 {} {} {}", k, w, d));
        let alpha = k + ctx.rng.range(1, 3);
        let mut steps = 0;
        while steps < 60 {
            let id = ctx.rng.below(alpha);
            let burst = ctx.rng.range(1, 6);
            let cols: Vec<String> = crate::exec::heap_cols(w as usize, d as usize, id).iter().map(|c| c.to_string()).collect();
            for _ in 0..burst {
                ctx.op(format!("heap.add 1 {} {} {}", id, id, cols.join(" ")));
                ctx.op("heap.iter 1".into());
                steps += 1;
            }
        }
    }
}

/// small multi-row sketches, a few established heavy elements, then many first-seen newcomers:
/// a newcomer that shares only some of its cells with a heavy element must not enter with that
/// element's count
pub fn heap_newcomers(ctx: &mut Ctx, ncases: u64) {
    for _ in 0..ncases {
        ctx.case("heap.newcomers");
        let k = ctx.rng.range(1, 3);
        let (w, d) = (ctx.rng.range(4, 24), ctx.rng.range(2, 4));
        ctx.op(format!("heap.new 1 {} {} {}", k, w, d));
        let add = |ctx: &mut Ctx, id: u64| {
            let cols: Vec<String> = crate::exec::heap_cols(w as usize, d as usize, id).iter().map(|c| c.to_string()).collect();
            ctx.op(format!("heap.add 1 {} {} {}", id, id, cols.join(" ")));
            ctx.op("heap.iter 1".into());
        };
        let nheavy = k + 1;
        for h in 0..nheavy {
            for _ in 0..(4 + 5 * (nheavy - h)) {
                add(ctx, h);
            }
        }
        let base = 1000 + ctx.rng.below(1000);
        for j in 0..30 {
            add(ctx, base + j);
        }
    }
}

pub fn gen_c10(ctx: &mut Ctx) {
    heap_bursty(ctx, 60 * ctx.tier_scale);
    heap_newcomers(ctx, 60 * ctx.tier_scale);
    for _ in 0..(80 * ctx.tier_scale) {
        ctx.case("heap");
        heap_history(ctx, 120);
    }
    // the witness of the former debug_assert defect: 1x1 sketch, room in the heap, two elements
    ctx.case("heap.1x1");
    ctx.op("heap.new 1 3 1 1".into());
    ctx.op("heap.add 1 1 1 0".into());
    ctx.op("heap.add 1 2 2 0".into());
    ctx.op("heap.iter 1".into());
}

pub fn gen_td(ctx: &mut Ctx, n: u64) {
    for _ in 0..(40 * ctx.tier_scale) {
        ctx.case("td");
        td_history(ctx, n);
        // repeated reads return identical values
        for op in ["td.count 1", "td.sum 1", "td.ncent 1"] {
            ctx.op(op.into());
            ctx.op(op.into());
        }
        let q = fx(ctx.rng.f01());
        ctx.op(format!("td.quantile 1 {}", q));
        ctx.op(format!("td.quantile 1 {}", q));
    }    // a relatively weightless centroid (weight ratio below 2^-53) fused into a heavy one under
    // total fusion: its weight vanishes from count() in f64, its x*w must still reach sum()
    for c in 0..(8 * ctx.tier_scale.min(4)) {
        ctx.case("td.light");
        let scale = c % 4;
        let delta = *ctx.rng.pick(&[1.1f64, 1.5, 2.0]);
        let bl = *ctx.rng.pick(&[0u64, 1, 10]);
        ctx.op(format!("td.new 1 {} {} {}", scale, fx(delta), bl));
        let heavy_w = *ctx.rng.pick(&[1e6f64, 1e10, 1e12, 1.0]);
        let light_w = heavy_w * *ctx.rng.pick(&[1e-17f64, 1e-18, 1e-20, 3e-17]);
        let big_x = *ctx.rng.pick(&[1e6f64, 1e9, 1e12, -1e9]);
        let small_x = *ctx.rng.pick(&[1e-6f64, 1.0, -3.0]);
        let light_first = ctx.rng.chance(1, 3);
        let mut seq = vec![(small_x, heavy_w), (big_x, light_w)];
        if light_first {
            seq.swap(0, 1);
        }
        for r in 0..ctx.rng.clone().range(1, 3) {
            for (x, w) in &seq {
                ctx.op(format!("td.insertw 1 {} {}", fx(*x * (1.0 + r as f64 * 1e-3)), fx(*w)));
                if ctx.rng.chance(1, 3) {
                    ctx.op("td.sum 1".into());
                }
            }
        }
        for op in ["td.count 1", "td.sum 1", "td.mean 1", "td.min 1", "td.max 1", "td.ncent 1", "td.empty 1"] {
            ctx.op(op.into());
        }
        ctx.op(format!("td.quantile 1 {}", fx(0.5)));
    }
    // heavy weighted atoms exactly at max() / min(), spread over several centroids
    for c in 0..(10 * ctx.tier_scale.min(4)) {
        ctx.case("td.atom");
        td_history_shaped(ctx, n.min(200), Some(c % 2 == 0));
    }
}

// --------------------------------------------------------------------------------------------
pub fn gen_c19(ctx: &mut Ctx) {
    for w in ["bloom", "cms", "cuckoo", "qf"] {
        ctx.case("bigtable");
        crate::gen::structs::big_table_case(ctx, w);
    }
    for c in 0..(2 * ctx.tier_scale.min(4)) {
        ctx.case("c19.hll.saturated");
        let bh = ctx.rand_hasher();
        ctx.hasher(bh);
        crate::gen::hll::hll_saturated_lifecycle(ctx, 4 + c % 2);
    }
    for _ in 0..(8 * ctx.tier_scale) {
        // filters, cms, hll: history; clear vs fresh; clone independence
        for f in FAMS {
            ctx.case(&format!("c19.{}", f.name));
            let bh = ctx.rand_hasher();
            ctx.hasher(bh);
            let (cfg, cap) = fam_cfg(ctx, f);
            let keys = Keys::new(ctx, cap.min(30) + 3);
            fam_new(ctx, f, 1, &cfg);
            fam_new(ctx, f, 2, &cfg); // stays fresh
            let pre = stream(ctx, &keys.univ, ctx.rng.clone().below(3 * cap.min(40) + 2));
            feed(ctx, f, 1, &pre); // may include failed operations on cuckoo/qf
            // clone independence
            ctx.op(format!("{}.clone 1 3", f.name));
            ctx.op(format!("{}.clone 1 4", f.name)); // snapshot
            observe_both(ctx, f, 3, 4, &keys.univ);
            let more = stream(ctx, &keys.univ, 5);
            feed(ctx, f, 1, &more); // mutate the original
            observe_both(ctx, f, 3, 4, &keys.univ); // the copy is unaffected
            ctx.op(format!("{}.clone 1 5", f.name));
            feed(ctx, f, 3, &more); // mutate the copy
            ctx.op(format!("{}.clear 3", f.name));
            observe_both(ctx, f, 1, 5, &keys.univ); // the original is unaffected
            // a copy evolves exactly like the original under the same further operations
            // (clone() and clone_from() into an instance that already holds something else)
            ctx.op(format!("{}.clone 1 6", f.name));
            // the receiver of clone_from: another configuration (half of the time), another hasher
            let bh2 = if ctx.rng.chance(2, 3) { ctx.rand_hasher() } else { bh };
            ctx.hasher(bh2);
            let cfg2 = match ctx.rng.below(3) {
                0 => fam_cfg(ctx, f).0,
                1 => cfg.clone(),
                _ => {
                    ctx.stat("c19.clonefrom.sibling", 1);
                    fam_cfg_sibling(ctx, f, &cfg)
                }
            };
            fam_new(ctx, f, 7, &cfg2);
            ctx.hasher(bh);
            let other = stream(ctx, &keys.univ, 3);
            feed(ctx, f, 7, &other);
            ctx.op(format!("{}.clonefrom 7 1", f.name));
            observe_both(ctx, f, 1, 7, &keys.univ);
            let ncopy = if f.name == "cuckoo" { 4 } else { 8 };
            for _ in 0..ncopy {
                let k = keys.pick(ctx);
                ctx.op(format!("both {} 1 6 {}", f.add, k));
                ctx.op(format!("{} 7 {}", f.add, k));
            }
            observe_both(ctx, f, 1, 6, &keys.univ);
            observe_both(ctx, f, 1, 7, &keys.univ);
            // content that arrives only through merge/union counts as content (is_empty, ==)
            fam_new(ctx, f, 8, &cfg);
            ctx.op(format!("{}.empty 8", f.name));
            ctx.op(format!("{} 8 1", f.merge));
            ctx.op(format!("both {}.empty 8 1", f.name));
            if f.name == "hll" {
                ctx.op("hll.eq 8 1".into());
            }
            ctx.op(format!("{}.clear 8", f.name));
            ctx.op(format!("{}.empty 8", f.name));
            ctx.op(format!("{} 8 2", f.merge)); // merging a fresh one keeps it empty
            ctx.op(format!("{}.empty 8", f.name));
            ctx.op(format!("{} 8 1", f.merge));
            ctx.op(format!("both {}.empty 8 1", f.name));
            // clear vs fresh, then the same continuation on both
            ctx.op(format!("{}.clear 1", f.name));
            observe_both(ctx, f, 1, 2, &keys.univ);
            // a single element after clear: not empty any more (also when its probe positions coincide)
            for _ in 0..12 {
                let k1 = keys.pick(ctx);
                ctx.op(format!("both {} 1 2 {}", f.add, k1));
                ctx.op(format!("both {}.empty 1 2", f.name));
                ctx.op(format!("{}.clear 1", f.name));
                ctx.op(format!("{}.clear 2", f.name));
                ctx.op(format!("both {}.empty 1 2", f.name));
            }
            // cuckoo: keep the continuation below `bucketsize` inserts so that no eviction
            // (hence no RNG draw, whose stream position legitimately differs) is involved
            let ncont = if f.name == "cuckoo" { cfg[0] - 1 } else { ctx.rng.below(2 * cap.min(30) + 2) };
            for _ in 0..ncont {
                let k = keys.pick(ctx);
                ctx.op(format!("both {} 1 2 {}", f.add, k));
                if ctx.rng.chance(1, 3) {
                    let k2 = keys.pick(ctx);
                    for o in f.obs_key {
                        ctx.op(format!("both {} 1 2 {}", o, k2));
                    }
                }
            }
            observe_both(ctx, f, 1, 2, &keys.univ);
        }
        // t-digest, each scale function: long pre-clear history
        for scale in 0..4 {
            ctx.case(&format!("c19.td.k{}", scale));
            let delta = *ctx.rng.pick(&[2.0f64, 10.0, 100.0]);
            let bl = *ctx.rng.pick(&[0u64, 5, 50]);
            ctx.op(format!("td.new 1 {} {} {}", scale, fx(delta), bl));
            ctx.op(format!("td.new 2 {} {} {}", scale, fx(delta), bl));
            ctx.op("both td.empty 1 2".into());
            let npre = ctx.rng.range(50, 3000);
            for _ in 0..npre {
                ctx.op(format!("td.insert 1 {}", fx(ctx.rng.clone().f01() * 100.0)));
            }
            // a copy evolves exactly like the original
            ctx.op("td.clone 1 5".into());
            ctx.op(format!("td.new 6 {} {} {}", scale, fx(delta), bl));
            ctx.op(format!("td.insert 6 {}", fx(-5.0)));
            ctx.op("td.clonefrom 6 1".into());
            for _ in 0..ctx.rng.clone().range(5, 120) {
                let x = ctx.rng.f01() * 120.0 - 10.0;
                ctx.op(format!("both td.insert 1 5 {}", fx(x)));
                ctx.op(format!("td.insert 6 {}", fx(x)));
            }
            for j in [5, 6] {
                for o in ["td.empty", "td.count", "td.sum", "td.min", "td.max", "td.ncent"] {
                    ctx.op(format!("both {} 1 {}", o, j));
                }
                for i in 0..=4 {
                    ctx.op(format!("both td.quantile 1 {} {}", j, fx(i as f64 / 4.0)));
                }
            }
            ctx.op("td.clone 1 3".into());
            ctx.op("td.clone 1 4".into());
            ctx.op(format!("td.insert 1 {}", fx(1e6)));
            for o in ["td.count", "td.max", "td.ncent"] {
                ctx.op(format!("both {} 3 4", o));
            }
            ctx.op("td.clear 1".into());
            for o in ["td.empty", "td.count", "td.min", "td.max", "td.ncent"] {
                ctx.op(format!("both {} 1 2", o));
            }
            ctx.op(format!("both td.quantile 1 2 {}", fx(0.5)));
            let ncont = ctx.rng.range(20, 400);
            for _ in 0..ncont {
                let x = ctx.rng.f01() * 50.0;
                ctx.op(format!("both td.insert 1 2 {}", fx(x)));
            }
            for o in ["td.empty", "td.count", "td.sum", "td.min", "td.max", "td.ncent"] {
                ctx.op(format!("both {} 1 2", o));
            }
            for i in 0..=8 {
                ctx.op(format!("both td.quantile 1 2 {}", fx(i as f64 / 8.0)));
                ctx.op(format!("both td.cdf 1 2 {}", fx(i as f64 * 6.0)));
            }
        }
        // cuckoo tables whose slot count x fingerprint width is not a whole number of 64-bit blocks
        // (odd widths, small tables): everything, including the last partial block, is reset by clear
        for (bs, nb, lf) in [(2u64, 4u64, 5u64), (2, 2, 3), (4, 8, 9), (4, 8, 7), (3, 4, 11), (2, 8, 13), (2, 16, 5), (4, 4, 9)] {
            ctx.case("c19.cuckoo.odd");
            let bh = ctx.rand_hasher();
            ctx.hasher(bh);
            ctx.op(format!("cuckoo.new 1 7 {} {} {}", bs, nb, lf));
            ctx.op(format!("cuckoo.new 2 7 {} {} {}", bs, nb, lf));
            let cap = bs * nb;
            let keys: Vec<u64> = (0..(2 * cap + 4)).map(|_| ctx.rng.below(1000)).collect();
            for k in &keys {
                ctx.op(format!("cuckoo.insert 1 {}", k));
            }
            ctx.op("cuckoo.clear 1".into());
            ctx.op("both cuckoo.len 1 2".into());
            ctx.op("both cuckoo.empty 1 2".into());
            for k in &keys {
                ctx.op(format!("both cuckoo.query 1 2 {}", k));
            }
            // room for copies of one element (no eviction can help: independent of the RNG position)
            for k in keys.iter().take(3) {
                for _ in 0..(2 * bs + 1) {
                    ctx.op(format!("both cuckoo.insert 1 2 {}", k));
                }
                ctx.op("both cuckoo.len 1 2".into());
                ctx.op("cuckoo.clear 1".into());
                ctx.op("cuckoo.clear 2".into());
            }
        }
        // reservoir: RNG-free continuation (fill phase) after clear; clone independence
        ctx.case("c19.res");
        let k = ctx.rng.range(2, 12);
        ctx.op(format!("res.new 1 {} 7", k));
        ctx.op(format!("res.new 2 {} 7", k));
        let npre = ctx.rng.below(10 * k);
        for i in 0..npre {
            ctx.op(format!("res.add 1 {}", i));
        }
        // a copy (same RNG state) evolves exactly like the original, in every sampling phase
        ctx.op("res.clone 1 5".into());
        ctx.op(format!("res.new 6 {} 99", k));
        ctx.op("res.add 6 5".into());
        ctx.op("res.clonefrom 6 1".into());
        for i in 0..(6 * k + 10) {
            ctx.op(format!("both res.add 1 5 {}", 5000 + i));
            ctx.op(format!("res.add 6 {}", 5000 + i));
            if i % 4 == 0 {
                ctx.op("both res.get 1 5".into());
            }
        }
        ctx.op("both res.get 1 5".into());
        ctx.op("both res.get 1 6".into());
        ctx.op("res.clone 1 3".into());
        ctx.op("res.clone 1 4".into());
        ctx.op("res.add 1 777".into());
        ctx.op("both res.get 3 4".into());
        ctx.op("res.clear 1".into());
        ctx.op("both res.get 1 2".into());
        ctx.op("both res.empty 1 2".into());
        for i in 0..k {
            ctx.op(format!("both res.add 1 2 {}", 100 + i));
            ctx.op("both res.get 1 2".into());
        }
        ctx.op("both res.empty 1 2".into());
        // lossy counter
        ctx.case("c19.lossy");
        // includes widths whose reciprocal does not round-trip through 1/(1/w) (49, 98, 103, 107, ...)
        let w = if ctx.rng.chance(1, 2) { ctx.rng.range(1, 12) } else { *ctx.rng.pick(&[49u64, 98, 103, 107, 196, 197, 206, 214, 237, 239, 249, 253, 100, 64]) };
        ctx.op(format!("lossy.neww 1 {}", w));
        ctx.op(format!("lossy.neww 2 {}", w));
        ctx.op("both lossy.getters 1 2".into());
        for _ in 0..ctx.rng.clone().below(200) {
            ctx.op(format!("lossy.add 1 {}", ctx.rng.clone().below(9)));
        }
        ctx.op("lossy.clone 1 5".into());
        ctx.op(format!("lossy.neww 6 {}", w));
        ctx.op("lossy.add 6 3".into());
        ctx.op("lossy.clonefrom 6 1".into());
        for _ in 0..(2 * w + 5) {
            let k = ctx.rng.below(9);
            ctx.op(format!("both lossy.add 1 5 {}", k));
            ctx.op(format!("lossy.add 6 {}", k));
        }
        ctx.op(format!("both lossy.query 1 5 {}", fx(0.0)));
        ctx.op(format!("both lossy.query 1 6 {}", fx(0.0)));
        ctx.op("both lossy.n 1 6".into());
        ctx.op("lossy.clone 1 3".into());
        ctx.op("lossy.clone 1 4".into());
        ctx.op("lossy.add 1 4242".into());
        ctx.op(format!("both lossy.query 3 4 {}", fx(0.0)));
        ctx.op("both lossy.n 3 4".into());
        ctx.op("lossy.clear 1".into());
        ctx.op("both lossy.n 1 2".into());
        ctx.op("both lossy.getters 1 2".into());
        ctx.op(format!("both lossy.query 1 2 {}", fx(0.0)));
        for _ in 0..(ctx.rng.clone().below(120) + 2 * w) {
            let k = ctx.rng.below(7 + w);
            ctx.op(format!("both lossy.add 1 2 {}", k));
            if ctx.rng.chance(1, 5) {
                ctx.op(format!("both lossy.query 1 2 {}", fx(ctx.rng.clone().below(9) as f64 / 8.0)));
            }
        }
        ctx.op(format!("both lossy.query 1 2 {}", fx(0.0)));
        ctx.op("both lossy.n 1 2".into());
        // cms heap
        ctx.case("c19.heap");
        let (k, w, d) = (ctx.rng.range(1, 4), ctx.rng.range(1, 6), ctx.rng.range(1, 3));
        ctx.op(format!("heap.new 1 {} {} {}", k, w, d));
        ctx.op(format!("heap.new 2 {} {} {}", k, w, d));
        let add = |ctx: &mut Ctx, pre: &str, id: u64| {
            let class = id % 3;
            let cols: Vec<String> = crate::exec::heap_cols(w as usize, d as usize, class).iter().map(|c| c.to_string()).collect();
            ctx.op(format!("{} {} {} {}", pre, id, class, cols.join(" ")));
        };
        for _ in 0..ctx.rng.clone().below(80) {
            let id = ctx.rng.below(8);
            add(ctx, "heap.add 1", id);
        }
        ctx.op("heap.clone 1 5".into());
        ctx.op(format!("heap.new 6 {} {} {}", k, w, d));
        add(ctx, "heap.add 6", 5);
        ctx.op("heap.clonefrom 6 1".into());
        for _ in 0..30 {
            let id = ctx.rng.below(12);
            add(ctx, "both heap.add 1 5", id);
            add(ctx, "heap.add 6", id);
            ctx.op("both heap.iter 1 5".into());
        }
        ctx.op("both heap.iter 1 6".into());
        ctx.op("heap.clone 1 3".into());
        ctx.op("heap.clone 1 4".into());
        add(ctx, "heap.add 1", 99);
        add(ctx, "heap.add 1", 99);
        ctx.op("both heap.iter 3 4".into());
        ctx.op("heap.clear 1".into());
        ctx.op("both heap.iter 1 2".into());
        ctx.op("both heap.empty 1 2".into());
        for _ in 0..ctx.rng.clone().below(60) {
            let id = ctx.rng.below(8);
            add(ctx, "both heap.add 1 2", id);
            ctx.op("both heap.iter 1 2".into());
        }
        ctx.op("both heap.empty 1 2".into());
    }
}

// --------------------------------------------------------------------------------------------
pub fn gen_c20(ctx: &mut Ctx) {
    for c in 0..(40 * ctx.tier_scale) {
        ctx.case("c20.roundtrip");
        let bh = ctx.rand_hasher();
        ctx.hasher(bh);
        let b = if c < 15 { 4 + c } else { ctx.rng.range(4, 9) };
        ctx.op(format!("hll.new 1 {}", b));
        for _ in 0..ctx.rng.clone().below(200) {
            ctx.op(format!("hll.addh 1 {}", ctx.rng.clone().next()));
        }
        let doc = ctx.op("hll.ser 1".into());
        ctx.op(format!("hll.deser 2 {}", doc));
        if ctx.rng.chance(1, 3) {
            // the same values as a positional document: an error, or an equal sketch
            let a = ctx.op(format!("hll.deser 4 A {}", doc));
            if a == "ok" {
                ctx.op("both hll.regs 1 4".into());
                ctx.op("both hll.count 1 4".into());
            }
        }
        ctx.op("hll.eq 1 2".into());
        ctx.op("hll.eq 2 1".into());
        ctx.op("both hll.regs 1 2".into());
        ctx.op("both hll.count 1 2".into());
        ctx.op("both hll.empty 1 2".into());
        // same reaction to further adds and merges
        for _ in 0..10 {
            ctx.op(format!("both hll.add 1 2 {}", ctx.rng.clone().next()));
        }
        ctx.op("both hll.regs 1 2".into());
        ctx.op(format!("hll.new 3 {}", b));
        ctx.op(format!("hll.addh 3 {}", ctx.rng.clone().next()));
        ctx.op("both hll.merge 1 2 3".into()); // merge needs equal hashers: the deserialised one must be equal
        ctx.op("hll.eq 1 2".into());
        ctx.op("both hll.regs 1 2".into());
        ctx.op("hll.merge 1 2".into());
        ctx.op("hll.regs 1".into());
    }
    // systematic shapes: register counts k * 2^b for k != 1, b at and beyond the legal range
    for b in [0u64, 3, 4, 5, 6, 7, 19, 63, 64, 65, 128] {
        for k in [0u64, 2, 3, 4, 5, 7] {
            ctx.case("c20.shapes");
            let len = if b <= 7 { k << b } else { k * 16 };
            let regs: Vec<String> = (0..len).map(|i| (i % 5).to_string()).collect();
            let order = ctx.rng.below(3);
            let mut fields = vec![format!("R:{}", regs.join(",")), format!("B:{}", b), "H:1,0,64,0".to_string()];
            fields.rotate_left(order as usize);
            // as an object and as a positional (array) document
            for form in ["", "A "] {
                let a = ctx.op(format!("hll.deser 1 {}{}", form, fields.join(" ")));
                ctx.stat(&format!("c20.deser.{}{}", if form.is_empty() { "" } else { "array." }, a), 1);
                if a == "ok" {
                    ctx.op("hll.regs 1".into());
                    ctx.op("hll.addh 1 12345".into());
                    ctx.op("hll.count 1".into());
                }
            }
        }
    }
    // b outside 4..=18 with EXACTLY 2^b registers (the length check alone does not reject these)
    for b in [0u64, 1, 2, 3] {
        ctx.case("c20.exactlen");
        let regs: Vec<String> = (0..(1u64 << b)).map(|i| (i % 3).to_string()).collect();
        for order in 0..3 {
            let mut fields = vec![format!("R:{}", regs.join(",")), format!("B:{}", b), "H:1,0,64,0".to_string()];
            fields.rotate_left(order);
            let a = ctx.op(format!("hll.deser 1 {}", fields.join(" ")));
            ctx.stat(&format!("c20.deser.{}", a), 1);
            if a == "ok" {
                ctx.op("hll.regs 1".into());
                ctx.op("hll.count 1".into());
                ctx.op("hll.addh 1 12345".into());
            }
        }
    }
    for (b, len) in [((1u64 << 32) + 4, 16u64), ((1u64 << 33) + 5, 32), ((1u64 << 63) + 4, 16), ((1u64 << 32) + 18, 16), (u64::MAX - 11, 16), (68, 16), (64 + 4, 16), (256 + 4, 16)] {
        ctx.case("c20.bigb");
        let regs: Vec<String> = (0..len).map(|i| (i % 3).to_string()).collect();
        let a = ctx.op(format!("hll.deser 1 R:{} B:{} H:1,0,64,0", regs.join(","), b));
        ctx.stat(&format!("c20.deser.{}", a), 1);
        if a == "ok" {
            ctx.op("hll.regs 1".into());
            ctx.op("hll.addh 1 12345".into());
            ctx.op("hll.count 1".into());
        }
    }
    // `b` omitted, register counts that are / are not powers of two
    for len in [0u64, 1, 2, 4, 8, 16, 32, 48, 256] {
        ctx.case("c20.nob");
        let regs: Vec<String> = (0..len).map(|i| (i % 3).to_string()).collect();
        for order in 0..2 {
            let mut fields = vec![format!("R:{}", regs.join(",")), "H:1,0,64,0".to_string()];
            fields.rotate_left(order);
            let a = ctx.op(format!("hll.deser 1 {}", fields.join(" ")));
            ctx.stat(&format!("c20.deser.{}", a), 1);
            if a == "ok" {
                ctx.op("hll.regs 1".into());
                ctx.op("hll.count 1".into());
                ctx.op("hll.addh 1 12345".into());
            }
        }
    }
    ctx.case("c20.nonstruct");
    ctx.op("hll.deser 1 N".into());
    ctx.op("hll.deser 1 A".into());
    ctx.op("hll.deser 1".into());
    for _ in 0..(150 * ctx.tier_scale) {
        ctx.case("c20.malformed");
        // b and the registers length varied independently, plus omissions / duplicates / unknown / wrong types
        let consistent = ctx.rng.chance(1, 3);
        let b = if consistent { ctx.rng.range(4, 9) } else { *ctx.rng.pick(&[0u64, 1, 3, 4, 4, 5, 5, 6, 7, 8, 18, 19, 20, 63, 64, 65, 99, 256, u64::MAX]) };
        let len = if consistent {
            1u64 << b
        } else {
            match ctx.rng.below(10) {
                0 => 0,
                1 => 1,
                2 => 15,
                3 => 16,
                4 => 17,
                5 => 32,
                6 => if b <= 10 { 1u64 << b } else { 64 },
                7 => if b <= 7 { (2 * ctx.rng.range(1, 4) + 1) << b } else { 48 }, // odd multiple of 2^b
                _ => ctx.rng.below(300),
            }
        };
        let regs: Vec<String> = (0..len).map(|_| (ctx.rng.below(if ctx.rng.clone().chance(1, 20) { 300 } else { 70 })).to_string()).collect();
        let mut fields = vec![format!("R:{}", regs.join(",")), format!("B:{}", b), "H:1,0,64,0".to_string()];
        match ctx.rng.below(if consistent { 24 } else { 12 }) {
            0 => { fields.remove(ctx.rng.below(3) as usize); }
            1 => { let i = ctx.rng.below(3) as usize; let f = fields[i].clone(); fields.push(f); }
            2 => fields.push("Xextra:1".into()),
            3 => fields[1] = "Bs:four".into(),
            4 => fields[0] = "Rs:zz".into(),
            5 => fields[2] = "Hn".into(),
            6 => fields.swap(0, 2),
            7 => fields.swap(0, 1),
            8 => fields.swap(1, 2),
            _ => {}
        }
        let form = if ctx.rng.chance(1, 4) { "A " } else { "" };
        let a = ctx.op(format!("hll.deser 1 {}{}", form, fields.join(" ")));
        ctx.stat(&format!("c20.deser.{}{}", if form.is_empty() { "" } else { "array." }, a), 1);
        if a == "ok" {
            ctx.op("hll.regs 1".into());
            ctx.op(format!("hll.addh 1 {}", ctx.rng.clone().next()));
            ctx.op("hll.addh 1 18446744073709551615".into());
            ctx.op("hll.addh 1 0".into());
            ctx.op("hll.count 1".into());
            ctx.op("hll.clone 1 2".into());
            ctx.op("hll.merge 1 2".into());
            ctx.op("hll.regs 1".into());
        }
    }
}

// --------------------------------------------------------------------------------------------
/// C03 tie: count() of the model vs the real count() on register vectors hitting all three
/// estimator regimes and both sides of every switch-over, for all 15 precisions.
pub fn gen_c03(ctx: &mut Ctx) {
    for b in 4..=18u64 {
        let m = 1u64 << b;
        ctx.case("c03.regimes");
        ctx.hasher(ScriptBH::xor());
        ctx.op(format!("hll.new 1 {}", b));
        ctx.op("hll.count 1".into());
        ctx.op("hll.relerr 1".into());
        // few distinct elements (linear counting, exact for b >= 9)
        for j in 1..=8u64 {
            ctx.op(format!("hll.addh 1 {}", (ctx.rng.clone().next() << b) | (j * (m / 16).max(1)) % m));
            ctx.op("hll.count 1".into());
        }
        // grow through the hand-over (h <= threshold) and the 5m switch, reading densely
        let mut n = 8u64;
        let top = if ctx.tier_scale > 3 { 60 * m } else { (8 * m).min(400_000) };
        while n < top {
            let step = (n / if ctx.tier_scale > 3 { 12 } else { 5 }).max(1);
            ctx.op(format!("hll.addmany 1 {} {}", ctx.rng.clone().next(), step));
            n += step;
            ctx.op("hll.count 1".into());
        }
        ctx.stat(&format!("c03.b.{}", b), 1);
        // two loaded sketches (both beyond the linear-counting range) merged vs the sketch that
        // saw both streams
        let n1 = (3 * m).min(150_000);
        let (sa, sb) = (ctx.rng.next(), ctx.rng.next());
        for id in [2, 3, 4] {
            ctx.op(format!("hll.new {} {}", id, b));
        }
        ctx.op(format!("hll.addmany 2 {} {}", sa, n1));
        ctx.op(format!("hll.addmany 3 {} {}", sb, n1));
        ctx.op(format!("hll.addmany 4 {} {}", sa, n1));
        ctx.op(format!("hll.addmany 4 {} {}", sb, n1));
        ctx.op("hll.merge 2 3".into());
        ctx.op("both hll.count 2 4".into());
        ctx.op("both hll.regs 2 4".into());
    }
    // clone_from between sketches with different hashers (and precisions), then the known keys
    // again: nothing may be counted twice
    for c in 0..(6 * ctx.tier_scale.min(4)) {
        ctx.case("c03.clonefrom");
        let bh1 = ctx.rand_hasher();
        let bh2 = ctx.rand_hasher();
        let b = 4 + (c * 3) % 11;
        ctx.hasher(bh1);
        ctx.op(format!("hll.new 1 {}", b));
        ctx.hasher(bh2);
        ctx.op(format!("hll.new 2 {}", if c % 2 == 0 { b } else { b + 2 }));
        ctx.op(format!("hll.add 2 {}", ctx.rng.clone().next()));
        ctx.hasher(bh1);
        let n = 3 * (1u64 << b);
        let keys: Vec<u64> = (0..n.min(600)).map(|_| ctx.rng.next()).collect();
        for k in &keys {
            ctx.op(format!("hll.add 1 {}", k));
        }
        ctx.op("hll.count 1".into());
        ctx.op("hll.clonefrom 2 1".into());
        ctx.op("both hll.count 2 1".into());
        for k in &keys {
            ctx.op(format!("hll.add 2 {}", k));
        }
        ctx.op("both hll.count 2 1".into());
        ctx.op("both hll.regs 2 1".into());
        ctx.op("hll.merge 2 1".into());
        ctx.op("both hll.count 2 1".into());
    }
    // saturated sketches that were merged into / rebuilt / deserialised, then cleared and re-used
    for c in 0..(3 * ctx.tier_scale.min(4)) {
        ctx.case("c03.saturated");
        let bh = if c % 2 == 0 { ScriptBH::xor() } else { ctx.rand_hasher() };
        ctx.hasher(bh);
        crate::gen::hll::hll_saturated_lifecycle(ctx, 4 + c % 3);
    }
    // arbitrary register contents (all 256 byte values), explicit vectors for small precisions
    for _ in 0..(20 * ctx.tier_scale) {
        ctx.case("c03.arbitrary");
        let b = ctx.rng.range(4, 10);
        let m = 1u64 << b;
        let mode = ctx.rng.below(7);
        // modes 4-6: every register large, i.e. raw estimates far beyond anything a stream of
        // adds reaches in a test (2^25 .. 2^62 and more): count() is a function of the registers
        let base = *ctx.rng.pick(&[18u64, 22, 25, 27, 28, 30, 34, 40, 50, 58, 64, 100, 200]);
        let regs: Vec<String> = (0..m)
            .map(|_| match mode {
                0 => ctx.rng.below(256),
                1 => ctx.rng.below(2) * 255,
                2 => ctx.rng.below(4),
                3 => if ctx.rng.chance(1, 10) { ctx.rng.below(60) } else { 0 },
                4 => base,
                5 => base + ctx.rng.below(4),
                _ => if ctx.rng.chance(1, 50) { ctx.rng.below(base) } else { base },
            }.to_string())
            .collect();
        ctx.op(format!("hll.with 1 {} {}", b, regs.join(" ")));
        ctx.op("hll.count 1".into());
        // a sketch built from the caller's vector is cleared and used again
        if ctx.rng.chance(1, 2) {
            ctx.op("hll.clear 1".into());
            ctx.op("hll.regs 1".into());
            ctx.op("hll.count 1".into());
            ctx.op(format!("hll.addmany 1 {} {}", ctx.rng.clone().next(), 3 * m));
            ctx.op("hll.regs 1".into());
            ctx.op("hll.count 1".into());
            ctx.op("hll.relerr 1".into());
        }
        ctx.stat("c03.arbitrary", 1);
    }
}

pub fn gen_c05(ctx: &mut Ctx) {
    // the tie for C05 is the reservoir model itself (phases, RNG consumption order)
    for _ in 0..(150 * ctx.tier_scale) {
        ctx.case("res");
        res_history(ctx);
    }
}

pub fn gen_c07(ctx: &mut Ctx) {
    // down to subnormal p (1/p overflows there; -log2 p and ln p do not)
    let ps = [0.999f64, 0.9, 0.75, 0.51, 0.5, 0.49, 0.3, 0.25, 0.125, 0.1, 0.01, 0.001, 1e-6, 1e-12, 1e-19, 1e-300, 1e-310, 5e-324];
    let ns = [1u64, 2, 3, 10, 50, 1000, 20_000];
    for &n in &ns {
        for &p in &ps {
            ctx.case("c07.sizing");
            let bh = ctx.rand_hasher();
            ctx.hasher(bh);
            // keep the bit array of the model small
            let bloom_bits = -(n as f64) * p.ln() / (2f64.ln() * 2f64.ln());
            if bloom_bits < 3e5 {
                let a = ctx.op(format!("bloom.props 1 {} {}", n, fx(p)));
                if a.starts_with("ok") {
                    ctx.op("bloom.getters 1".into());
                    ctx.op("bloom.insert 1 7".into());
                    ctx.op("bloom.query 1 7".into());
                    ctx.op("bloom.query 1 8".into());
                    ctx.op("bloom.len 1".into());
                    ctx.stat("c07.bloom.ok", 1);
                }
            }
            if n <= 1000 {
                for which in [4, 8] {
                    let a = ctx.op(format!("cuckoo.props 2 {} {} {} 5", which, fx(p), n));
                    if a.starts_with("ok") {
                        ctx.op("cuckoo.getters 2".into());
                        ctx.op("cuckoo.insert 2 7".into());
                        ctx.op("cuckoo.query 2 7".into());
                        ctx.stat("c07.cuckoo.ok", 1);
                    } else {
                        ctx.stat("c07.cuckoo.rejected", 1);
                    }
                }
            }
        }
    }
    // clone_from between filters built for different targets: the copy has the source's parameters
    for &(p1, p2, n) in &[(0.2f64, 0.001f64, 200u64), (1e-6, 0.05, 100), (0.01, 0.01, 50), (0.5, 1e-9, 20)] {
        ctx.case("c07.clonefrom");
        let bh = ctx.rand_hasher();
        ctx.hasher(bh);
        for which in [4, 8] {
            let a1 = ctx.op(format!("cuckoo.props 1 {} {} {} 5", which, fx(p1), n));
            let a2 = ctx.op(format!("cuckoo.props 2 {} {} {} 7", which, fx(p2), n));
            if a1.starts_with("ok") && a2.starts_with("ok") {
                ctx.op("cuckoo.insert 1 3".into());
                ctx.op("cuckoo.clonefrom 1 2".into());
                ctx.op("both cuckoo.getters 1 2".into());
                for i in 0..n.min(60) {
                    ctx.op(format!("both cuckoo.insert 1 2 {}", i * 7 + 1));
                }
                ctx.op("both cuckoo.len 1 2".into());
                for i in 0..80 {
                    ctx.op(format!("both cuckoo.query 1 2 {}", i * 3 + 1));
                }
            }
        }
        if -(n as f64) * p2.ln() < 1e5 {
            let a1 = ctx.op(format!("bloom.props 3 {} {}", n, fx(p1)));
            let a2 = ctx.op(format!("bloom.props 4 {} {}", n, fx(p2)));
            if a1.starts_with("ok") && a2.starts_with("ok") {
                ctx.op("bloom.insert 3 3".into());
                ctx.op("bloom.clonefrom 3 4".into());
                ctx.op("both bloom.getters 3 4".into());
                for i in 0..n.min(60) {
                    ctx.op(format!("both bloom.insert 3 4 {}", i * 7 + 1));
                }
                ctx.op("both bloom.len 3 4".into());
                for i in 0..80 {
                    ctx.op(format!("both bloom.query 3 4 {}", i * 3 + 1));
                }
            }
        }
    }
    // quotient filters at the widest fingerprints the constructor admits (q + r = 64) and below
    for (q, r) in [(8u64, 56u64), (4, 60), (1, 63), (10, 54), (8, 55), (6, 8)] {
        ctx.case("c07.qf.wide");
        let bh = ctx.rand_hasher();
        ctx.hasher(bh);
        ctx.op(format!("qf.new 1 {} {}", q, r));
        ctx.op("qf.getters 1".into());
        let cap = 1u64 << q;
        for i in 0..cap.min(40) {
            ctx.op(format!("qf.insert 1 {}", ctx.rng.clone().next() ^ i));
        }
        ctx.op("qf.len 1".into());
        for _ in 0..40 {
            ctx.op(format!("qf.query 1 {}", ctx.rng.clone().next()));
        }
    }
    // invalid arguments
    ctx.case("c07.reject");
    for p in [0.0f64, 1.0, -0.5, 1.5, f64::NAN] {
        ctx.op(format!("bloom.props 1 10 {}", fx(p)));
        ctx.op(format!("cuckoo.props 2 4 {} 10 5", fx(p)));
    }
    ctx.op(format!("bloom.props 1 0 {}", fx(0.1)));
    ctx.op(format!("cuckoo.props 2 8 {} 0 5", fx(0.1)));
    // Bloom::len() against the number of distinct inserts while at most half the bits are set
    for _ in 0..(10 * ctx.tier_scale) {
        ctx.case("c07.len");
        let bh = ctx.rand_hasher();
        ctx.hasher(bh);
        let m = ctx.rng.range(200, 4000);
        let k = ctx.rng.range(1, 5);
        ctx.op(format!("bloom.new 1 {} {}", m, k));
        for i in 0..(m / (3 * k)) {
            ctx.op(format!("bloom.insert 1 {}", i * 7919 + 13));
            if i % 16 == 0 {
                ctx.op("bloom.len 1".into());
            }
        }
        ctx.op("bloom.len 1".into());
        // len() after unions of loaded filters (disjoint halves, shared ancestors)
        ctx.op(format!("bloom.new 2 {} {}", m, k));
        ctx.op(format!("bloom.new 3 {} {}", m, k));
        for i in 0..(m / (4 * k)) {
            ctx.op(format!("bloom.insert 2 {}", i * 104729 + 5));
        }
        ctx.op("bloom.clone 2 3".into());
        for i in 0..(m / (8 * k)) {
            ctx.op(format!("bloom.insert 3 {}", i * 15485863 + 11));
        }
        ctx.op("bloom.len 2".into());
        ctx.op("bloom.len 3".into());
        ctx.op("bloom.union 2 1".into());
        ctx.op("bloom.len 2".into());
        ctx.op("bloom.union 3 2".into());
        ctx.op("bloom.len 3".into());
        ctx.op("bloom.union 3 3".into());
        ctx.op("bloom.len 3".into());
        ctx.op("bloom.insert 3 424242".into());
        ctx.op("bloom.len 3".into());
    }
}

pub fn gen_c08(ctx: &mut Ctx) {
    let epss = [2.0f64, 1.0, 0.5, 0.3, 0.1, 0.01, 0.003];
    let deltas = [0.999f64, 0.9, 0.5, 0.37, 0.36, 0.1, 0.01, 1e-6, 1e-30];
    for &eps in &epss {
        for &delta in &deltas {
            ctx.case("c08.sizing");
            let bh = ctx.rand_hasher();
            ctx.hasher(bh);
            let a = ctx.op(format!("cms.props 1 {} {}", fx(eps), fx(delta)));
            if a.starts_with("ok") {
                ctx.op("cms.getters 1".into());
                for i in 0..12 {
                    ctx.op(format!("cms.addn 1 {} {}", i % 5, i + 1));
                }
                for i in 0..6 {
                    ctx.op(format!("cms.query 1 {}", i));
                }
            }
        }
    }
    ctx.case("c08.reject");
    for (e, d) in [(0.0f64, 0.1f64), (-1.0, 0.1), (0.1, 0.0), (0.1, 1.0), (0.1, 1.5), (f64::NAN, 0.5), (0.1, f64::NAN)] {
        ctx.op(format!("cms.props 1 {} {}", fx(e), fx(d)));
    }
    for _ in 0..(15 * ctx.tier_scale) {
        ctx.case("cms");
        cms_history(ctx, 100);
    }
}

pub fn gen_c11(ctx: &mut Ctx) {
    // the tie for C11: heap bytes of the packed tables against the model's block arithmetic
    for lf in [2u64, 3, 5, 8, 13, 31, 32, 33, 63, 64] {
        for (bs, nb) in [(2u64, 2u64), (3, 4), (4, 64), (8, 512), (4, 65536)] {
            ctx.case("c11.cuckoo");
            ctx.op(format!("mem.cuckoo 1 {} {} {}", bs, nb, lf));
        }
    }
    for (q, r) in [(1u64, 1u64), (3, 2), (4, 60), (8, 5), (10, 13), (12, 52), (16, 8), (5, 59)] {
        ctx.case("c11.qf");
        ctx.op(format!("mem.qf 1 {} {}", q, r));
    }
    // configuration-only sizes of the other structures through their histories
    for _ in 0..(6 * ctx.tier_scale) {
        ctx.case("cuckoo");
        cuckoo_history(ctx, 150);
        ctx.case("qf");
        qf_history(ctx, 150);
    }
}
