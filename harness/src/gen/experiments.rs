//! Sampling experiments on the real crate for the statistical clauses of C03, C04, C05, C07,
//! C08 and the allocation measurements of C11. They are the "search for a failing input" of
//! those properties and supporting evidence; they never stand in for a theorem.
//! Every threshold carries an explicit sampling margin (>= 5 sigma) so that a correct
//! implementation does not raise an alarm under any seed.
use crate::script::{ScriptRng, SplitMix};
use pdatastructs::countminsketch::CountMinSketch;
use pdatastructs::filters::bloomfilter::BloomFilter;
use pdatastructs::filters::cuckoofilter::CuckooFilter;
use pdatastructs::filters::quotientfilter::QuotientFilter;
use pdatastructs::filters::Filter;
use pdatastructs::hash_utils::BuildHasherSeeded;
use pdatastructs::hyperloglog::HyperLogLog;
use pdatastructs::reservoirsampling::ReservoirSampling;
use pdatastructs::tdigest::{ScaleFunction, TDigest, K0, K1, K2, K3};
use std::collections::BTreeMap;
use std::panic::{catch_unwind, AssertUnwindSafe};

pub struct Exp {
    pub rng: SplitMix,
    pub scale: u64,
    pub stats: BTreeMap<String, u64>,
    pub fails: Vec<String>,
    pub evals: u64,
}

impl Exp {
    fn stat(&mut self, k: &str, v: u64) {
        *self.stats.entry(k.to_string()).or_insert(0) += v;
    }
    fn statmax(&mut self, k: &str, v: u64) {
        let e = self.stats.entry(k.to_string()).or_insert(0);
        if v > *e {
            *e = v;
        }
    }
}

// ---------------------------------------------------------------------------------------------
// C05: uniformity of reservoir sampling over stream positions
pub fn exp_c05(e: &mut Exp) {
    let seeds = 12_000 * e.scale.min(10);
    let ks: &[u64] = if e.scale > 1 { &[1, 2, 3, 5, 8, 16, 64] } else { &[1, 2, 3, 8, 16] };
    for &k in ks {
        let mut ns = vec![k + 1, 2 * k, 4 * k, 4 * k + 1];
        if k >= 8 {
            ns.push(5 * k);
            ns.push(6 * k);
            if e.scale > 1 {
                ns.push(20 * k);
            }
        }
        ns.sort();
        ns.dedup();
        for &n in &ns {
            let mut hits = vec![0u64; n as usize];
            for _ in 0..seeds {
                let mut rs = ReservoirSampling::<u64, ScriptRng>::new(k as usize, ScriptRng::new(e.rng.next()));
                for i in 0..n {
                    rs.add(i);
                }
                for x in rs.reservoir() {
                    hits[*x as usize] += 1;
                }
            }
            e.evals += seeds;
            let p = k as f64 / n as f64;
            let sigma = (seeds as f64 * p * (1.0 - p)).sqrt();
            // exact while n <= 4k+1; beyond: the documented gap-sampling approximation, relative
            // bias of order 1/k slowly growing with n/k
            let allow_rel = if n <= 4 * k + 1 { 0.0 } else { (1.0 / k as f64) * (1.0 + (n as f64 / (4.0 * k as f64)).ln()) };
            let tol = 5.5 * sigma + allow_rel * seeds as f64 * p + 1.0;
            let mut worst = 0.0f64;
            for (pos, h) in hits.iter().enumerate() {
                let dev = (*h as f64 - seeds as f64 * p).abs();
                if dev / sigma.max(1.0) > worst {
                    worst = dev / sigma.max(1.0);
                }
                if dev > tol {
                    e.fails.push(format!(
                        "reservoir k={} n={}: position {} included {} of {} times, expected {:.1} +- {:.1} (p = k/n = {:.4})",
                        k, n, pos, h, seeds, seeds as f64 * p, tol, p
                    ));
                    break;
                }
            }
            e.statmax(&format!("c05.worst_sigma_x100.{}", if n <= 4 * k + 1 { "exact" } else { "gap" }), (worst * 100.0) as u64);
            e.stat("c05.configs", 1);
        }
    }
}

/// C05, long streams (n >> 1000k) and batches through `Extend`: region frequencies.
/// The documented gap-sampling bias (relative order 1/k, slowly growing with n/k) is allowed for.
pub fn exp_c05_long(e: &mut Exp) {
    let cfgs: &[(u64, u64, u64)] = if e.scale > 1 { &[(16, 32_000, 600), (64, 96_000, 200), (4, 6_000, 3000)] } else { &[(16, 24_000, 250), (4, 6_000, 1200)] };
    for &(k, n, seeds) in cfgs {
        let bounds = [0.0, 0.5, 0.75, 0.9, 1.0];
        let mut region = [0u64; 4];
        for _ in 0..seeds {
            let mut rs = ReservoirSampling::<u64, ScriptRng>::new(k as usize, ScriptRng::new(e.rng.next()));
            // half of the stream through add, the rest through extend in two batches
            let h = n / 2;
            for i in 0..h {
                rs.add(i);
            }
            rs.extend(h..(h + n / 4));
            rs.extend((h + n / 4)..n);
            if rs.i() as u64 != n {
                e.fails.push(format!("reservoir k={}: i() = {} after {} items fed through add and extend", k, rs.i(), n));
                return;
            }
            for x in rs.reservoir() {
                let f = *x as f64 / n as f64;
                for r in 0..4 {
                    if f >= bounds[r] && (f < bounds[r + 1] || r == 3) {
                        region[r] += 1;
                        break;
                    }
                }
            }
            e.evals += 1;
        }
        for r in 0..4 {
            let frac = bounds[r + 1] - bounds[r];
            let expect = seeds as f64 * k as f64 * frac;
            let sigma = (expect * (1.0 - frac)).sqrt();
            let allow = (1.0 / k as f64) * (1.0 + (n as f64 / (4.0 * k as f64)).ln()) * 0.35 + 0.05;
            let dev = (region[r] as f64 - expect).abs();
            e.statmax("c05.long_region_dev_x1000", (dev / expect * 1000.0) as u64);
            if dev > 5.5 * sigma + allow * expect {
                e.fails.push(format!(
                    "reservoir k={} n={}: stream region [{}, {}) holds {:.3} of the sampled items, expected {:.3} (+- {:.3})",
                    k, n, bounds[r], bounds[r + 1], region[r] as f64 / (seeds * k) as f64, frac, (5.5 * sigma + allow * expect) / (seeds * k) as f64
                ));
            }
        }
    }
}

// ---------------------------------------------------------------------------------------------
// C03: HyperLogLog relative error over independent hash streams
pub fn exp_c03(e: &mut Exp) {
    let bs: Vec<usize> = if e.scale > 1 { (4..=16).collect() } else { vec![4, 6, 9, 11, 14] };
    let seeds: u64 = if e.scale > 1 { 400 } else { 160 };
    for b in bs {
        let m = 1u64 << b;
        // cardinalities on a log grid up to 50 * 2^b, covering the three regimes and the hand-over
        let mut grid: Vec<u64> = vec![0, 1, 3, 8];
        let mut x = (m / 4).max(10) as f64;
        while (x as u64) <= 50 * m {
            grid.push(x as u64);
            x *= if e.scale > 1 { 1.6 } else { 2.2 };
        }
        grid.push(50 * m);
        grid.sort();
        grid.dedup();
        let hll0 = HyperLogLog::<u64>::new(b);
        let relerr = hll0.relative_error();
        // one pass per seed, reading the estimate whenever a grid point is reached
        let mut errs: Vec<Vec<f64>> = vec![vec![]; grid.len()];
        let mut panics = 0u64;
        for _ in 0..seeds {
            let mut h = HyperLogLog::<u64>::new(b);
            let mut sm = SplitMix(e.rng.next());
            let mut n = 0u64;
            for (gi, g) in grid.iter().enumerate() {
                while n < *g {
                    h.add_hashed(sm.next());
                    n += 1;
                }
                let c = match catch_unwind(AssertUnwindSafe(|| h.count())) {
                    Ok(c) => c as f64,
                    Err(_) => {
                        if panics < 3 {
                            e.fails.push(format!("hll b={}: count() panicked after {} distinct random hashes (hash stream seed index {})", b, g, e.evals));
                        }
                        panics += 1;
                        *g as f64
                    }
                };
                errs[gi].push(if *g == 0 { c } else { (c - *g as f64) / *g as f64 });
            }
            e.evals += 1;
        }
        for (gi, g) in grid.iter().enumerate() {
            let v = &errs[gi];
            if *g == 0 {
                if v.iter().any(|x| *x != 0.0) {
                    e.fails.push(format!("hll b={}: empty sketch does not count 0", b));
                }
                continue;
            }
            let nf = *g as f64;
            let s = v.len() as f64;
            let rms = (v.iter().map(|x| x * x).sum::<f64>() / s).sqrt();
            let mean = v.iter().sum::<f64>() / s;
            let tail = v.iter().filter(|x| x.abs() > 3.0 * relerr).count() as f64 / s;
            if *g <= 8 && b >= 9 {
                // counted to within 1; two register collisions among <= 8 random hashes (probability
                // about (28/m)^2/2 per seed) may cost a second unit: "integer effects of a few units"
                let off = v.iter().filter(|x| (*x * nf).abs() > 1.0 + 1e-9).count() as f64;
                let far = v.iter().any(|x| (x * nf).abs() > 3.0 + 1e-9);
                if far || off > 0.02 * s + 3.0 {
                    e.fails.push(format!("hll b={}: n={} distinct elements not counted to within 1 ({} of {} seeds off by more than 1)", b, g, off, s));
                }
                continue;
            }
            // integer effects of a few units are allowed throughout
            let unit = 2.5 / nf;
            let bump = *g * 2 >= m && *g <= 2 * m;
            // sampling margin: the RMS estimate over s seeds has relative sd ~ 1/sqrt(2s)
            let margin = 1.0 + 5.5 / (2.0 * s).sqrt();
            let lim = if bump { 2.0 } else { 1.15 } * relerr * margin + unit;
            let key = format!("c03.rms_over_relerr_x100.b{}", b);
            e.statmax(&key, (rms / relerr * 100.0) as u64);
            if rms > lim {
                e.fails.push(format!("hll b={} n={}: RMS relative error {:.4} exceeds {:.4} (relative_error() = {:.4}, {} seeds)", b, g, rms, lim, relerr, s));
            }
            let mlim = if bump { 1.2 } else { 0.25 } * relerr + 5.5 * rms.max(relerr) / s.sqrt() + unit;
            if mean.abs() > mlim {
                e.fails.push(format!("hll b={} n={}: mean relative error {:.4} not close to zero (limit {:.4})", b, g, mean, mlim));
            }
            let tlim = if bump { 0.25 } else { 0.05 } + 5.5 * (0.05f64 * 0.95 / s).sqrt();
            if tail > tlim && 3.0 * relerr * nf > 3.0 {
                e.fails.push(format!("hll b={} n={}: {:.3} of seeds exceed 3*relative_error (limit {:.3})", b, g, tail, tlim));
            }
        }
        e.stat("c03.precisions", 1);
    }
    // count() returns normally for arbitrary register contents
    for b in 4..=18usize {
        let m = 1usize << b;
        for t in 0..(if e.scale > 1 { 30 } else { 6 }) {
            let regs: Vec<u8> = (0..m)
                .map(|_| match t % 3 {
                    0 => e.rng.below(256) as u8,
                    1 => (e.rng.below(3) * 127) as u8,
                    _ => (e.rng.below(70)) as u8,
                })
                .collect();
            let h = HyperLogLog::<u64, BuildHasherSeeded>::with_registers_and_hash(b, regs, BuildHasherSeeded::new(0));
            if catch_unwind(AssertUnwindSafe(|| h.count())).is_err() {
                e.fails.push(format!("hll b={}: count() panicked on an arbitrary register vector (pattern {})", b, t % 3));
            }
            e.evals += 1;
        }
    }
}

// ---------------------------------------------------------------------------------------------
// C04: t-digest rank accuracy and bounded size
fn td_rank_check<S: ScaleFunction + Clone + std::fmt::Debug>(e: &mut Exp, name: &str, sf: S, delta: f64, wfun: &dyn Fn(f64, f64) -> f64, bl: usize, n: usize) {
    for shape in 0..7 {
        let mut d = TDigest::new(sf.clone(), bl);
        let mut xs: Vec<f64> = Vec::with_capacity(n);
        for i in 0..n {
            let x = match shape {
                0 => i as f64,
                1 => (n - i) as f64,
                2 => (e.rng.f01() * 10.0).floor(),                         // discrete, heavy ties
                3 => (e.rng.f01() * 14.0 - 7.0).exp(),                     // heavy tail
                5 => (3 * i / n) as f64,                                   // sorted, three long runs of equal values
                // smooth data with one long burst of a repeated value in the middle of the stream
                6 => if i >= n / 3 && i < n / 3 + 3 * n / 10 { 0.25 } else { (0..6).map(|_| e.rng.f01()).sum::<f64>() - 3.0 },
                _ => (0..6).map(|_| e.rng.f01()).sum::<f64>() - 3.0,       // ~normal
            };
            xs.push(x);
            d.insert(x);
            if e.rng.chance(1, 997) {
                let _ = d.quantile(0.5); // reads interleaved with inserts trigger merges
            }
        }
        e.evals += 1;
        let nc = d.n_centroids() as f64;
        e.statmax(&format!("c04.ncent_minus_delta.{}", name), (nc - delta).max(0.0) as u64);
        if nc > delta + 3.0 {
            e.fails.push(format!("tdigest {} delta={} backlog={} shape={}: {} centroids after {} unit inserts exceed delta+3", name, delta, bl, shape, nc, n));
        }
        xs.sort_by(|a, b| a.partial_cmp(b).unwrap());
        let w = wfun(delta, n as f64);
        let c = if shape == 2 || shape == 3 || shape == 5 || shape == 6 { 3.0 } else { 1.0 };
        let bound = c * w + 2.0 / n as f64 + 1e-12;
        let mut worst = 0.0f64;
        for qi in 0..=200 {
            let q = qi as f64 / 200.0;
            let v = d.quantile(q);
            // The estimate v generally lies between two inserted values a <= v <= b (interpolation
            // bridges the gap); the ranks it is compatible with are [F(a-), F(b)].  For continuous
            // data this widens the target by at most 2/n (the property's "+ 2/n"); for atoms it is
            // the bridge across the jump that no estimate can avoid.
            let ia = xs.partition_point(|x| *x <= v); // number of values <= v
            let a = if ia > 0 { xs[ia - 1] } else { xs[0] };
            let ib = xs.partition_point(|x| *x < v); // number of values < v
            let b = if ib < n { xs[ib] } else { xs[n - 1] };
            let lt = xs.partition_point(|x| *x < a) as f64 / n as f64;
            let le = xs.partition_point(|x| *x <= b) as f64 / n as f64;
            let err = if q < lt { lt - q } else if q > le { q - le } else { 0.0 };
            if err > worst {
                worst = err;
            }
            if err > bound {
                e.fails.push(format!("tdigest {} delta={} backlog={} shape={} n={}: rank error {:.5} at q={} exceeds {:.5} (W={:.5})", name, delta, bl, shape, n, err, q, bound, w));
                break;
            }
        }
        for xi in 0..=100 {
            let x = xs[(xi * (n - 1)) / 100];
            let v = d.cdf(x);
            // x is an inserted value; with ties the empirical CDF jumps at x from F(x-) to F(x), and
            // the digest's piecewise-linear cdf passes through the jump somewhere in between
            let le = xs.partition_point(|y| *y <= x) as f64 / n as f64;
            let lt = xs.partition_point(|y| *y < x) as f64 / n as f64;
            let err = if v < lt { lt - v } else if v > le { v - le } else { 0.0 };
            if err > bound {
                e.fails.push(format!("tdigest {} delta={} backlog={} shape={} n={}: cdf error {:.5} at x={} exceeds {:.5}", name, delta, bl, shape, n, err, x, bound));
                break;
            }
        }
        e.statmax(&format!("c04.worst_err_over_W_x100.{}", name), (worst / w * 100.0) as u64);
    }
}

pub fn exp_c04(e: &mut Exp) {
    let deltas: &[f64] = if e.scale > 1 { &[1.5, 5.0, 20.0, 100.0, 1000.0] } else { &[5.0, 50.0, 200.0] };
    let ns: &[usize] = if e.scale > 1 { &[1, 30, 2000, 100_000] } else { &[30, 8000] };
    for &delta in deltas {
        for &n in ns {
            for bl in [*e.rng.pick(&[0usize, 1]), *e.rng.pick(&[10usize, 1000])] {
                td_rank_check(e, "K0", K0::new(delta), delta, &|d, _| 2.0 / d, bl, n);
                td_rank_check(e, "K1", K1::new(delta), delta, &|d, _| std::f64::consts::PI / d, bl, n);
                td_rank_check(e, "K2", K2::new(delta), delta, &|d, n| if n >= d { ((n / d).ln() + 6.0) / d } else { 1.0 }, bl, n);
                td_rank_check(e, "K3", K3::new(delta), delta, &|d, n| if n >= d { (2.0 * (n / d).ln() + 10.5) / d } else { 1.0 }, bl, n);
            }
        }
    }
}

// ---------------------------------------------------------------------------------------------
// C07: filters built from accuracy targets
pub fn exp_c07(e: &mut Exp) {
    let probes: u64 = if e.scale > 1 { 200_000 } else { 40_000 };
    let seeds: u64 = if e.scale > 1 { 40 } else { 12 };
    // usability over the whole (n, p) plane
    for &n in &[1usize, 2, 3, 10, 50, 1000] {
        for &p in &[0.999, 0.9, 0.75, 0.51, 0.5, 0.3, 0.1, 0.01, 1e-4, 1e-9] {
            let r = catch_unwind(AssertUnwindSafe(|| {
                let mut f = BloomFilter::<u64, BuildHasherSeeded>::with_properties_and_hash(n, p, BuildHasherSeeded::new(1));
                let km = (f.k(), f.m());
                f.insert(&1).unwrap();
                let q = f.query(&1);
                // a usable filter does not answer true for everything
                let fresh = (1000..1200u64).filter(|x| f.query(x)).count();
                (km, q, fresh)
            }));
            e.evals += 1;
            match r {
                Err(_) => e.fails.push(format!("bloom with_properties(n={}, p={}) panics on construction or first use", n, p)),
                Ok(((k, m), q, fresh)) => {
                    if k == 0 || m == 0 || !q {
                        e.fails.push(format!("bloom with_properties(n={}, p={}) is not usable: k={} m={} query(inserted)={}", n, p, k, m, q));
                    }
                    if k == 0 && fresh == 200 {
                        e.fails.push(format!("bloom with_properties(n={}, p={}) answers true for everything", n, p));
                    }
                }
            }
            for which in [4, 8] {
                let r = catch_unwind(AssertUnwindSafe(|| {
                    let rng = ScriptRng::new(3);
                    let mut f = if which == 4 {
                        CuckooFilter::<u64, ScriptRng, BuildHasherSeeded>::with_properties_and_hash_4(p, n, rng, BuildHasherSeeded::new(1))
                    } else {
                        CuckooFilter::<u64, ScriptRng, BuildHasherSeeded>::with_properties_and_hash_8(p, n, rng, BuildHasherSeeded::new(1))
                    };
                    f.insert(&1).is_ok() && f.query(&1)
                }));
                e.evals += 1;
                // p below 2b*2^-64 is rejected by the constructor's documented fingerprint assertion
                let rejected_by_doc = (2.0 * which as f64 / p).log2().ceil() > 64.0;
                match r {
                    Err(_) if !rejected_by_doc => e.fails.push(format!("cuckoo with_properties_{}(p={}, n={}) panics", which, p, n)),
                    Ok(false) => e.fails.push(format!("cuckoo with_properties_{}(p={}, n={}) is not usable", which, p, n)),
                    _ => {}
                }
            }
        }
    }
    // false-positive frequency
    let fp_grid: &[(usize, f64)] = if e.scale > 1 {
        &[(50, 0.1), (50, 0.01), (400, 0.05), (2000, 0.02), (2000, 0.3), (2000, 1e-3), (1000, 1e-4)]
    } else {
        &[(50, 0.1), (50, 0.01), (400, 0.05), (2000, 0.02), (2000, 0.3)]
    };
    for &(n, p) in fp_grid {
        let probes = if p < 1e-2 { probes * 20 } else { probes };
        let mut fp_bloom = 0u64;
        let mut fp_c4 = 0u64;
        let mut fp_c8 = 0u64;
        let mut total = 0u64;
        let mut len_dev_max = 0.0f64;
        for s in 0..seeds {
            let seed = (e.rng.next() % 1_000_000) as usize + s as usize;
            let mut bf = BloomFilter::<u64, BuildHasherSeeded>::with_properties_and_hash(n, p, BuildHasherSeeded::new(seed));
            let mut c4 = CuckooFilter::<u64, ScriptRng, BuildHasherSeeded>::with_properties_and_hash_4(p, n, ScriptRng::new(e.rng.next()), BuildHasherSeeded::new(seed));
            let mut c8 = CuckooFilter::<u64, ScriptRng, BuildHasherSeeded>::with_properties_and_hash_8(p, n, ScriptRng::new(e.rng.next()), BuildHasherSeeded::new(seed));
            let base = e.rng.next() >> 2;
            for i in 0..n as u64 {
                bf.insert(&(base + i)).unwrap();
                if c4.insert(&(base + i)).is_err() {
                    e.fails.push(format!("cuckoo_4(p={}, n={}) reported Full at insert {} of {}", p, n, i + 1, n));
                }
                if c8.insert(&(base + i)).is_err() {
                    e.fails.push(format!("cuckoo_8(p={}, n={}) reported Full at insert {} of {}", p, n, i + 1, n));
                }
            }
            let bits_half = true;
            if bits_half && n >= 1000 {
                let l = bf.len() as f64;
                let dev = (l - n as f64).abs() / n as f64;
                if dev > len_dev_max {
                    len_dev_max = dev;
                }
            }
            let per = probes / seeds;
            for j in 0..per {
                let y = base + n as u64 + 1 + j; // disjoint from the inserted keys
                fp_bloom += bf.query(&y) as u64;
                fp_c4 += c4.query(&y) as u64;
                fp_c8 += c8.query(&y) as u64;
            }
            total += per;
            e.evals += 1;
        }
        let t = total as f64;
        // the rate varies between hasher seeds (the filter content is a random object), so the
        // margin uses the between-seed spread bound sqrt(p/seeds) besides the binomial term
        let marg = |target: f64| 5.5 * (target * (1.0 - target).max(0.0) / t).sqrt() + 5.5 * target * (1.0 / (seeds as f64 * target * n as f64).sqrt()).min(1.0) + 2.0 / t;
        let rb = fp_bloom as f64 / t;
        e.statmax("c07.bloom_rate_over_p_x100", (rb / p * 100.0) as u64);
        if rb > 1.3 * p + marg(1.3 * p) {
            e.fails.push(format!("bloom(n={}, p={}): false-positive frequency {:.5} exceeds 1.3*p (+margin {:.5})", n, p, rb, marg(1.3 * p)));
        }
        for (name, fp) in [("cuckoo_4", fp_c4), ("cuckoo_8", fp_c8)] {
            let r = fp as f64 / t;
            e.statmax(&format!("c07.{}_rate_over_p_x100", name), (r / p * 100.0) as u64);
            if r > p + marg(p) {
                e.fails.push(format!("{}(p={}, n={}): false-positive frequency {:.5} exceeds p (+margin {:.5})", name, p, n, r, marg(p)));
            }
        }
        if n >= 1000 {
            e.statmax("c07.bloom_len_dev_x1000", (len_dev_max * 1000.0) as u64);
            if len_dev_max > 0.08 {
                e.fails.push(format!("bloom(n={}, p={}): len() deviates {:.3} from the number of distinct inserts", n, p, len_dev_max));
            }
        }
    }
    // the Bloom rate does not depend on the key type: 4-byte and short unsized keys
    for &(n, p) in &[(400usize, 0.05f64), (2000, 0.02)] {
        let (mut fp32, mut fps, mut total) = (0u64, 0u64, 0u64);
        for s in 0..seeds {
            let seed = (e.rng.next() % 1_000_000) as usize + s as usize;
            let mut b32 = BloomFilter::<u32, BuildHasherSeeded>::with_properties_and_hash(n, p, BuildHasherSeeded::new(seed));
            let mut bs = BloomFilter::<str, BuildHasherSeeded>::with_properties_and_hash(n, p, BuildHasherSeeded::new(seed));
            let base = (e.rng.next() % 1_000_000) as u32;
            for i in 0..n as u32 {
                b32.insert(&(base + i)).unwrap();
                bs.insert(format!("{:x}", i).as_str()).unwrap();
            }
            let per = probes / seeds;
            for j in 0..per as u32 {
                fp32 += b32.query(&(base + n as u32 + 1 + j)) as u64;
                fps += bs.query(format!("{:x}", n as u32 + 1 + j).as_str()) as u64;
            }
            total += per;
            e.evals += 1;
        }
        let t = total as f64;
        let lim = 1.3 * p + 5.5 * (1.3 * p / t).sqrt() + 5.5 * 1.3 * p * (1.0 / (seeds as f64 * 1.3 * p * n as f64).sqrt()).min(1.0) + 2.0 / t;
        for (name, fp) in [("u32", fp32), ("short str", fps)] {
            let r = fp as f64 / t;
            if r > lim {
                e.fails.push(format!("bloom(n={}, p={}) with {} keys: false-positive frequency {:.5} exceeds 1.3*p (+margin)", n, p, name, r));
            }
        }
    }
    // AnyHash keys: values of different types with identical hash bytes are different elements
    // (the TypeId is part of the key), so probing with the other type is probing never-inserted keys
    {
        use pdatastructs::hash_utils::AnyHash;
        let (n, p) = (1000usize, 0.02f64);
        let mut bf = BloomFilter::<AnyHash>::with_properties(n, p);
        let mut cf = CuckooFilter::<AnyHash, ScriptRng>::with_properties_4(p, n, ScriptRng::new(e.rng.next()));
        let base = e.rng.next() >> 2;
        for i in 0..n as u64 {
            bf.insert(&AnyHash::new(&(base + i))).unwrap();
            let _ = cf.insert(&AnyHash::new(&(base + i)));
        }
        let (mut fb_, mut fc, mut miss) = (0u64, 0u64, 0u64);
        for i in 0..n as u64 {
            miss += !bf.query(&AnyHash::new(&(base + i))) as u64;
            fb_ += bf.query(&AnyHash::new(&((base + i) as i64))) as u64;
            fb_ += bf.query(&AnyHash::new(&((base + i) as usize))) as u64;
            fc += cf.query(&AnyHash::new(&((base + i) as i64))) as u64;
            fc += cf.query(&AnyHash::new(&((base + i) as usize))) as u64;
        }
        e.evals += 1;
        let t = 2.0 * n as f64;
        if miss > 0 {
            e.fails.push(format!("bloom keyed by AnyHash: {} of {} inserted u64 keys not reported", miss, n));
        }
        if fb_ as f64 / t > 1.3 * p + 5.5 * (1.3 * p / t).sqrt() + 0.01 {
            e.fails.push(format!("bloom(n={}, p={}) keyed by AnyHash: values of another type with the same bytes answered true with frequency {:.3}", n, p, fb_ as f64 / t));
        }
        if fc as f64 / t > p + 5.5 * (p / t).sqrt() + 0.01 {
            e.fails.push(format!("cuckoo_4(p={}, n={}) keyed by AnyHash: values of another type with the same bytes answered true with frequency {:.3}", p, n, fc as f64 / t));
        }
    }
    // acceptance of n distinct inserts at sizes just below 0.95 * 2^j, where the table built by
    // with_properties_4 is at its fullest and inserts need relocations
    let big: &[(usize, f64)] = if e.scale > 1 { &[(62_259, 0.02), (124_518, 0.02), (249_036, 0.02), (31_129, 0.3)] } else { &[(62_259, 0.02), (124_518, 0.02)] };
    for &(n, p) in big {
        for s in 0..(if e.scale > 1 { 8 } else { 4 }) {
            let seed = (e.rng.next() % 1_000_000) as usize + s as usize;
            let mut c4 = CuckooFilter::<u64, ScriptRng, BuildHasherSeeded>::with_properties_and_hash_4(p, n, ScriptRng::new(e.rng.next()), BuildHasherSeeded::new(seed));
            let mut c8 = CuckooFilter::<u64, ScriptRng, BuildHasherSeeded>::with_properties_and_hash_8(p, n, ScriptRng::new(e.rng.next()), BuildHasherSeeded::new(seed));
            let base = e.rng.next() >> 2;
            let (mut full4, mut full8) = (0u64, 0u64);
            for i in 0..n as u64 {
                full4 += c4.insert(&(base + i)).is_err() as u64;
                full8 += c8.insert(&(base + i)).is_err() as u64;
            }
            e.evals += 1;
            if full4 > 0 {
                e.fails.push(format!("cuckoo_4(p={}, n={}) refused {} of {} distinct inserts as Full", p, n, full4, n));
            }
            if full8 > 0 {
                e.fails.push(format!("cuckoo_8(p={}, n={}) refused {} of {} distinct inserts as Full", p, n, full8, n));
            }
            if c4.len() != n || c8.len() != n {
                e.fails.push(format!("cuckoo(p={}, n={}): len() = {} / {} after n accepted inserts", p, n, c4.len(), c8.len()));
            }
        }
    }
    // quotient filter: frequency <= m * 2^-(q+r)
    for &(q, r, m) in &[(8usize, 4usize, 200u64), (10, 3, 600), (6, 8, 50), (8, 56, 200), (4, 60, 12), (10, 54, 600), (1, 63, 2)] {
        let mut fp = 0u64;
        let mut total = 0u64;
        for s in 0..seeds {
            let mut f = QuotientFilter::<u64, BuildHasherSeeded>::with_params_and_hash(q, r, BuildHasherSeeded::new(s as usize + 17));
            let base = e.rng.next() >> 2;
            let mut stored = 0u64;
            let mut i = 0u64;
            while stored < m {
                if let Ok(true) = f.insert(&(base + i)) {
                    stored += 1;
                }
                i += 1;
            }
            let per = probes / seeds;
            for j in 0..per {
                fp += f.query(&(base + i + 1 + j)) as u64;
            }
            total += per;
            e.evals += 1;
        }
        let t = total as f64;
        let target = m as f64 / 2f64.powi((q + r) as i32);
        let rate = fp as f64 / t;
        if rate > target + 5.5 * (target / t).sqrt() + 2.0 / t {
            e.fails.push(format!("quotient filter q={} r={} holding {}: false-positive frequency {:.5} exceeds m*2^-(q+r) = {:.5}", q, r, m, rate, target));
        }
    }
}

// ---------------------------------------------------------------------------------------------
// C08: (epsilon, delta) point-query guarantee of the count-min sketch
/// One (eps, delta) grid over three stream shapes for a key type: `$mk` maps an element number to
/// the key handed to the sketch (`$T` is the sketch's key type, possibly unsized).
macro_rules! c08_grid {
    ($e:expr, $T:ty, $label:expr, $grid:expr, $seeds:expr, $mk:expr, $asref:expr) => {{
        let e: &mut Exp = $e;
        let seeds: u64 = $seeds;
        for &(eps, delta) in $grid {
            for shape in 0..3 {
                let mut bad = 0u64;
                let mut pairs = 0u64;
                for s in 0..seeds {
                    let mut c = CountMinSketch::<$T, u64, BuildHasherSeeded>::with_point_query_properties_and_hasher(eps, delta, BuildHasherSeeded::new((e.rng.next() % 1_000_000) as usize + s as usize));
                    let mut truth: BTreeMap<u64, u64> = BTreeMap::new();
                    let mut total = 0u64;
                    let nel = 60u64;
                    let base = (e.rng.next() >> 8) % 40_000;
                    if s % 3 == 0 {
                        // a sketch that was used and cleared gives the same guarantee as a fresh one
                        for i in 0..5u64 {
                            let k = $mk(base + 50_000 + i);
                            c.add_n($asref(&k), &(7 + i));
                        }
                        c.clear();
                    }
                    match shape {
                        0 => {
                            for i in 0..nel {
                                let w = 1 + e.rng.below(5);
                                let k = $mk(base + i);
                                c.add_n($asref(&k), &w);
                                *truth.entry(base + i).or_insert(0) += w;
                                total += w;
                            }
                        }
                        1 => {
                            for i in 0..nel {
                                let w = 1 + 200 / (i + 1);
                                let k = $mk(base + i);
                                c.add_n($asref(&k), &w);
                                *truth.entry(base + i).or_insert(0) += w;
                                total += w;
                            }
                        }
                        _ => {
                            // adversarial: floor(1/eps) - 1 heavy hitters each just above eps*N, rest light
                            let heavy = ((1.0 / eps).floor() as u64).saturating_sub(1).max(1);
                            let light = nel;
                            let wl = 1u64;
                            // choose heavy weight h with h > eps * (heavy*h + light): h (1 - eps*heavy) > eps*light
                            let denom = 1.0 - eps * heavy as f64;
                            let h = if denom > 0.0 { ((eps * light as f64 / denom).floor() as u64 + 1).max(2) } else { 50 };
                            for i in 0..heavy {
                                let k = $mk(base + 1000 + i);
                                c.add_n($asref(&k), &h);
                                *truth.entry(base + 1000 + i).or_insert(0) += h;
                                total += h;
                            }
                            for i in 0..light {
                                let k = $mk(base + i);
                                c.add_n($asref(&k), &wl);
                                *truth.entry(base + i).or_insert(0) += wl;
                                total += wl;
                            }
                        }
                    }
                    for (k, t) in &truth {
                        let key = $mk(*k);
                        let q = c.query_point($asref(&key));
                        if q < *t {
                            e.fails.push(format!("count-min sketch underestimates ({} keys)", $label));
                        }
                        if (q - *t) as f64 > eps * total as f64 {
                            bad += 1;
                        }
                        pairs += 1;
                    }
                    e.evals += 1;
                }
                let frac = bad as f64 / pairs as f64;
                // elements of one seed are correlated: the margin is taken over seeds, not pairs
                let lim = delta + 5.5 * (delta * (1.0 - delta) / seeds as f64).sqrt() + 1.0 / seeds as f64;
                e.statmax("c08.frac_over_delta_x100", (frac / delta * 100.0) as u64);
                if frac > lim {
                    e.fails.push(format!("cms(eps={}, delta={}) shape {} ({} keys): overestimate exceeds eps*N for a fraction {:.4} of (seed, element) pairs > delta (+margin: {:.4})", eps, delta, shape, $label, frac, lim));
                }
            }
        }
    }};
}

pub fn exp_c08(e: &mut Exp) {
    let seeds: u64 = if e.scale > 1 { 3000 } else { 600 };
    let grid: &[(f64, f64)] = if e.scale > 1 {
        &[(0.1, 0.5), (0.05, 0.1), (0.02, 0.01), (0.2, 0.9), (0.01, 0.3), (0.3, 0.05), (0.005, 0.2), (0.1, 0.4), (0.05, 0.6), (0.02, 0.45)]
    } else {
        &[(0.1, 0.5), (0.05, 0.1), (0.2, 0.9), (0.02, 0.01), (0.025, 0.1), (0.09, 0.05), (0.03, 0.05), (0.1, 0.15), (0.2, 0.2), (0.0625, 0.25), (0.1, 0.4), (0.05, 0.6)]
    };
    fn same<T: ?Sized>(k: &T) -> &T {
        k
    }
    c08_grid!(e, u64, "u64", grid, seeds, |i: u64| i, same);
    // the guarantee does not depend on the key type: small integer keys and short unsized keys
    let small: &[(f64, f64)] = &[(0.1, 0.05), (0.05, 0.2), (0.02, 0.05)];
    let seeds2 = seeds / 3;
    c08_grid!(e, u32, "u32", small, seeds2, |i: u64| i as u32, same);
    c08_grid!(e, u16, "u16", small, seeds2, |i: u64| i as u16, same);
    c08_grid!(e, str, "short str", small, seeds2, |i: u64| format!("{:x}", i % 65_536), String::as_str);
    c08_grid!(e, (u8, u8), "tuple", small, seeds2, |i: u64| ((i >> 8) as u8, i as u8), same);
}

/// C08, known finding: enhanced double hashing reaches only w^2 of the w^d column tuples (two
/// elements that agree in h1 mod w and h2 mod w collide in every row), so the fraction of bad
/// pairs has a floor of about eps/e^2 that no number of rows removes; for delta below that floor
/// `with_point_query_properties(eps, delta)` misses its guarantee. Probed at fixed grid points so
/// that the finding is identified by its inputs.
pub fn exp_c08_floor(e: &mut Exp) {
    let seeds: u64 = if e.scale > 1 { 3000 } else { 600 };
    for &(eps, delta) in &[(0.25f64, 0.001f64), (0.1, 0.001), (0.05, 0.001), (0.02, 0.001), (0.01, 0.0001)] {
        let mut bad = 0u64;
        let mut pairs = 0u64;
        for s in 0..seeds {
            let mut c = CountMinSketch::<u64, u64, BuildHasherSeeded>::with_point_query_properties_and_hasher(eps, delta, BuildHasherSeeded::new((e.rng.next() % 1_000_000) as usize + s as usize));
            let n_total: u64 = 1_000_000;
            let hw = (eps * n_total as f64).floor() as u64 + 1;
            let nheavy = n_total / hw;
            let mut truth: Vec<(u64, u64)> = vec![];
            for i in 0..nheavy {
                c.add_n(&(1000 + i), &hw);
                truth.push((1000 + i, hw));
            }
            let rest = n_total - nheavy * hw;
            let nlight = 200u64;
            for i in 0..nlight {
                let wl = rest / nlight;
                if wl > 0 {
                    c.add_n(&i, &wl);
                    truth.push((i, wl));
                }
            }
            let total: u64 = truth.iter().map(|t| t.1).sum();
            for (k, t) in &truth {
                if (c.query_point(k) - t) as f64 > eps * total as f64 {
                    bad += 1;
                }
                pairs += 1;
            }
            e.evals += 1;
        }
        let frac = bad as f64 / pairs as f64;
        let lim = delta + 5.5 * (delta * (1.0 - delta) / seeds as f64).sqrt() + 1.0 / seeds as f64;
        e.statmax("c08.floor_frac_over_delta_x100", (frac / delta * 100.0) as u64);
        if frac > lim {
            e.fails.push(format!("cms double-hashing floor (eps={}, delta={}): overestimate exceeds eps*N for a fraction {:.5} of (seed, element) pairs > delta (+margin: {:.5})", eps, delta, frac, lim));
        }
    }
}

/// Open known finding of C07 (same root cause as the C08 one): the k Bloom positions are a
/// function of (h1 mod m, h2 mod m) only, so a probe that agrees with an inserted element in
/// both residues is a false positive whatever k is; the frequency cannot fall below ~ n/m^2,
/// which exceeds 1.3*p once p is below ~ 0.18/(n ln^2(1/p)).
pub fn exp_c07_floor(e: &mut Exp) {
    let seeds: u64 = if e.scale > 1 { 40 } else { 16 };
    let per: u64 = if e.scale > 1 { 250_000 } else { 125_000 };
    for &(n, p) in &[(50usize, 1e-8f64), (100, 1e-8), (50, 1e-6), (200, 1e-7)] {
        let mut fp = 0u64;
        let mut total = 0u64;
        for s in 0..seeds {
            let seed = (e.rng.next() % 1_000_000) as usize + s as usize;
            let mut bf = BloomFilter::<u64, BuildHasherSeeded>::with_properties_and_hash(n, p, BuildHasherSeeded::new(seed));
            let base = e.rng.next() >> 2;
            for i in 0..n as u64 {
                bf.insert(&(base + i)).unwrap();
            }
            for j in 0..per {
                fp += bf.query(&(base + n as u64 + 1 + j)) as u64;
            }
            total += per;
            e.evals += 1;
        }
        let t = total as f64;
        let r = fp as f64 / t;
        let lim = 1.3 * p + 5.5 * (1.3 * p / t).sqrt() + 3.0 / t;
        e.statmax("c07.floor_rate_over_p_x100", (r / p * 100.0).min(1e12) as u64);
        if r > lim {
            e.fails.push(format!("bloom double-hashing floor (n={}, p={:e}): false-positive frequency {:.3e} exceeds 1.3*p (+margin: {:.3e})", n, p, r, lim));
        }
    }
}

// ---------------------------------------------------------------------------------------------
// C11: heap memory held by each structure (counting global allocator, see main.rs)
fn measure<T>(build: impl FnOnce() -> T) -> (T, usize) {
    let before = crate::alloc::live();
    let v = build();
    let after = crate::alloc::live();
    (v, after.saturating_sub(before))
}

fn check_mem(e: &mut Exp, what: &str, held: usize, documented: usize, slack: usize) {
    e.evals += 1;
    let lim = 2 * documented + slack;
    if documented >= 1024 {
        let ratio = (held as f64 / documented as f64 * 100.0) as u64;
        e.statmax(&format!("c11.held_over_documented_x100.{}", what.split(' ').next().unwrap()), ratio);
    }
    if held > lim {
        e.fails.push(format!("{}: holds {} bytes of heap, documented size is {} bytes (limit 2x + {} = {})", what, held, documented, slack, lim));
    }
}

/// Open known finding C11-tdigest-k2k3-weight-range (reported by a round-10 mutation sub-agent on the
/// unmodified crate): K2 and K3 normalise with the number of inserts (`x(n) = delta / (4 ln(n/delta) + c)`),
/// but the k-range the centroids have to cover is `2 x ln(total weight / smallest weight)`; with weights
/// that grow geometrically that logarithm grows linearly with the stream, so about n/2 centroids survive
/// (until the f64 exponent range is used up).  K0 and K1 hold ~6 centroids on the same stream (checked here
/// too: a failure for them is NOT covered by the known finding).  Probed at fixed points.
pub fn exp_c11_td_weight_range(e: &mut Exp) {
    fn run<S: ScaleFunction + Clone + std::fmt::Debug>(sf: S, n: u64) -> usize {
        let mut d = TDigest::new(sf, 16);
        let mut w = 1.0f64;
        for i in 0..n {
            d.insert_weighted(i as f64, w);
            w *= 2.0; // stays finite: 2^999 ~ 5e300
        }
        d.n_centroids()
    }
    let (delta, bl) = (20.0f64, 16.0f64);
    for &n in &[400u64, 1000] {
        for (name, nc) in [("K0", run(K0::new(delta), n)), ("K1", run(K1::new(delta), n)), ("K2", run(K2::new(delta), n)), ("K3", run(K3::new(delta), n))] {
            e.evals += 1;
            e.statmax(&format!("c11.td_weight_range.{}", name), nc as u64);
            if nc as f64 > 2.0 * delta + 6.0 + bl {
                e.fails.push(format!("tdigest weight-range floor ({}, delta=20, backlog=16, weights 2^i, n={}): {} centroids (O(delta + backlog) expected)", name, n, nc));
            }
        }
    }
}

pub fn exp_c11(e: &mut Exp) {
    let lens: &[u64] = if e.scale > 1 { &[1_000, 10_000, 100_000, 1_000_000] } else { &[1_000, 10_000, 100_000] };
    // --- cuckoo: slots x fingerprint bits -----------------------------------------------------
    for &lf in &[2usize, 3, 8, 13, 32, 63, 64] {
        for &(bs, nb) in &[(2usize, 2usize), (4, 1 << 10), (8, 1 << 12), (4, 1 << 16)] {
            let (mut f, built) = measure(|| CuckooFilter::<u64, ScriptRng, BuildHasherSeeded>::with_params_and_hash(ScriptRng::new(1), bs, nb, lf, BuildHasherSeeded::new(0)));
            let doc = bs * nb * lf / 8 + 8;
            check_mem(e, &format!("cuckoo bs={} nb={} l={} after construction", bs, nb, lf), built, doc, 256);
            let base = crate::alloc::live() - built;
            let mut i = 0u64;
            for &n in lens.iter().take(2) {
                let n = n.min(3 * (bs * nb) as u64 + 200);
                while i < n {
                    let _ = f.insert(&i); // includes failed inserts once the table is full
                    if i % 7 == 0 {
                        f.delete(&(i / 2));
                    }
                    i += 1;
                }
                check_mem(e, &format!("cuckoo bs={} nb={} l={} after {} ops", bs, nb, lf, n), crate::alloc::live() - base, doc, 256);
            }
            f.clear();
            check_mem(e, &format!("cuckoo bs={} nb={} l={} after clear", bs, nb, lf), crate::alloc::live() - base, doc, 256);
            drop(f);
        }
    }
    // --- quotient filter: slots x (remainder bits + 3) ---------------------------------------
    for &(q, r) in &[(4usize, 2usize), (10, 5), (12, 8), (12, 20), (8, 56), (16, 13), (12, 52)] {
        let (mut f, built) = measure(|| QuotientFilter::<u64, BuildHasherSeeded>::with_params_and_hash(q, r, BuildHasherSeeded::new(0)));
        let doc = (1usize << q) * (r + 3) / 8 + 32;
        check_mem(e, &format!("quotient q={} r={} after construction", q, r), built, doc, 256);
        let base = crate::alloc::live() - built;
        let mut i = 0u64;
        for &n in lens.iter().take(2) {
            let n = n.min((1u64 << q) + 300);
            while i < n {
                let _ = f.insert(&i);
                i += 1;
            }
            check_mem(e, &format!("quotient q={} r={} after {} inserts", q, r, n), crate::alloc::live() - base, doc, 256);
        }
        // a failed union makes (and must release) a full backup
        let mut g = QuotientFilter::<u64, BuildHasherSeeded>::with_params_and_hash(q, r, BuildHasherSeeded::new(0));
        for j in 0..(1u64 << q) {
            let _ = g.insert(&(j + 5_000_000));
        }
        let b2 = crate::alloc::live();
        let _ = f.union(&g);
        let grown = crate::alloc::live().saturating_sub(b2);
        if grown > 64 {
            e.fails.push(format!("quotient q={} r={}: union left {} extra bytes allocated", q, r, grown));
        }
        drop(g);
        f.clear();
        check_mem(e, &format!("quotient q={} r={} after clear", q, r), crate::alloc::live() - base, doc, 256);
    }
    // --- bloom: m bits --------------------------------------------------------------------------
    for &(m, k) in &[(64usize, 2usize), (10_000, 5), (1_000_000, 7)] {
        let (mut f, built) = measure(|| BloomFilter::<u64, BuildHasherSeeded>::with_params_and_hash(m, k, BuildHasherSeeded::new(0)));
        let doc = m / 8 + 8 * k + 8;
        check_mem(e, &format!("bloom m={} k={} after construction", m, k), built, doc, 256);
        let base = crate::alloc::live() - built;
        let mut i = 0u64;
        for &n in lens {
            while i < n {
                f.insert(&i).unwrap();
                i += 1;
            }
            check_mem(e, &format!("bloom m={} k={} after {} inserts", m, k, n), crate::alloc::live() - base, doc, 256);
        }
        f.clear();
        check_mem(e, &format!("bloom m={} k={} after clear", m, k), crate::alloc::live() - base, doc, 256);
    }
    // --- count-min sketch: w*d counters -----------------------------------------------------
    for &(w, d) in &[(3usize, 2usize), (272, 3), (5000, 5)] {
        let (mut c, built) = measure(|| CountMinSketch::<u64, u32, BuildHasherSeeded>::with_params_and_hasher(w, d, BuildHasherSeeded::new(0)));
        let doc = w * d * 4 + 8 * d + 8;
        check_mem(e, &format!("cms w={} d={} after construction", w, d), built, doc, 256);
        let base = crate::alloc::live() - built;
        let mut i = 0u64;
        for &n in lens {
            while i < n {
                c.add(&i);
                i += 1;
            }
            check_mem(e, &format!("cms w={} d={} after {} adds", w, d, n), crate::alloc::live() - base, doc, 256);
        }
        let o = c.clone();
        let b2 = crate::alloc::live();
        c.merge(&o);
        if crate::alloc::live() > b2 + 64 {
            e.fails.push(format!("cms w={} d={}: merge grew the allocation", w, d));
        }
        drop(o);
        c.clear();
        check_mem(e, &format!("cms w={} d={} after clear", w, d), crate::alloc::live() - base, doc, 256);
    }
    // --- hyperloglog: 2^b bytes -----------------------------------------------------------------
    for &b in &[4usize, 10, 16, 18] {
        let (mut h, built) = measure(|| HyperLogLog::<u64, BuildHasherSeeded>::with_hash(b, BuildHasherSeeded::new(0)));
        let doc = 1usize << b;
        check_mem(e, &format!("hll b={} after construction", b), built, doc, 256);
        let base = crate::alloc::live() - built;
        let mut i = 0u64;
        for &n in lens {
            while i < n {
                h.add(&i);
                i += 1;
            }
            let _ = h.count();
            check_mem(e, &format!("hll b={} after {} adds", b, n), crate::alloc::live() - base, doc, 256);
        }
        h.clear();
        check_mem(e, &format!("hll b={} after clear", b), crate::alloc::live() - base, doc, 256);
    }
    // --- reservoir: k items -----------------------------------------------------------------------
    for &k in &[1usize, 100, 10_000] {
        let (mut r, _built) = measure(|| ReservoirSampling::<u64, ScriptRng>::new(k, ScriptRng::new(1)));
        let base = crate::alloc::live();
        let doc = 8 * k + 8;
        let mut i = 0u64;
        for &n in lens {
            while i < n {
                r.add(i);
                i += 1;
            }
            check_mem(e, &format!("reservoir k={} after {} adds", k, n), crate::alloc::live() - base, doc, 256);
        }
        drop(r);
        // the whole stream through Extend (exact size_hint), fresh and after clear
        let mut r = ReservoirSampling::<u64, ScriptRng>::new(k, ScriptRng::new(1));
        let base = crate::alloc::live();
        r.extend(0..lens[1]);
        check_mem(e, &format!("reservoir k={} after extend of {} items", k, lens[1]), crate::alloc::live() - base, doc, 256);
        r.clear();
        r.extend(0..lens[2]);
        check_mem(e, &format!("reservoir k={} after clear and extend of {} items", k, lens[2]), crate::alloc::live() - base, doc, 256);
    }
    // --- t-digest: O(delta + max_backlog_size) centroids ----------------------------------------
    for &(delta, bl) in &[(10.0f64, 0usize), (100.0, 10), (100.0, 1000), (1000.0, 100)] {
        let (mut d, _b) = measure(|| TDigest::new(K1::new(delta), bl));
        let base = crate::alloc::live();
        // 16 bytes per centroid; Vec growth doubles; the merge pass holds a temporary copy
        let doc = 16 * (delta as usize + 3 + bl + 1) * 2;
        let mut i = 0u64;
        let mut sm = SplitMix(5);
        for &n in lens {
            while i < n {
                d.insert(sm.f01());
                i += 1;
            }
            let _ = d.quantile(0.5);
            check_mem(e, &format!("tdigest delta={} backlog={} after {} inserts", delta, bl, n), crate::alloc::live() - base, doc, 512);
        }
    }
    // the same with weighted inserts (integer multiplicities, tiny and huge weights) and every
    // scale function: the centroid count must not depend on how the weight is distributed
    fn td_weighted<S: ScaleFunction + Clone + std::fmt::Debug>(e: &mut Exp, name: &str, sf: S, delta: f64, bl: usize, lens: &[u64]) {
        for wmode in 0..8u64 {
            let mut d = TDigest::new(sf.clone(), bl);
            let base = crate::alloc::live();
            let doc = 16 * (delta as usize + 3 + bl + 1) * 2;
            let mut i = 0u64;
            let mut sm = SplitMix(11 + wmode);
            for &n in lens.iter().take(2) {
                while i < n {
                    let w = match wmode {
                        0 => 1.0 + sm.below(50) as f64,
                        1 => if sm.chance(1, 2) { 1e-6 } else { 1e6 },
                        2 => 0.5 + sm.f01(),
                        // every weight below 1 (a sample count derived from the weights stays 0)
                        3 => 0.05 + 0.9 * sm.f01(),
                        4 => if sm.chance(1, 2) { 1e-6 } else { 0.25 },
                        // subnormal weights: the total weight stays below 1/f64::MAX
                        5 => 1e-320,
                        _ => 1.0,
                    };
                    // modes 6 and 7: unit weights in ascending / descending order (every flush lies to
                    // one side of all existing centroids)
                    let x = match wmode {
                        6 => i as f64,
                        7 => -(i as f64),
                        _ => sm.f01() * 100.0,
                    };
                    d.insert_weighted(x, w);
                    i += 1;
                }
                let _ = d.quantile(0.5);
                let nc = d.n_centroids();
                e.evals += 1;
                // K0/K1: delta + 3; K2/K3 with non-unit weights: the same order of magnitude
                if nc as f64 > 2.0 * delta + 6.0 + bl as f64 {
                    e.fails.push(format!("tdigest {} delta={} backlog={} weights#{}: {} centroids after {} weighted inserts (O(delta + backlog) expected)", name, delta, bl, wmode, nc, n));
                }
                check_mem(e, &format!("tdigest {} delta={} backlog={} weights#{} after {} weighted inserts", name, delta, bl, wmode, n), crate::alloc::live() - base, doc, 512);
            }
        }
    }
    for &(delta, bl) in &[(20.0f64, 32usize), (100.0, 10)] {
        td_weighted(e, "K0", K0::new(delta), delta, bl, lens);
        td_weighted(e, "K1", K1::new(delta), delta, bl, lens);
        td_weighted(e, "K2", K2::new(delta), delta, bl, lens);
        td_weighted(e, "K3", K3::new(delta), delta, bl, lens);
    }
    // --- clone_from from a small configuration into a large instance: afterwards the instance holds
    //     what its (new) configuration documents, not what it used to hold ---------------------------
    {
        use pdatastructs::topk::cmsheap::CMSHeap;
        use pdatastructs::topk::lossycounter::LossyCounter;
        let base = crate::alloc::live();
        let mut big = HyperLogLog::<u64, BuildHasherSeeded>::with_hash(18, BuildHasherSeeded::new(1));
        let small = HyperLogLog::<u64, BuildHasherSeeded>::with_hash(4, BuildHasherSeeded::new(2));
        big.add(&1);
        big.clone_from(&small);
        drop(small);
        check_mem(e, "clone_from hll b=4 into b=18", crate::alloc::live() - base, 16, 256);
        drop(big);
        let base = crate::alloc::live();
        let mut big = BloomFilter::<u64, BuildHasherSeeded>::with_params_and_hash(1 << 20, 3, BuildHasherSeeded::new(1));
        let small = BloomFilter::<u64, BuildHasherSeeded>::with_params_and_hash(64, 3, BuildHasherSeeded::new(2));
        big.insert(&1).unwrap();
        big.clone_from(&small);
        drop(small);
        check_mem(e, "clone_from bloom m=64 into m=2^20", crate::alloc::live() - base, 8 + 24, 256);
        drop(big);
        let base = crate::alloc::live();
        let mut big = CountMinSketch::<u64, u64, BuildHasherSeeded>::with_params_and_hasher(4096, 8, BuildHasherSeeded::new(1));
        let small = CountMinSketch::<u64, u64, BuildHasherSeeded>::with_params_and_hasher(4, 2, BuildHasherSeeded::new(2));
        big.add(&1);
        big.clone_from(&small);
        drop(small);
        check_mem(e, "clone_from cms 4x2 into 4096x8", crate::alloc::live() - base, 4 * 2 * 8 + 16, 256);
        drop(big);
        let base = crate::alloc::live();
        let mut big = CuckooFilter::<u64, ScriptRng, BuildHasherSeeded>::with_params_and_hash(ScriptRng::new(1), 4, 1 << 14, 16, BuildHasherSeeded::new(1));
        let small = CuckooFilter::<u64, ScriptRng, BuildHasherSeeded>::with_params_and_hash(ScriptRng::new(1), 2, 4, 8, BuildHasherSeeded::new(2));
        big.insert(&1).unwrap();
        big.clone_from(&small);
        drop(small);
        check_mem(e, "clone_from cuckoo 2x4x8 into 4x2^14x16", crate::alloc::live() - base, 16, 256);
        drop(big);
        let base = crate::alloc::live();
        let mut big = QuotientFilter::<u64, BuildHasherSeeded>::with_params_and_hash(14, 20, BuildHasherSeeded::new(1));
        let small = QuotientFilter::<u64, BuildHasherSeeded>::with_params_and_hash(3, 4, BuildHasherSeeded::new(2));
        big.insert(&1).unwrap();
        big.clone_from(&small);
        drop(small);
        check_mem(e, "clone_from quotient q=3 into q=14", crate::alloc::live() - base, 64, 256);
        drop(big);
        let base = crate::alloc::live();
        let mut big = TDigest::new(K1::new(1000.0), 1000);
        let small = TDigest::new(K1::new(10.0), 0);
        for i in 0..5000 {
            big.insert(i as f64);
        }
        big.clone_from(&small);
        drop(small);
        check_mem(e, "clone_from tdigest delta=10 into a loaded delta=1000", crate::alloc::live() - base, 16 * 14 * 2, 512);
        drop(big);
        let base = crate::alloc::live();
        let mut big = ReservoirSampling::<u64, ScriptRng>::new(1 << 16, ScriptRng::new(1));
        let small = ReservoirSampling::<u64, ScriptRng>::new(4, ScriptRng::new(1));
        big.extend(0..100_000u64);
        big.clone_from(&small);
        drop(small);
        check_mem(e, "clone_from reservoir k=4 into a loaded k=2^16", crate::alloc::live() - base, 4 * 8, 256);
        drop(big);
        let base = crate::alloc::live();
        let mut big = LossyCounter::<u64>::with_width(10_000);
        let small = LossyCounter::<u64>::with_width(2);
        for i in 0..9_000u64 {
            big.add(i);
        }
        big.clone_from(&small);
        drop(small);
        check_mem(e, "clone_from lossy width=2 into a loaded width=10000", crate::alloc::live() - base, 64, 512);
        drop(big);
        let base = crate::alloc::live();
        let mut big = CMSHeap::<u64>::new(1000, CountMinSketch::with_params(1000, 5));
        let small = CMSHeap::<u64>::new(1, CountMinSketch::with_params(2, 1));
        for i in 0..3_000u64 {
            big.add(i);
        }
        big.clone_from(&small);
        drop(small);
        check_mem(e, "clone_from cmsheap k=1 into a loaded k=1000", crate::alloc::live() - base, 2 * 8 + 96 + 64, 512);
        drop(big);
    }
    // --- deserialised HyperLogLog: 2^b bytes for well-formed documents; documents whose register
    //     array does not match b are rejected (or, if accepted, still obey the bound) --------------
    for &(b, len) in &[(4usize, 16usize), (10, 1024), (4, 1024), (4, 65536), (5, 16), (4, 17), (12, 4096)] {
        let regs: Vec<String> = (0..len).map(|i| (i % 3).to_string()).collect();
        let doc = format!("{{\"registers\":[{}],\"b\":{},\"buildhasher\":{{\"mul\":1,\"add\":0,\"sh\":64,\"seed\":0}}}}", regs.join(","), b);
        let base = crate::alloc::live();
        let r = serde_json::from_str::<HyperLogLog<u64, crate::script::ScriptBH>>(&doc);
        if let Ok(mut h) = r {
            let budget = 1usize << h.b().min(20);
            check_mem(e, &format!("hll deserialised from a document with b={} and {} registers", b, len), crate::alloc::live() - base, budget, 128);
            for i in 0..1000u64 {
                h.add(&i);
            }
            h.clear();
            check_mem(e, &format!("hll deserialised (b={}, {} registers) after adds and clear", b, len), crate::alloc::live() - base, budget, 128);
        }
    }
    // --- cms heap: k items (+ the sketch) ------------------------------------------------------
    for &k in &[1usize, 10, 1000] {
        use pdatastructs::topk::cmsheap::CMSHeap;
        let (w, dd) = (100usize, 3usize);
        let (mut h, built) = measure(|| CMSHeap::<u64>::new(k, CountMinSketch::with_params(w, dd)));
        let base = crate::alloc::live() - built;
        // per held item: Rc allocation + hash-map slot + b-tree slot, with the containers' slack
        let doc = w * dd * 8 + 8 * dd + k * 96 + 64;
        let mut i = 0u64;
        let mut sm = SplitMix(9);
        for &n in lens.iter().take(2) {
            while i < n {
                h.add(sm.below(5000));
                i += 1;
            }
            check_mem(e, &format!("cmsheap k={} after {} adds", k, n), crate::alloc::live() - base, doc, 512);
        }
    }
    // --- lossy counter: width * (H(ceil(n/width)) + 1) entries -----------------------------------
    for &width in &[4usize, 100, 1000] {
        use pdatastructs::topk::lossycounter::LossyCounter;
        let (mut l, _b) = measure(|| LossyCounter::<u64>::with_width(width));
        let base = crate::alloc::live();
        let mut i = 0u64;
        let mut sm = SplitMix(11);
        for &n in lens {
            while i < n {
                l.add(sm.next()); // all distinct: the worst case for the table size
                i += 1;
            }
            let b = (n as usize + width - 1) / width;
            let hsum: f64 = (1..=b).map(|x| 1.0 / x as f64).sum();
            let entries = (width as f64 * (hsum + 1.0)) as usize;
            // hashbrown: (16-byte key + 16-byte entry + 1 control byte) per slot, load <= 7/8, power-of-two growth
            let doc = entries * 34 * 2;
            check_mem(e, &format!("lossy width={} after {} adds", width, n), crate::alloc::live() - base, doc, 512);
        }
        drop(l);
        // second life: a long first stream, clear(), then a shorter stream of distinct elements -- the
        // table is bounded by the second stream alone
        {
            let mut l = LossyCounter::<u64>::with_width(width);
            let base = crate::alloc::live();
            for i in 0..lens[lens.len() - 1].min(200_000) {
                l.add(i % 7 + if i % 3 == 0 { i } else { 0 });
            }
            l.clear();
            drop(base);
            let n2 = 20 * width as u64 + 3;
            for i in 0..n2 {
                l.add(5_000_000 + i);
            }
            let b = (n2 as usize + width - 1) / width;
            let hsum: f64 = (1..=b).map(|x| 1.0 / x as f64).sum();
            let entries = (width as f64 * (hsum + 1.0)) as usize;
            let tracked = l.query(0.0).count();
            e.evals += 1;
            if tracked > entries {
                e.fails.push(format!("lossy width={}: {} entries tracked after clear() and {} distinct adds (bound {})", width, tracked, n2, entries));
            }
        }
        // window-aligned stream: a hot element on the first and last position of every window
        let mut l = LossyCounter::<u64>::with_width(width);
        let base = crate::alloc::live();
        let mut i = 0u64;
        for &n in lens.iter().take(2) {
            while i < n {
                let pos = (i + 1) % width as u64;
                l.add(if pos == 0 || pos == 1 { 7 } else { 1_000_000 + i });
                i += 1;
            }
            let b = (n as usize + width - 1) / width;
            let hsum: f64 = (1..=b).map(|x| 1.0 / x as f64).sum();
            let entries = (width as f64 * (hsum + 1.0)) as usize;
            check_mem(e, &format!("lossy width={} after {} window-aligned adds", width, n), crate::alloc::live() - base, entries * 34 * 2, 512);
        }
    }
}


/// a stateless hasher: serde encodes a unit struct as `null`
#[derive(Clone, Copy, Debug, Default, PartialEq, Eq, serde::Serialize, serde::Deserialize)]
pub struct UnitBH;
impl std::hash::BuildHasher for UnitBH {
    type Hasher = std::collections::hash_map::DefaultHasher;
    fn build_hasher(&self) -> Self::Hasher {
        std::collections::hash_map::DefaultHasher::new()
    }
}

/// C20 beyond `from_str` on the scripted hasher: a hasher that serialises to `null`, and
/// `Deserialize::deserialize_in_place` into an existing sketch of another precision.
pub fn exp_c20(e: &mut Exp) {
    use serde::Deserialize;
    for b in [4usize, 7, 12, 18] {
        let mut h = HyperLogLog::<u64, UnitBH>::with_hash(b, UnitBH);
        for i in 0..(3u64 << b.min(10)) {
            h.add(&(i ^ e.rng.next()));
        }
        let doc = serde_json::to_string(&h).unwrap();
        e.evals += 1;
        match serde_json::from_str::<HyperLogLog<u64, UnitBH>>(&doc) {
            Err(err) => e.fails.push(format!("hll b={} with a unit-struct hasher: own serialisation rejected: {}", b, err)),
            Ok(mut g) => {
                if g != h || g.count() != h.count() {
                    e.fails.push(format!("hll b={} with a unit-struct hasher: round trip differs", b));
                }
                g.add(&77);
                h.add(&77);
                if g != h {
                    e.fails.push(format!("hll b={} with a unit-struct hasher: round-tripped sketch reacts differently to add", b));
                }
            }
        }
    }
    // deserialize_in_place: same verdict and same result as from_str, whatever the receiver held
    for (bd, br) in [(4usize, 5usize), (5, 4), (6, 6), (12, 4), (4, 12)] {
        let mut src = HyperLogLog::<u64, crate::script::ScriptBH>::with_hash(bd, crate::script::ScriptBH::xor());
        for _ in 0..40 {
            src.add_hashed(e.rng.next());
        }
        let good = serde_json::to_string(&src).unwrap();
        // corrupt variants: b of the receiver with the source's registers, one register too few
        let regs: Vec<String> = src.registers().iter().map(|x| x.to_string()).collect();
        let bhs = "{\"mul\":1,\"add\":0,\"sh\":64,\"seed\":0}";
        let wrong_b = format!("{{\"registers\":[{}],\"b\":{},\"buildhasher\":{}}}", regs.join(","), br, bhs);
        let short = format!("{{\"registers\":[{}],\"b\":{},\"buildhasher\":{}}}", regs[1..].join(","), bd, bhs);
        for doc in [good.clone(), wrong_b, short] {
            let mut place = HyperLogLog::<u64, crate::script::ScriptBH>::with_hash(br, crate::script::ScriptBH::xor());
            place.add_hashed(e.rng.next());
            let want = serde_json::from_str::<HyperLogLog<u64, crate::script::ScriptBH>>(&doc);
            let mut de = serde_json::Deserializer::from_str(&doc);
            let r = std::panic::catch_unwind(std::panic::AssertUnwindSafe(|| {
                let r = HyperLogLog::<u64, crate::script::ScriptBH>::deserialize_in_place(&mut de, &mut place);
                r.is_ok()
            }));
            e.evals += 1;
            match (r, want) {
                (Err(_), _) => e.fails.push(format!("hll deserialize_in_place (document b={}, receiver b={}) panics", bd, br)),
                (Ok(true), Ok(w)) => {
                    let sane = place.registers().len() == 1usize << place.b();
                    if place != w || !sane {
                        e.fails.push(format!("hll deserialize_in_place (document b={}, receiver b={}) yields another sketch than from_str (b={}, {} registers)", bd, br, place.b(), place.registers().len()));
                    } else {
                        place.add_hashed(u64::MAX);
                        let _ = place.count();
                    }
                }
                (Ok(true), Err(_)) => e.fails.push(format!("hll deserialize_in_place accepts a document that from_str rejects (document b={}, receiver b={}): b={}, {} registers", bd, br, place.b(), place.registers().len())),
                (Ok(false), Ok(_)) => e.fails.push(format!("hll deserialize_in_place rejects a valid document (document b={}, receiver b={})", bd, br)),
                (Ok(false), Err(_)) => {}
            }
        }
    }
}

// ---------------------------------------------------------------------------------------------
// Glue around the modelled core: the convenience constructors with the default SipHash hasher
// delegate to the generic ones, and `Extend` is repeated add/insert. Compared on the real crate
// alone (the model takes hashes as parameters, so it cannot see SipHash).
pub fn exp_glue(e: &mut Exp, prop: &str) {
    use std::collections::hash_map::DefaultHasher;
    use std::hash::BuildHasherDefault;
    type Bh = BuildHasherDefault<DefaultHasher>;
    let rounds = 20 * e.scale;
    if prop == "C17" || prop == "C03" {
        // bulk ingestion through both Extend impls at the largest precisions: every register index
        // (17 and 18 bits wide) must be reachable, and the result is that of repeated add
        for b in [16usize, 17, 18] {
            let n = 40_000u64;
            let keys: Vec<u64> = (0..n).map(|i| i.wrapping_mul(0x9E3779B97F4A7C15) ^ e.rng.next()).collect();
            let mut a = HyperLogLog::<u64>::new(b);
            let mut c = HyperLogLog::<u64>::new(b);
            let mut c2 = HyperLogLog::<u64>::new(b);
            for x in &keys {
                a.add(x);
            }
            c.extend(keys.iter().cloned());
            for chunk in keys.chunks(4097) {
                c2.extend(chunk.iter());
            }
            e.evals += 1;
            if a.registers() != c.registers() || a.registers() != c2.registers() || a.count() != c.count() || a.count() != c2.count() {
                e.fails.push(format!("hll b={}: Extend of {} keys gives other registers / count than repeated add (count {} / {} / {})", b, n, a.count(), c.count(), c2.count()));
            }
        }
    }
    if prop == "C05" {
        // a stream tens of millions of times longer than k: ln(1 - k/n) must keep its precision, the
        // sample must not collapse onto the most recent items
        let n = 120_000_000u64;
        let mut last = 0u64;
        let runs = 4u64;
        let mut pos_sum = 0.0f64;
        for s in 0..runs {
            let mut r = ReservoirSampling::<u64, ScriptRng>::new(1, ScriptRng::new(e.rng.next() ^ s));
            for i in 0..n {
                r.add(i);
            }
            let x = r.reservoir()[0];
            last += (x >= n - 1000) as u64;
            pos_sum += x as f64 / n as f64;
            e.evals += 1;
        }
        if last > 0 {
            e.fails.push(format!("reservoir k=1, n={}: {} of {} runs sampled one of the last 1000 items (probability 8e-6 each)", n, last, runs));
        }
        let _ = pos_sum;
    }
    if prop == "C10" {
        // counts beyond 2^24 (where f32 stops being exact) and a newcomer that is more frequent by one
        use pdatastructs::topk::cmsheap::CMSHeap;
        let cms = CountMinSketch::<u64>::with_params(64, 2);
        let mut tk = CMSHeap::new(1, cms);
        // 2^24 + 1 is the first integer an f32 cannot hold (it rounds to 2^24)
        let big = 1u64 << 24;
        for _ in 0..big {
            tk.add(1u64);
        }
        for _ in 0..big + 1 {
            tk.add(2u64);
        }
        e.evals += 1;
        let got: Vec<u64> = tk.iter().collect();
        if got != vec![2u64] {
            e.fails.push(format!("cmsheap k=1, collision-free sketch: element 1 added {} times, element 2 added {} times, iter() yields {:?}", big, big + 1, got));
        }
    }
    if prop == "C20" {
        exp_c20(e);
    }
    if prop == "C03" || prop == "C08" || prop == "C07" {
        // "over independent hash seeds": BuildHasherSeeded seeds that differ in any bits (also only above bit 32,
        // only in the top bit) are different hash functions; and the hash of an AnyHash key keeps 64 bits
        use std::hash::BuildHasher;
        let base = (e.rng.next() % 1_000_000) as usize;
        for d in [1usize, 1 << 16, 1 << 32, 1 << 33, 1 << 48, 1 << 63] {
            let (a, b) = (BuildHasherSeeded::new(base), BuildHasherSeeded::new(base ^ d));
            let same = (0..64u64).filter(|k| a.hash_one(k) == b.hash_one(k)).count();
            e.evals += 1;
            if same > 2 {
                e.fails.push(format!("BuildHasherSeeded: seeds {} and {} (differing in bit {}) hash {} of 64 keys identically: not independent hash functions", base, base ^ d, d.trailing_zeros(), same));
            }
        }
    }
    if prop == "C07" {
        // a generic key type at scale: AnyHash keys must not collide before the filter sees them (a 32-bit
        // digest would add false positives at about n / 2^32 per probe)
        use pdatastructs::hash_utils::AnyHash;
        use std::hash::BuildHasher;
        let (n, p) = (400_000usize, 1e-5f64);
        let mut f = BloomFilter::<AnyHash, BuildHasherSeeded>::with_properties_and_hash(n, p, BuildHasherSeeded::new(1));
        for i in 0..n as u64 {
            let _ = f.insert(&AnyHash::new(&i));
        }
        let probes = 2_000_000u64;
        let fp = (0..probes).filter(|i| f.query(&AnyHash::new(&(i + (1u64 << 40))))).count();
        e.evals += 1;
        e.statmax("c07.anyhash_fp_per_1e7", (fp as f64 / probes as f64 * 1e7) as u64);
        // bound 1.3 p = 1.3e-5 -> 26 expected at most; allow 5.5 sigma
        let lim = 1.3 * p * probes as f64;
        if fp as f64 > lim + 5.5 * lim.sqrt() + 3.0 {
            e.fails.push(format!("bloom<AnyHash> n={} p={}: {} false positives in {} probes exceed 1.3 p", n, p, fp, probes));
        }
    }
    for _ in 0..rounds {
        let keys: Vec<u64> = (0..60).map(|_| e.rng.below(200)).collect();
        let probes: Vec<u64> = (0..200).collect();
        match prop {
            "C01" | "C07" => {
                let (m, k) = (e.rng.range(8, 400) as usize, e.rng.range(1, 5) as usize);
                let mut a = BloomFilter::<u64>::with_params(m, k);
                let mut b = BloomFilter::<u64, Bh>::with_params_and_hash(m, k, Bh::default());
                let mut c = BloomFilter::<u64>::with_params(m, k);
                for x in &keys {
                    let ra = a.insert(x).unwrap();
                    let rb = b.insert(x).unwrap();
                    if ra != rb {
                        e.fails.push(format!("bloom with_params({}, {}) and with_params_and_hash(default) disagree on insert({})", m, k, x));
                    }
                }
                c.extend(keys.iter().cloned());
                // Extend through iterators with inexact size hints, in chunks of odd lengths
                let mut c3 = BloomFilter::<u64>::with_params(m, k);
                let mut c4 = BloomFilter::<u64>::with_params(m, k);
                for chunk in keys.chunks(7) {
                    c3.extend(chunk.iter().cloned().filter(|x| x % 3 != 0));
                    for x in chunk.iter().filter(|x| *x % 3 != 0) {
                        c4.insert(x).unwrap();
                    }
                }
                if c3.len() != c4.len() || probes.iter().any(|y| c3.query(y) != c4.query(y)) {
                    e.fails.push(format!("bloom m={} k={}: Extend through a filtering iterator differs from repeated insert", m, k));
                }
                for y in &probes {
                    if a.query(y) != b.query(y) || a.query(y) != c.query(y) {
                        e.fails.push(format!("bloom m={} k={}: convenience constructor / Extend disagree with the generic path on query({})", m, k, y));
                        break;
                    }
                }
                if a.len() != c.len() || a.m() != m || a.k() != k {
                    e.fails.push(format!("bloom m={} k={}: getters / len differ between constructors", m, k));
                }
                let (q, r) = (e.rng.range(2, 8) as usize, e.rng.range(2, 10) as usize);
                let mut a = QuotientFilter::<u64>::with_params(q, r);
                let mut b = QuotientFilter::<u64, Bh>::with_params_and_hash(q, r, Bh::default());
                for x in &keys {
                    let ra = a.insert(x).map_err(|_| ());
                    let rb = b.insert(x).map_err(|_| ());
                    if ra != rb {
                        e.fails.push(format!("quotient with_params({}, {}) vs with_params_and_hash(default): insert({}) differs", q, r, x));
                    }
                }
                if a.len() != b.len() || probes.iter().any(|y| a.query(y) != b.query(y)) {
                    e.fails.push(format!("quotient q={} r={}: convenience constructor disagrees with the generic path", q, r));
                }
                let (bs, nb, lf) = (*e.rng.pick(&[2usize, 4]), 1usize << e.rng.range(1, 5), *e.rng.pick(&[4usize, 8, 16]));
                let seed = e.rng.next();
                let mut a = CuckooFilter::<u64, ScriptRng>::with_params(ScriptRng::new(seed), bs, nb, lf);
                let mut b = CuckooFilter::<u64, ScriptRng, Bh>::with_params_and_hash(ScriptRng::new(seed), bs, nb, lf, Bh::default());
                for x in &keys {
                    let ra = a.insert(x).map_err(|_| ());
                    let rb = b.insert(x).map_err(|_| ());
                    if ra != rb {
                        e.fails.push(format!("cuckoo with_params vs with_params_and_hash(default): insert({}) differs", x));
                    }
                }
                if a.len() != b.len() || probes.iter().any(|y| a.query(y) != b.query(y)) {
                    e.fails.push("cuckoo: convenience constructor disagrees with the generic path".into());
                }
                e.evals += 3;
            }
            "C02" | "C08" => {
                let (w, d) = (e.rng.range(1, 40) as usize, e.rng.range(1, 6) as usize);
                let mut a = CountMinSketch::<u64, u32>::with_params(w, d);
                let mut b = CountMinSketch::<u64, u32, Bh>::with_params_and_hasher(w, d, Bh::default());
                let mut c = CountMinSketch::<u64>::with_params(w, d);
                let mut c2 = CountMinSketch::<u64>::with_params(w, d);
                for x in &keys {
                    if a.add(x) != b.add(x) {
                        e.fails.push(format!("cms with_params({}, {}) vs with_params_and_hasher(default): add({}) differs", w, d, x));
                    }
                    c2.add(x);
                }
                c.extend(keys.iter().cloned());
                let mut c3 = CountMinSketch::<u64>::with_params(w, d);
                let mut c4 = CountMinSketch::<u64>::with_params(w, d);
                for chunk in keys.chunks(5) {
                    c3.extend(chunk.iter().cloned().filter(|x| x % 3 != 0));
                    for x in chunk.iter().filter(|x| *x % 3 != 0) {
                        c4.add(x);
                    }
                }
                if probes.iter().any(|y| c3.query_point(y) != c4.query_point(y)) {
                    e.fails.push(format!("cms w={} d={}: Extend through a filtering iterator differs from repeated add", w, d));
                }
                for y in &probes {
                    if a.query_point(y) != b.query_point(y) || c.query_point(y) != c2.query_point(y) {
                        e.fails.push(format!("cms w={} d={}: convenience constructor / Extend disagree with the generic path on query_point({})", w, d, y));
                        break;
                    }
                }
                let x = CountMinSketch::<u64>::with_point_query_properties(0.01, 0.1);
                let y = CountMinSketch::<u64, usize, Bh>::with_point_query_properties_and_hasher(0.01, 0.1, Bh::default());
                if (x.w(), x.d()) != (y.w(), y.d()) {
                    e.fails.push("cms with_point_query_properties delegates with different parameters".into());
                }
                e.evals += 1;
            }
            "C17" | "C03" => {
                let b = if e.rng.chance(1, 5) { e.rng.range(13, 18) } else { e.rng.range(4, 12) } as usize;
                let mut a = HyperLogLog::<u64>::new(b);
                let mut g = HyperLogLog::<u64, Bh>::with_hash(b, Bh::default());
                let mut c = HyperLogLog::<u64>::new(b);
                let mut c2 = HyperLogLog::<u64>::new(b);
                for x in &keys {
                    a.add(x);
                    g.add(x);
                }
                c.extend(keys.iter().cloned());
                c2.extend(keys.iter());
                if a.registers() != g.registers() || a.registers() != c.registers() || a.registers() != c2.registers() || a.count() != c.count() {
                    e.fails.push(format!("hll b={}: new / with_hash(default) / Extend give different registers", b));
                }
                // Extend (by value and by reference) through iterators whose size_hint lower bound is 0,
                // in chunks of odd lengths; extend of very few elements
                let mut c3 = HyperLogLog::<u64>::new(b);
                let mut c4 = HyperLogLog::<u64>::new(b);
                let mut c5 = HyperLogLog::<u64>::new(b);
                for chunk in keys.chunks(*e.rng.pick(&[1usize, 2, 3, 7, 9])) {
                    c3.extend(chunk.iter().cloned().filter(|x| x % 3 != 0));
                    c4.extend(chunk.iter().filter(|x| *x % 3 != 0));
                    for x in chunk.iter().filter(|x| *x % 3 != 0) {
                        c5.add(x);
                    }
                }
                if c3.registers() != c5.registers() || c4.registers() != c5.registers() || c3.count() != c5.count() || c3.is_empty() != c5.is_empty() {
                    e.fails.push(format!("hll b={}: Extend through a filtering iterator differs from repeated add", b));
                }
                // add(x) is add_hashed(buildhasher.hash_one(x))
                use std::hash::BuildHasher;
                let mut h = HyperLogLog::<u64>::new(b);
                for x in &keys {
                    h.add_hashed(a.buildhasher().hash_one(x));
                }
                if h.registers() != a.registers() {
                    e.fails.push(format!("hll b={}: add(x) differs from add_hashed(hash_one(x))", b));
                }
                e.evals += 1;
            }
            "C18" | "C05" => {
                let k = e.rng.range(1, 20) as usize;
                let seed = e.rng.next();
                let mut a = ReservoirSampling::<u64, ScriptRng>::new(k, ScriptRng::new(seed));
                let mut b = ReservoirSampling::<u64, ScriptRng>::new(k, ScriptRng::new(seed));
                for x in &keys {
                    a.add(*x);
                }
                b.extend(keys.iter().cloned());
                if a.reservoir() != b.reservoir() || a.i() != b.i() {
                    e.fails.push(format!("reservoir k={}: Extend differs from repeated add", k));
                }
                // item types: zero-sized, wide, heap-allocated — the sampler's bookkeeping is the same
                fn res_items<T: Clone>(e: &mut Exp, what: &str, k: usize, seed: u64, mk: impl Fn(u64) -> T, same: impl Fn(&T, u64) -> bool) {
                    let mut r = ReservoirSampling::<T, ScriptRng>::new(k, ScriptRng::new(seed));
                    let mut refr = ReservoirSampling::<u64, ScriptRng>::new(k, ScriptRng::new(seed));
                    for n in 0..(6 * k as u64 + 7) {
                        if n == 2 * k as u64 + 1 {
                            // a clone taken while sampling continues like the original
                            let mut c = r.clone();
                            c.add(mk(n));
                            if c.i() != n as usize + 1 || c.reservoir().len() != k.min(n as usize + 1) {
                                e.fails.push(format!("reservoir of {} items k={}: clone at n={} holds {} items, i()={}", what, k, n, c.reservoir().len(), c.i()));
                            }
                        }
                        r.add(mk(n));
                        refr.add(n);
                        let want = k.min(n as usize + 1);
                        if r.reservoir().len() != want || r.i() != n as usize + 1 || r.is_empty() {
                            e.fails.push(format!("reservoir of {} items k={}: after {} adds holds {} items, i()={}", what, k, n + 1, r.reservoir().len(), r.i()));
                            return;
                        }
                        // the same positions are kept whatever the item type is
                        if !r.reservoir().iter().zip(refr.reservoir().iter()).all(|(a, b)| same(a, *b)) {
                            e.fails.push(format!("reservoir of {} items k={}: sample differs from the u64 sampler under the same RNG at n={}", what, k, n + 1));
                            return;
                        }
                    }
                    r.clear();
                    r.add(mk(0));
                    if r.reservoir().len() != 1 || r.i() != 1 {
                        e.fails.push(format!("reservoir of {} items k={}: after clear and one add holds {} items", what, k, r.reservoir().len()));
                    }
                }
                res_items(e, "8 KiB", k.min(6), seed, |n| [n; 1024], |a, b| a[0] == b && a[1023] == b);
                res_items(e, "zero-sized", k, seed, |_| (), |_, _| true);
                res_items(e, "zero-length array", k, seed, |_| [0u64; 0], |_, _| true);
                res_items(e, "wide", k, seed, |n| [n; 40], |a, b| a[0] == b && a[39] == b);
                res_items(e, "String", k, seed, |n| n.to_string(), |a, b| *a == b.to_string());
                res_items(e, "u8", k, seed, |n| n as u8, |a, b| *a == b as u8);
                let mut c3 = ReservoirSampling::<u64, ScriptRng>::new(k, ScriptRng::new(seed));
                let mut c4 = ReservoirSampling::<u64, ScriptRng>::new(k, ScriptRng::new(seed));
                for round in 0..6u64 {
                    for chunk in keys.chunks(9) {
                        c3.extend(chunk.iter().map(|x| x + 1000 * round).filter(|x| x % 3 != 0));
                        for x in chunk.iter().map(|x| x + 1000 * round).filter(|x| x % 3 != 0) {
                            c4.add(x);
                        }
                    }
                }
                if c3.reservoir() != c4.reservoir() || c3.i() != c4.i() {
                    e.fails.push(format!("reservoir k={}: Extend through a filtering iterator differs from repeated add (i = {} vs {})", k, c3.i(), c4.i()));
                }
                e.evals += 1;
            }
            "C10" => {
                use pdatastructs::topk::cmsheap::CMSHeap;
                let k = e.rng.range(1, 6) as usize;
                let mut a = CMSHeap::<u64>::new(k, CountMinSketch::with_params(50, 3));
                let mut b = CMSHeap::<u64>::new(k, CountMinSketch::with_params(50, 3));
                for x in &keys {
                    a.add(*x);
                }
                b.extend(keys.iter().cloned());
                if a.iter().collect::<Vec<_>>() != b.iter().collect::<Vec<_>>() {
                    e.fails.push(format!("cmsheap k={}: Extend differs from repeated add", k));
                }
                // runs of equal items, through a filtering iterator, in chunks
                let mut c3 = CMSHeap::<u64>::new(k, CountMinSketch::with_params(50, 3));
                let mut c4 = CMSHeap::<u64>::new(k, CountMinSketch::with_params(50, 3));
                let runs: Vec<u64> = keys.iter().flat_map(|x| std::iter::repeat(*x % 9).take((*x % 4) as usize + 1)).collect();
                for chunk in runs.chunks(11) {
                    c3.extend(chunk.iter().cloned().filter(|x| x % 5 != 0));
                    for x in chunk.iter().cloned().filter(|x| x % 5 != 0) {
                        c4.add(x);
                    }
                    if c3.iter().collect::<Vec<_>>() != c4.iter().collect::<Vec<_>>() {
                        e.fails.push(format!("cmsheap k={}: Extend with runs of equal items differs from repeated add", k));
                        break;
                    }
                }
                e.evals += 1;
            }
            _ => {}
        }
    }
}
