//! Operation-sequence generators and trace oracles, one module per structure.
use crate::exec::Exec;
use crate::script::{ScriptBH, SplitMix};
use std::collections::BTreeMap;
use std::io::Write;

pub mod experiments;
pub mod hll;
pub mod oracles;
pub mod props;
pub mod structs;

pub struct Failure {
    pub case: u64,
    pub line: usize,
    pub msg: String,
}

/// Generation context: every op is executed on the real crate at once, so generators can react
/// to answers (e.g. keep inserting until `full`).
pub struct Ctx {
    pub ex: Exec,
    pub ops: Vec<String>,
    pub ans: Vec<String>,
    pub rng: SplitMix,
    pub stats: BTreeMap<String, u64>,
    pub case_no: u64,
    pub tier_scale: u64,
}

impl Ctx {
    pub fn new(seed: u64, tier_scale: u64) -> Self {
        Ctx {
            ex: Exec::new(),
            ops: vec![],
            ans: vec![],
            rng: SplitMix(seed),
            stats: BTreeMap::new(),
            case_no: 0,
            tier_scale,
        }
    }
    pub fn op(&mut self, line: String) -> String {
        crate::watch::touch(&line);
        let a = self.ex.step(&line).expect("generator emitted a comment");
        self.ops.push(line);
        self.ans.push(a.clone());
        a
    }
    pub fn case(&mut self, tag: &str) {
        self.case_no += 1;
        let n = self.case_no;
        self.op(format!("case {} {}", n, tag));
        self.stat(&format!("cases.{}", tag), 1);
    }
    pub fn hasher(&mut self, bh: ScriptBH) {
        self.op(bh.header());
    }
    pub fn stat(&mut self, k: &str, n: u64) {
        *self.stats.entry(k.to_string()).or_insert(0) += n;
    }
    pub fn statmax(&mut self, k: &str, n: u64) {
        let e = self.stats.entry(k.to_string()).or_insert(0);
        if n > *e {
            *e = n;
        }
    }
    /// random scripted hasher: xor (identity-like, generator controls hashes) or a random mix
    pub fn rand_hasher(&mut self) -> ScriptBH {
        if self.rng.chance(1, 3) {
            self.stat("hasher.xor", 1);
            ScriptBH::xor()
        } else {
            self.stat("hasher.mix", 1);
            ScriptBH {
                mul: self.rng.next() | 1,
                add: self.rng.next(),
                // one time in three `hash_one` is overridden (a non-zero word above the shift bits)
                sh: self.rng.range(17, 40) as u32 | if self.rng.chance(1, 3) { (self.rng.range(1, 0xffff) as u32) << 8 } else { 0 },
                seed: self.rng.next(),
            }
        }
    }
}

pub fn tier_scale(tier: &str) -> u64 {
    if let Ok(v) = std::env::var("PDS_TIER_SCALE") {
        if let Ok(n) = v.parse::<u64>() {
            return n.max(1);
        }
    }
    if tier == "thorough" {
        40
    } else {
        3
    }
}

/// The sampling experiments and the allocator sweep keep scale 1 in the quick tier (they dominate
/// the run time); only the generated histories are tripled there.
pub fn exp_scale(tier: &str) -> u64 {
    if tier == "thorough" {
        tier_scale(tier)
    } else {
        1
    }
}

/// Split a trace into cases: (case number, first line index, ops, answers)
pub fn split_cases<'a>(ops: &'a [String], ans: &'a [String]) -> Vec<(u64, usize, &'a [String], &'a [String])> {
    let mut out = vec![];
    let mut start = 0usize;
    let mut cur: Option<u64> = None;
    for (i, l) in ops.iter().enumerate() {
        if l.starts_with("case ") {
            if let Some(c) = cur {
                out.push((c, start, &ops[start..i], &ans[start..i]));
            }
            cur = Some(l.split_whitespace().nth(1).unwrap().parse().unwrap());
            start = i;
        }
    }
    if let Some(c) = cur {
        out.push((c, start, &ops[start..], &ans[start..]));
    }
    out
}

fn generate(prop: &str, ctx: &mut Ctx) {
    match prop {
        "C17" => hll::gen_c17(ctx),
        "C01" => props::gen_c01(ctx),
        "C02" => props::gen_c02(ctx),
        "C06" => props::gen_c06(ctx),
        "C09" => props::gen_c09(ctx),
        "C10" => props::gen_c10(ctx),
        "C12" => props::gen_c12(ctx),
        "C13" => props::gen_c13(ctx),
        "C14" => props::gen_c14(ctx),
        "C15" | "C16" => props::gen_td(ctx, 150),
        "C04" => props::gen_td(ctx, 600),
        "C03" => props::gen_c03(ctx),
        "C05" => props::gen_c05(ctx),
        "C07" => props::gen_c07(ctx),
        "C08" => props::gen_c08(ctx),
        "C11" => props::gen_c11(ctx),
        "C18" => props::gen_c18(ctx),
        "C19" => props::gen_c19(ctx),
        "C20" => props::gen_c20(ctx),
        "SMOKE" => {
            let n = 30 * ctx.tier_scale;
            for _ in 0..n {
                ctx.case("bloom"); structs::bloom_history(ctx, 80);
                ctx.case("set"); structs::set_history(ctx, 40);
                ctx.case("cms"); structs::cms_history(ctx, 80);
                ctx.case("cuckoo"); structs::cuckoo_history(ctx, 120);
                ctx.case("qf"); structs::qf_history(ctx, 100);
                ctx.case("res"); structs::res_history(ctx);
                ctx.case("lossy"); structs::lossy_history(ctx, 150);
                ctx.case("heap"); structs::heap_history(ctx, 60);
                ctx.case("td"); structs::td_history(ctx, 120);
            }
        }
        _ => panic!("no generator for {}", prop),
    }
}

pub fn oracle(prop: &str, ops: &[String], ans: &[String]) -> Vec<Failure> {
    let mut fails = vec![];
    // `X.clonefrom i j` (Clone::clone_from) means the same to every oracle as `X.clone j i`
    let ops: Vec<String> = ops
        .iter()
        .map(|l| {
            let t: Vec<&str> = l.split_whitespace().collect();
            if t.len() == 3 && t[0].ends_with(".clonefrom") {
                format!("{}.clone {} {}", t[0].trim_end_matches(".clonefrom"), t[2], t[1])
            } else {
                l.clone()
            }
        })
        .collect();
    let ops = &ops[..];
    for (case, start, o, a) in split_cases(ops, ans) {
        let r: Vec<(usize, String)> = match prop {
            "C17" => hll::oracle_c17(o, a),
            "C01" => oracles::oracle_c01(o, a),
            "C02" => oracles::oracle_c02(o, a),
            "C06" => oracles::oracle_both_equal(o, a, "merge differs from processing both streams"),
            "C09" => oracles::oracle_c09(o, a),
            "C10" => oracles::oracle_c10(o, a),
            "C12" => oracles::oracle_both_equal(o, a, "state changed by a failed operation"),
            "C13" => oracles::oracle_c13(o, a),
            "C14" => oracles::oracle_c14(o, a),
            "C15" | "C16" | "C04" => oracles::oracle_td(o, a, prop),
            "C05" | "C18" => oracles::oracle_c18(o, a),
            "C08" => oracles::oracle_c02(o, a),
            "C19" => {
                let mut v = oracles::oracle_both_equal(o, a, "cleared/cloned instance differs from fresh/original");
                v.extend(oracles::oracle_c19_empty(o, a));
                v
            }
            "C03" => oracles::oracle_c03(o, a),
            "C20" => {
                let mut v = oracles::oracle_both_equal(o, a, "deserialised sketch differs from the original");
                v.extend(oracles::oracle_c20(o, a));
                v
            }
            _ => vec![],
        };
        for (l, m) in r {
            fails.push(Failure { case, line: start + l, msg: m });
        }
    }
    fails
}

fn json_escape(s: &str) -> String {
    s.replace('\\', "\\\\").replace('"', "\\\"")
}

pub fn run(prop: &str, tier: &str, seed: u64, outdir: &str) {
    let mut ctx = Ctx::new(seed ^ 0xC0FFEE, tier_scale(tier));
    generate(prop, &mut ctx);
    let mut fails = oracle(prop, &ctx.ops, &ctx.ans);
    crate::watch::phase(&format!("the {} sampling experiment", prop), if tier == "thorough" { 7200 } else { 1200 });
    // sampling experiments / measurements on the real crate (no ops file: case 0)
    let mut exp = experiments::Exp { rng: SplitMix(seed ^ 0xE5E5), scale: exp_scale(tier), stats: BTreeMap::new(), fails: vec![], evals: 0 };
    {
        // the experiments call the real crate directly; a panic there is a finding, not a crash
        let r = std::panic::catch_unwind(std::panic::AssertUnwindSafe(|| {
            match prop {
                "C03" => experiments::exp_c03(&mut exp),
                "C04" => experiments::exp_c04(&mut exp),
                "C05" => {
                    experiments::exp_c05(&mut exp);
                    experiments::exp_c05_long(&mut exp);
                }
                "C07" => {
                    experiments::exp_c07(&mut exp);
                    experiments::exp_c07_floor(&mut exp);
                }
                "C08" => {
                    experiments::exp_c08(&mut exp);
                    experiments::exp_c08_floor(&mut exp);
                }
                "C11" => {
                    experiments::exp_c11(&mut exp);
                    experiments::exp_c11_td_weight_range(&mut exp);
                }
                _ => {}
            }
            experiments::exp_glue(&mut exp, prop);
        }));
        if r.is_err() {
            exp.fails.push(format!("the real crate panicked inside the {} experiment (re-run with PDS_HARNESS_PANICS=1 for the location)", prop));
        }
    }
    crate::watch::disarm();
    for (k, v) in &exp.stats {
        ctx.stats.insert(k.clone(), *v);
    }
    ctx.stats.insert("experiment.evaluations".into(), exp.evals);
    for m in exp.fails {
        fails.push(Failure { case: 0, line: 0, msg: m });
    }
    std::fs::create_dir_all(outdir).unwrap();
    let mut f = std::io::BufWriter::new(std::fs::File::create(format!("{}/ops.txt", outdir)).unwrap());
    for l in &ctx.ops {
        writeln!(f, "{}", l).unwrap();
    }
    let mut f = std::io::BufWriter::new(std::fs::File::create(format!("{}/impl.txt", outdir)).unwrap());
    for l in &ctx.ans {
        writeln!(f, "{}", l).unwrap();
    }
    let mut f = std::fs::File::create(format!("{}/stats.json", outdir)).unwrap();
    let stats: Vec<String> = ctx.stats.iter().map(|(k, v)| format!("\"{}\": {}", json_escape(k), v)).collect();
    let fl: Vec<String> = fails
        .iter()
        .take(400)
        .map(|x| format!("{{\"case\": {}, \"line\": {}, \"msg\": \"{}\"}}", x.case, x.line, json_escape(&x.msg)))
        .collect();
    writeln!(
        f,
        "{{\"cases\": {}, \"ops\": {}, \"oracle_failures\": {}, \"failures\": [{}], \"stats\": {{{}}}}}",
        ctx.case_no,
        ctx.ops.len(),
        fails.len(),
        fl.join(", "),
        stats.join(", ")
    )
    .unwrap();
}

/// Re-run the oracle of `prop` on an ops file (answers are recomputed from the real crate).
pub fn oracle_file(prop: &str, path: &str) -> bool {
    let text = std::fs::read_to_string(path).expect("ops file");
    let mut ex = Exec::new();
    let mut ops = vec![];
    let mut ans = vec![];
    for l in text.lines() {
        if !l.trim().is_empty() && !l.trim().starts_with('#') {
            crate::watch::touch(l.trim());
        }
        if let Some(a) = ex.step(l) {
            ops.push(l.to_string());
            ans.push(a);
        }
    }
    let fails = oracle(prop, &ops, &ans);
    for f in fails.iter().take(20) {
        println!("ORACLE-FAIL case={} line={} {}", f.case, f.line, f.msg);
    }
    fails.is_empty()
}
