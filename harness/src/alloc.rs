//! Counting global allocator (C11): live heap bytes held by the harness' main thread (the thread
//! that calls the crate). Other threads (the watchdog) are not counted, so their bookkeeping
//! cannot race with a measurement.
use std::alloc::{GlobalAlloc, Layout, System};
use std::cell::Cell;
use std::sync::atomic::{AtomicUsize, Ordering};

pub struct Counting;
static LIVE: AtomicUsize = AtomicUsize::new(0);
thread_local! {
    static COUNTED: Cell<bool> = const { Cell::new(false) };
}
/// Called once by the main thread before anything is measured.
pub fn count_this_thread() {
    COUNTED.with(|c| c.set(true));
}
#[inline]
fn counted() -> bool {
    COUNTED.try_with(|c| c.get()).unwrap_or(false)
}

unsafe impl GlobalAlloc for Counting {
    unsafe fn alloc(&self, l: Layout) -> *mut u8 {
        let p = System.alloc(l);
        if !p.is_null() && counted() {
            LIVE.fetch_add(l.size(), Ordering::Relaxed);
        }
        p
    }
    unsafe fn dealloc(&self, p: *mut u8, l: Layout) {
        System.dealloc(p, l);
        if counted() {
            LIVE.fetch_sub(l.size(), Ordering::Relaxed);
        }
    }
    unsafe fn alloc_zeroed(&self, l: Layout) -> *mut u8 {
        let p = System.alloc_zeroed(l);
        if !p.is_null() && counted() {
            LIVE.fetch_add(l.size(), Ordering::Relaxed);
        }
        p
    }
    unsafe fn realloc(&self, p: *mut u8, l: Layout, new_size: usize) -> *mut u8 {
        let q = System.realloc(p, l, new_size);
        if !q.is_null() && counted() {
            LIVE.fetch_sub(l.size(), Ordering::Relaxed);
            LIVE.fetch_add(new_size, Ordering::Relaxed);
        }
        q
    }
}

pub fn live() -> usize {
    LIVE.load(Ordering::Relaxed)
}
