//! Counting global allocator (C11): live heap bytes of the whole harness process.
use std::alloc::{GlobalAlloc, Layout, System};
use std::sync::atomic::{AtomicUsize, Ordering};

pub struct Counting;
static LIVE: AtomicUsize = AtomicUsize::new(0);

unsafe impl GlobalAlloc for Counting {
    unsafe fn alloc(&self, l: Layout) -> *mut u8 {
        let p = System.alloc(l);
        if !p.is_null() {
            LIVE.fetch_add(l.size(), Ordering::Relaxed);
        }
        p
    }
    unsafe fn dealloc(&self, p: *mut u8, l: Layout) {
        System.dealloc(p, l);
        LIVE.fetch_sub(l.size(), Ordering::Relaxed);
    }
    unsafe fn alloc_zeroed(&self, l: Layout) -> *mut u8 {
        let p = System.alloc_zeroed(l);
        if !p.is_null() {
            LIVE.fetch_add(l.size(), Ordering::Relaxed);
        }
        p
    }
    unsafe fn realloc(&self, p: *mut u8, l: Layout, new_size: usize) -> *mut u8 {
        let q = System.realloc(p, l, new_size);
        if !q.is_null() {
            LIVE.fetch_sub(l.size(), Ordering::Relaxed);
            LIVE.fetch_add(new_size, Ordering::Relaxed);
        }
        q
    }
}

pub fn live() -> usize {
    LIVE.load(Ordering::Relaxed)
}
