//! Token encoding of (possibly malformed) serialised HyperLogLog documents.
//! Tokens, in document order:  R:1,2,3 (registers array; R: alone = empty)  B:4  H:mul,add,sh,seed
//! X<name>:<int> (unknown field)  Bs:<text> (b as a string = wrong type)  Rs:<text>  Hn (hasher null)
pub fn tokens_to_json(toks: &[&str]) -> String {
    let mut fields: Vec<String> = vec![];
    for t in toks {
        let (k, v) = match t.split_once(':') {
            Some((k, v)) => (k, v),
            None => (*t, ""),
        };
        let f = match k {
            "R" => format!("\"registers\":[{}]", v),
            "B" => format!("\"b\":{}", v),
            "H" => {
                let p: Vec<&str> = v.split(',').collect();
                format!("\"buildhasher\":{{\"mul\":{},\"add\":{},\"sh\":{},\"seed\":{}}}", p[0], p[1], p[2], p[3])
            }
            "Bs" => format!("\"b\":\"{}\"", v),
            "Rs" => format!("\"registers\":\"{}\"", v),
            "Hn" => "\"buildhasher\":null".to_string(),
            _ if k.starts_with('X') => format!("\"{}\":{}", &k[1..], v),
            _ => panic!("bad doc token {}", t),
        };
        fields.push(f);
    }
    format!("{{{}}}", fields.join(","))
}

/// Inverse direction for documents produced by the real serialiser (always well formed).
pub fn json_to_tokens(json: &str) -> String {
    let v: serde_json::Value = serde_json::from_str(json).expect("serialiser produced invalid JSON");
    let obj = v.as_object().expect("object");
    let mut out: Vec<String> = vec![];
    // serde_json::Value's map is sorted unless preserve_order; recover document order from the text
    let mut keys: Vec<(usize, &String)> = obj.keys().map(|k| (json.find(&format!("\"{}\"", k)).unwrap(), k)).collect();
    keys.sort();
    for (_, k) in keys {
        let val = &obj[k];
        match k.as_str() {
            "registers" => {
                let r: Vec<String> = val.as_array().unwrap().iter().map(|x| x.as_u64().unwrap().to_string()).collect();
                out.push(format!("R:{}", r.join(",")));
            }
            "b" => out.push(format!("B:{}", val.as_u64().unwrap())),
            "buildhasher" => {
                let o = val.as_object().unwrap();
                out.push(format!("H:{},{},{},{}", o["mul"], o["add"], o["sh"], o["seed"]));
            }
            other => out.push(format!("X{}:0", other)),
        }
    }
    out.join(" ")
}
