//! Token encoding of (possibly malformed) serialised HyperLogLog documents.
//! Tokens, in document order:  R:1,2,3 (registers array; R: alone = empty)  B:4  H:mul,add,sh,seed
//! X<name>:<int> (unknown field)  Bs:<text> (b as a string = wrong type)  Rs:<text>  Hn (hasher null)
pub fn tokens_to_json(toks: &[&str]) -> String {
    // `N`: the whole document is a number (not a struct at all)
    if toks == ["N"] {
        return "7".to_string();
    }
    // a leading `A` token: the values only, as a positional (JSON array) document
    if toks.first() == Some(&"A") {
        let obj = tokens_to_json(&toks[1..]);
        let v: Vec<String> = split_top_level(&obj[1..obj.len() - 1]).iter().map(|f| f.split_once(':').map(|x| x.1.to_string()).unwrap_or_default()).collect();
        return format!("[{}]", v.join(","));
    }
    let mut fields: Vec<String> = vec![];
    for t in toks {
        let (k, v) = match t.split_once(':') {
            Some((k, v)) => (k, v),
            None => (*t, ""),
        };
        let f = match k {
            "R" => format!("\"registers\":[{}]", v),
            "B" => format!("\"b\":{}", v),
            "H" => {
                let p: Vec<&str> = v.split(',').collect();
                format!("\"buildhasher\":{{\"mul\":{},\"add\":{},\"sh\":{},\"seed\":{}}}", p[0], p[1], p[2], p[3])
            }
            "Bs" => format!("\"b\":\"{}\"", v),
            "Rs" => format!("\"registers\":\"{}\"", v),
            "Hn" => "\"buildhasher\":null".to_string(),
            _ if k.starts_with('X') => format!("\"{}\":{}", &k[1..], v),
            _ => panic!("bad doc token {}", t),
        };
        fields.push(f);
    }
    format!("{{{}}}", fields.join(","))
}

/// Inverse direction for documents produced by the real serialiser (always well formed).
pub fn json_to_tokens(json: &str) -> String {
    let v: serde_json::Value = serde_json::from_str(json).expect("serialiser produced invalid JSON");
    let obj = v.as_object().expect("object");
    let mut out: Vec<String> = vec![];
    // serde_json::Value's map is sorted unless preserve_order; recover document order from the text
    let mut keys: Vec<(usize, &String)> = obj.keys().map(|k| (json.find(&format!("\"{}\"", k)).unwrap(), k)).collect();
    keys.sort();
    for (_, k) in keys {
        let val = &obj[k];
        match k.as_str() {
            "registers" => {
                let r: Vec<String> = val.as_array().unwrap().iter().map(|x| x.as_u64().unwrap().to_string()).collect();
                out.push(format!("R:{}", r.join(",")));
            }
            "b" => out.push(format!("B:{}", val.as_u64().unwrap())),
            "buildhasher" => {
                let o = val.as_object().unwrap();
                out.push(format!("H:{},{},{},{}", o["mul"], o["add"], o["sh"], o["seed"]));
            }
            other => out.push(format!("X{}:0", other)),
        }
    }
    out.join(" ")
}

/// split `"a":1,"b":[1,2],"c":{"x":1}` at the commas of nesting depth 0
fn split_top_level(s: &str) -> Vec<String> {
    let mut out = vec![];
    let mut depth = 0i32;
    let mut cur = String::new();
    let mut in_str = false;
    for ch in s.chars() {
        match ch {
            '"' => {
                in_str = !in_str;
                cur.push(ch);
            }
            '[' | '{' if !in_str => {
                depth += 1;
                cur.push(ch);
            }
            ']' | '}' if !in_str => {
                depth -= 1;
                cur.push(ch);
            }
            ',' if !in_str && depth == 0 => {
                out.push(std::mem::take(&mut cur));
            }
            _ => cur.push(ch),
        }
    }
    if !cur.is_empty() {
        out.push(cur);
    }
    out
}
