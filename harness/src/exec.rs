//! Executes ops-file lines against the real crate (in-process, each op under catch_unwind).
//! Every non-comment line yields exactly one answer line. The Lean driver (lean/Main.lean)
//! implements the same protocol on the model.
use crate::script::{ScriptBH, ScriptRng};
use pdatastructs::countminsketch::CountMinSketch;
use pdatastructs::filters::bloomfilter::BloomFilter;
use pdatastructs::filters::cuckoofilter::CuckooFilter;
use pdatastructs::filters::quotientfilter::QuotientFilter;
use pdatastructs::filters::Filter;
use pdatastructs::hash_utils::HashIterBuilder;
use pdatastructs::hyperloglog::HyperLogLog;
use pdatastructs::reservoirsampling::ReservoirSampling;
use pdatastructs::tdigest::{TDigest, K0, K1, K2, K3};
use pdatastructs::topk::cmsheap::CMSHeap;
use pdatastructs::topk::lossycounter::LossyCounter;
use std::collections::{HashMap, HashSet};
use std::hash::{Hash, Hasher};
use std::panic::{catch_unwind, AssertUnwindSafe};

/// Key of the CMSHeap harness: equality/order by id, hash by class only (so that sketch
/// collisions can be scripted although CMSHeap only accepts the default SipHash sketch).
#[derive(Clone, Debug)]
pub struct HKey {
    pub id: u64,
    pub class: u64,
}
impl PartialEq for HKey {
    fn eq(&self, o: &Self) -> bool {
        self.id == o.id
    }
}
impl Eq for HKey {}
impl PartialOrd for HKey {
    fn partial_cmp(&self, o: &Self) -> Option<std::cmp::Ordering> {
        Some(self.cmp(o))
    }
}
impl Ord for HKey {
    fn cmp(&self, o: &Self) -> std::cmp::Ordering {
        self.id.cmp(&o.id)
    }
}
impl Hash for HKey {
    fn hash<H: Hasher>(&self, state: &mut H) {
        state.write_u64(self.class)
    }
}

/// Key of the LossyCounter harness: equal iff the ids are equal, but `Hash` only sees the low three
/// bits (a legal, coarse `Hash` impl): a table keyed by the hash instead of the element merges keys.
#[derive(Clone, Debug, PartialEq, Eq)]
pub struct LKey(pub u64);
impl Hash for LKey {
    fn hash<H: Hasher>(&self, state: &mut H) {
        state.write_u64(self.0 & 7)
    }
}

#[derive(Clone)]
pub enum Cms {
    U8(CountMinSketch<u64, u8, ScriptBH>),
    U16(CountMinSketch<u64, u16, ScriptBH>),
    U32(CountMinSketch<u64, u32, ScriptBH>),
    U64(CountMinSketch<u64, u64, ScriptBH>),
    Usize(CountMinSketch<u64, usize, ScriptBH>),
}

macro_rules! cms_do {
    ($c:expr, $s:ident, $e:expr) => {
        match $c {
            Cms::U8($s) => $e,
            Cms::U16($s) => $e,
            Cms::U32($s) => $e,
            Cms::U64($s) => $e,
            Cms::Usize($s) => $e,
        }
    };
}

#[derive(Clone)]
pub enum Td {
    K0(TDigest<K0>),
    K1(TDigest<K1>),
    K2(TDigest<K2>),
    K3(TDigest<K3>),
}
macro_rules! td_do {
    ($c:expr, $s:ident, $e:expr) => {
        match $c {
            Td::K0($s) => $e,
            Td::K1($s) => $e,
            Td::K2($s) => $e,
            Td::K3($s) => $e,
        }
    };
}

#[derive(Clone)]
pub enum Inst {
    Hll(HyperLogLog<u64, ScriptBH>),
    Bloom(BloomFilter<u64, ScriptBH>),
    Cms(Cms),
    Cuckoo(CuckooFilter<u64, ScriptRng, ScriptBH>),
    Qf(QuotientFilter<u64, ScriptBH>),
    Res(ReservoirSampling<u64, ScriptRng>),
    Lossy(LossyCounter<LKey>),
    Heap(CMSHeap<HKey>),
    Td(Td),
    Set(HashSet<u64>),
    Poisoned,
}

pub struct Exec {
    pub insts: HashMap<u64, Inst>,
    pub bh: ScriptBH,
}

fn fb(x: f64) -> String {
    format!("f:{:016x}", x.to_bits())
}
fn pf(s: &str) -> f64 {
    // floats travel as hexadecimal bit patterns
    f64::from_bits(u64::from_str_radix(s, 16).expect("float bits"))
}
fn pu(s: &str) -> u64 {
    s.parse::<u64>().expect("u64")
}
fn b(x: bool) -> String {
    (if x { "true" } else { "false" }).to_string()
}
pub fn regs_repr(regs: &[u8]) -> String {
    if regs.len() <= 1024 {
        let v: Vec<String> = regs.iter().map(|x| x.to_string()).collect();
        format!("{} {}", regs.len(), v.join(" "))
    } else {
        // checksum for big register files
        let mut acc: u64 = 0;
        let mut nz = 0u64;
        for r in regs {
            acc = (acc.wrapping_mul(31).wrapping_add(*r as u64 + 1)) % 1000000007;
            if *r != 0 {
                nz += 1;
            }
        }
        format!("{} sum {} nz {}", regs.len(), acc, nz)
    }
}

impl Exec {
    pub fn new() -> Self {
        Exec { insts: HashMap::new(), bh: ScriptBH::xor() }
    }

    /// Execute one line; `None` for comment/blank lines.
    pub fn step(&mut self, line: &str) -> Option<String> {
        let line = line.trim();
        if line.is_empty() || line.starts_with('#') {
            return None;
        }
        let t: Vec<&str> = line.split_whitespace().collect();
        if t[0] == "case" {
            self.insts.clear();
            self.bh = ScriptBH::xor();
            return Some(line.to_string());
        }
        if t[0] == "hasher" {
            self.bh = ScriptBH { mul: pu(t[1]), add: pu(t[2]), sh: pu(t[3]) as u32, seed: pu(t[4]) };
            return Some("ok".into());
        }
        if t[0] == "both" {
            // both <op> <i> <j> args...  = run <op> on i, then on j; answer "a | b"
            let mk = |id: &str| -> String {
                let mut v: Vec<&str> = vec![t[1], id];
                v.extend_from_slice(&t[4..]);
                v.join(" ")
            };
            let a = self.step(&mk(t[2])).unwrap();
            let b = self.step(&mk(t[3])).unwrap();
            return Some(format!("{} | {}", a, b));
        }
        // every instance op: <op> <inst> args...
        let id = pu(t[1]);
        if let Some(Inst::Poisoned) = self.insts.get(&id) {
            if !t[0].ends_with(".new") && !t[0].contains(".new") && !t[0].ends_with(".with") && !t[0].ends_with(".props") && !t[0].starts_with("mem.") {
                return Some("poisoned".into());
            }
        }
        // a binary op whose other operand is poisoned is not executed at all
        if (t[0].ends_with(".union") || t[0].ends_with(".merge") || t[0].ends_with(".clonefrom")) && t.len() >= 3 {
            if let Some(Inst::Poisoned) = self.insts.get(&pu(t[2])) {
                return Some("poisoned".into());
            }
        }
        let r = catch_unwind(AssertUnwindSafe(|| self.dispatch(&t, id)));
        match r {
            Ok(s) => Some(s),
            Err(_) => {
                self.insts.insert(id, Inst::Poisoned);
                Some("panic".into())
            }
        }
    }

    fn other(&self, tok: &str) -> Inst {
        self.insts.get(&pu(tok)).expect("unknown other instance").clone()
    }

    fn dispatch(&mut self, t: &[&str], id: u64) -> String {
        let op = t[0];
        let bh = self.bh;
        // constructors --------------------------------------------------------------------
        match op {
            "hll.new" => {
                self.insts.insert(id, Inst::Hll(HyperLogLog::with_hash(pu(t[2]) as usize, bh)));
                return "ok".into();
            }
            "hll.with" => {
                // the caller's Vec has spare capacity (the sketch must go by its length)
                let mut regs: Vec<u8> = Vec::with_capacity((t.len() - 3) * 3 / 2 + 7);
                regs.extend(t[3..].iter().map(|x| pu(x) as u8));
                self.insts.insert(
                    id,
                    Inst::Hll(HyperLogLog::with_registers_and_hash(pu(t[2]) as usize, regs, bh)),
                );
                return "ok".into();
            }
            "hll.deser" => {
                let doc = crate::serde_doc::tokens_to_json(&t[2..]);
                return match serde_json::from_str::<HyperLogLog<u64, ScriptBH>>(&doc) {
                    Ok(h) => {
                        self.insts.insert(id, Inst::Hll(h));
                        "ok".into()
                    }
                    Err(_) => "err".into(),
                };
            }
            "bloom.new" => {
                self.insts.insert(
                    id,
                    Inst::Bloom(BloomFilter::with_params_and_hash(pu(t[2]) as usize, pu(t[3]) as usize, bh)),
                );
                return "ok".into();
            }
            "bloom.props" => {
                let f = BloomFilter::with_properties_and_hash(pu(t[2]) as usize, pf(t[3]), bh);
                let s = format!("ok {} {}", f.k(), f.m());
                self.insts.insert(id, Inst::Bloom(f));
                return s;
            }
            "cms.new" => {
                let (w, d) = (pu(t[3]) as usize, pu(t[4]) as usize);
                let c = match t[2] {
                    "u8" => Cms::U8(CountMinSketch::with_params_and_hasher(w, d, bh)),
                    "u16" => Cms::U16(CountMinSketch::with_params_and_hasher(w, d, bh)),
                    "u32" => Cms::U32(CountMinSketch::with_params_and_hasher(w, d, bh)),
                    "u64" => Cms::U64(CountMinSketch::with_params_and_hasher(w, d, bh)),
                    "usize" => Cms::Usize(CountMinSketch::with_params_and_hasher(w, d, bh)),
                    _ => panic!("bad ctype"),
                };
                self.insts.insert(id, Inst::Cms(c));
                return "ok".into();
            }
            "cms.props" => {
                let c: CountMinSketch<u64, u64, ScriptBH> =
                    CountMinSketch::with_point_query_properties_and_hasher(pf(t[2]), pf(t[3]), bh);
                let s = format!("ok {} {}", c.w(), c.d());
                self.insts.insert(id, Inst::Cms(Cms::U64(c)));
                return s;
            }
            "cuckoo.new" => {
                let mut rng = ScriptRng::new(pu(t[2]));
                rng.forced.extend(t[6..].iter().map(|x| pu(x)));
                let f = CuckooFilter::with_params_and_hash(
                    rng,
                    pu(t[3]) as usize,
                    pu(t[4]) as usize,
                    pu(t[5]) as usize,
                    bh,
                );
                self.insts.insert(id, Inst::Cuckoo(f));
                return "ok".into();
            }
            "cuckoo.props" => {
                let rng = ScriptRng::new(pu(t[5]));
                let f = if t[2] == "4" {
                    CuckooFilter::with_properties_and_hash_4(pf(t[3]), pu(t[4]) as usize, rng, bh)
                } else {
                    CuckooFilter::with_properties_and_hash_8(pf(t[3]), pu(t[4]) as usize, rng, bh)
                };
                let s = format!("ok {} {} {}", f.bucketsize(), f.n_buckets(), f.l_fingerprint());
                self.insts.insert(id, Inst::Cuckoo(f));
                return s;
            }
            "qf.new" => {
                self.insts.insert(
                    id,
                    Inst::Qf(QuotientFilter::with_params_and_hash(pu(t[2]) as usize, pu(t[3]) as usize, bh)),
                );
                return "ok".into();
            }
            "mem.cuckoo" => {
                // heap bytes held by a freshly constructed filter (the packed table)
                let before = crate::alloc::live();
                let f = CuckooFilter::<u64, ScriptRng, ScriptBH>::with_params_and_hash(
                    ScriptRng::new(1), pu(t[2]) as usize, pu(t[3]) as usize, pu(t[4]) as usize, bh);
                let held = crate::alloc::live() - before;
                drop(f);
                return held.to_string();
            }
            "mem.qf" => {
                let before = crate::alloc::live();
                let f = QuotientFilter::<u64, ScriptBH>::with_params_and_hash(pu(t[2]) as usize, pu(t[3]) as usize, bh);
                let held = crate::alloc::live() - before;
                drop(f);
                return held.to_string();
            }
            "set.new" => {
                self.insts.insert(id, Inst::Set(HashSet::new()));
                return "ok".into();
            }
            "res.new" => {
                let mut rng = ScriptRng::new(pu(t[3]));
                rng.forced.extend(t[4..].iter().map(|x| pu(x)));
                self.insts.insert(id, Inst::Res(ReservoirSampling::new(pu(t[2]) as usize, rng)));
                return "ok".into();
            }
            "lossy.neww" => {
                self.insts.insert(id, Inst::Lossy(LossyCounter::with_width(pu(t[2]) as usize)));
                return "ok".into();
            }
            "lossy.newe" => {
                self.insts.insert(id, Inst::Lossy(LossyCounter::with_epsilon(pf(t[2]))));
                return "ok".into();
            }
            "heap.new" => {
                let cms = CountMinSketch::<HKey>::with_params(pu(t[3]) as usize, pu(t[4]) as usize);
                self.insts.insert(id, Inst::Heap(CMSHeap::new(pu(t[2]) as usize, cms)));
                return "ok".into();
            }
            "heap.props" => {
                // the sketch is sized from (epsilon, delta) by the convenience constructor
                let cms = CountMinSketch::<HKey>::with_point_query_properties(pf(t[3]), pf(t[4]));
                let s = format!("ok {} {}", cms.w(), cms.d());
                self.insts.insert(id, Inst::Heap(CMSHeap::new(pu(t[2]) as usize, cms)));
                return s;
            }
            "td.new" => {
                let delta = pf(t[3]);
                let bl = pu(t[4]) as usize;
                let d = match t[2] {
                    "0" => Td::K0(TDigest::new(K0::new(delta), bl)),
                    "1" => Td::K1(TDigest::new(K1::new(delta), bl)),
                    "2" => Td::K2(TDigest::new(K2::new(delta), bl)),
                    "3" => Td::K3(TDigest::new(K3::new(delta), bl)),
                    _ => panic!("bad scale"),
                };
                self.insts.insert(id, Inst::Td(d));
                return "ok".into();
            }
            _ => {}
        }
        // generic ops -----------------------------------------------------------------------
        if op.ends_with(".clone") {
            let c = self.insts.get(&id).expect("unknown instance").clone();
            self.insts.insert(pu(t[2]), c);
            return "ok".into();
        }
        if op.ends_with(".clonefrom") {
            // Clone::clone_from (a structure may override it to reuse allocations): the receiver
            // must afterwards be a copy of the source in every respect, hasher included
            let src = self.other(t[2]);
            let dst = self.insts.get_mut(&id).expect("unknown instance");
            match (dst, src) {
                (Inst::Hll(a), Inst::Hll(b)) => a.clone_from(&b),
                (Inst::Bloom(a), Inst::Bloom(b)) => a.clone_from(&b),
                (Inst::Cms(Cms::U8(a)), Inst::Cms(Cms::U8(b))) => a.clone_from(&b),
                (Inst::Cms(Cms::U16(a)), Inst::Cms(Cms::U16(b))) => a.clone_from(&b),
                (Inst::Cms(Cms::U32(a)), Inst::Cms(Cms::U32(b))) => a.clone_from(&b),
                (Inst::Cms(Cms::U64(a)), Inst::Cms(Cms::U64(b))) => a.clone_from(&b),
                (Inst::Cms(Cms::Usize(a)), Inst::Cms(Cms::Usize(b))) => a.clone_from(&b),
                (Inst::Cuckoo(a), Inst::Cuckoo(b)) => a.clone_from(&b),
                (Inst::Qf(a), Inst::Qf(b)) => a.clone_from(&b),
                (Inst::Res(a), Inst::Res(b)) => a.clone_from(&b),
                (Inst::Lossy(a), Inst::Lossy(b)) => a.clone_from(&b),
                (Inst::Heap(a), Inst::Heap(b)) => a.clone_from(&b),
                (Inst::Td(Td::K0(a)), Inst::Td(Td::K0(b))) => a.clone_from(&b),
                (Inst::Td(Td::K1(a)), Inst::Td(Td::K1(b))) => a.clone_from(&b),
                (Inst::Td(Td::K2(a)), Inst::Td(Td::K2(b))) => a.clone_from(&b),
                (Inst::Td(Td::K3(a)), Inst::Td(Td::K3(b))) => a.clone_from(&b),
                (Inst::Set(a), Inst::Set(b)) => a.clone_from(&b),
                // different static types (counter width, scale function): plain assignment
                (d, s) => *d = s,
            }
            return "ok".into();
        }
        if op == "hll.eq" {
            // PartialEq: same precision, registers and hasher
            return match (self.insts.get(&id), self.insts.get(&pu(t[2]))) {
                (Some(Inst::Hll(a)), Some(Inst::Hll(b2))) => b(a == b2),
                (Some(Inst::Poisoned), _) | (_, Some(Inst::Poisoned)) => "poisoned".into(),
                _ => panic!("type"),
            };
        }
        if op == "hll.rebuild" {
            if let Some(Inst::Hll(h)) = self.insts.get(&id) {
                let n = HyperLogLog::with_registers_and_hash(h.b(), h.registers().to_vec(), *h.buildhasher());
                self.insts.insert(pu(t[2]), Inst::Hll(n));
                return "ok".into();
            }
            panic!("type");
        }
        if op == "drop" {
            self.insts.remove(&id);
            return "ok".into();
        }
        // binary ops need the other instance cloned first (borrow rules); the clone is also
        // compared afterwards by the generator through ordinary observations of the original.
        let other = if op.ends_with(".union") || op.ends_with(".merge") { Some(self.other(t[2])) } else { None };
        let inst = self.insts.get_mut(&id).expect("unknown instance");
        match (op, inst) {
            // HyperLogLog -------------------------------------------------------------------
            ("hll.add", Inst::Hll(h)) => {
                h.add(&pu(t[2]));
                "ok".into()
            }
            ("hll.addh", Inst::Hll(h)) => {
                h.add_hashed(pu(t[2]));
                "ok".into()
            }
            ("hll.extend", Inst::Hll(h)) => {
                // Extend<T> is only implemented for the default hasher type; exercised in exp_glue
                for x in t[2..].iter() {
                    h.add(&pu(x));
                }
                "ok".into()
            }
            ("hll.addmany", Inst::Hll(h)) => {
                let mut sm = crate::script::SplitMix(pu(t[2]));
                for _ in 0..pu(t[3]) {
                    h.add_hashed(sm.next());
                }
                "ok".into()
            }
            ("hll.merge", Inst::Hll(h)) => {
                if let Some(Inst::Hll(o)) = other {
                    h.merge(&o);
                    "ok".into()
                } else {
                    panic!("type")
                }
            }
            ("hll.clear", Inst::Hll(h)) => {
                h.clear();
                "ok".into()
            }
            ("hll.empty", Inst::Hll(h)) => b(h.is_empty()),
            ("hll.regs", Inst::Hll(h)) => format!("{} {}", h.b(), regs_repr(h.registers())),
            ("hll.count", Inst::Hll(h)) => h.count().to_string(),
            ("hll.relerr", Inst::Hll(h)) => fb(h.relative_error()),
            ("hll.ser", Inst::Hll(h)) => crate::serde_doc::json_to_tokens(&serde_json::to_string(h).unwrap()),
            // BloomFilter -------------------------------------------------------------------
            ("bloom.insert", Inst::Bloom(f)) => b(f.insert(&pu(t[2])).unwrap()),
            ("bloom.query", Inst::Bloom(f)) => b(f.query(&pu(t[2]))),
            ("bloom.union", Inst::Bloom(f)) => {
                if let Some(Inst::Bloom(o)) = other {
                    f.union(&o).unwrap();
                    "ok".into()
                } else {
                    panic!("type")
                }
            }
            ("bloom.clear", Inst::Bloom(f)) => {
                f.clear();
                "ok".into()
            }
            ("bloom.len", Inst::Bloom(f)) => f.len().to_string(),
            ("bloom.empty", Inst::Bloom(f)) => b(f.is_empty()),
            ("bloom.getters", Inst::Bloom(f)) => format!("{} {}", f.m(), f.k()),
            // HashSet as Filter -------------------------------------------------------------
            ("set.insert", Inst::Set(f)) => b(Filter::insert(f, &pu(t[2])).unwrap()),
            ("set.query", Inst::Set(f)) => b(Filter::query(f, &pu(t[2]))),
            ("set.union", Inst::Set(f)) => {
                if let Some(Inst::Set(o)) = other {
                    Filter::union(f, &o).unwrap();
                    "ok".into()
                } else {
                    panic!("type")
                }
            }
            ("set.clear", Inst::Set(f)) => {
                Filter::<u64>::clear(f);
                "ok".into()
            }
            ("set.len", Inst::Set(f)) => Filter::<u64>::len(f).to_string(),
            ("set.empty", Inst::Set(f)) => b(Filter::<u64>::is_empty(f)),
            // CountMinSketch ----------------------------------------------------------------
            ("cms.add", Inst::Cms(c)) => cms_do!(c, s, s.add(&pu(t[2])).to_string()),
            ("cms.addn", Inst::Cms(c)) => {
                let n = pu(t[3]);
                match c {
                    Cms::U8(s) => s.add_n(&pu(t[2]), &(n as u8)).to_string(),
                    Cms::U16(s) => s.add_n(&pu(t[2]), &(n as u16)).to_string(),
                    Cms::U32(s) => s.add_n(&pu(t[2]), &(n as u32)).to_string(),
                    Cms::U64(s) => s.add_n(&pu(t[2]), &n).to_string(),
                    Cms::Usize(s) => s.add_n(&pu(t[2]), &(n as usize)).to_string(),
                }
            }
            ("cms.query", Inst::Cms(c)) => cms_do!(c, s, s.query_point(&pu(t[2])).to_string()),
            ("cms.merge", Inst::Cms(c)) => {
                match (c, other) {
                    (Cms::U8(s), Some(Inst::Cms(Cms::U8(o)))) => s.merge(&o),
                    (Cms::U16(s), Some(Inst::Cms(Cms::U16(o)))) => s.merge(&o),
                    (Cms::U32(s), Some(Inst::Cms(Cms::U32(o)))) => s.merge(&o),
                    (Cms::U64(s), Some(Inst::Cms(Cms::U64(o)))) => s.merge(&o),
                    (Cms::Usize(s), Some(Inst::Cms(Cms::Usize(o)))) => s.merge(&o),
                    _ => panic!("type"),
                };
                "ok".into()
            }
            ("cms.clear", Inst::Cms(c)) => {
                cms_do!(c, s, s.clear());
                "ok".into()
            }
            ("cms.empty", Inst::Cms(c)) => b(cms_do!(c, s, s.is_empty())),
            ("cms.getters", Inst::Cms(c)) => cms_do!(c, s, format!("{} {}", s.w(), s.d())),
            // CuckooFilter ------------------------------------------------------------------
            ("cuckoo.insert", Inst::Cuckoo(f)) => match f.insert(&pu(t[2])) {
                Ok(x) => b(x),
                Err(_) => "full".into(),
            },
            ("cuckoo.delete", Inst::Cuckoo(f)) => b(f.delete(&pu(t[2]))),
            ("cuckoo.query", Inst::Cuckoo(f)) => b(f.query(&pu(t[2]))),
            ("cuckoo.union", Inst::Cuckoo(f)) => {
                if let Some(Inst::Cuckoo(o)) = other {
                    match f.union(&o) {
                        Ok(()) => "ok".into(),
                        Err(_) => "full".into(),
                    }
                } else {
                    panic!("type")
                }
            }
            ("cuckoo.len", Inst::Cuckoo(f)) => f.len().to_string(),
            ("cuckoo.empty", Inst::Cuckoo(f)) => b(f.is_empty()),
            ("cuckoo.clear", Inst::Cuckoo(f)) => {
                f.clear();
                "ok".into()
            }
            ("cuckoo.getters", Inst::Cuckoo(f)) => {
                format!("{} {} {}", f.bucketsize(), f.n_buckets(), f.l_fingerprint())
            }
            // QuotientFilter ----------------------------------------------------------------
            ("qf.insert", Inst::Qf(f)) => match f.insert(&pu(t[2])) {
                Ok(x) => b(x),
                Err(_) => "full".into(),
            },
            ("qf.query", Inst::Qf(f)) => b(f.query(&pu(t[2]))),
            ("qf.union", Inst::Qf(f)) => {
                if let Some(Inst::Qf(o)) = other {
                    match f.union(&o) {
                        Ok(()) => "ok".into(),
                        Err(_) => "full".into(),
                    }
                } else {
                    panic!("type")
                }
            }
            ("qf.len", Inst::Qf(f)) => f.len().to_string(),
            ("qf.empty", Inst::Qf(f)) => b(f.is_empty()),
            ("qf.clear", Inst::Qf(f)) => {
                f.clear();
                "ok".into()
            }
            ("qf.getters", Inst::Qf(f)) => format!("{} {}", f.bits_quotient(), f.bits_remainder()),
            // ReservoirSampling -------------------------------------------------------------
            ("res.add", Inst::Res(r)) => {
                r.add(pu(t[2]));
                "ok".into()
            }
            ("res.extend", Inst::Res(r)) => {
                r.extend(t[2..].iter().map(|x| pu(x)));
                "ok".into()
            }
            ("res.extendf", Inst::Res(r)) => {
                // Extend through an iterator whose size_hint is inexact: items >= 2^40 are
                // filtered out before they reach the sampler
                r.extend(t[2..].iter().map(|x| pu(x)).filter(|x| *x < (1u64 << 40)));
                "ok".into()
            }
            ("res.extendp", Inst::Res(r)) => {
                // res.extendp <inst> <j> items...: Extend from an iterator that panics after yielding j
                // items (the caller catches the panic and keeps the sampler): the j items were consumed
                let j = pu(t[2]) as usize;
                let items: Vec<u64> = t[3..].iter().map(|x| pu(x)).collect();
                let r2 = catch_unwind(AssertUnwindSafe(|| {
                    r.extend(items.iter().enumerate().map(|(i, x)| {
                        if i >= j {
                            panic!("iterator failure (scripted)");
                        }
                        *x
                    }));
                }));
                if r2.is_err() { "caught".into() } else { "ok".into() }
            }
            ("res.get", Inst::Res(r)) => {
                let v: Vec<String> = r.reservoir().iter().map(|x| x.to_string()).collect();
                format!("{} {} : {}", r.k(), r.i(), v.join(" "))
            }
            ("res.empty", Inst::Res(r)) => b(r.is_empty()),
            ("res.clear", Inst::Res(r)) => {
                r.clear();
                "ok".into()
            }
            // LossyCounter ------------------------------------------------------------------
            ("lossy.add", Inst::Lossy(l)) => b(l.add(LKey(pu(t[2])))),
            ("lossy.addrep", Inst::Lossy(l)) => {
                // the same element n times (long histories in one line)
                let mut last = false;
                for _ in 0..pu(t[3]) {
                    last = l.add(LKey(pu(t[2])));
                }
                format!("{} {}", b(last), l.n())
            }
            ("lossy.query", Inst::Lossy(l)) => {
                let mut v: Vec<u64> = l.query(pf(t[2])).map(|x| x.0).collect();
                v.sort();
                let v: Vec<String> = v.iter().map(|x| x.to_string()).collect();
                format!("[{}]", v.join(" "))
            }
            ("lossy.n", Inst::Lossy(l)) => l.n().to_string(),
            ("lossy.getters", Inst::Lossy(l)) => format!("{} {}", fb(l.epsilon()), l.width()),
            ("lossy.clear", Inst::Lossy(l)) => {
                l.clear();
                "ok".into()
            }
            // CMSHeap -----------------------------------------------------------------------
            ("heap.add", Inst::Heap(h)) => {
                h.add(HKey { id: pu(t[2]), class: pu(t[3]) });
                "ok".into()
            }
            ("heap.extend", Inst::Heap(h)) => {
                // heap.extend <inst> id:class ...   (columns are recomputed by the model from the ops line: id:class:c0,c1,..)
                let items: Vec<HKey> = t[2..].iter().map(|x| { let p: Vec<&str> = x.split(':').collect(); HKey { id: pu(p[0]), class: pu(p[1]) } }).collect();
                h.extend(items);
                "ok".into()
            }
            ("heap.iter", Inst::Heap(h)) => {
                let v: Vec<String> = h.iter().map(|x| x.id.to_string()).collect();
                format!("[{}]", v.join(" "))
            }
            ("heap.empty", Inst::Heap(h)) => b(h.is_empty()),
            ("heap.clear", Inst::Heap(h)) => {
                h.clear();
                "ok".into()
            }
            // TDigest -----------------------------------------------------------------------
            ("td.insert", Inst::Td(d)) => {
                td_do!(d, s, s.insert(pf(t[2])));
                "ok".into()
            }
            ("td.insertw", Inst::Td(d)) => {
                td_do!(d, s, s.insert_weighted(pf(t[2]), pf(t[3])));
                "ok".into()
            }
            ("td.quantile", Inst::Td(d)) => fb(td_do!(d, s, s.quantile(pf(t[2])))),
            ("td.cdf", Inst::Td(d)) => fb(td_do!(d, s, s.cdf(pf(t[2])))),
            ("td.count", Inst::Td(d)) => fb(td_do!(d, s, s.count())),
            ("td.sum", Inst::Td(d)) => fb(td_do!(d, s, s.sum())),
            ("td.mean", Inst::Td(d)) => fb(td_do!(d, s, s.mean())),
            ("td.min", Inst::Td(d)) => fb(td_do!(d, s, s.min())),
            ("td.max", Inst::Td(d)) => fb(td_do!(d, s, s.max())),
            ("td.ncent", Inst::Td(d)) => td_do!(d, s, s.n_centroids()).to_string(),
            ("td.empty", Inst::Td(d)) => b(td_do!(d, s, s.is_empty())),
            ("td.clear", Inst::Td(d)) => {
                td_do!(d, s, s.clear());
                "ok".into()
            }
            ("td.getters", Inst::Td(d)) => td_do!(d, s, format!("{} {}", fb(s.delta()), s.max_backlog_size())),
            (op, _) => panic!("harness: unknown op {}", op),
        }
    }
}

/// Column list of a CMSHeap key, through the public HashIterBuilder with the sketch's parameters
/// and the default SipHash build hasher (what `CountMinSketch::<T>::with_params` uses).
pub fn heap_cols(w: usize, d: usize, class: u64) -> Vec<usize> {
    use std::collections::hash_map::DefaultHasher;
    use std::hash::BuildHasherDefault;
    let bh = BuildHasherDefault::<DefaultHasher>::default();
    let b = HashIterBuilder::new(w, d, bh);
    let key = HKey { id: 0, class };
    b.iter_for(&key).collect()
}
