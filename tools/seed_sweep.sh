#!/bin/bash
# usage: tools/seed_sweep.sh <first seed> <last seed> [tier]   (run from a checkout of /verif; builds first)
# Runs every registered quick check under each seed and prints only the runs that raise an alarm.
A=${1:-20}; B=${2:-40}; TIER=${3:-quick}
python3 tools/translate.py && (cd lean && lake build Pds pds_model $(python3 -c "import json;print(' '.join('Pds.Props.'+c['property_id'] for c in json.load(open('../MANIFEST.json'))['checks']))") >/dev/null 2>&1) && (cd harness && cargo build --release --offline >/dev/null 2>&1)
for s in $(seq $A $B); do
  for i in 01 02 03 04 05 06 07 08 09 10 11 12 13 14 15 16 17 18 19 20; do
    out=$(VERIF_SEED=$s ./check C$i --tier $TIER 2>&1)
    if echo "$out" | grep -q -E "VIOLATION|FLOOR|Traceback"; then echo "seed=$s C$i: $(echo "$out" | grep -E "VIOLATION|FLOOR|Traceback|violates|broken" | head -3 | tr '\n' ' ')"; fi
  done
  echo "seed $s done"
done
