#!/usr/bin/env python3
"""Run the registered quick checks against every seeded change under seeded/<id>/ :
apply patch.diff to /repo's working tree, run ./check for the properties named in meta.json,
restore the tree.  Prints one line per (seeded change, property) and writes seeded/RESULTS.json.
Never part of a registered command; /repo is restored with `git checkout -- .` after each patch."""
import json, os, subprocess, sys, shutil
ROOT = os.path.dirname(os.path.dirname(os.path.abspath(__file__)))
REPO = os.environ.get("PDS_REPO", "/repo")   # a worker's own worktree in tools/run_seeded_par.sh
def sh(cmd, **kw):
    return subprocess.run(cmd, shell=True, capture_output=True, text=True, **kw)
def main():
    only = sys.argv[1:]
    res = {}
    rp = os.path.join(ROOT, "seeded", "RESULTS.json")
    if os.path.exists(rp):
        res = json.load(open(rp))
    for sid in sorted(os.listdir(os.path.join(ROOT, "seeded"))):
        d = os.path.join(ROOT, "seeded", sid)
        if not os.path.isdir(d) or (only and sid not in only):
            continue
        meta = json.load(open(os.path.join(d, "meta.json")))
        assert sh("git -C %s status --porcelain" % REPO).stdout.strip() == "", "/repo not clean"
        r = sh("git -C %s apply %s" % (REPO, os.path.join(d, "patch.diff")))
        if r.returncode != 0:
            print(sid, "PATCH DOES NOT APPLY", r.stderr[:200]); continue
        try:
            for prop in meta["checks"]:
                tier = meta.get("tier", "quick")
                r = sh("./check %s --tier %s" % (prop, tier), cwd=ROOT)
                viol = [l for l in r.stdout.split("\n") if l.startswith("VIOLATION")]
                found = bool(viol) and "no-failing-input-found" not in viol[0]
                res.setdefault(sid, {})[prop] = {"detected": bool(viol), "failing_input": found, "line": viol[0] if viol else "",
                                                  "summary": [l for l in r.stdout.split("\n") if l.strip()][-3:][0][:300] if r.stdout.strip() else ""}
                print("%-8s %-4s %s %s" % (sid, prop, "DETECTED" if viol else "MISSED  ", ("(failing input)" if found else "(no input)") if viol else ""))
                if viol and found and not os.path.exists(os.path.join(d, "detected_replay.ops")):
                    path = viol[0].split("replay=")[1].split()[0]
                    if os.path.exists(path):
                        shutil.copy(path, os.path.join(d, "detected_replay" + os.path.splitext(path)[1]))
        finally:
            sh("git -C %s checkout -- ." % REPO)
            # the runs above rewrote evidence/*.json from a modified tree: put the committed files back
            sh("git -C %s checkout -- evidence" % ROOT)
    json.dump(res, open(rp, "w"), indent=1, sort_keys=True)
if __name__ == "__main__":
    main()
