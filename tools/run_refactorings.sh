#!/bin/bash
# usage: run_refs.sh R2 [R3 ...]   applies every refK.diff of the given agents to /repo, runs the quick checks of the
# properties that depend on the touched files, restores /repo; prints one line per (refactoring, property)
cd /verif
for R in "$@"; do
 for K in 1 2 3 4; do
  D=/verif/seeded_refactorings/$R-$K/patch.diff
  [ -f $D ] || continue
  git -C /repo apply $D || { echo "$R-$K APPLY-FAILED"; continue; }
  FILES=$(git -C /repo diff --name-only)
  PROPS=""
  for f in $FILES; do
    case $f in
      src/tdigest.rs) PROPS="$PROPS C04 C15 C16 C19";;
      src/filters/cuckoofilter.rs) PROPS="$PROPS C01 C06 C07 C12 C14 C19";;
      src/filters/bloomfilter.rs) PROPS="$PROPS C01 C06 C07 C19";;
      src/reservoirsampling.rs) PROPS="$PROPS C05 C18 C19";;
      src/countminsketch.rs) PROPS="$PROPS C02 C06 C08 C10 C19";;
      src/hash_utils.rs) PROPS="$PROPS C01 C02 C07 C08";;
      src/hyperloglog/mod.rs) PROPS="$PROPS C03 C06 C17 C19 C20";;
      src/hyperloglog/serde.rs) PROPS="$PROPS C20";;
      src/helpers.rs) PROPS="$PROPS C11 C13 C14";;
      src/topk/lossycounter.rs) PROPS="$PROPS C09 C19";;
      src/filters/quotientfilter.rs) PROPS="$PROPS C01 C06 C12 C13 C19";;
      src/topk/cmsheap.rs) PROPS="$PROPS C10 C19";;
    esac
  done
  for P in $(echo $PROPS | tr ' ' '\n' | sort -u); do
    OUT=$(./check $P --tier quick 2>&1 | grep -v KNOWN-FINDING | tail -3)
    if echo "$OUT" | grep -q "^VIOLATION"; then
      echo "$R-$K $P ALARM: $(echo "$OUT" | grep -v VIOLATION | tail -1 | cut -c1-200) | $(echo "$OUT" | grep VIOLATION | cut -c1-120)"
    else
      echo "$R-$K $P ok"
    fi
  done
  git -C /repo checkout -- .
 done
done
git -C /verif checkout -- evidence
