#!/bin/bash
# usage: tools/try_patch.sh <patch-file|-R:commit> <Cxx> [more Cxx...]
# applies a patch (or the reverse of a /repo commit) to /repo's working tree, runs the checks, restores.
P="$1"; shift
cd /repo || exit 2
if [[ "$P" == -R:* ]]; then git show "${P#-R:}" | git apply -R - || { echo "cannot apply"; exit 2; }
else git apply "$P" || { echo "cannot apply"; exit 2; }; fi
cd /verif
for c in "$@"; do ./check "$c" --tier quick | tail -3; echo "  -> exit $?"; done
git -C /repo checkout -- . 
