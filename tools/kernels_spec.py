"""Which functions of /repo are translated to Lean by tools/rustkern.py, group by group.
Each entry: file, impl (regex of the impl header, optional), fn, lean (generated name), self (fields of
`self` the kernel reads, with types F = f64 / N = integer), structs (struct-typed parameters and their
fields), extra (names introduced by `subst`), drop (non-numeric parameters that are not used), subst
(regex replacements applied to the function's source text before parsing), result (what the generated
function returns), calls (other kernels this one calls)."""

TD = "src/tdigest.rs"
def scale(impl, kind):
    cx = {"self.x": ("%s_x" % kind, ["delta"], "F"), "self.z": ("%s_z" % kind, ["delta"], "F")}
    out = []
    if kind in ("K2", "K3"):
        out.append(dict(file=TD, impl=r"impl %s \{" % kind, fn="x", lean="%s_x" % kind, self=[("delta", "F")]))
    if kind == "K2":
        out.append(dict(file=TD, impl=r"impl K2 \{", fn="z", lean="K2_z", self=[("delta", "F")], calls=cx))
    out.append(dict(file=TD, impl=r"impl ScaleFunction for %s \{" % kind, fn="f", lean="%s_f" % kind, self=[("delta", "F")], calls=cx))
    out.append(dict(file=TD, impl=r"impl ScaleFunction for %s \{" % kind, fn="f_inv", lean="%s_f_inv" % kind, self=[("delta", "F")], calls=cx))
    return out

GROUPS = {
 "k_td_core": [
    dict(file=TD, impl=r"impl Centroid \{", fn="fuse", lean="Centroid_fuse", self=[("sum", "F"), ("count", "F")],
         structs={"other": [("sum", "F"), ("count", "F")]}, result=("struct_fields", ["sum", "count"], ["sum", "count"])),
    dict(file=TD, impl=r"impl Centroid \{", fn="mean", lean="Centroid_mean", self=[("sum", "F"), ("count", "F")]),
    dict(file=TD, impl=r"impl<S> TDigestInner<S>", fn="interpolate", lean="interpolate"),
    dict(file=TD, impl=r"impl<S> TDigestInner<S>", fn="clamped_mean", lean="clamped_mean", self=[("min", "F"), ("max", "F")],
         structs={"c": [("sum", "F"), ("count", "F")]}, subst=[(r"c\.mean\(\)", "Centroid::mean(c)")],
         calls={"Centroid::mean": ("Centroid_mean", [], "F")}),
 ],
 "k_td_scale": scale("K0", "K0") + scale("K1", "K1") + scale("K2", "K2") + scale("K3", "K3"),
 "k_sizing_bloom": [
    dict(file="src/filters/bloomfilter.rs", fn="with_properties_and_hash", lean="bloom_with_properties", drop=["buildhasher"],
         result=("call_args", "with_params_and_hash", [1, 0])),     # (k, m)
    dict(file="src/filters/bloomfilter.rs", fn="len", lean="bloom_len", self=[("m", "N"), ("k", "N"), ("ones", "N")],
         subst=[(r"self\.bs\.ones\(\)\.count\(\)", "self.ones"), (r"self\.bs\.len\(\)", "self.m")]),
 ],
 "k_sizing_cms": [
    dict(file="src/countminsketch.rs", fn="with_point_query_properties_and_hasher", lean="cms_with_point_query_properties",
         drop=["buildhasher"], result=("call_args", "with_params_and_hasher", [0, 1])),
 ],
 "k_sizing_lossy": [
    dict(file="src/topk/lossycounter.rs", fn="with_epsilon", lean="lossy_with_epsilon", result=("struct_fields", ["width"])),
    dict(file="src/topk/lossycounter.rs", fn="query", lean="lossy_query_bound", self=[("epsilon", "F"), ("n", "N")],
         result=("lets", ["bound"])),
 ],
 "k_sizing_cuckoo": [
    dict(file="src/filters/cuckoofilter.rs", fn="with_properties_and_hash_n", lean="cuckoo_with_properties", drop=["rng", "bh"],
         result=("call_args", "with_params_and_hash", [1, 2, 3])),
 ],
 "k_alloc": [
    dict(file="src/helpers.rs", fn="all_zero_intvector", lean="all_zero_intvector_blocks", extra=[("size_of_t", "N")],
         subst=[(r"mem::size_of::<T>\(\)", "size_of_t")], result=("lets", ["n_blocks"])),
 ],
 "k_hll_add": [
    dict(file="src/hyperloglog/mod.rs", fn="add_hashed", lean="hll_add_hashed_jp", self=[("b", "N")], result=("lets", ["j", "p"])),
 ],
 "k_hll_err": [
    dict(file="src/hyperloglog/mod.rs", fn="relative_error", lean="hll_relative_error", self=[("m", "N")],
         subst=[(r"self\.m\(\)", "self.m")]),
    dict(file="src/hyperloglog/mod.rs", fn="am", lean="hll_am", self=[("m", "N")],
         subst=[(r"self\.registers\.len\(\)", "self.m")]),
 ],
 "k_hashiter": [
    dict(file="src/hash_utils.rs", impl=r"impl<'a, B> Iterator for HashIter<'a, B>", fn="next", lean="hashiter_next",
         self=[("i", "N"), ("h1", "N"), ("h2", "N"), ("m", "N"), ("f", "N")],
         subst=[(r"self\.builder\.m\(\)", "self.m"), (r"self\.builder\.f\(self\.i\)", "self.f"),
                (r"if self\.i < self\.builder\.k\(\) \{", "{"), (r"self\.i \+= 1;", ""), (r"Some\(x as usize\)\s*\} else \{\s*None\s*\}", "x }")],
         result=("value",)),
 ],
 "k_cuckoo": [
    dict(file="src/filters/cuckoofilter.rs", fn="fingerprint", lean="cuckoo_fingerprint", self=[("l_fingerprint", "N")],
         extra=[("hash_finish", "N")], drop=["t"],
         subst=[(r"let mut hasher = self\.buildhasher\.build_hasher\(\);", ""), (r"hasher\.write_usize\(0\);", ""),
                (r"t\.hash\(&mut hasher\);", ""), (r"hasher\.finish\(\)", "hash_finish")]),
    dict(file="src/filters/cuckoofilter.rs", fn="hash", lean="cuckoo_bucket_hash", self=[("n_buckets", "N")],
         extra=[("hash_finish", "N")], drop=["obj"],
         subst=[(r"let mut hasher = self\.buildhasher\.build_hasher\(\);", ""), (r"hasher\.write_usize\(1\);", ""),
                (r"obj\.hash\(&mut hasher\);", ""), (r"hasher\.finish\(\)", "hash_finish")]),
 ],
 "k_quotient": [
    dict(file="src/filters/quotientfilter.rs", fn="calc_quotient_remainder", lean="qf_calc_quotient_remainder",
         self=[("bits_quotient", "N"), ("bits_remainder", "N")], extra=[("fingerprint0", "N")], drop=["obj"],
         subst=[(r"self\.bits_remainder\(\)", "self.bits_remainder"), (r"self\.buildhasher\.hash_one\(obj\)", "fingerprint0")]),
 ],
 "k_reservoir": [
    dict(file="src/reservoirsampling.rs", fn="draw_gap", lean="reservoir_draw_gap", self=[("k", "N")], extra=[("unit", "F")],
         subst=[(r"self\.rng\.gen_range\(\(0\.\)\.\.1\.\)", "unit")]),
 ],
}

# group -> Lean module (Pds/Generated/Kernels/<Module>.lean); other generated modules a group's kernels call
MODULE = {"k_td_core": "TdCore", "k_td_scale": "TdScale", "k_sizing_bloom": "SizingBloom", "k_sizing_cms": "SizingCms",
          "k_sizing_lossy": "SizingLossy", "k_sizing_cuckoo": "SizingCuckoo", "k_alloc": "Alloc", "k_hll_add": "HllAdd",
          "k_hll_err": "HllErr", "k_hashiter": "HashIter", "k_cuckoo": "Cuckoo", "k_quotient": "Quotient", "k_reservoir": "Reservoir"}
IMPORTS = {}
