"""Which functions of /repo are translated to Lean by tools/rustkern.py, group by group.
Each entry: file, impl (regex of the impl header, optional), fn, lean (generated name), self (fields of
`self` the kernel reads, with types F = f64 / N = integer), structs (struct-typed parameters and their
fields), extra (names introduced by `subst`), drop (non-numeric parameters that are not used), subst
(regex replacements applied to the function's source text before parsing), result (what the generated
function returns), calls (other kernels this one calls)."""

TD = "src/tdigest.rs"
def scale(impl, kind):
    cx = {"self.x": ("%s_x" % kind, ["delta"], "F"), "self.z": ("%s_z" % kind, ["delta"], "F")}
    out = []
    if kind in ("K2", "K3"):
        out.append(dict(file=TD, impl=r"impl %s \{" % kind, fn="x", lean="%s_x" % kind, self=[("delta", "F")]))
    if kind == "K2":
        out.append(dict(file=TD, impl=r"impl K2 \{", fn="z", lean="K2_z", self=[("delta", "F")], calls=cx))
    out.append(dict(file=TD, impl=r"impl ScaleFunction for %s \{" % kind, fn="f", lean="%s_f" % kind, self=[("delta", "F")], calls=cx))
    out.append(dict(file=TD, impl=r"impl ScaleFunction for %s \{" % kind, fn="f_inv", lean="%s_f_inv" % kind, self=[("delta", "F")], calls=cx))
    return out

GROUPS = {
 "k_td_core": [
    dict(file=TD, impl=r"impl Centroid \{", fn="fuse", lean="Centroid_fuse", self=[("sum", "F"), ("count", "F")],
         structs={"other": [("sum", "F"), ("count", "F")]}, result=("struct_fields", ["sum", "count"], ["sum", "count"])),
    dict(file=TD, impl=r"impl Centroid \{", fn="mean", lean="Centroid_mean", self=[("sum", "F"), ("count", "F")]),
    dict(file=TD, impl=r"impl<S> TDigestInner<S>", fn="interpolate", lean="interpolate"),
    dict(file=TD, impl=r"impl<S> TDigestInner<S>", fn="clamped_mean", lean="clamped_mean", self=[("min", "F"), ("max", "F")],
         structs={"c": [("sum", "F"), ("count", "F")]}, subst=[(r"c\.mean\(\)", "Centroid::mean(c)")],
         calls={"Centroid::mean": ("Centroid_mean", [], "F")}),
 ],
 "k_td_scale": scale("K0", "K0") + scale("K1", "K1") + scale("K2", "K2") + scale("K3", "K3"),
 "k_sizing_bloom": [
    dict(file="src/filters/bloomfilter.rs", fn="with_properties_and_hash", lean="bloom_with_properties", drop=["buildhasher"],
         result=("call_args", "with_params_and_hash", [1, 0])),     # (k, m)
    dict(file="src/filters/bloomfilter.rs", fn="len", lean="bloom_len", self=[("m", "N"), ("k", "N"), ("ones", "N")],
         subst=[(r"self\.bs\.ones\(\)\.count\(\)", "self.ones"), (r"self\.bs\.len\(\)", "self.m")]),
 ],
 "k_sizing_cms": [
    dict(file="src/countminsketch.rs", fn="with_point_query_properties_and_hasher", lean="cms_with_point_query_properties",
         drop=["buildhasher"], result=("call_args", "with_params_and_hasher", [0, 1])),
 ],
 "k_sizing_lossy": [
    dict(file="src/topk/lossycounter.rs", fn="with_epsilon", lean="lossy_with_epsilon", result=("struct_fields", ["width"])),
    dict(file="src/topk/lossycounter.rs", fn="query", lean="lossy_query_bound", self=[("epsilon", "F"), ("n", "N")],
         result=("lets", ["bound"])),
 ],
 "k_lossy_window": [
    # the window arithmetic of `LossyCounter::add` (the pre-increment of n is named n1 by the rewrite)
    dict(file="src/topk/lossycounter.rs", fn="add", lean="lossy_add_window", self=[("n", "N"), ("width", "N")], drop=["t"],
         subst=[(r"self\.n \+= 1;", "let n1 = self.n + 1;"), (r"self\.n % self\.width", "n1 % self.width"),
                (r"self\.n / self\.width", "n1 / self.width")],
         result=("lets", ["at_window_end", "b_current"])),
 ],
 "k_sizing_cuckoo": [
    dict(file="src/filters/cuckoofilter.rs", fn="with_properties_and_hash_n", lean="cuckoo_with_properties", drop=["rng", "bh"],
         result=("call_args", "with_params_and_hash", [1, 2, 3])),
 ],
 "k_alloc": [
    dict(file="src/helpers.rs", fn="all_zero_intvector", lean="all_zero_intvector_blocks", extra=[("size_of_t", "N")],
         subst=[(r"mem::size_of::<T>\(\)", "size_of_t")], result=("lets", ["n_blocks"])),
 ],
 "k_hll_add": [
    dict(file="src/hyperloglog/mod.rs", fn="add_hashed", lean="hll_add_hashed_jp", self=[("b", "N")], result=("lets", ["j", "p"])),
 ],
 "k_hll_err": [
    dict(file="src/hyperloglog/mod.rs", fn="relative_error", lean="hll_relative_error", self=[("m", "N")],
         subst=[(r"self\.m\(\)", "self.m")]),
    dict(file="src/hyperloglog/mod.rs", fn="am", lean="hll_am", self=[("m", "N")],
         subst=[(r"self\.registers\.len\(\)", "self.m")]),
 ],
 "k_hashiter": [
    dict(file="src/hash_utils.rs", impl=r"impl<'a, B> Iterator for HashIter<'a, B>", fn="next", lean="hashiter_next",
         self=[("i", "N"), ("h1", "N"), ("h2", "N"), ("m", "N"), ("f", "N")],
         subst=[(r"self\.builder\.m\(\)", "self.m"), (r"self\.builder\.f\(self\.i\)", "self.f"),
                (r"if self\.i < self\.builder\.k\(\) \{", "{"), (r"self\.i \+= 1;", ""), (r"Some\(x as usize\)\s*\} else \{\s*None\s*\}", "x }")],
         result=("value",)),
 ],
 "k_cuckoo": [
    dict(file="src/filters/cuckoofilter.rs", fn="fingerprint", lean="cuckoo_fingerprint", self=[("l_fingerprint", "N")],
         extra=[("hash_finish", "N")], drop=["t"],
         subst=[(r"let mut hasher = self\.buildhasher\.build_hasher\(\);", ""), (r"hasher\.write_usize\(0\);", ""),
                (r"t\.hash\(&mut hasher\);", ""), (r"hasher\.finish\(\)", "hash_finish")]),
    dict(file="src/filters/cuckoofilter.rs", fn="hash", lean="cuckoo_bucket_hash", self=[("n_buckets", "N")],
         extra=[("hash_finish", "N")], drop=["obj"],
         subst=[(r"let mut hasher = self\.buildhasher\.build_hasher\(\);", ""), (r"hasher\.write_usize\(1\);", ""),
                (r"obj\.hash\(&mut hasher\);", ""), (r"hasher\.finish\(\)", "hash_finish")]),
 ],
 "k_quotient": [
    dict(file="src/filters/quotientfilter.rs", fn="calc_quotient_remainder", lean="qf_calc_quotient_remainder",
         self=[("bits_quotient", "N"), ("bits_remainder", "N")], extra=[("fingerprint0", "N")], drop=["obj"],
         subst=[(r"self\.bits_remainder\(\)", "self.bits_remainder"), (r"self\.buildhasher\.hash_one\(obj\)", "fingerprint0")]),
 ],
 "k_reservoir": [
    dict(file="src/reservoirsampling.rs", fn="draw_gap", lean="reservoir_draw_gap", self=[("k", "N")], extra=[("unit", "F")],
         subst=[(r"self\.rng\.gen_range\(\(0\.\)\.\.1\.\)", "unit")]),
 ]
 ,
 "k_reservoir_add": [
    dict(file="src/reservoirsampling.rs", fn="add", lean="reservoir_add", mode="flow",
         generic=[("R", "Type"), ("I", "Pds.Reservoir.RngI R")],
         self=[("k", "N")], self_mut=[("rng", "R"), ("reservoir", "L(N)"), ("i", "N"), ("skip_until", "N")],
         param_types={"obj": "N"}, returns="self",
         # requests to the scripted RNG interface, recognised in the syntax tree wherever they occur (evaluation order kept)
         effect_calls={"self.draw_gap": ("pair", "I.gap {self.k} {0} {self.rng}", "N", ["self.rng"]),
                       "self.rng.gen_range": ("pair", "I.below {0} {self.rng}", "N", ["self.rng"])}),
    dict(file="src/reservoirsampling.rs", fn="clear", lean="reservoir_clear", mode="flow",
         generic=[("R", "Type")],
         self=[], self_mut=[("rng", "R"), ("reservoir", "L(N)"), ("i", "N"), ("skip_until", "N")], returns="self"),
 ],
 "k_td_read": [
    dict(file=TD, impl=r"impl<S> TDigestInner<S>", fn="count", lean="td_count", mode="flow",
         self=[("centroids", "L(S:Centroid)")], self_mut=[], returns="F"),
    dict(file=TD, impl=r"impl<S> TDigestInner<S>", fn="cdf", lean="td_cdf", mode="flow",
         self=[("centroids", "L(S:Centroid)"), ("min", "F"), ("max", "F")], self_mut=[], returns="F",
         calls={"self.count": ("td_count {self.centroids}", "F"),
                "Self::interpolate": ("interpolate {0} {1} {2}", "F"),
                "self.clamped_mean": ("clamped_mean {self.min} {self.max} {0}.sum {0}.count", "F")}),
    dict(file=TD, impl=r"impl<S> TDigestInner<S>", fn="quantile", lean="td_quantile", mode="flow",
         self=[("centroids", "L(S:Centroid)"), ("min", "F"), ("max", "F")], self_mut=[], returns="F",
         calls={"self.count": ("td_count {self.centroids}", "F"),
                "Self::interpolate": ("interpolate {0} {1} {2}", "F"),
                "self.clamped_mean": ("clamped_mean {self.min} {self.max} {0}.sum {0}.count", "F")}),
 ],
 "k_td_merge": [
    # the fusion pass of `merge`: everything after the sort (the sorted vector `x` is a parameter)
    dict(file=TD, impl=r"impl<S> TDigestInner<S>", fn="merge", lean="td_merge_pass", mode="flow",
         self=[("backlog", "L(S:Centroid)"), ("n_samples", "N"), ("scale_function", "X:Pds.TDigest.ScaleFn α")],
         self_mut=[("centroids", "L(S:Centroid)")], extra=[("x", "L(S:Centroid)")], returns="self",
         vec_types={"result": "L(S:Centroid)"},
         subst=[(r"// TODO: use sort_by_cached_key once stable\s*let mut x: Vec<\(f64, Centroid\)> = self\s*\.centroids\s*\.drain\(\.\.\)\s*\.chain\(self\.backlog\.drain\(\.\.\)\)\s*\.map\(\|c\| \(c\.mean\(\), c\)\)\s*\.collect\(\);\s*x\.sort_by\(\|t1, t2\| t1\.0\.partial_cmp\(&t2\.0\)\.unwrap\(\)\);\s*let mut x: Vec<Centroid> = x\.drain\(\.\.\)\.map\(\|t\| t\.1\)\.collect\(\);", "")],
         calls={"X:Pds.TDigest.ScaleFn α.f": ("{0}.f {1} {2}", "F"), "X:Pds.TDigest.ScaleFn α.f_inv": ("{0}.fInv {1} {2}", "F"),
                "S:Centroid.fuse": ("let p_ := Centroid_fuse {0}.sum {0}.count {1}.sum {1}.count; ({ sum := p_.1, count := p_.2 } : Pds.TDigest.Centroid α)", "S:Centroid")}),
 ],
 "k_clear": [
    dict(file="src/filters/cuckoofilter.rs", impl=r"impl<T, R, B> Filter<T> for CuckooFilter<T, R, B>", fn="clear", lean="cuckoo_clear", mode="flow",
         self=[], self_mut=[("table", "L(N)"), ("n_elements", "N")], returns="self",
         subst=[(r"IntVector::with_fill\(self\.table\.element_bits\(\), self\.table\.len\(\), 0\)", "vec_zeros(self.table.len())")],
         calls={"vec_zeros": ("List.replicate {0} (0 : Nat)", "L(N)")}),
    dict(file="src/filters/cuckoofilter.rs", impl=r"impl<T, R, B> Filter<T> for CuckooFilter<T, R, B>", fn="is_empty", lean="cuckoo_is_empty", mode="flow",
         self=[("n_elements", "N")], self_mut=[], returns="B"),
    dict(file="src/reservoirsampling.rs", fn="is_empty", lean="reservoir_is_empty", mode="flow",
         self=[("i", "N")], self_mut=[], returns="B"),
    dict(file="src/hyperloglog/mod.rs", fn="clear", lean="hll_clear", mode="flow",
         self=[], self_mut=[("registers", "L(N)")], returns="self",
         subst=[(r"vec!\[0; self\.registers\.len\(\)\]", "vec_zeros(self.registers.len())")],
         calls={"vec_zeros": ("List.replicate {0} (0 : Nat)", "L(N)")}),
    dict(file="src/countminsketch.rs", fn="clear", lean="cms_clear", mode="flow",
         self=[("w", "N"), ("d", "N")], self_mut=[("table", "L(N)")], returns="self",
         subst=[(r"self\.table = vec!\[C::zero\(\); self\.w\.checked_mul\(self\.d\)\.unwrap\(\)\];",
                 "let n = checked_mul(self.w, self.d); self.table = vec_zeros(n);")],
         calls={"vec_zeros": ("List.replicate {0} (0 : Nat)", "L(N)")},
         effects={"checked_mul": ("KOps.checkedMul {0} {1}", "N", None)}),
    dict(file="src/tdigest.rs", impl=r"impl<S> TDigestInner<S>", fn="is_empty", lean="td_is_empty", mode="flow",
         self=[("centroids", "L(S:Centroid)"), ("backlog", "L(S:Centroid)")], self_mut=[], returns="B"),
 ],
 "k_bloom_ops": [
    dict(file="src/filters/bloomfilter.rs", fn="insert", lean="bloom_insert", mode="flow",
         self=[], self_mut=[("bs", "L(B)")], extra=[("positions", "L(N)")], drop=["obj"], returns="B",
         subst=[(r"self\.builder\.iter_for\(obj\)", "positions"),
                (r"was_present &= self\.bs\.put\(pos\);", "let prev = bs_put(pos); was_present = was_present && prev;"),
                (r"Ok\(!was_present\)", "!was_present")],
         effects={"bs_put": ("KOps.bitPut {self.bs} {0}", "B", "self.bs", "partial")}),
    dict(file="src/filters/bloomfilter.rs", fn="query", lean="bloom_query", mode="flow",
         self=[("bs", "L(B)")], self_mut=[], extra=[("positions", "L(N)")], drop=["obj"], returns="B",
         subst=[(r"self\.builder\.iter_for\(obj\)", "positions"),
                (r"if !self\.bs\[pos\] \{", "let bit = self.bs[pos]; if !bit {")]),
 ],
 "k_cms_ops": [
    dict(file="src/countminsketch.rs", fn="add_n", lean="cms_add_n", mode="flow",
         self=[("w", "N"), ("cmax", "N")], self_mut=[("table", "L(N)")], extra=[("positions", "L(N)")], drop=["obj"],
         param_types={"n": "N"}, returns="N",
         subst=[(r"self\.builder\.iter_for\(obj\)", "positions"), (r"C::zero\(\)", "0"),
                (r"self\.table\[x\] = current\.checked_add\(n\)\.unwrap\(\);", "let nv = checked_add(current, n); self.table[x] = nv;"),
                (r"result\.checked_add\(n\)\.unwrap\(\)\s*\}\s*$", "let r = checked_add(result, n); r }")],
         effects={"checked_add": ("KOps.checkedAddMax {self.cmax} {0} {1}", "N", None)}),
 ],
 "k_cuckoo_ops": [
    dict(file="src/filters/cuckoofilter.rs", fn="write_to_bucket", lean="cuckoo_write_to_bucket", mode="flow",
         self=[("bucketsize", "N")], self_mut=[("table", "L(N)")], param_types={"log": "L(T(N,N))"}, mut_params=["log"], returns="B",
         subst=[(r"if self\.table\.get\(x as u64\) == 0 \{", "let cur = self.table[x]; if cur == 0 {"),
                (r"self\.table\.set\(x as u64, f\);", "self.table[x] = f;")]),
    dict(file="src/filters/cuckoofilter.rs", fn="has_in_bucket", lean="cuckoo_has_in_bucket", mode="flow",
         self=[("bucketsize", "N"), ("table", "L(N)")], self_mut=[], returns="B",
         subst=[(r"if self\.table\.get\(x as u64\) == f \{", "let cur = self.table[x]; if cur == f {")]),
    dict(file="src/filters/cuckoofilter.rs", fn="remove_from_bucket", lean="cuckoo_remove_from_bucket", mode="flow",
         self=[("bucketsize", "N")], self_mut=[("table", "L(N)")], returns="B",
         subst=[(r"if self\.table\.get\(x as u64\) == f \{", "let cur = self.table[x]; if cur == f {"),
                (r"self\.table\.set\(x as u64, 0\);", "self.table[x] = 0;")]),
    dict(file="src/filters/cuckoofilter.rs", fn="delete", lean="cuckoo_delete", mode="flow",
         self=[("bucketsize", "N")], self_mut=[("table", "L(N)"), ("n_elements", "N")], extra=[("f", "N"), ("i1", "N"), ("i2", "N")],
         drop=["t"], returns="B",
         subst=[(r"let \(f, i1, i2\) = self\.start\(t\);", ""),
                (r"if self\.remove_from_bucket\(i1, f\) \{", "let r1 = call_remove(i1, f); if r1 {"),
                (r"if self\.remove_from_bucket\(i2, f\) \{", "let r2 = call_remove(i2, f); if r2 {")],
         effects={"call_remove": ("cuckoo_remove_from_bucket {self.bucketsize} {self.table} {0} {1}", "B", ["self.table"], "flowcall")}),
    dict(file="src/filters/cuckoofilter.rs", impl=r"impl<T, R, B> Filter<T> for CuckooFilter<T, R, B>", fn="query", lean="cuckoo_query", mode="flow",
         self=[("bucketsize", "N"), ("table", "L(N)")], self_mut=[], extra=[("f", "N"), ("i1", "N"), ("i2", "N")], drop=["obj"], returns="B",
         subst=[(r"let \(f, i1, i2\) = self\.start\(obj\);", ""),
                (r"if self\.has_in_bucket\(i1, f\) \{", "let r1 = call_has(i1, f); if r1 {"),
                (r"if self\.has_in_bucket\(i2, f\) \{", "let r2 = call_has(i2, f); if r2 {")],
         effects={"call_has": ("cuckoo_has_in_bucket {self.bucketsize} {self.table} {0} {1}", "B", [], "flowcall0")}),
    dict(file="src/filters/cuckoofilter.rs", fn="insert_internal", lean="cuckoo_insert_internal", mode="flow",
         generic=[("R", "Type"), ("I", "Pds.Cuckoo.RngI R"), ("bh", "Nat → Nat")],
         self=[("bucketsize", "N")], self_mut=[("table", "L(N)"), ("n_elements", "N"), ("rng", "R")],
         param_types={"log": "L(T(N,N))"}, mut_params=["log"], mut_locals=["f"], extra=[("max_num_kicks", "N")], returns="B",
         subst=[(r"if self\.write_to_bucket\(i1, f, log\) \{", "let w1 = call_write(i1, f); if w1 {"),
                (r"if self\.write_to_bucket\(i2, f, log\) \{", "let w2 = call_write(i2, f); if w2 {"),
                (r"if self\.write_to_bucket\(i, f, log\) \{", "let w3 = call_write(i, f); if w3 {"),
                (r"let mut i = if self\.rng\.gen::<bool>\(\) \{ i1 \} else \{ i2 \};", "let c = rng_bool(); let mut i = if c { i1 } else { i2 };"),
                (r"let e: usize = self\.rng\.gen_range\(0\.\.self\.bucketsize\);", "let e = rng_below(self.bucketsize);"),
                (r"let tmp = self\.table\.get\(x as u64\);", "let tmp = self.table[x];"),
                (r"self\.table\.set\(x as u64, f\);", "self.table[x] = f;"),
                (r"i \^= self\.hash\(&f\);", "i = i ^ bucket_hash(f);"),
                (r"0\.\.MAX_NUM_KICKS", "0..max_num_kicks"),
                (r"return Ok\(true\);", "return true;", 3),
                (r"Err\(CuckooFilterFull\)", "false")],
         calls={"bucket_hash": ("bh {0}", "N")},
         effects={"call_write": ("cuckoo_write_to_bucket {self.bucketsize} {self.table} {0} {1} log", "B", ["self.table", "log"], "flowcall"),
                  "rng_bool": ("I.bool {self.rng}", "B", "self.rng"),
                  "rng_below": ("I.below {0} {self.rng}", "N", "self.rng")}),
    dict(file="src/filters/cuckoofilter.rs", fn="restore_state", lean="cuckoo_restore_state", mode="flow",
         self=[], self_mut=[("table", "L(N)")], param_types={"log": "L(T(N,N))"}, returns="self",
         subst=[(r"self\.table\.set\(pos as u64, data\);", "self.table[pos] = data;")]),
    dict(file="src/filters/cuckoofilter.rs", impl=r"impl<T, R, B> Filter<T> for CuckooFilter<T, R, B>", fn="insert", lean="cuckoo_insert", mode="flow",
         generic=[("R", "Type"), ("I", "Pds.Cuckoo.RngI R"), ("bh", "Nat → Nat")],
         self=[("bucketsize", "N")], self_mut=[("table", "L(N)"), ("n_elements", "N"), ("rng", "R")],
         extra=[("f", "N"), ("i1", "N"), ("i2", "N"), ("max_num_kicks", "N")], drop=["obj"], returns="B",
         vec_types={"log": "L(T(N,N))"},
         subst=[(r"let \(f, i1, i2\) = self\.start\(obj\);", ""),
                (r"let mut log: Vec<\(usize, u64\)> = vec!\[\];", "let mut log = vec![];"),
                (r"let result = self\.insert_internal\(f, i1, i2, &mut log\);", "let result = call_insert_internal(f, i1, i2);"),
                (r"if result\.is_err\(\) \{\s*self\.restore_state\(&log\);\s*\}", "if !result { let u = call_restore(); }")],
         effects={"call_insert_internal": ("cuckoo_insert_internal R I bh {self.bucketsize} {self.table} {self.n_elements} {self.rng} {0} {1} {2} log max_num_kicks", "B",
                                           ["self.table", "self.n_elements", "self.rng", "log"], "flowcall"),
                  "call_restore": ("cuckoo_restore_state {self.table} log", "U", ["self.table"], "flowcont")}),
    dict(file="src/filters/cuckoofilter.rs", impl=r"impl<T, R, B> Filter<T> for CuckooFilter<T, R, B>", fn="union", lean="cuckoo_union", mode="flow",
         generic=[("R", "Type"), ("I", "Pds.Cuckoo.RngI R"), ("bh", "Nat → Nat")],
         self=[("bucketsize", "N"), ("n_buckets", "N"), ("l_fingerprint", "N")], self_mut=[("table", "L(N)"), ("n_elements", "N"), ("rng", "R")],
         extra=[("other_table", "L(N)"), ("other_bucketsize", "N"), ("other_n_buckets", "N"), ("other_l_fingerprint", "N"), ("max_num_kicks", "N")],
         drop=["other"], returns="B", vec_types={"log": "L(T(N,N))"},
         subst=[(r"assert!\(\s*self\.buildhasher == other\.buildhasher,\s*\"buildhasher must be equal\",\s*\);", ""),
                (r"other\.bucketsize", "other_bucketsize", 3), (r"other\.n_buckets", "other_n_buckets", 2),
                (r"other\.l_fingerprint", "other_l_fingerprint", 2), (r"other\.table\.iter\(\)", "other_table.iter()"),
                (r"let mut log: Vec<\(usize, u64\)> = vec!\[\];", "let mut log = vec![];"),
                (r"other\.hash\(&f\)", "bucket_hash(f)"),
                (r"if let Err\(err\) = self\.insert_internal\(f, i1, i2, &mut log\) \{\s*self\.restore_state\(&log\);\s*self\.n_elements = n_elements_backup;\s*return Err\(err\);\s*\}",
                 "let r = call_insert_internal(f, i1, i2); if !r { let u = call_restore(); self.n_elements = n_elements_backup; return false; }"),
                (r"Ok\(\(\)\)", "true")],
         calls={"bucket_hash": ("bh {0}", "N")},
         effects={"call_insert_internal": ("cuckoo_insert_internal R I bh {self.bucketsize} {self.table} {self.n_elements} {self.rng} {0} {1} {2} log max_num_kicks", "B",
                                           ["self.table", "self.n_elements", "self.rng", "log"], "flowcall"),
                  "call_restore": ("cuckoo_restore_state {self.table} log", "U", ["self.table"], "flowcont")}),
 ],
 "k_qf_ops": [
    dict(file="src/filters/quotientfilter.rs", fn="scan", lean="qf_scan", mode="flow", hoist_index=True,
         self=[("is_occupied", "L(B)"), ("is_continuation", "L(B)"), ("is_shifted", "L(B)"), ("remainders", "L(N)")], self_mut=[],
         returns="S:ScanResult", fuel="{self.is_occupied}.length + 1",
         update_calls={"self.incr": "KOps.ringIncr {self.is_occupied}.length {0}", "self.decr": "KOps.ringDecr {self.is_occupied}.length {0}"}),
 ],
}
STRUCTS = {
    "ScanResult": {"lean": "Pds.QfScan", "fields": [("present", "B"), ("position", "N"), ("start_of_run", "O(N)")]},
    "Centroid": {"lean": "Pds.TDigest.Centroid α", "fields": [("sum", "F"), ("count", "F")]},
}

# group -> Lean module (Pds/Generated/Kernels/<Module>.lean); other generated modules a group's kernels call
MODULE = {"k_td_core": "TdCore", "k_td_scale": "TdScale", "k_sizing_bloom": "SizingBloom", "k_sizing_cms": "SizingCms",
          "k_sizing_lossy": "SizingLossy", "k_sizing_cuckoo": "SizingCuckoo", "k_lossy_window": "LossyWindow", "k_alloc": "Alloc", "k_hll_add": "HllAdd",
          "k_hll_err": "HllErr", "k_hashiter": "HashIter", "k_cuckoo": "Cuckoo", "k_quotient": "Quotient", "k_reservoir": "Reservoir",
          "k_reservoir_add": "ReservoirAdd", "k_td_read": "TdRead", "k_td_merge": "TdMerge", "k_bloom_ops": "BloomOps", "k_cms_ops": "CmsOps", "k_cuckoo_ops": "CuckooOps", "k_clear": "Clear", "k_qf_ops": "QfOps"}
IMPORTS = {"k_td_read": ["TdCore"], "k_td_merge": ["TdCore"]}
# hand-written modules a generated module needs (type definitions only)
LEAN_IMPORTS = {"k_clear": ["Pds.Model.TDigest"], "k_cuckoo_ops": ["Pds.Model.Cuckoo"], "k_reservoir_add": ["Pds.Model.Reservoir"], "k_td_read": ["Pds.Model.TDigest"], "k_td_merge": ["Pds.Model.TDigest"]}
