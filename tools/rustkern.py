#!/usr/bin/env python3
"""A translator for the *straight-line arithmetic kernels* of /repo: a strict parser for the subset of
Rust those functions are written in (let, if/else, blocks, arithmetic, comparisons, casts, method
calls on numbers, assert!, checked_* + expect) and an emitter of Lean 4 definitions.

It is used by tools/translate.py to regenerate lean/Pds/Generated/Kernels.lean from the current source on
every run; lean/Pds/Proofs/KernelTie*.lean then *prove* each generated definition equal to the
corresponding function of the hand-written model, so for these kernels the tie between model and code is
a re-checked theorem and not a sample.  Anything outside the subset raises Unrecognised (a hard error
for that group of kernels, never a guess).

Number types: f64 -> a carrier `α` with the operations of `Pds.KernelOps` (generic: Float for execution,
any ordered field in proofs); usize/u64/u32/u8 -> `Nat` (unbounded: wrap-around and truncating integer
casts are NOT represented, exactly as in the hand-written model; `checked_*` are represented against
2^64); bool -> `Prop`/`Bool` via `decide`.
"""
import re

class Unrecognised(Exception):
    pass

def die(msg):
    raise Unrecognised(msg)

# ------------------------------------------------------------------------------------------------
# tokenizer

TOK = re.compile(r"""
    (?P<ws>\s+|//[^\n]*|/\*.*?\*/)
  | (?P<num>0x[0-9a-fA-F_]+(?:u64|usize|u32|u8|i64|i32)?
        | \d[\d_]*(?:\.(?![.a-zA-Z_])\d*)?(?:[eE][+-]?\d+)?(?:_?(?:f64|f32|u64|usize|u32|u16|u8|i64|i32))?)
  | (?P<str>"(?:[^"\\]|\\.)*")
  | (?P<life>'[a-zA-Z_][a-zA-Z0-9_]*(?!'))
  | (?P<id>[A-Za-z_][A-Za-z0-9_]*)
  | (?P<op>::|->|=>|==|!=|<=|>=|&&|\|\||<<=|>>=|<<|>>|\+=|-=|\*=|/=|%=|\.\.=|\.\.|[-+*/%<>=!&|^.,;:(){}\[\]#?@])
""", re.X | re.S)

def tokenize(src):
    pos, out = 0, []
    while pos < len(src):
        m = TOK.match(src, pos)
        if not m:
            die("cannot tokenize at %r" % src[pos:pos + 30])
        pos = m.end()
        if m.lastgroup == "ws":
            continue
        out.append((m.lastgroup, m.group()))
    return out

# ------------------------------------------------------------------------------------------------
# locating a function

def find_fn(src, name, impl_re=None, nth=0):
    """text of `fn name ... { body }` (nth occurrence inside the first impl block whose header matches
    impl_re, or in the whole file)"""
    scope = src
    if impl_re:
        m = re.search(impl_re, src)
        if not m:
            die("impl header /%s/ not found" % impl_re)
        # the impl block: from the match to its matching brace
        i = src.index("{", m.end() - 1) if src[m.end() - 1] != "{" else m.end() - 1
        j = match_brace(src, i)
        scope = src[i:j + 1]
    hits = [m.start() for m in re.finditer(r"\bfn\s+%s\b" % re.escape(name), scope)]
    if len(hits) <= nth:
        die("fn %s (occurrence %d) not found" % (name, nth))
    s = hits[nth]
    i = scope.index("{", s)
    # a `where` clause or generics may contain no braces in this crate
    j = match_brace(scope, i)
    return scope[s:j + 1]

def match_brace(s, i):
    """index of the brace matching s[i] == '{' (comments and strings skipped)"""
    depth, k = 0, i
    while k < len(s):
        c = s[k]
        if s.startswith("//", k):
            k = s.index("\n", k) if "\n" in s[k:] else len(s)
            continue
        if c == '"':
            k += 1
            while s[k] != '"':
                k += 2 if s[k] == "\\" else 1
        elif c == "'" and re.match(r"'(\\.|[^\\'])'", s[k:]):
            k += len(re.match(r"'(\\.|[^\\'])'", s[k:]).group()) - 1
        elif c == "{":
            depth += 1
        elif c == "}":
            depth -= 1
            if depth == 0:
                return k
        k += 1
    die("unbalanced braces")

# ------------------------------------------------------------------------------------------------
# parser (AST = nested tuples)

BINPREC = [
    ("||",), ("&&",), ("==", "!=", "<", "<=", ">", ">="), ("|",), ("^",), ("&",), ("<<", ">>"),
    ("+", "-"), ("*", "/", "%"),
]

class Parser:
    def __init__(self, toks):
        self.t, self.p = toks, 0

    def peek(self, k=0):
        return self.t[self.p + k] if self.p + k < len(self.t) else ("eof", "")

    def next(self):
        tok = self.peek(); self.p += 1; return tok

    def at(self, val):
        return self.peek()[1] == val and self.peek()[0] in ("op", "id")

    def eat(self, val):
        if not self.at(val):
            die("expected %r, found %r" % (val, self.peek()[1]))
        return self.next()

    def opt(self, val):
        if self.at(val):
            self.next(); return True
        return False

    # --- items
    def fn_item(self, stop_after=None):
        self.opt("pub")
        if self.at("("):          # pub(crate)
            self.skip_group("(", ")")
        self.eat("fn")
        name = self.next()[1]
        if self.at("<"):
            self.skip_angle()
        self.eat("(")
        params = []
        while not self.at(")"):
            if self.at("&"):
                self.next(); self.opt("mut")
                if self.peek()[0] == "life": self.next()
            self.opt("mut")
            pname = self.next()[1]
            if pname == "self":
                params.append(("self", "Self"))
            else:
                self.eat(":")
                params.append((pname, self.type_text((",", ")"))))
            self.opt(",")
        self.eat(")")
        ret = None
        if self.opt("->"):
            ret = self.type_text(("{", "where"))
        if self.at("where"):
            while not self.at("{"):
                self.next()
        body = self.block(stop_after=set(stop_after) if stop_after else None)
        return {"name": name, "params": params, "ret": ret, "body": body}

    def skip_group(self, o, c):
        self.eat(o); depth = 1
        while depth:
            v = self.next()[1]
            if v == o: depth += 1
            elif v == c: depth -= 1

    def skip_angle(self):
        self.eat("<"); depth = 1
        while depth:
            k, v = self.next()
            if v == "<": depth += 1
            elif v == ">": depth -= 1
            elif v == ">>": depth -= 2
            elif k == "eof": die("unbalanced <>")

    def type_text(self, stops):
        out, depth = [], 0
        while True:
            k, v = self.peek()
            if k == "eof": die("eof in type")
            if depth == 0 and v in stops: break
            if v in ("<", "(", "["): depth += 1
            if v in (">", ")", "]"): depth -= 1
            if v == ">>": depth -= 2
            out.append(v); self.next()
        return "".join(out)

    # --- statements
    def block(self, stop_after=None):
        """stop_after: names of `let` variables after which the rest of the block is NOT parsed (the
        `lets` result mode: the kernel is the prefix of the function that computes them)"""
        self.eat("{")
        stmts, tail = [], None
        while not self.at("}"):
            if stop_after is not None and not stop_after:
                self.p = len(self.t)
                return ("block", stmts, None)
            if self.at(";"):
                self.next(); continue
            if self.at("let"):
                self.next(); self.opt("mut")
                if self.at("("):
                    self.next(); names = []
                    while not self.at(")"):
                        self.opt("mut"); names.append(self.next()[1]); self.opt(",")
                    self.eat(")"); pat = tuple(names)
                else:
                    pat = self.next()[1]
                ty = None
                if self.opt(":"):
                    ty = self.type_text(("=", ";"))
                self.eat("=")
                e = self.expr()
                self.eat(";")
                stmts.append(("let", pat, ty, e))
                if stop_after is not None and not isinstance(pat, tuple):
                    stop_after.discard(pat)
                continue
            if self.at("break"):
                self.next(); self.opt(";")
                stmts.append(("break",))
                continue
            if self.at("return"):
                self.next()
                e = None if self.at(";") else self.expr()
                self.opt(";")
                stmts.append(("return", e))
                continue
            e = self.expr()
            if self.peek()[1] in ("=", "+=", "-=", "*=", "/=", "%=", "<<=", ">>="):
                op = self.next()[1]
                r = self.expr()
                self.eat(";")
                stmts.append(("assign", op, e, r))
                continue
            if self.opt(";"):
                stmts.append(("expr", e))
            elif self.at("}"):
                tail = e
            elif e[0] in ("if", "block", "for", "while", "loop", "match"):
                stmts.append(("expr", e))       # block-like expression statement
            else:
                die("expected ; or } after expression, found %r" % self.peek()[1])
        self.eat("}")
        return ("block", stmts, tail)

    # --- expressions
    def expr(self, nostruct=False, lvl=0):
        if lvl == len(BINPREC):
            return self.cast(nostruct)
        if lvl == 0:
            l = self.expr(nostruct, 1)
            while self.peek()[0] == "op" and self.peek()[1] == "||":
                self.next(); l = ("bin", "||", l, self.expr(nostruct, 1))
            if self.peek()[0] == "op" and self.peek()[1] in ("..", "..="):
                incl = self.next()[1] == "..="
                stop = self.peek()[1] in (")", "]", "}", ",", ";")
                r = None if stop else self.expr(nostruct, 1)
                return ("rangei" if incl else "range", l, r)
            return l
        l = self.expr(nostruct, lvl + 1)
        while self.peek()[0] == "op" and self.peek()[1] in BINPREC[lvl]:
            op = self.next()[1]
            r = self.expr(nostruct, lvl + 1)
            l = ("bin", op, l, r)
        return l

    def cast(self, nostruct):
        e = self.unary(nostruct)
        while self.at("as"):
            self.next()
            ty = self.next()[1]
            while self.at("::"):
                self.next(); ty += "::" + self.next()[1]
            e = ("cast", e, ty)
        return e

    def unary(self, nostruct):
        if self.peek()[0] == "op" and self.peek()[1] in ("-", "!", "*"):
            op = self.next()[1]
            return ("unary", op, self.unary(nostruct))
        if self.at("&"):
            self.next(); self.opt("mut")
            return ("ref", self.unary(nostruct))
        if self.at("&&"):
            self.next()
            return ("ref", ("ref", self.unary(nostruct)))
        return self.postfix(nostruct)

    def args(self):
        self.eat("(")
        out = []
        while not self.at(")"):
            out.append(self.expr()); self.opt(",")
        self.eat(")")
        return out

    def postfix(self, nostruct):
        e = self.primary(nostruct)
        while True:
            if self.at("."):
                self.next()
                k, v = self.next()
                if k == "num":          # tuple field
                    e = ("field", e, v); continue
                if self.at("::"):       # method turbofish
                    self.next(); self.skip_angle()
                if self.at("("):
                    e = ("mcall", e, v, self.args())
                else:
                    e = ("field", e, v)
            elif self.at("("):
                e = ("call", e, self.args())
            elif self.at("["):
                self.next(); i = self.expr(); self.eat("]")
                e = ("index", e, i)
            elif self.at("?"):
                self.next(); e = ("try", e)
            else:
                return e

    def primary(self, nostruct):
        k, v = self.peek()
        if k == "num":
            self.next()
            m = re.fullmatch(r"(0x[0-9a-fA-F_]+|\d[\d_]*(?:\.\d*)?(?:[eE][+-]?\d+)?)_?(f64|f32|u64|usize|u32|u16|u8|i64|i32)?", v)
            body, suf = m.group(1).replace("_", ""), m.group(2)
            isf = ("." in body or (suf or "").startswith("f") or (("e" in body.lower()) and not body.startswith("0x")))
            return ("num", body, "f" if isf else "i")
        if k == "str":
            self.next(); return ("str", v)
        if v == "(":
            self.next()
            if self.at(")"):
                self.next(); return ("tuple", [])
            e = self.expr()
            if self.at(","):
                items = [e]
                while self.opt(","):
                    if self.at(")"): break
                    items.append(self.expr())
                self.eat(")")
                return ("tuple", items)
            self.eat(")")
            return ("paren", e)
        if v == "{":
            return self.block()
        if v == "if":
            self.next()
            c = self.expr(nostruct=True)
            t = self.block()
            el = None
            if self.opt("else"):
                el = self.primary(nostruct) if self.at("if") else self.block()
            return ("if", c, t, el)
        if v == "for":
            self.next()
            if self.at("("):
                self.next(); names = []
                while not self.at(")"):
                    self.opt("&"); self.opt("mut"); names.append(self.next()[1]); self.opt(",")
                self.eat(")"); pat = tuple(names)
            else:
                self.opt("&"); self.opt("mut"); pat = self.next()[1]
            self.eat("in")
            it = self.expr(nostruct=True)
            body = self.block()
            return ("for", pat, it, body)
        if v == "|":
            # closure with simple identifier parameters: |c| expr
            self.next(); ps = []
            while not self.at("|"):
                self.opt("&")
                if self.at("("):        # tuple pattern: |(i, pos)| expr
                    self.next(); names = []
                    while not self.at(")"):
                        self.opt("&"); names.append(self.next()[1]); self.opt(",")
                    self.eat(")"); ps.append(tuple(names))
                else:
                    ps.append(self.next()[1])
                self.opt(",")
            self.eat("|")
            return ("closure", ps, self.expr())
        if v == "while":
            self.next()
            c = self.expr(nostruct=True)
            return ("while", c, self.block())
        if v == "loop":
            self.next()
            return ("loop", self.block())
        if v in ("match", "move", "||"):
            die("unsupported construct %r (loops, matches and closures are modelled by hand)" % v)
        if k == "id":
            segs = [self.next()[1]]
            while self.at("::"):
                self.next()
                if self.at("<"):
                    self.skip_angle(); continue
                segs.append(self.next()[1])
            if self.at("!"):
                self.next()
                # macro: parse arguments as expressions where possible
                o = self.peek()[1]
                c = {"(": ")", "[": "]", "{": "}"}[o]
                self.next()
                margs = []
                while not self.at(c):
                    margs.append(self.expr()); self.opt(",")
                self.eat(c)
                return ("macro", segs[-1], margs)
            if self.at("{") and not nostruct and (segs[0][0].isupper()):
                self.next(); fields = []
                while not self.at("}"):
                    fn = self.next()[1]
                    if self.opt(":"):
                        fields.append((fn, self.expr()))
                    else:
                        fields.append((fn, ("path", [fn])))
                    self.opt(",")
                self.eat("}")
                return ("struct", segs, fields)
            return ("path", segs)
        die("unexpected token %r" % v)

def parse_fn(text, stop_after=None):
    p = Parser(tokenize(text))
    f = p.fn_item(stop_after)
    if p.peek()[0] != "eof":
        die("trailing tokens after fn")
    return f

# ------------------------------------------------------------------------------------------------
# emitter

INT_TYPES = {"usize", "u64", "u32", "u16", "u8", "i64", "i32"}

def rust_ty(t):
    t = (t or "").replace("&", "").replace("mut", "").strip()
    if t in ("f64", "f32"): return "F"
    if t in INT_TYPES: return "N"
    if t == "bool": return "B"
    return "?"

FLOAT_M0 = {"ln": "KOps.log", "log2": "KOps.log2", "exp": "KOps.exp", "sin": "KOps.sin", "asin": "KOps.asin",
            "sqrt": "KOps.sqrt", "ceil": "KOps.ceil", "floor": "KOps.floor"}

class Emit:
    """Emits one kernel.  `env` maps Rust variable names to (lean name, type)."""
    def __init__(self, spec, selfprefix, calls):
        self.spec, self.selfprefix, self.calls = spec, selfprefix, calls
        self.fallible = False
        self.branch = 0     # > 0 while emitting the branches of an `if` (a fallible statement there is rejected)

    def lean_name(self, rust):
        return {"self": "self_"}.get(rust, rust + "_" if rust in LEAN_KEYWORDS else rust)

    # expression -> (text, type)
    def ex(self, e, env):
        k = e[0]
        if k == "paren":
            t, ty = self.ex(e[1], env); return "(" + t + ")", ty
        if k == "num":
            if e[2] == "f":
                return float_lit(e[1]), "F"
            return "(%d : Nat)" % int(e[1], 0), "N"
        if k == "path":
            segs = e[1]
            if len(segs) == 1:
                if segs[0] not in env: die("unknown variable %s" % segs[0])
                return env[segs[0]]
            p = "::".join(segs)
            if p in ("f64::consts::PI", "std::f64::consts::PI", "consts::PI"): return "(KOps.pi : α)", "F"
            if p in ("f64::consts::E", "std::f64::consts::E", "consts::E"): return "(KOps.e : α)", "F"
            if p in ("f64::NAN", "std::f64::NAN"): return "(KOps.nan : α)", "F"
            die("unknown path %s" % p)
        if k == "field":
            if e[1] == ("path", ["self"]):
                key = "self." + e[2]
                if key not in env: die("self field %s not declared in the kernel spec" % e[2])
                return env[key]
            if e[1][0] == "path" and len(e[1][1]) == 1 and (e[1][1][0] + "." + e[2]) in env:
                return env[e[1][1][0] + "." + e[2]]
            die("field access on a value that is not a declared struct parameter")
        if k == "ref":
            return self.ex(e[1], env)
        if k == "unary":
            t, ty = self.ex(e[2], env)
            if e[1] == "-":
                if ty != "F": die("unary minus on non-float")
                return "(-" + t + ")", "F"
            if e[1] == "!":
                if ty != "B": die("! on non-bool")
                return "(¬ " + t + ")", "B"
            if e[1] == "*":
                return t, ty
        if k == "cast":
            t, ty = self.ex(e[1], env)
            to = rust_ty(e[2])
            if to == "F" and ty == "N": return "(KOps.ofNat " + t + " : α)", "F"
            if to == "N" and ty == "F": return "(KOps.toNat " + t + ")", "N"
            if to == ty: return t, ty            # integer-to-integer casts: identity on Nat (see header)
            die("unsupported cast %s -> %s" % (ty, e[2]))
        if k == "bin":
            op = e[1]
            l, lt = self.ex(e[2], env); r, rt = self.ex(e[3], env)
            if op in ("&&", "||") or (op in ("&", "|") and lt == "B"):
                if lt != "B" or rt != "B": die("boolean operator on non-bool")
                return "(%s %s %s)" % (l, "∧" if op in ("&&", "&") else "∨", r), "B"
            if lt != rt: die("operand types differ in %s: %s vs %s" % (op, lt, rt))
            if op in ("==", "!=", "<", "<=", ">", ">="):
                lop = {"==": "=", "!=": "≠", "<": "<", "<=": "≤", ">": ">", ">=": "≥"}[op]
                if lt == "F" and op in (">", ">="):       # normalise to < / ≤ (the only instances assumed)
                    return "(%s %s %s)" % (r, "<" if op == ">" else "≤", l), "B"
                return "(%s %s %s)" % (l, lop, r), "B"
            if op in ("+", "-", "*", "/"):
                return "(%s %s %s)" % (l, op, r), lt
            if lt == "N" and op in ("%", "<<", ">>", "&", "|", "^"):
                lop = {"%": "%", "<<": "<<<", ">>": ">>>", "&": "&&&", "|": "|||", "^": "^^^"}[op]
                return "(%s %s %s)" % (l, lop, r), "N"
            die("unsupported operator %s on %s" % (op, lt))
        if k == "if":
            c, ct = self.ex(e[1], env)
            if ct != "B": die("if condition is not bool")
            if e[3] is None: die("if without else in value position")
            self.branch += 1
            a, at = self.blk(e[2], env); b, bt = (self.blk(e[3], env) if e[3][0] == "block" else self.ex(e[3], env))
            self.branch -= 1
            if at != bt: die("if branches differ in type")
            return "(if %s then %s else %s)" % (c, a, b), at
        if k == "block":
            return self.blk(e, env)
        if k == "tuple":
            parts = [self.ex(x, env) for x in e[1]]
            return "(" + ", ".join(p[0] for p in parts) + ")", "T(" + ",".join(p[1] for p in parts) + ")"
        if k == "mcall":
            return self.mcall(e, env)
        if k == "call":
            f = e[1]
            if f[0] == "path":
                p = "::".join(f[1])
                if p in self.calls:
                    name, fields, ret = self.calls[p]
                    args = [self.ex(a, env)[0] for a in e[2]]
                    return "(" + " ".join([name] + [env["self." + fl][0] for fl in fields] + args) + ")", ret
                if p in ("cmp::max", "std::cmp::max", "cmp::min", "std::cmp::min"):
                    a, at = self.ex(e[2][0], env); b, bt = self.ex(e[2][1], env)
                    if at != "N" or bt != "N": die("cmp::max/min on non-integers")
                    return "(%s %s %s)" % ("max" if p.endswith("max") else "min", a, b), "N"
                if p in ("u64::max_value", "usize::max_value", "u64::MAX", "usize::MAX"):
                    return "(2 ^ 64 - 1 : Nat)", "N"
            die("unsupported call %r" % (f,))
        if k == "macro":
            die("macro %s! in value position" % e[1])
        die("unsupported expression %s" % k)

    def mcall(self, e, env):
        recv, name, args = e[1], e[2], e[3]
        # self.method(args) -> another kernel
        if recv == ("path", ["self"]):
            key = "self." + name
            if key in self.calls:
                lname, fields, ret = self.calls[key]
                a = [self.ex(x, env)[0] for x in args]
                return "(" + " ".join([lname] + [env["self." + fl][0] for fl in fields] + a) + ")", ret
            die("call of self.%s which is not a translated kernel" % name)
        t, ty = self.ex(recv, env)
        if ty == "F":
            if name in FLOAT_M0 and not args:
                return "(%s %s)" % (FLOAT_M0[name], t), "F"
            if name in ("min", "max") and len(args) == 1:
                a, at = self.ex(args[0], env)
                if at != "F": die("f64::%s with non-float" % name)
                return "(KOps.f%s %s %s)" % (name, t, a), "F"
            if name == "is_infinite" and not args: return "(KOps.isInf %s = true)" % t, "B"
            if name == "is_nan" and not args: return "(KOps.isNan %s = true)" % t, "B"
            if name == "is_finite" and not args: return "(KOps.isFinite %s = true)" % t, "B"
            if name == "abs" and not args: return "(KOps.fabs %s)" % t, "F"
        if ty == "N":
            if name in ("min", "max") and len(args) == 1:
                a, at = self.ex(args[0], env)
                if at != "N": die("integer %s with non-integer" % name)
                return "(%s %s %s)" % (name, t, a), "N"
            if name == "leading_zeros" and not args: return "(KOps.clz64 %s)" % t, "N"
            if name == "next_power_of_two" and not args: return "(KOps.nextPow2 %s)" % t, "N"
            if name == "saturating_mul" and len(args) == 1:
                a, _ = self.ex(args[0], env); return "(KOps.satMul %s %s)" % (t, a), "N"
            if name == "saturating_sub" and len(args) == 1:
                a, _ = self.ex(args[0], env); return "(%s - %s)" % (t, a), "N"
            if name in ("checked_mul", "checked_add") and len(args) == 1:
                a, _ = self.ex(args[0], env)
                return "(KOps.%s %s %s)" % ("checkedMul" if name == "checked_mul" else "checkedAdd", t, a), "O(N)"
        if ty.startswith("O(") and name in ("expect", "unwrap"):
            if self.branch: die("expect/unwrap inside an if branch")
            self.fallible = True
            return "(← %s)" % t, ty[2:-1]
        die("unsupported method .%s on type %s" % (name, ty))

    def blk(self, b, env):
        """block in value position -> (text, type)"""
        assert b[0] == "block"
        env = dict(env)
        lines = []
        for s in b[1]:
            lines += self.stmt(s, env)
        if b[2] is None: die("block without a value")
        t, ty = self.ex(b[2], env)
        if not lines:
            return t, ty
        if self.fallible:
            return "(← (do\n" + "\n".join("  " + l for l in lines) + "\n  pure " + t + "))", ty
        return "(\n" + "\n".join("  " + l for l in lines) + "\n  " + t + ")", ty

    def stmt(self, s, env):
        if s[0] == "let":
            t, ty = self.ex(s[3], env)
            if isinstance(s[1], tuple): die("tuple patterns are not supported")
            if s[2] is not None and rust_ty(s[2]) != "?" and rust_ty(s[2]) != ty:
                die("let %s: declared %s, inferred %s" % (s[1], s[2], ty))
            ln = self.lean_name(s[1])
            env[s[1]] = (ln, ty)
            return ["let %s := %s" % (ln, t)]
        if s[0] == "expr" and s[1][0] == "macro" and s[1][1] in ("assert", "debug_assert"):
            c, ct = self.ex(s[1][2][0], env)
            if ct != "B": die("assert! on non-bool")
            if self.branch: die("assert! inside an if branch")
            self.fallible = True
            return ["if ¬ %s then failure" % c]
        die("unsupported statement %r" % (s[0],))

LEAN_KEYWORDS = {"at", "from", "end", "open", "in", "fun", "do", "then", "else", "if", "let", "have", "show", "by", "with", "match"}

def float_lit(body):
    """'24.' -> ((24 : Nat) : α) ; '0.7213' -> KOps.lit 7213 4 (= 7213 / 10^4, correctly rounded at Float)"""
    if "e" in body.lower(): die("exponent literals are not supported")
    a, _, b = body.partition(".")
    b = b.rstrip("0")
    if not b:
        return "(KOps.ofNat %d : α)" % int(a)
    return "(KOps.lit %d %d : α)" % (int(a + b), len(b))

def emit_kernel(fn, spec, calls):
    """spec: {lean: name, self: [(field, type)], params: [names to keep] or None, result: ('value',) |
    ('lets', [names]) | ('call_args', fn_suffix, [indices]) | ('struct_field', name), 'doc': str}
    returns (lean text, param types, result type)"""
    em = Emit(spec, None, calls)
    env = {}
    params = []
    for f, ty in spec.get("self", []):
        ln = "self_" + f
        env["self." + f] = (ln, ty); params.append((ln, ty))
    for pn, pt in fn["params"]:
        if pn == "self": continue
        ty = rust_ty(pt)
        if pn in spec.get("structs", {}):
            for f, fty in spec["structs"][pn]:
                env[pn + "." + f] = (pn + "_" + f, fty); params.append((pn + "_" + f, fty))
            env[pn] = (" ".join(pn + "_" + f for f, _ in spec["structs"][pn]), "S")    # passed on field by field
            continue
        if ty == "?":
            if pn in spec.get("drop", []): continue
            die("parameter %s: %s has no numeric type (list it under drop if unused)" % (pn, pt))
        ln = em.lean_name(pn)
        if pn.startswith("_"):   # unused parameter, keep for arity
            ln = pn
        env[pn] = (ln, ty); params.append((ln, ty))
    for pn, ty in spec.get("extra", []):       # names introduced by source substitutions
        env[pn] = (pn, ty); params.append((pn, ty))
    body = fn["body"]
    lines = []
    mode = spec.get("result", ("value",))
    stmts, tail = body[1], body[2]
    if mode[0] == "lets":
        want = list(mode[1]); seen = []
        for s in stmts:
            if not want_left(want, seen): break
            if s[0] == "let" and not isinstance(s[1], tuple):
                lines += em.stmt(s, env)
                if s[1] in want: seen.append(s[1])
            else:
                lines += em.stmt(s, env)
        if want_left(want, seen): die("let variables %s not found" % [w for w in want if w not in seen])
        parts = [env[w] for w in want]
        res_t = parts[0][0] if len(parts) == 1 else "(" + ", ".join(p[0] for p in parts) + ")"
        res_ty = parts[0][1] if len(parts) == 1 else "T(" + ",".join(p[1] for p in parts) + ")"
    else:
        for s in stmts:
            lines += em.stmt(s, env)
        if tail is None: die("function body has no value")
        if mode[0] == "value":
            res_t, res_ty = em.ex(tail, env)
        elif mode[0] == "call_args":
            if tail[0] != "call" or tail[1][0] != "path" or tail[1][1][-1] != mode[1]:
                die("expected the body to end in a call of %s" % mode[1])
            parts = [em.ex(tail[2][i], env) for i in mode[2]]
            res_t = "(" + ", ".join(p[0] for p in parts) + ")"; res_ty = "T(" + ",".join(p[1] for p in parts) + ")"
        elif mode[0] == "struct_fields":
            if tail[0] != "struct": die("expected the body to end in a struct literal")
            vals = dict(tail[2])
            for f in mode[1]:
                if f not in vals: die("field %s not in the struct literal" % f)
            if mode[2:] and sorted(vals) != sorted(mode[2]): die("struct literal has fields %s, expected %s" % (sorted(vals), sorted(mode[2])))
            parts = [em.ex(vals[f], env) for f in mode[1]]
            res_t = parts[0][0] if len(parts) == 1 else "(" + ", ".join(p[0] for p in parts) + ")"
            res_ty = parts[0][1] if len(parts) == 1 else "T(" + ",".join(p[1] for p in parts) + ")"
        else:
            die("bad result mode")
    def lty(ty):
        if ty == "F": return "α"
        if ty == "N": return "Nat"
        if ty == "B": return "Prop"
        if ty.startswith("T("):
            return " × ".join(lty(x) for x in split_top(ty[2:-1]))
        die("no Lean type for %s" % ty)
    sig = " ".join("(%s : %s)" % (n, lty(t)) for n, t in params)
    rty = lty(res_ty)
    doc = spec.get("doc", "")
    head = "/-- %s -/\n" % doc if doc else ""
    ptys = [t for _, t in params]
    if "KOps." in ("\n".join(lines) + res_t) and not any("F" in t for t in ptys + [res_ty]):
        head = "variable (α) in\n" + head     # the carrier cannot be inferred from the signature: explicit
    if em.fallible:
        text = head + "def %s %s : Option (%s) := do\n" % (spec["lean"], sig, rty) + "\n".join("  " + l for l in lines) + "\n  pure " + res_t + "\n"
    else:
        text = head + "def %s %s : %s :=\n" % (spec["lean"], sig, rty) + "\n".join("  " + l for l in lines) + ("\n" if lines else "") + "  " + res_t + "\n"
    return text, [t for _, t in params], res_ty

def want_left(want, seen):
    return any(w not in seen for w in want)

def split_top(s):
    out, depth, cur = [], 0, ""
    for ch in s:
        if ch == "(": depth += 1
        if ch == ")": depth -= 1
        if ch == "," and depth == 0:
            out.append(cur); cur = ""
        else:
            cur += ch
    if cur: out.append(cur)
    return out
