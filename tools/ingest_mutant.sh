#!/bin/bash
# usage: tools/ingest_mutant.sh Cxx k "<needs to manifest>" [index to store it under, default k]
# Verifies a sub-agent's mutant in its scratch worktree /tmp/mut/Cxx (suite passes with the change,
# demo fails with it and passes without it) and stores it as seeded/Cxx-mk/.
P=$1; K=$2; NEEDS=$3; OUT=${4:-$K}; W=/tmp/mut/$P; ID=$P-m$OUT
export CARGO_TARGET_DIR=$W/target CARGO_NET_OFFLINE=true
cd $W || exit 2
git checkout -q -- src; rm -rf tests/demo_m.rs
git apply --check mutant$K.diff || { echo "$ID: diff does not apply"; exit 1; }
mkdir -p tests; cp demo$K.rs tests/demo_m.rs
# without the change: demo passes
cargo test --offline --test demo_m >/tmp/mut/$ID.clean.log 2>&1; CLEAN=$?
git apply mutant$K.diff
cargo test --offline --test demo_m >/tmp/mut/$ID.mut.log 2>&1; MUT=$?
rm -f tests/demo_m.rs; rmdir tests 2>/dev/null
cargo test --offline >/tmp/mut/$ID.suite.log 2>&1; SUITE=$?
NPASS=$(grep -E "^test result: ok" /tmp/mut/$ID.suite.log | head -1)
git checkout -q -- src
echo "$ID: demo on clean rc=$CLEAN (want 0), demo on mutant rc=$MUT (want !=0), suite on mutant rc=$SUITE (want 0) [$NPASS]"
if [ $CLEAN -eq 0 ] && [ $MUT -ne 0 ] && [ $SUITE -eq 0 ]; then
  mkdir -p /verif/seeded/$ID
  cp mutant$K.diff /verif/seeded/$ID/patch.diff; cp demo$K.rs /verif/seeded/$ID/demo.rs
  python3 - "$ID" "$P" "$NEEDS" <<'PY'
import json,sys
sid,prop,needs=sys.argv[1:4]
json.dump({"id":sid,"property":prop,"checks":[prop],"origin":"independent sub-agent given only the property text and a scratch worktree",
 "needs_to_manifest":needs,
 "ran":"tools/ingest_mutant.sh: in the scratch worktree, `cargo test --offline` passes with the change (213 unit + 16 doc tests), `cargo test --offline --test demo` fails with it and passes without it; then tools/run_seeded.py %s"%sid},
 open('/verif/seeded/%s/meta.json'%sid,'w'),indent=1)
PY
  echo "$ID: KEPT"
else
  echo "$ID: REJECTED"
fi
