#!/usr/bin/env python3
"""Prints the markdown table of seeded changes vs checks from seeded/*/meta.json and seeded/RESULTS.json."""
import json, os
ROOT = os.path.dirname(os.path.dirname(os.path.abspath(__file__)))
res = json.load(open(os.path.join(ROOT, "seeded", "RESULTS.json")))
rows = []
for sid in sorted(os.listdir(os.path.join(ROOT, "seeded"))):
    d = os.path.join(ROOT, "seeded", sid)
    if not os.path.isdir(d): continue
    m = json.load(open(os.path.join(d, "meta.json")))
    what = m.get("what") or ""
    needs = m["needs_to_manifest"]
    cells = []
    for prop, r in sorted(res.get(sid, {}).items()):
        if r["detected"]:
            cells.append("%s: caught%s" % (prop, " (failing input)" if r["failing_input"] else " (proof/correspondence only)"))
        else:
            cells.append("%s: MISSED" % prop)
    rows.append("| %s | %s | %s%s | %s |" % (sid, m["property"], (what + " — ") if what else "", needs, "; ".join(cells)))
print("| id | property | change / what it needs to manifest | quick check result |")
print("|----|----------|-----------------------------------|--------------------|")
print("\n".join(rows))
