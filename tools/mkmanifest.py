#!/usr/bin/env python3
"""Regenerates MANIFEST.json from the table below (kept here so the manifest is always valid)."""
import json, os
ROOT = os.path.dirname(os.path.dirname(os.path.abspath(__file__)))
BASE_NOTE = ("Trusted: Lean 4.33 kernel; axioms limited to propext/Classical.choice/Quot.sound (audited per theorem on every run); "
             "the hand-written model (lean/Pds/Model) is tied to /repo only by differential testing through harness/ (scripted hasher + RNG, "
             "same ops on real crate and compiled model) and by tools/translate.py for constants; std hashing, rand decoding, fixedbitset, "
             "succinct, serde_json and libm are modelled, not verified.")
CLAIMS = {
 "C17": dict(text="Full: registers = per-register max rank over the set of added hashes, proved for every b in 4..18 and every hash list "
                  "(induction over the list); perm/dup invariance, rank characterisation, reconstruction round trip. count() is tied by "
                  "correspondence (model of count over regenerated tables).", design="7/C17",
             technique="Lean 4 theorems over a hand-written model + differential correspondence (harness vs compiled model) + trace oracle"),
 "C19": dict(text="Full in the model: for each of the nine models clear(s) equals the constructor's state for s's configuration (state equality, "
                  "up to the RNG position for cuckoo/reservoir), including TDigest's sample counter. clone independence is trivial on immutable "
                  "model states; Rust-side aliasing (Rc, RefCell) is covered by the correspondence: clone, divergent mutation, observation.", design="7/C19",
             technique="Lean 4 state-equality theorems per structure + differential correspondence with cleared-vs-fresh and clone/mutate histories"),
 "C20": dict(text="Full in the model: deserialize(serialize s) = s for every valid sketch, every successful deserialisation satisfies the "
                  "constructor invariants, duplicates/omissions/unknown fields/non-byte registers are errors. serde_json's parsing of text into "
                  "typed fields is trusted; documents with b and registers length varied independently are run through the real deserialiser.", design="7/C20",
             technique="Lean 4 theorems over a document-level model of visit_map + differential correspondence on generated (mal)formed documents"),
}
NOT_YET = "not yet built in this round (planned: Lean model + theorems + correspondence, see DESIGN.md section 7)"
def main():
    props = [json.loads(l) for l in open(os.path.join(ROOT, "properties.jsonl"))]
    checks, na = [], []
    for p in props:
        pid = p["id"]
        if pid in CLAIMS:
            c = CLAIMS[pid]
            checks.append({
                "property_id": pid,
                "quick_cmd": "./check %s --tier quick" % pid,
                "thorough_cmd": "./check %s --tier thorough" % pid,
                "evidence_file": "evidence/%s.json" % pid,
                "replay_cmd_template": "./check %s --replay {path}" % pid,
                "engine": "lean-model",
                "level_claimed": {"category": "proof", "text": c["text"], "design_ref": c["design"]},
                "level_note": c.get("note", "") + BASE_NOTE,
                "technique": c["technique"],
            })
        else:
            na.append({"property_id": pid, "reason": NOT_YET})
    man = {
        "version": 1,
        "setup_cmd": "python3 tools/translate.py && (cd lean && lake build Pds pds_model) && (cd harness && cargo build --release --offline)",
        "hooks": {"guard": "pdatastructs_verif", "enable": "none needed: all observations go through the public API (no hooks in /repo)",
                  "baseline_off_cmd": "cd /repo && cargo test --workspace --no-fail-fast --offline", "source_commits": [], "add_only": True},
        "engines": [
            {"name": "lean-model", "path": "lean/", "serves_properties": sorted(CLAIMS), "kind_free_text": "Lean 4 model, theorems (Pds/Props), compiled driver pds_model"},
            {"name": "pds-harness", "path": "harness/", "serves_properties": sorted(CLAIMS), "kind_free_text": "Rust harness linking the real crate: generators, replay, trace oracles"},
        ],
        "checks": checks,
        "not_applicable": na,
        "notes": "See DESIGN.md. ./check Cxx rebuilds theorems + harness from /repo's working tree on every run.",
    }
    json.dump(man, open(os.path.join(ROOT, "MANIFEST.json"), "w"), indent=1)
if __name__ == "__main__":
    main()
