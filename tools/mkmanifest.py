#!/usr/bin/env python3
"""Regenerates MANIFEST.json from the table below (kept here so the manifest is always valid)."""
import json, os
ROOT = os.path.dirname(os.path.dirname(os.path.abspath(__file__)))
BASE_NOTE = ("Trusted: Lean 4.33 kernel; axioms limited to propext/Classical.choice/Quot.sound (audited per theorem on every run); "
             "the hand-written model (lean/Pds/Model) is tied to /repo (a) by differential testing through harness/ (scripted hasher + RNG, "
             "same ops on real crate and compiled model), (b) by tools/translate.py for constants and tables, and (c) for the functions listed in "
             "DESIGN.md 3.5 by translating their bodies from the current source (tools/rustkern.py, tools/rustflow.py) and proving the result equal to "
             "the model's functions (obligations Tie.*); a translated function that is rewritten breaks (c) even when harmless "
             "(reported with no-failing-input-found). std hashing, rand decoding, fixedbitset, "
             "succinct, serde_json and libm are modelled, not verified; integer wrap-around is not represented in the translation.")
T = "Lean 4 theorems over a hand-written model + tie theorems for function bodies translated from the current source + differential correspondence (real crate vs compiled model) + trace oracle"
TS = "Lean 4 theorems (deterministic/combinatorial core) + tie theorems for function bodies translated from the current source + differential correspondence + sampling experiment on the real crate as failing-input search"
CLAIMS = {
 "C01": dict(text="Full for the model: no-false-negative theorems for Bloom (bit monotonicity), cuckoo (multiset refinement, robust to failed inserts/unions and deletes of present elements), quotient (set refinement) and the list-as-set reference; union contains both operands.", design="7/C01", technique=T),
 "C02": dict(text="Full for the model: for every w,d>=1, counter maximum, hasher and non-overflowing history of add_n/merge/clear: true weight <= query_point <= stream total, add returns the new query_point, single-element streams exact, indices in range, overflow is an error never a wrap.", design="7/C02", technique=T),
 "C03": dict(text="Partial: theorems carry totality of count() on every register vector for all 15 precisions (all table indices in range over the regenerated tables), table shape/calibration facts by kernel evaluation, empty => 0; the RMS/mean/tail error bounds over hash seeds are NOT a theorem - they are checked by a sampling experiment (>=5 sigma margins) used as failing-input search.", design="7/C03, 9", technique=TS),
 "C04": dict(text="Partial: theorems carry sortedness of merged centroids, the backlog bound, the greedy k-size invariant, the centroid bound < delta+1 for K0 (any ordered field) and K1 (over the reals) and <= delta+3 for K2/K3 with unit weights in a range of delta, the cluster-width bound W of every scale function (K2/K3: all but the first centroid), and the rank accuracy of quantile and cdf: within 3/2*max(W,1/n) of the empirical rank interval after ONE compression pass over unit-weight data in any order (K0, K1 explicit; any scale function given the weight bound), and within 3/2 cluster weights of the centroid summary in EVERY reachable state. NOT theorems (sampling experiment only): the rank error against the data after several compression passes (the merging t-digest has no worst-case bound there), and delta+3 for K2/K3 outside the proved range.", design="7/C04, 9", technique=TS),
 "C05": dict(text="Partial beyond n=4k+1: exact uniformity P(position in reservoir)=k/n proved as a counting identity over all draw sequences for every k>=1, k<=n<=4k, and at the switch n=4k+1 (given the gap-zero fraction k/(4k+1), which the geometric-law lemma over the reals provides); skip semantics next = i+1+g. The size of the gap-sampling bias beyond 4k+1 is NOT a theorem - sampling experiment.", design="7/C05, 9", technique=TS),
 "C06": dict(text="Full for the model: merge/union equals processing both streams for Bloom, CMS, HLL (state equality; commutative, associative, idempotent where set-like), cuckoo (multiset sum when Ok) and quotient filter (set union when Ok).", design="7/C06", technique=T),
 "C07": dict(text="Partial: over the reals (same formula text as the Float code, class Transc) with_properties yields k,m >= 1 with k = max 1 floor(-log2 p), m = max 1 floor(-n ln p/ln^2 2); cuckoo sizing gives 2b/2^l <= p, n_buckets a power of two >= n/load, and for every hasher at most 2*len of the n_buckets*(2^l-1) (bucket, fingerprint) pairs answer true, hence rate <= (2/3)*load*p <= p under uniform pairs; a quotient filter answers true for exactly len of the 2^(q+r) pairs; Bloom len() envelope X/k <= len <= (X/k)(1+X/m) and X <= k*distinct. Also proved: two elements agreeing in h1 mod m and h2 mod m probe the same k positions, so one is a false positive once the other is inserted (root cause of the open known finding C07-bloom-double-hashing-floor: the Bloom rate has a floor of about n/m^2, above 1.3p for small p). NOT theorems (sampling experiment over hasher seeds instead): the Bloom 1.3p rate, cuckoo no-Full-within-n, that real hashers behave uniformly.", design="7/C07, 8, 9", technique=TS),
 "C08": dict(text="Partial: over the reals w = ceil(e/eps) >= e/eps, d = ceil(ln 1/delta) >= 1, exp(-d) <= delta; for every hasher and history the overestimate of x is the minimum over rows of the other elements' weight in x's cell, each row has fewer than 1/eps <= w/e cells above eps*N, and the number of column tuples bad in every row is < delta*w^d (so under independent uniform rows the guarantee holds for every stream, adversarial ones included). Also proved: elements agreeing in h1 mod w and h2 mod w share every cell (root cause of the open known finding C08-double-hashing-floor). NOT a theorem: that enhanced double hashing over SipHash behaves like independent uniform rows - the (epsilon, delta) guarantee itself is checked by a sampling experiment with adversarial heavy hitters.", design="7/C08, 8, 9", technique=TS),
 "C09": dict(text="Full for the model: n = #adds, add reports new iff untracked, undercount invariant f <= true <= f+delta with delta+1 <= ceil(n/width), no miss / no intruder over the rationals for every threshold and epsilon >= 1/width, and the Manku-Motwani size bound width*H(ceil(n/width)) (sharper than the stated +1 form).", design="7/C09", technique=T),
 "C10": dict(text="Full for the model: add never panics (also 1x1 sketch), the two indexes stay consistent, iter yields min(k, distinct) distinct added elements, held counts are sandwiched true <= n <= true+E, a missing element is justified by k held elements within E, exact top-k when collision-free.", design="7/C10", technique=T),
 "C11": dict(text="Theorems: block arithmetic of the packed tables is tight (e*len <= 64*blocks < e*len+64) and container sizes are functions of the configuration; the tie below the API is a heap measurement with a counting allocator compared against the model's byte formula (exact for cuckoo/quotient tables) and against the documented sizes within 2x+slack for all nine structures across stream lengths, clear and failed operations.", design="7/C11", technique="Lean 4 theorems on block/size arithmetic + exact heap-byte correspondence (counting allocator) + measurement sweep"),
 "C12": dict(text="Full for the model: a failed cuckoo insert (after any number of evictions, any RNG) or union (failing at any transferred fingerprint) restores exactly the original table and count; quotient insert/union failures return the untouched state; the other operand is an immutable argument.", design="7/C12", technique=T),
 "C13": dict(text="Full for the model, every table size N > 0 (ring arithmetic, wrap-around, full tables): scan/query correct and terminating within fuel, insert returns Ok(true)/Ok(false)/Full exactly as the exact set of (quotient, remainder) pairs prescribes and never hits the infinite-loop panic, len = number of stored pairs, histories refine the set specification, calc_quotient_remainder = low q+r bits, indistinguishable iff equal modulo 2^(q+r), union = set union or Full iff it does not fit; plus exhaustive insertion orders for tiny tables in the correspondence.", design="7/C13", technique=T),
 "C14": dict(text="Full for the model: cuckoo filter refines a multiset of fingerprint classes for every hasher, RNG and kick limit: insert Ok => true and +1 copy after any eviction chain, delete removes exactly one copy iff present, query iff present, len = ok inserts - ok deletes, insert succeeds below bucketsize, class = the property's own indistinguishability.", design="7/C14", technique=T),
 "C15": dict(text="Exact-arithmetic theorems (any ordered field, any scale function): quantile/cdf monotone, within [min,max]/[0,1], end values, mutual consistency for strict knots, reads idempotent; IEEE rounding is outside the theorems and covered by the float-level correspondence and oracle with the stated ulp allowance.", design="7/C15", technique=T),
 "C16": dict(text="Exact-arithmetic theorems (any ordered field, scale function, backlog size, read positions): count = sum of weights, sum/mean exact, min/max exact, zero weight no-op, is_empty iff no positive weight; floating-point accumulation accuracy is checked numerically by the oracle.", design="7/C16", technique=T),
 "C17": dict(text="Full: registers = per-register max rank over the set of added hashes, proved for every b in 4..18 and every hash list (induction over the list); perm/dup invariance, rank characterisation, reconstruction round trip. count() is tied by correspondence (model of count over regenerated tables).", design="7/C17", technique=T),
 "C18": dict(text="Full for the model: for every k>=1, every n and every lawful RNG (any gap function): add is total, size = min(n,k), items are distinct stream positions, prefix while n<=k, i()=n, is_empty iff n=0; arbitrary item lists by relabelling.", design="7/C18", technique=T),
 "C19": dict(text="Full in the model: for each of the nine models clear(s) equals the constructor's state for s's configuration (state equality, up to the RNG position for cuckoo/reservoir), including TDigest's sample counter. clone independence is trivial on immutable model states; Rust-side aliasing (Rc, RefCell) is covered by the correspondence: clone, divergent mutation, observation.", design="7/C19", technique="Lean 4 state-equality theorems per structure + differential correspondence with cleared-vs-fresh and clone/mutate histories"),
 "C20": dict(text="Full in the model: deserialize(serialize s) = s for every valid sketch, every successful deserialisation satisfies the constructor invariants, duplicates/omissions/unknown fields/non-byte registers are errors. serde_json's parsing of text into typed fields is trusted; documents with b and registers length varied independently are run through the real deserialiser.", design="7/C20", technique="Lean 4 theorems over a document-level model of visit_map + tie theorem for the translated constructor guards (with_registers_and_hash) + differential correspondence on generated (mal)formed documents"),
}
ENABLED = ["C03", "C07", "C08", "C13", "C01", "C02", "C06", "C04", "C15", "C16", "C11", "C05", "C09", "C10", "C12", "C14", "C17", "C18", "C19", "C20"]
NOT_YET = "not yet built in this round (planned: Lean model + theorems + correspondence, see DESIGN.md section 7)"
def main():
    props = [json.loads(l) for l in open(os.path.join(ROOT, "properties.jsonl"))]
    checks, na = [], []
    for p in props:
        pid = p["id"]
        if pid in CLAIMS and pid in ENABLED:
            c = CLAIMS[pid]
            checks.append({
                "property_id": pid,
                "quick_cmd": "./check %s --tier quick" % pid,
                "thorough_cmd": "./check %s --tier thorough" % pid,
                "evidence_file": "evidence/%s.json" % pid,
                "replay_cmd_template": "./check %s --replay {path}" % pid,
                "engine": "lean-model",
                "level_claimed": {"category": "proof", "text": c["text"], "design_ref": c["design"]},
                "level_note": c.get("note", "") + BASE_NOTE,
                "technique": c["technique"],
            })
        else:
            na.append({"property_id": pid, "reason": NOT_YET})
    man = {
        "version": 1,
        "setup_cmd": "python3 tools/translate.py && (cd lean && lake build Pds pds_model " + " ".join("Pds.Props." + p for p in sorted(ENABLED)) + " " + " ".join("Pds.Tie." + p for p in sorted(ENABLED) if os.path.exists(os.path.join(ROOT, "lean/Pds/Tie", p + ".lean"))) + ") && (cd harness && cargo build --release --offline)",
        "hooks": {"guard": "pdatastructs_verif", "enable": "none needed: all observations go through the public API (no hooks in /repo)",
                  "baseline_off_cmd": "cd /repo && cargo test --workspace --no-fail-fast --offline", "source_commits": [], "add_only": True},
        "engines": [
            {"name": "lean-model", "path": "lean/", "serves_properties": sorted(ENABLED), "kind_free_text": "Lean 4 model, theorems (Pds/Props), compiled driver pds_model"},
            {"name": "pds-harness", "path": "harness/", "serves_properties": sorted(ENABLED), "kind_free_text": "Rust harness linking the real crate: generators, replay, trace oracles"},
        ],
        "checks": checks,
        "not_applicable": na,
        "notes": "See DESIGN.md. ./check Cxx rebuilds theorems + harness from /repo's working tree on every run.",
    }
    json.dump(man, open(os.path.join(ROOT, "MANIFEST.json"), "w"), indent=1)
if __name__ == "__main__":
    main()
