#!/usr/bin/env python3
"""Pin the theorem names of lean/Pds/Props/<Cxx>.lean into obligations.json (run by hand after a
Props file changes; ./check then reports a pinned theorem that disappeared as a failed obligation)."""
import json, os, re, sys
ROOT = os.path.dirname(os.path.dirname(os.path.abspath(__file__)))
sys.path.insert(0, ROOT)
def strip_comments(src):
    out=[];i=0;depth=0;n=len(src)
    while i<n:
        if src.startswith("/-",i): depth+=1;i+=2
        elif depth and src.startswith("-/",i): depth-=1;i+=2
        elif depth: i+=1
        elif src.startswith("--",i):
            while i<n and src[i]!="\n": i+=1
        else: out.append(src[i]);i+=1
    return "".join(out)
ob = json.load(open(os.path.join(ROOT,"obligations.json")))
for prop in sys.argv[1:]:
    names = []
    for sub, prefix in (("Props", ""), ("Tie", "Tie.")):
        path = os.path.join(ROOT, "lean/Pds", sub, prop + ".lean")
        if os.path.exists(path):
            src = strip_comments(open(path).read())
            names += [prefix + n for n in re.findall(r"^\s*theorem\s+([A-Za-z_][A-Za-z0-9_'.]*)", src, re.M)]
    ob[prop] = names
    print(prop, len(names), "theorems pinned")
json.dump(ob, open(os.path.join(ROOT,"obligations.json"),"w"), indent=1, sort_keys=True)
