#!/bin/bash
# usage: tools/run_seeded_par.sh [N workers, default 8] [ids...]
# Runs tools/run_seeded.py over all (or the given) seeded changes in N parallel workers. Each worker has
# its own copy of /verif (with build output) and its own worktree of /repo under /tmp/seedw/<i>, so
# /repo's working tree is never touched. Results are merged into seeded/RESULTS.json; the copies are
# removed afterwards. Never part of a registered command.
N=${1:-8}; shift
IDS=("$@")
if [ ${#IDS[@]} -eq 0 ]; then IDS=($(ls /verif/seeded | grep -v RESULTS)); fi
rm -rf /tmp/seedw; mkdir -p /tmp/seedw
for i in $(seq 0 $((N-1))); do
  mkdir -p /tmp/seedw/$i
  rsync -a --exclude replays --exclude work /verif/ /tmp/seedw/$i/verif/
  git -C /repo worktree add --detach /tmp/seedw/$i/repo HEAD >/dev/null 2>&1
  sed -i "s|path = \"/repo\"|path = \"/tmp/seedw/$i/repo\"|" /tmp/seedw/$i/verif/harness/Cargo.toml
  ( cd /tmp/seedw/$i/verif && git add -A >/dev/null 2>&1 && git -c user.email=x -c user.name=x commit -qm worker >/dev/null 2>&1 )
done
for i in $(seq 0 $((N-1))); do
  mine=()
  for j in "${!IDS[@]}"; do if [ $((j % N)) -eq $i ]; then mine+=("${IDS[$j]}"); fi; done
  if [ ${#mine[@]} -eq 0 ]; then echo '{}' > /tmp/seedw/$i/verif/seeded/RESULTS.json; : > /tmp/seedw/$i.log; continue; fi
  ( cd /tmp/seedw/$i/verif && echo '{}' > seeded/RESULTS.json && PDS_REPO=/tmp/seedw/$i/repo python3 tools/run_seeded.py "${mine[@]}" > /tmp/seedw/$i.log 2>&1 ) &
done
wait
python3 - "$N" <<'PY'
import json,sys,glob,os,shutil
n=int(sys.argv[1])
res=json.load(open('/verif/seeded/RESULTS.json')) if os.path.exists('/verif/seeded/RESULTS.json') else {}
for i in range(n):
    r=json.load(open('/tmp/seedw/%d/verif/seeded/RESULTS.json'%i))
    res.update(r)
    for f in glob.glob('/tmp/seedw/%d/verif/seeded/*/detected_replay*'%i):
        dst=f.replace('/tmp/seedw/%d/verif'%i,'/verif')
        if not os.path.exists(dst): shutil.copy(f,dst)
json.dump(res,open('/verif/seeded/RESULTS.json','w'),indent=1,sort_keys=True)
PY
cat /tmp/seedw/*.log | grep -E "DETECTED|MISSED|APPLY" | sort > /tmp/seeded_par.log
for i in $(seq 0 $((N-1))); do git -C /repo worktree remove --force /tmp/seedw/$i/repo 2>/dev/null; done
git -C /repo worktree prune; rm -rf /tmp/seedw
grep -c DETECTED /tmp/seeded_par.log; grep -E "MISSED|APPLY" /tmp/seeded_par.log
