#!/bin/bash
# usage (from `vp run --with-repo -- tools/thorough_all.sh [tier]`): runs every check in the given tier
# (default thorough) on the snapshot of /repo's HEAD in $VP_RUN_REPO, so that seeded patches applied to
# /repo's working tree meanwhile cannot leak into it.  Never part of a registered command.
TIER=${1:-thorough}
R=${VP_RUN_REPO:-/repo}
export PDS_REPO=$R
sed -i "s|path = \"/repo\"|path = \"$R\"|" harness/Cargo.toml
cp $R/Cargo.lock harness/Cargo.lock 2>/dev/null
python3 tools/translate.py && (cd lean && lake build Pds pds_model $(python3 -c "import json;print(' '.join('Pds.Props.'+c['property_id'] for c in json.load(open('../MANIFEST.json'))['checks']))") >/dev/null 2>&1) && (cd harness && cargo build --release --offline >/dev/null 2>&1) || { echo "setup failed"; exit 2; }
for i in 01 02 03 04 05 06 07 08 09 10 11 12 13 14 15 16 17 18 19 20; do
  s=$(date +%s)
  out=$(./check C$i --tier $TIER 2>&1); rc=$?
  e=$(date +%s)
  echo "C$i rc=$rc $((e-s))s $(echo "$out" | grep -E "^C$i tier" | cut -c1-160)"
  echo "$out" | grep -E "VIOLATION|FLOOR|Traceback|violates|broken" | head -3
done
