#!/usr/bin/env python3
"""Flow mode of the kernel translator: functions with *state and control flow* — assignments to `self`
fields and `let mut` locals, `if` statements, early `return`, `for` loops over a slice, `Vec` push /
index / index-assignment, `assert!`, scripted RNG requests — are translated to pure Lean over
`Pds.Flow ρ σ` (`ret r` = the function returned, `cont s` = fell through with the mutable variables `s`,
`panic`).  A `for` loop becomes a separately emitted structurally recursive function over the list;
every mutable variable is re-bound by a shadowing `let`, so the generated text reads like the source.

Uses the parser of rustkern.py; everything outside the subset raises Unrecognised."""
import re
from rustkern import Unrecognised, die, rust_ty, float_lit, LEAN_KEYWORDS, FLOAT_M0, split_top

def lty(ty, structs):
    if ty == "F": return "α"
    if ty == "N": return "Nat"
    if ty == "B": return "Bool"
    if ty == "R": return "R"
    if ty == "U": return "Unit"
    if ty.startswith("L("): return "List (%s)" % lty(ty[2:-1], structs)
    if ty.startswith("O("): return "Option (%s)" % lty(ty[2:-1], structs)
    if ty.startswith("S:"): return structs[ty[2:]]["lean"]
    if ty.startswith("X:"): return ty[2:]          # an opaque Lean type named by the spec
    if ty.startswith("T("): return " × ".join("(%s)" % lty(x, structs) for x in split_top(ty[2:-1]))
    die("no Lean type for %s" % ty)

class FlowEmit:
    def __init__(self, spec, structs):
        self.spec, self.structs = spec, structs
        self.calls = spec.get("calls", {})
        self.loops = []          # emitted loop definitions (text)
        self.nloop = 0
        self.rho = None          # Lean text of the return type
        self.fixed = []          # [(lean name, type)] parameters every loop function receives

    # ---------------------------------------------------------------- expressions (pure)
    def ex(self, e, env):
        k = e[0]
        if k == "paren":
            t, ty = self.ex(e[1], env); return "(" + t + ")", ty
        if k == "num":
            if e[2] == "f": return float_lit(e[1]), "F"
            return "(%d : Nat)" % int(e[1], 0), "N"
        if k == "path":
            segs = e[1]
            if len(segs) == 1:
                if segs[0] in ("true", "false"): return segs[0], "B"
                if segs[0] == "None": return "none", "O(?)"
                if segs[0] not in env: die("unknown variable %s" % segs[0])
                return env[segs[0]][0], env[segs[0]][1]
            p = "::".join(segs)
            if p in ("f64::NAN", "std::f64::NAN"): return "(KOps.nan : α)", "F"
            if p in ("f64::INFINITY",): return "(KOps.inf : α)", "F"
            if p in ("f64::consts::PI",): return "(KOps.pi : α)", "F"
            die("unknown path %s" % p)
        if k == "field":
            base = e[1]
            if base == ("path", ["self"]):
                key = "self." + e[2]
                if key not in env: die("self field %s not declared" % e[2])
                return env[key][0], env[key][1]
            t, ty = self.ex(base, env)
            if ty.startswith("T(") and e[2] in ("0", "1") and ty.count(",") == 1 and "(" not in ty[2:-1]:
                return "%s.%s" % (t, "1" if e[2] == "0" else "2"), ty[2:-1].split(",")[int(e[2])]
            if ty.startswith("S:"):
                st = self.structs[ty[2:]]
                for f, fty in st["fields"]:
                    if f == e[2]: return "%s.%s" % (t, f), fty
            die("field .%s on type %s" % (e[2], ty))
        if k == "ref":
            return self.ex(e[1], env)
        if k == "unary":
            t, ty = self.ex(e[2], env)
            if e[1] == "-" and ty == "F": return "(-" + t + ")", "F"
            if e[1] == "!" and ty == "B": return "(!" + t + ")", "B"
            if e[1] == "*": return t, ty
            die("unary %s on %s" % (e[1], ty))
        if k == "cast":
            t, ty = self.ex(e[1], env)
            to = rust_ty(e[2])
            if to == "F" and ty == "N": return "(KOps.ofNat " + t + " : α)", "F"
            if to == "N" and ty == "F": return "(KOps.toNat " + t + ")", "N"
            if to == ty: return t, ty
            die("unsupported cast %s -> %s" % (ty, e[2]))
        if k == "bin":
            op = e[1]
            l, lt = self.ex(e[2], env); r, rt = self.ex(e[3], env)
            if op in ("&&", "||"):
                if lt != "B" or rt != "B": die("boolean operator on non-bool")
                return "(%s %s %s)" % (l, op, r), "B"
            if lt != rt: die("operand types differ in %s: %s vs %s" % (op, lt, rt))
            if op in ("==", "!=", "<", "<=", ">", ">="):
                if lt == "F" and op in (">", ">="):
                    return "(decide (%s %s %s))" % (r, "<" if op == ">" else "≤", l), "B"
                lop = {"==": "=", "!=": "≠", "<": "<", "<=": "≤", ">": ">", ">=": "≥"}[op]
                return "(decide (%s %s %s))" % (l, lop, r), "B"
            if op in ("+", "-", "*", "/"): return "(%s %s %s)" % (l, op, r), lt
            if lt == "N" and op in ("%", "<<", ">>", "&", "|", "^"):
                lop = {"%": "%", "<<": "<<<", ">>": ">>>", "&": "&&&", "|": "|||", "^": "^^^"}[op]
                return "(%s %s %s)" % (l, lop, r), "N"
            if lt == "L(B)" and op in ("&", "|"):   # FixedBitSet BitOr / BitAnd (equal lengths: guarded by the caller's assertion)
                return "(List.zipWith (fun a_ b_ => a_ %s b_) %s %s)" % ("||" if op == "|" else "&&", l, r), "L(B)"
            if lt == "B" and op in ("&", "|"):      # non-short-circuit: both operands are pure here
                return "(%s %s %s)" % (l, "&&" if op == "&" else "||", r), "B"
            die("unsupported operator %s on %s" % (op, lt))
        if k == "if":
            c, ct = self.ex(e[1], env)
            if ct != "B" or e[3] is None: die("if expression needs a bool condition and an else")
            a, at = self.pure_block(e[2], env)
            b, bt = self.pure_block(e[3], env) if e[3][0] == "block" else self.ex(e[3], env)
            if at != bt: die("if branches differ in type")
            return "(if %s then %s else %s)" % (c, a, b), at
        if k == "block":
            return self.pure_block(e, env)
        if k == "mcall":
            return self.mcall(e, env)
        if k == "call" and e[1][0] == "path":
            p = "::".join(e[1][1])
            if p in self.calls:
                return self.call_template(self.calls[p], [self.ex(a, env) for a in e[2]], env)
            if p in ("cmp::max", "std::cmp::max", "cmp::min", "std::cmp::min"):
                a, at = self.ex(e[2][0], env); b, bt = self.ex(e[2][1], env)
                if at != "N" or bt != "N": die("cmp::max/min on non-integers")
                return "(%s %s %s)" % ("max" if p.endswith("max") else "min", a, b), "N"
            if p == "Some" and len(e[2]) == 1:
                a, at = self.ex(e[2][0], env)
                return "(some %s)" % a, "O(%s)" % at
            die("unsupported call %s" % p)
        if k == "struct":
            nm = e[1][-1]
            if nm not in self.structs: die("unknown struct %s" % nm)
            vals = {f: self.ex(v, env)[0] for f, v in e[2]}
            for f, fty in self.structs[nm]["fields"]:
                if fty.startswith("O(") and vals.get(f) == "none":
                    vals[f] = "(none : %s)" % lty(fty, self.structs)
            st = self.structs[nm]
            if sorted(vals) != sorted(f for f, _ in st["fields"]): die("struct literal fields differ from the spec")
            return "({ %s } : %s)" % (", ".join("%s := %s" % (f, vals[f]) for f, _ in st["fields"]), st["lean"]), "S:" + nm
        if k == "tuple":
            parts = [self.ex(x, env) for x in e[1]]
            return "(" + ", ".join(p[0] for p in parts) + ")", "T(" + ",".join(p[1] for p in parts) + ")"
        if k == "macro" and e[1] == "vec" and not e[2]:
            return "[]", "L(?)"
        die("unsupported expression %s" % k)

    def call_template(self, tpl, args, env):
        """tpl = (template text with {0} {1} … and {self.f}, result type)"""
        text, ret = tpl
        for i, (a, _) in enumerate(args):
            text = text.replace("{%d}" % i, a)
        for key in re.findall(r"\{(self\.[a-z_]+)\}", text):
            if key not in env: die("call template needs %s" % key)
            text = text.replace("{%s}" % key, env[key][0])
        return "(" + text + ")", ret

    def pipeline(self, e, env):
        """iterator pipelines  SRC[.enumerate()](.map(|pat| E))*  ->  (Lean text, element type, fallible)
        where SRC is a list; a closure whose body is `V[x]` / `V[x].clone()` (an index read that can panic) makes the
        pipeline fallible: its value is then an `Option (List _)` (`none` = the panic)"""
        if e[0] == "mcall" and e[2] == "enumerate" and not e[3]:
            t, ty, f = self.pipeline(e[1], env)
            if f: die("enumerate after a fallible stage")
            return "((List.range %s.length).zip %s)" % (t, t), "T(N,%s)" % ty, False
        if e[0] == "mcall" and e[2] == "map" and len(e[3]) == 1 and e[3][0][0] == "closure" and len(e[3][0][1]) == 1:
            t, ty, f = self.pipeline(e[1], env)
            pat, body = e[3][0][1][0], e[3][0][2]
            benv = dict(env)
            if isinstance(pat, tuple):
                if not (ty.startswith("T(") and len(pat) == 2): die("tuple pattern on a non-pair")
                a, b = ty[2:-1].split(",")
                benv[pat[0]] = (self.lname(pat[0]), a, False); benv[pat[1]] = (self.lname(pat[1]), b, False)
                binder = "fun (%s, %s) =>" % (self.lname(pat[0]), self.lname(pat[1]))
            else:
                benv[pat] = (self.lname(pat), ty, False); binder = "fun %s =>" % self.lname(pat)
            if body[0] == "mcall" and body[2] == "clone" and not body[3]: body = body[1]
            if body[0] == "index":
                v, vty = self.ex(body[1], benv); i, ity = self.ex(body[2], benv)
                if not vty.startswith("L(") or ity != "N": die("index read in a closure: not a list / not an integer index")
                stage = "(%s %s[%s]?)" % (binder, v, i)
                if f: return "(%s.bind (List.mapM %s))" % (t, stage), vty[2:-1], True
                return "(List.mapM %s %s)" % (stage, t), vty[2:-1], True
            b, bty = self.ex(body, benv)
            if f: return "(%s.map (List.map (%s %s)))" % (t, binder, b), bty, True
            return "(List.map (%s %s) %s)" % (binder, b, t), bty, False
        t, ty = self.ex(e, env)
        if not ty.startswith("L("): die("iterator pipeline over a non-list")
        return t, ty[2:-1], False

    def min_unwrap(self, e):
        """PIPE.min().unwrap() -> PIPE or None"""
        if e[0] == "mcall" and e[2] in ("unwrap", "expect") and e[1][0] == "mcall" and e[1][2] == "min" and not e[1][3]:
            return e[1][1]
        return None

    def zip_idiom(self, e):
        """X.iter().zip(Y.iter()).map(|x| BODY)[.cloned()].collect()  ->  (X, Y, param, BODY) or None"""
        if not (e[0] == "mcall" and e[2] == "collect" and not e[3]): return None
        r = e[1]
        if r[0] == "mcall" and r[2] == "cloned" and not r[3]: r = r[1]
        if not (r[0] == "mcall" and r[2] == "map" and len(r[3]) == 1 and r[3][0][0] == "closure" and len(r[3][0][1]) == 1): return None
        z = r[1]
        if not (z[0] == "mcall" and z[2] == "zip" and len(z[3]) == 1): return None
        a, b = z[1], z[3][0]
        if not (a[0] == "mcall" and a[2] == "iter" and not a[3] and b[0] == "mcall" and b[2] == "iter" and not b[3]): return None
        return a[1], b[1], r[3][0][1][0], r[3][0][2]

    def zip_parts(self, e, env):
        """-> (function text, X text, Y text, element type, fallible)"""
        X, Y, p, body = self.zip_idiom(e)
        x, xty = self.ex(X, env); y, yty = self.ex(Y, env)
        if not (xty.startswith("L(") and yty.startswith("L(")): die("zip over non-lists")
        benv = dict(env); benv[p] = ("(za_, zb_)", "T(%s,%s)" % (xty[2:-1], yty[2:-1]), False)
        fallible = body[0] == "mcall" and body[2] in ("unwrap", "expect")
        if fallible: body = body[1]
        b, bty = self.ex(body, benv)
        if fallible:
            if not bty.startswith("O("): die("unwrap of a non-option inside a closure")
            bty = bty[2:-1]
        return "(fun za_ zb_ => %s)" % b, x, y, bty, fallible

    def mcall(self, e, env):
        recv, name, args = e[1], e[2], e[3]
        # X.iter().all(|x| e) / X.iter().any(|x| e)
        if name in ("all", "any") and len(args) == 1 and args[0][0] == "closure" and len(args[0][1]) == 1 and isinstance(args[0][1][0], str) \
                and recv[0] == "mcall" and recv[2] == "iter" and not recv[3]:
            lst, lty_ = self.ex(recv[1], env)
            if not lty_.startswith("L("): die("all/any over a non-list")
            cl = args[0]
            benv = dict(env); benv[cl[1][0]] = (self.lname(cl[1][0]), lty_[2:-1], False)
            b, bty = self.ex(cl[2], benv)
            if bty != "B": die("all/any with a non-bool closure")
            return "(List.%s %s (fun %s => %s))" % (name, lst, self.lname(cl[1][0]), b), "B"
        # (lo..=hi).contains(&x) / (lo..hi).contains(&x)
        r_ = recv[1] if recv[0] == "paren" else recv
        if name == "contains" and len(args) == 1 and r_[0] in ("range", "rangei") and r_[1] is not None and r_[2] is not None:
            lo, lot = self.ex(r_[1], env); hi, hit = self.ex(r_[2], env); x, xt = self.ex(args[0], env)
            if not (lot == hit == xt) or xt not in ("N", "F"): die("range.contains on mixed types")
            return "(decide (%s ≤ %s) && decide (%s %s %s))" % (lo, x, x, "≤" if r_[0] == "rangei" else "<", hi), "B"
        if self.zip_idiom(e) is not None:
            f, x, y, ety, fallible = self.zip_parts(e, env)
            if fallible: die("a panicking closure is only supported as the right-hand side of an assignment")
            return "(List.zipWith %s %s %s)" % (f, x, y), "L(%s)" % ety
        if recv == ("path", ["self"]):
            key = "self." + name
            if key in self.calls:
                return self.call_template(self.calls[key], [self.ex(a, env) for a in args], env)
            die("call of self.%s which is not declared in the spec" % name)
        # the idiom  X.iter().map(|c| e).sum()  (f64): a left fold from 0
        if name == "sum" and recv[0] == "mcall" and recv[2] == "map" and len(recv[3]) == 1 and recv[3][0][0] == "closure" \
                and recv[1][0] == "mcall" and recv[1][2] == "iter":
            lst, lty_ = self.ex(recv[1][1], env)
            if not lty_.startswith("L("): die("sum over a non-list")
            cl = recv[3][0]
            if len(cl[1]) != 1: die("closure arity")
            benv = dict(env); benv[cl[1][0]] = (self.lname(cl[1][0]), lty_[2:-1], False)
            b, bty = self.ex(cl[2], benv)
            if bty != "F": die("sum of non-floats")
            return "(List.foldl (fun acc_ %s => acc_ + %s) (KOps.ofNat 0 : α) %s)" % (self.lname(cl[1][0]), b, lst), "F"
        t, ty = self.ex(recv, env)
        key = "%s.%s" % (ty, name)
        if key in self.calls:
            return self.call_template(self.calls[key], [(t, ty)] + [self.ex(a, env) for a in args], env)
        if name == "clone" and not args: return t, ty
        if ty == "F":
            if name in FLOAT_M0 and not args: return "(%s %s)" % (FLOAT_M0[name], t), "F"
            if name in ("min", "max") and len(args) == 1:
                a, at = self.ex(args[0], env)
                if at != "F": die("f64::%s with non-float" % name)
                return "(KOps.f%s %s %s)" % (name, t, a), "F"
            if name == "is_infinite": return "(KOps.isInf %s)" % t, "B"
            if name == "is_finite": return "(KOps.isFinite %s)" % t, "B"
            if name == "is_nan": return "(KOps.isNan %s)" % t, "B"
        if ty == "N":
            if name in ("min", "max") and len(args) == 1:
                a, _ = self.ex(args[0], env); return "(%s %s %s)" % (name, t, a), "N"
            if name == "leading_zeros": return "(KOps.clz64 %s)" % t, "N"
            if name == "is_power_of_two" and not args: return "(KOps.isPow2 %s)" % t, "B"
            if name == "saturating_mul" and len(args) == 1:
                a, _ = self.ex(args[0], env); return "(KOps.satMul %s %s)" % (t, a), "N"
        if ty.startswith("L("):
            if name == "len" and not args: return "%s.length" % t, "N"
            if name == "is_empty" and not args: return "%s.isEmpty" % t, "B"
        die("unsupported method .%s on type %s" % (name, ty))

    def pure_block(self, b, env):
        env = dict(env)
        lines = []
        for s in b[1]:
            if s[0] != "let" or isinstance(s[1], tuple): die("only let statements inside an expression block")
            t, ty = self.ex(s[3], env)
            env[s[1]] = (self.lname(s[1]), ty, False)
            lines.append("let %s := %s" % (self.lname(s[1]), t))
        if b[2] is None: die("block without a value")
        t, ty = self.ex(b[2], env)
        return ("(" + "; ".join(lines + [t]) + ")") if lines else t, ty

    def lname(self, n):
        return n + "_" if n in LEAN_KEYWORDS else n

    # ---------------------------------------------------------------- statements (flow)
    def muts(self, env):
        """currently declared mutable variables, in declaration order: [(key, lean, ty)]"""
        return [(k, v[0], v[1]) for k, v in env.items() if v[2]]

    def cont(self, env, M):
        return "Flow.cont (%s)" % self.tup([env[k][0] for k, _, _ in M])

    def tup(self, names):
        return "()" if not names else names[0] if len(names) == 1 else "(" + ", ".join(names) + ")"

    def tupty(self, M):
        return "Unit" if not M else " × ".join("(%s)" % lty(t, self.structs) for _, _, t in M)

    def block(self, stmts, tail, env, M, ind):
        """Lean term (list of lines) of type `Flow ρ (types of M)`: run the statements; `M` are the mutable
        variables whose final values are yielded"""
        env = dict(env)
        pad = "  " * ind
        if not stmts:
            if tail is not None:
                # a trailing expression of a value-returning function = return
                if tail[0] in ("if", "block", "for", "while", "loop") or (tail[0] == "mcall" and tail[2] == "for_each"):
                    return self.block([("expr", tail)], None, env, M, ind)
                if tail[0] == "mcall" and self.is_effect(tail):
                    return self.block([("expr", tail)], None, env, M, ind)
                if tail[0] == "mcall" and tail[1] == ("path", ["self"]) and ("self." + tail[2]) in self.spec.get("update_calls", {}):
                    return self.block([("expr", tail)], None, env, M, ind)
                if self.min_unwrap(tail) is not None:
                    # the minimum of an iterator pipeline, `unwrap`ped: `none` = an index panic inside or an empty iterator
                    t, ty, f = self.pipeline(self.min_unwrap(tail), env)
                    if ty != "N": die("min() over non-integers")
                    opt = "(%s.bind List.min?)" % t if f else "(List.min? %s)" % t
                    return [pad + "match %s with" % opt, pad + "| none => Flow.panic", pad + "| some mn_ => Flow.ret " + self.retval("mn_", "N", env)]
                if self.spec.get("effect_calls") or self.spec.get("hoist_index"):
                    return self.block([("return", tail)], None, env, M, ind)
                t, ty = self.ex(tail, env)
                return [pad + "Flow.ret " + self.retval(t, ty, env)]
            return [pad + self.cont(env, M)]
        s, rest = stmts[0], stmts[1:]
        # ITER.for_each(|x| body)  is  for x in ITER { body }   (`.into_iter()` / `.iter()` of a list is the list)
        if s[0] == "expr" and s[1][0] == "mcall" and s[1][2] == "for_each" and len(s[1][3]) == 1 and s[1][3][0][0] == "closure" \
                and len(s[1][3][0][1]) == 1:
            it = s[1][1]
            if it[0] == "mcall" and it[2] in ("into_iter", "iter") and not it[3]: it = it[1]
            cl = s[1][3][0]
            body = cl[2] if cl[2][0] == "block" else ("block", [("expr", cl[2])], None)
            s = ("expr", ("for", cl[1][0], it, body))
        k = s[0]
        skip_once = getattr(self, "_skip_once", False)
        self._skip_once = False
        if (self.spec.get("effect_calls") or self.spec.get("hoist_index")) and not skip_once:
            wrappers = []
            if k == "let": s2 = ("let", s[1], s[2], self.hoist(s[3], env, wrappers))
            elif k == "assign": s2 = ("assign", s[1], s[2] if s[2][0] != "index" else ("index", s[2][1], self.hoist(s[2][2], env, wrappers)), self.hoist(s[3], env, wrappers))
            elif k == "return": s2 = ("return", None if s[1] is None else self.hoist(s[1], env, wrappers))
            elif k == "expr" and s[1][0] == "if": s2 = ("expr", ("if", self.hoist(s[1][1], env, wrappers), s[1][2], s[1][3]))
            elif k == "expr" and s[1][0] == "mcall" and self.match_effect_call(s[1]) is not None:
                self.hoist(s[1], env, wrappers); s2 = None      # a call for its effect only
            elif k == "expr" and s[1][0] == "mcall" and s[1][1] == ("path", ["self"]) and ("self." + s[1][2]) in self.spec.get("update_calls", {}): s2 = s
            elif k == "expr" and s[1][0] == "mcall" and s[1][2] == "set" and len(s[1][3]) == 2:
                s2 = ("expr", ("mcall", s[1][1], "set", [self.hoist(s[1][3][0], env, wrappers), self.hoist(s[1][3][1], env, wrappers)]))
            elif k == "expr" and s[1][0] not in ("block", "for", "macro", "while", "loop"): s2 = ("expr", self.hoist(s[1], env, wrappers))
            else: s2 = s
            if wrappers:
                depth = sum(1 for o, c in wrappers if c)
                # the hoisted statement itself is emitted without re-hoisting; the rest is hoisted normally
                if s2 is not None:
                    self._skip_once = True
                    lines = self.block([s2] + rest, tail, env, M, ind + depth)
                else:
                    lines = self.block(rest, tail, env, M, ind + depth)
                d = 0
                out_open, out_close = [], []
                for o, c in wrappers:
                    out_open += ["  " * (ind + d) + x for x in o]
                    if c:
                        out_close = ["  " * (ind + d) + x for x in c] + out_close
                        d += 1
                return out_open + lines + out_close
        if k == "let":
            name = s[1]
            if isinstance(name, tuple): die("tuple patterns are not supported")
            mut = name in self.spec.get("_muts", set())
            rhs = s[3]
            # effect requests (scripted RNG): let j = rng_below(e);
            if rhs[0] == "call" and rhs[1][0] == "path" and rhs[1][1][-1] in self.spec.get("effects", {}):
                eff = self.spec["effects"][rhs[1][1][-1]]
                tpl, rty, stvar = eff[0], eff[1], eff[2]
                partial = len(eff) > 3 and eff[3] == "partial"
                args = [self.ex(a, env)[0] for a in rhs[2]]
                text = tpl
                for i, a in enumerate(args): text = text.replace("{%d}" % i, a)
                for key in re.findall(r"\{(self\.[a-z_]+)\}", text): text = text.replace("{%s}" % key, env[key][0])
                ln = self.lname(name)
                env[name] = (ln, rty, mut)
                if len(eff) > 3 and eff[3] == "flowcont":
                    # a call of a translated `&mut self` function returning (): Flow.cont (new state) or panic
                    stv = [env[k2][0] for k2 in stvar]
                    return [pad + "match %s with" % text, pad + "| Flow.cont %s =>" % self.tup(stv)] + \
                        self.block(rest, tail, env, M, ind + 1) + [pad + "| _ => Flow.panic"]
                if len(eff) > 3 and eff[3] == "flowcall0":
                    # a call of a translated `&self` function: Flow.ret value, or panic
                    return [pad + "match %s with" % text, pad + "| Flow.ret %s =>" % ln] + \
                        self.block(rest, tail, env, M, ind + 1) + [pad + "| _ => Flow.panic"]
                if len(eff) > 3 and eff[3] == "flowcall":
                    # a call of another translated `&mut self` function: Flow.ret (value, new state) or panic
                    stv = [env[k2][0] for k2 in stvar]
                    return [pad + "match %s with" % text, pad + "| Flow.ret (%s, %s) =>" % (ln, self.tup(stv))] + \
                        self.block(rest, tail, env, M, ind + 1) + [pad + "| _ => Flow.panic"]
                if stvar is None:        # a partial pure function: `none` = panic
                    return [pad + "match %s with" % text, pad + "| none => Flow.panic", pad + "| some %s =>" % ln] + \
                        self.block(rest, tail, env, M, ind + 1)
                if partial:
                    return [pad + "match %s with" % text, pad + "| none => Flow.panic", pad + "| some (%s, %s) =>" % (ln, env[stvar][0])] + \
                        self.block(rest, tail, env, M, ind + 1)
                return [pad + "let (%s, %s) := %s;" % (ln, env[stvar][0], text)] + self.block(rest, tail, env, M, ind)
            # indexing read: let c = &v[i];   (panics when out of bounds)
            r0 = rhs
            while r0[0] in ("ref", "paren") or (r0[0] == "mcall" and r0[2] == "clone"): r0 = r0[1]
            if r0[0] == "index":
                v, vty = self.ex(r0[1], env); i, ity = self.ex(r0[2], env)
                if not vty.startswith("L(") or ity != "N": die("indexing needs a list and an integer")
                ln = self.lname(name)
                env[name] = (ln, vty[2:-1], mut)
                return [pad + "match %s[%s]? with" % (v, i), pad + "| none => Flow.panic", pad + "| some %s =>" % ln] + \
                    self.block(rest, tail, env, M, ind + 1)
            t, ty = self.ex(rhs, env)
            if s[2] is not None and rust_ty(s[2]) != "?" and ty != "L(?)" and rust_ty(s[2]) != ty:
                die("let %s: declared %s, inferred %s" % (name, s[2], ty))
            if ty == "L(?)":
                ty = self.spec.get("vec_types", {}).get(name) or die("element type of vec![] for %s not in the spec" % name)
                t = "([] : %s)" % lty(ty, self.structs)
            ln = self.lname(name)
            env[name] = (ln, ty, mut)
            return [pad + "let %s := %s;" % (ln, t)] + self.block(rest, tail, env, M, ind)
        if k == "assign":
            op, lhs, rhs = s[1], s[2], s[3]
            if lhs[0] == "index":       # v[i] = e   (panics when out of bounds)
                key = self.lhs_key(lhs[1], env)
                v, vty, _ = env[key]; i, _ = self.ex(lhs[2], env); t, _ = self.ex(rhs, env)
                if op != "=": die("compound assignment to an element")
                return [pad + "if %s < %s.length then" % (i, v), pad + "  let %s := %s.set %s %s;" % (v, v, i, t)] + \
                    self.block(rest, tail, env, M, ind + 1) + [pad + "else Flow.panic"]
            key = self.lhs_key(lhs, env)
            v, vty, m = env[key]
            if not m: die("assignment to immutable %s" % key)
            if op == "=" and self.zip_idiom(rhs) is not None and self.zip_parts(rhs, env)[4]:
                f, x, y, ety, _ = self.zip_parts(rhs, env)
                if vty != "L(%s)" % ety: die("assignment type mismatch for %s" % key)
                return [pad + "match KOps.zipWithM %s %s %s with" % (f, x, y), pad + "| none => Flow.panic", pad + "| some zr_ =>",
                        pad + "  let %s := zr_;" % v] + self.block(rest, tail, env, M, ind + 1)
            t, ty = self.ex(rhs, env)
            if ty != vty and not (ty == "L(?)"): die("assignment type mismatch for %s: %s vs %s" % (key, vty, ty))
            if op != "=":
                t = "(%s %s %s)" % (v, op[:-1], t)
            return [pad + "let %s := %s;" % (v, t)] + self.block(rest, tail, env, M, ind)
        if k == "break":
            if getattr(self, "loop_M", None) is None: die("break outside a `loop`")
            if [x[0] for x in self.muts(env)] != [x[0] for x in self.loop_M]: die("break with loop-local mutable variables in scope")
            return [pad + "Flow.ret (Sum.inr %s)" % self.tup([env[x[0]][0] for x in self.loop_M])]
        if k == "return":
            if s[1] is None:
                return [pad + "Flow.ret " + self.retval(None, "U", env)]
            t, ty = self.ex(s[1], env)
            return [pad + "Flow.ret " + self.retval(t, ty, env)]
        if k == "expr":
            e = s[1]
            if e[0] == "macro" and e[1] in ("assert_eq", "debug_assert_eq"):
                a, at = self.ex(e[2][0], env); b, bt = self.ex(e[2][1], env)
                if at != bt: die("assert_eq! on different types")
                return [pad + "if decide (%s = %s) then" % (a, b)] + self.block(rest, tail, env, M, ind + 1) + [pad + "else Flow.panic"]
            if e[0] == "macro" and e[1] in ("assert", "debug_assert"):
                c, ct = self.ex(e[2][0], env)
                if ct != "B": die("assert! on non-bool")
                return [pad + "if %s then" % c] + self.block(rest, tail, env, M, ind + 1) + [pad + "else Flow.panic"]
            if e[0] == "mcall" and self.is_effect(e):
                key = self.lhs_key(e[1], env)
                v, vty, m = env[key]
                if not m: die("mutation of immutable %s" % key)
                if e[2] == "push":
                    t, ty = self.ex(e[3][0], env)
                    return [pad + "let %s := %s ++ [%s];" % (v, v, t)] + self.block(rest, tail, env, M, ind)
                if e[2] == "clear":
                    return [pad + "let %s := [];" % v] + self.block(rest, tail, env, M, ind)
            if e[0] == "mcall" and e[1] == ("path", ["self"]) and ("self." + e[2]) in self.spec.get("update_calls", {}):
                tpl = self.spec["update_calls"]["self." + e[2]]
                a0 = e[3][0]
                while a0[0] in ("ref", "paren"): a0 = a0[1]
                key = self.lhs_key(a0, env)
                v, vty, m = env[key]
                if not m: die("update of immutable %s" % key)
                text = tpl.replace("{0}", v)
                for k2 in re.findall(r"\{(self\.[a-z_]+)\}", text): text = text.replace("{%s}" % k2, env[k2][0])
                return [pad + "let %s := %s;" % (v, text)] + self.block(rest, tail, env, M, ind)
            if e[0] == "macro" and e[1] == "panic":
                return [pad + "Flow.panic"]
            if e[0] == "mcall" and e[2] == "set" and len(e[3]) == 2 and e[1][0] in ("field", "path"):
                # FixedBitSet::set / IntVector::set as an index assignment
                return self.block([("assign", "=", ("index", e[1], e[3][0]), e[3][1])] + rest, tail, env, M, ind)
            if e[0] in ("while", "loop"):
                Mh = self.muts(env)
                call = self.fuel_loop(e, env, Mh)
                inner = [pad + "  (" + call + ")"]
                if not rest and tail is None and [x[0] for x in Mh] == [x[0] for x in M]:
                    return inner
                names = self.tup([x[1] for x in Mh])
                return [pad + "Flow.bind"] + inner + [pad + "  fun %s =>" % ("_" if not Mh else names)] + \
                    self.block(rest, tail, env, M, ind + 1)
            if e[0] in ("if", "block", "for"):
                Mh = self.muts(env)                 # the mutable variables in scope here
                if e[0] == "block":
                    inner = self.block(e[1], e[2], env, Mh, ind + 1)
                elif e[0] == "if":
                    c, ct = self.ex(e[1], env)
                    if ct != "B": die("if condition is not bool")
                    a = self.block(e[2][1], e[2][2], env, Mh, ind + 2)
                    if e[3] is None:
                        b = ["  " * (ind + 2) + self.cont(env, Mh)]
                    elif e[3][0] == "if":
                        b = self.block([("expr", e[3])], None, env, Mh, ind + 2)
                    else:
                        b = self.block(e[3][1], e[3][2], env, Mh, ind + 2)
                    inner = [pad + "  ((if %s then" % c] + a + [pad + "  else"] + b + [pad + "  ) : Flow (%s) (%s))" % (self.rho, self.tupty(Mh))]
                else:
                    inner = [pad + "  (" + self.for_loop(e, env, Mh) + ")"]
                if not rest and tail is None and [x[0] for x in Mh] == [x[0] for x in M]:
                    return inner                    # last statement: its flow is the block's flow
                names = self.tup([x[1] for x in Mh])
                return [pad + "Flow.bind"] + inner + [pad + "  fun %s =>" % ("_" if not Mh else names)] + \
                    self.block(rest, tail, env, M, ind + 1)
            die("unsupported expression statement %s" % (e[0],))
        die("unsupported statement %s" % k)

    # ---------------------------------------------------------------- hoisting of effectful calls
    def match_effect_call(self, e):
        """spec['effect_calls']: { 'self.rng.gen_range' | 'self.draw_gap' | ... : (kind, template, result type, [state keys]) }"""
        ec = self.spec.get("effect_calls", {})
        if not ec or e[0] != "mcall":
            return None
        recv = e[1]
        if recv == ("path", ["self"]):
            key = "self." + e[2]
        elif recv[0] == "field" and recv[1] == ("path", ["self"]):
            key = "self.%s.%s" % (recv[2], e[2])
        else:
            return None
        return ec.get(key)

    def hoist(self, e, env, wrappers, in_branch=False):
        """returns e with every effectful call replaced by a fresh variable; the bindings (in evaluation
        order) are appended to `wrappers` as (open lines, close lines)"""
        if not isinstance(e, tuple) or not e:
            return e
        eff = self.match_effect_call(e)
        if eff is not None:
            if in_branch: die("effectful call inside a conditional expression")
            kind, tpl, rty, stkeys = eff
            args = []
            for a in e[3]:
                a = self.hoist(a, env, wrappers, in_branch)
                if a[0] in ("range", "rangei"):          # gen_range(0..k) / gen_range(0..=i)
                    if a[1] != ("num", "0", "i") or a[2] is None: die("gen_range needs a range starting at 0")
                    hi, hty = self.ex(a[2], env)
                    args.append("(%s + 1)" % hi if a[0] == "rangei" else hi)
                else:
                    args.append(self.ex(a, env)[0])
            text = tpl
            for i, a in enumerate(args): text = text.replace("{%d}" % i, a)
            for key in re.findall(r"\{(self\.[a-z_]+)\}", text): text = text.replace("{%s}" % key, env[key][0])
            for key in re.findall(r"\{([a-z_]+)\}", text):
                if key in env: text = text.replace("{%s}" % key, env[key][0])
            self.ntmp = getattr(self, "ntmp", 0) + 1
            tmp = "t%d_" % self.ntmp
            env[tmp] = (tmp, rty, False)
            stv = self.tup([env[k2][0] for k2 in stkeys])
            if kind == "pair":
                wrappers.append((["let (%s, %s) := %s;" % (tmp, stv, text)], []))
            elif kind == "flowcall":
                wrappers.append((["match %s with" % text, "| Flow.ret (%s, %s) =>" % (tmp, stv)], ["| _ => Flow.panic"]))
            elif kind == "flowcall0":
                wrappers.append((["match %s with" % text, "| Flow.ret %s =>" % tmp], ["| _ => Flow.panic"]))
            elif kind == "flowcont":
                wrappers.append((["match %s with" % text, "| Flow.cont %s =>" % stv], ["| _ => Flow.panic"]))
            else:
                die("bad effect kind")
            return ("path", [tmp])
        if self.spec.get("hoist_index"):
            idx = None
            if e[0] == "index": idx = (e[1], e[2])
            elif e[0] == "mcall" and e[2] == "get" and len(e[3]) == 1: idx = (e[1], e[3][0])
            if idx is not None:
                if in_branch: die("index read inside a conditional expression")
                i2 = self.hoist(idx[1], env, wrappers, in_branch)
                v, vty = self.ex(idx[0], env)
                if vty.startswith("L("):
                    i, ity = self.ex(i2, env)
                    self.ntmp = getattr(self, "ntmp", 0) + 1
                    tmp = "t%d_" % self.ntmp
                    env[tmp] = (tmp, vty[2:-1], False)
                    wrappers.append((["(match %s[%s]? with" % (v, i), "| none => Flow.panic", "| some %s =>" % tmp], [")"]))
                    return ("path", [tmp])
        eu = self.spec.get("update_calls", {})
        if e[0] == "mcall" and e[1] == ("path", ["self"]) and ("self." + e[2]) in eu:
            die("update call in expression position")
        if e[0] == "if":
            return ("if", self.hoist(e[1], env, wrappers, in_branch), self.hoist_check(e[2], env), None if e[3] is None else self.hoist_check(e[3], env))
        if e[0] in ("block", "for", "closure"):
            return e            # handled when that block is emitted
        out = []
        for x in e:
            if isinstance(x, tuple) and x and isinstance(x[0], str):
                out.append(self.hoist(x, env, wrappers, in_branch))
            elif isinstance(x, list):
                out.append([self.hoist(y, env, wrappers, in_branch) if isinstance(y, tuple) and y and isinstance(y[0], str) else y for y in x])
            else:
                out.append(x)
        return tuple(out)

    def hoist_check(self, e, env):
        """an if-*expression* branch must not contain effectful calls (if-statements are handled as blocks)"""
        return e

    def is_effect(self, e):
        return e[0] == "mcall" and e[2] in ("push", "clear") and e[1][0] in ("field", "path")

    def lhs_key(self, lhs, env):
        if lhs[0] == "field" and lhs[1] == ("path", ["self"]):
            key = "self." + lhs[2]
        elif lhs[0] == "path" and len(lhs[1]) == 1:
            key = lhs[1][0]
        else:
            die("unsupported assignment target")
        if key not in env: die("unknown assignment target %s" % key)
        return key

    def retval(self, t, ty, env):
        """what `return e` yields: for a `&mut self` method returning (), the self state"""
        st = [env["self." + f][0] for f, _ in self.spec.get("self_mut", [])] + [env[p][0] for p in self.spec.get("mut_params", [])]
        if self.spec.get("returns") == "self":
            v = self.tup(st)
        elif st:       # a `&mut self` method with a value: the value and the new state
            v = "(%s, %s)" % (t, self.tup(st))
        else:
            v = "(%s)" % t
        return "(Sum.inl %s)" % v if getattr(self, "loop_M", None) is not None else v

    def fuel_loop(self, e, env, Mh):
        """`while c { body }` / `loop { body }` -> a function recursive on fuel (spec['fuel']: Lean text of the bound;
        out of fuel = the real code does not terminate = panic)"""
        fuel = self.spec.get("fuel") or die("while/loop needs a fuel bound in the spec")
        for key in re.findall(r"\{(self\.[a-z_]+)\}", fuel): fuel = fuel.replace("{%s}" % key, env[key][0])
        self.nloop += 1
        lname = "%s_loop%d" % (self.spec["lean"], self.nloop)
        st_names = self.tup([x[1] for x in Mh])
        stty = self.tupty(Mh)
        outer_rho = self.rho
        if e[0] == "while":
            body = e[2]
            wr = []
            benv = dict(env)
            cond = self.hoist(e[1], benv, wr) if self.spec.get("hoist_index") or self.spec.get("effect_calls") else e[1]
            c, ct = self.ex(cond, benv)
            if ct != "B": die("while condition is not bool")
            depth = sum(1 for o, cl in wr if cl)
            body_lines = self.block(body[1], body[2], benv, Mh, 3 + depth)
            core = ["  " * (2 + depth) + "if %s then" % c, "  " * (3 + depth) + "Flow.bind ("] + body_lines + \
                   ["  " * (3 + depth) + ") fun st' => %s FIXED fuel_ st'" % lname, "  " * (2 + depth) + "else Flow.cont %s" % st_names]
            d = 0; op, cl = [], []
            for o, c2 in wr:
                op += ["  " * (2 + d) + x for x in o]
                if c2:
                    cl = ["  " * (2 + d) + x for x in c2] + cl; d += 1
            inner_lines = op + core + cl
        else:
            body = e[1]
            saved = (getattr(self, "loop_M", None), self.rho)
            self.loop_M = Mh
            self.rho = "(%s) ⊕ (%s)" % (outer_rho, stty)
            try:
                body_lines = self.block(body[1], body[2], dict(env), Mh, 3)
            finally:
                self.loop_M, self.rho = saved
            inner_lines = ["    match ((", ] + body_lines + [
                "    ) : Flow ((%s) ⊕ (%s)) (%s)) with" % (outer_rho, stty, stty),
                "    | Flow.ret (Sum.inl r_) => Flow.ret r_",
                "    | Flow.ret (Sum.inr st') => Flow.cont st'",
                "    | Flow.cont st' => %s FIXED fuel_ st'" % lname,
                "    | Flow.panic => Flow.panic"]
        text = "\n".join(inner_lines)
        closed = [(v2[0], v2[1]) for k2, v2 in env.items() if not v2[2] and re.search(r"(?<![A-Za-z0-9_.])%s(?![A-Za-z0-9_])" % re.escape(v2[0]), text)]
        closed = list(dict.fromkeys(closed))
        sig = " ".join(["(%s : %s)" % (n, t) for n, t in self.fixed] +
                       ["(%s : %s)" % (n, lty(t, self.structs)) for n, t in closed if (n, t) not in self.fixed])
        argnames = " ".join([n for n, _ in self.fixed] + [n for n, t in closed if (n, t) not in self.fixed])
        text = text.replace("FIXED", argnames)
        d = ["def %s %s : Nat → %s → Flow (%s) (%s)" % (lname, sig, stty, outer_rho, stty),
             "  | 0, _ => Flow.panic",
             "  | fuel_ + 1, %s =>" % (st_names if Mh else "_"), text]
        self.loops.append("\n".join(d))
        return "%s %s (%s) %s" % (lname, argnames, fuel, st_names)

    def for_loop(self, e, env, Mh):
        pat, it, body = e[1], e[2], e[3]
        # iterator forms: &v | v.iter() | v.iter().enumerate() | v.drain(1..) (= tail)
        enum = False
        x = it
        while x[0] in ("ref", "paren"): x = x[1]
        if x[0] == "mcall" and x[2] == "enumerate": enum = True; x = x[1]
        lst_suffix = ""
        if x[0] == "mcall" and x[2] == "cloned": x = x[1]
        if x[0] == "mcall" and x[2] == "rev":
            lst_suffix = ".reverse"; x = x[1]
        if x[0] == "range" and x[2] is not None:
            a, at = self.ex(x[1], env); b, bt = self.ex(x[2], env)
            if at != "N" or bt != "N": die("range over non-integers")
            v, vty = "(List.range' %s (%s - %s))" % (a, b, a), "L(N)"
            x = None
        elif x[0] == "mcall" and x[2] == "iter": x = x[1]
        elif x[0] == "mcall" and x[2] == "drain":
            a = x[3][0]
            if a != ("range", ("num", "1", "i"), None): die("only drain(1..) is supported")
            lst_suffix = ".tail"; x = x[1]
        if x is not None:
            v, vty = self.ex(x, env)
        if not vty.startswith("L("): die("for over a non-list")
        ety = vty[2:-1]
        self.nloop += 1
        lname = "%s_loop%d" % (self.spec["lean"], self.nloop)
        benv = dict(env)
        if enum:
            if not (isinstance(pat, tuple) and len(pat) == 2): die("enumerate needs a pair pattern")
            iname, cname = self.lname(pat[0]), self.lname(pat[1])
            benv[pat[0]] = (iname, "N", False); benv[pat[1]] = (cname, ety, False)
        elif isinstance(pat, tuple):
            if not ety.startswith("T("): die("tuple pattern over non-tuples")
            tys = split_top(ety[2:-1])
            if len(tys) != len(pat): die("tuple pattern arity")
            for pn, pty in zip(pat, tys): benv[pn] = (self.lname(pn), pty, False)
            cname = "(" + ", ".join(self.lname(pn) for pn in pat) + ")"
        else:
            cname = self.lname(pat); benv[pat] = (cname, ety, False)
        body_lines = self.block(body[1], body[2], benv, Mh, 2)
        # immutable variables of the enclosing scope the body mentions become parameters of the loop function
        text = "\n".join(body_lines)
        closed = [(v2[0], v2[1]) for k2, v2 in env.items() if not v2[2] and re.search(r"(?<![A-Za-z0-9_.])%s(?![A-Za-z0-9_])" % re.escape(v2[0]), text)]
        closed = list(dict.fromkeys(closed))
        sig = " ".join(["(%s : %s)" % (n, t) for n, t in self.fixed] +
                       ["(%s : %s)" % (n, lty(t, self.structs)) for n, t in closed if (n, t) not in self.fixed])
        st_names = self.tup([x[1] for x in Mh])
        stty = self.tupty(Mh)
        idx = " (%s : Nat)" % iname if enum else ""
        d = ["def %s %s%s : List (%s) → %s → Flow (%s) (%s)" % (lname, sig, idx, lty(ety, self.structs), stty, self.rho, stty),
             "  | [], st => Flow.cont st",
             "  | %s :: rest_, %s =>" % (cname, st_names if Mh else "_"),
             "    Flow.bind ("] + body_lines + [
             "    ) fun st' => %s %s%s rest_ st'" % (lname, " ".join(n for n, _ in self.fixed + [c for c in closed if c not in self.fixed]), " (%s + 1)" % iname if enum else "")]
        self.loops.append("\n".join(d))
        call = "%s %s%s %s%s %s" % (lname, " ".join(n for n, _ in self.fixed + [c for c in closed if c not in self.fixed]), " 0" if enum else "", v, lst_suffix, st_names)
        return call

def scan_muts(node, out):
    """names declared with `let mut` (the parser drops `mut`; recover from the token text instead)"""
    return out

def emit_flow(fn, text, spec, structs):
    """spec: lean, self (immutable self fields [(f, ty)]), self_mut (mutable ones), params kept by type,
    returns: 'self' | type letter, effects, calls, vec_types, extra"""
    em = FlowEmit(spec, structs)
    spec["_muts"] = set(re.findall(r"\blet\s+mut\s+([A-Za-z_][A-Za-z0-9_]*)", text))
    env = {}
    params = []
    for pn, pt in spec.get("generic", []):
        params.append((pn, pt, True))
    for f, ty in spec.get("self", []):
        env["self." + f] = ("self_" + f, ty, False); params.append(("self_" + f, ty, False))
    for f, ty in spec.get("self_mut", []):
        env["self." + f] = ("self_" + f, ty, True); params.append(("self_" + f, ty, False))
    for pn, pt in fn["params"]:
        if pn == "self": continue
        ty = spec.get("param_types", {}).get(pn) or rust_ty(pt)
        if ty == "?":
            if pn in spec.get("drop", []): continue
            die("parameter %s: %s has no translatable type" % (pn, pt))
        env[pn] = (em.lname(pn), ty, False); params.append((em.lname(pn), ty, False))
    for pn, ty in spec.get("extra", []):
        env[pn] = (pn, ty, False); params.append((pn, ty, False))
    for pn in spec.get("mut_params", []):      # `&mut` parameters: part of the state the function yields
        env[pn] = (env[pn][0], env[pn][1], True)
    M0 = em.muts(env)
    for pn in spec.get("mut_locals", []):      # `mut x: T` parameters: local mutable copies
        env[pn] = (env[pn][0], env[pn][1], True)
    if spec.get("returns") == "self":
        em.rho = em.tupty(M0)
    elif M0:
        em.rho = "(%s) × %s" % (lty(spec["returns"], structs), em.tupty(M0))
    else:
        em.rho = lty(spec["returns"], structs)
    em.fixed = [(n, t) for n, t, g in params if g]
    body = fn["body"]
    sig0 = " ".join("(%s : %s)" % (n, t if g else lty(t, structs)) for n, t, g in params)
    if not body[1] and body[2] is not None and body[2][0] not in ("if", "block", "for") and spec.get("returns") != "self" \
            and not spec.get("effect_calls") and not spec.get("hoist_index") and em.min_unwrap(body[2]) is None:
        # a single expression: a plain definition, usable as a value by other kernels
        t, ty = em.ex(body[2], env)
        return "/-- translated from `%s`, fn `%s` -/\ndef %s %s : %s :=\n  %s\n" % (spec["file"], spec["fn"], spec["lean"], sig0, lty(ty, structs), t)
    lines = em.block(body[1], body[2], env, M0, 1)
    def pty(t): return t if t[0].isupper() and not t[0] in "FNBRULST" or " " in t else lty(t, structs)
    sig = " ".join("(%s : %s)" % (n, t if g else lty(t, structs)) for n, t, g in params)
    out = []
    for l in em.loops:
        out.append(l.replace("GENERICS", "") + "\n")
    doc = "/-- translated from `%s`, fn `%s` (flow mode) -/\n" % (spec["file"], spec["fn"])
    out.append(doc + "def %s %s : Flow (%s) (%s) :=\n" % (spec["lean"], sig, em.rho, em.tupty(M0)) + "\n".join(lines) + "\n")
    return "\n".join(out)
