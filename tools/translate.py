#!/usr/bin/env python3
"""Rust source -> lean/Pds/Generated/*.lean (constants and tables only; logic is modelled by hand).
Strict: anything unrecognised is a hard error.  Re-run by every check; files are rewritten only
when their content changes so that lake does not rebuild needlessly.

Every decimal literal is emitted twice: as the bit pattern of the nearest f64 (what rustc
compiles it to; Python's float() is correctly rounded like rustc's parser) for execution, and as
an exact pair (mantissa, decimal exponent) for the table theorems."""
import os, re, struct, sys
ROOT = os.path.dirname(os.path.dirname(os.path.abspath(__file__)))
REPO = os.environ.get("PDS_REPO", "/repo")  # PDS_REPO: only for background sweeps on a snapshot of /repo (tools/thorough_all.sh)

class Unrecognised(Exception):
    pass

def die(msg):
    raise Unrecognised(msg)

def write_if_changed(path, text):
    if os.path.exists(path) and open(path).read() == text:
        return
    os.makedirs(os.path.dirname(path), exist_ok=True)
    open(path, "w").write(text)

def strip_comments(s):
    return re.sub(r"//[^\n]*", "", s)

def find_const(src, name):
    m = re.search(r"const\s+%s\s*:\s*([^=]+?)=\s*(.*?);" % re.escape(name), src, re.S)
    if not m: die("constant %s not found" % name)
    return m.group(1).strip(), m.group(2).strip()

NUM = r"-?\d+(?:\.\d*)?(?:_?[a-z0-9]+)?"

def parse_array(text):
    """&[ a, b, &[..], ] -> nested python lists of literal strings"""
    toks = re.findall(r"&\[|\[|\]|,|" + NUM, text)
    if "".join(toks) != re.sub(r"\s+", "", text): die("unrecognised array syntax: %r" % text[:80])
    pos = 0
    def rec():
        nonlocal pos
        if toks[pos] not in ("&[", "["): die("expected [")
        pos += 1
        items = []
        while toks[pos] != "]":
            if toks[pos] in ("&[", "["):
                items.append(rec())
            elif toks[pos] == ",":
                pos += 1
            else:
                items.append(toks[pos]); pos += 1
        pos += 1
        return items
    r = rec()
    if pos != len(toks): die("trailing tokens in array")
    return r

def dec_exact(lit):
    """'12.207' -> (12207, 3): value = m / 10^e"""
    if not re.fullmatch(r"-?\d+(\.\d*)?", lit): die("bad decimal literal %r" % lit)
    neg = lit.startswith("-"); lit = lit.lstrip("-")
    if "." in lit:
        a, b = lit.split(".")
    else:
        a, b = lit, ""
    m = int(a + b) if (a + b) else 0
    return (-m if neg else m, len(b))

def f64bits(lit):
    return struct.unpack(">Q", struct.pack(">d", float(lit)))[0]

def lean_nat_array(xs):
    return "#[" + ", ".join(str(x) for x in xs) + "]"

def chunked(items, per=8, indent="    "):
    lines = []
    for i in range(0, len(items), per):
        lines.append(indent + ", ".join(items[i:i+per]))
    return ",\n".join(lines)

def group_cuckoo():
    src = strip_comments(open(os.path.join(REPO, "src/filters/cuckoofilter.rs")).read())
    return ["def maxNumKicks : Nat := %d" % int(find_const(src, "MAX_NUM_KICKS")[1])]

def group_hll_consts():
    out = []
    src = strip_comments(open(os.path.join(REPO, "src/hyperloglog/mod.rs")).read())
    m = re.search(r"const K: usize = (\d+);", src)
    if not m: die("K not found")
    out.append("def hllK : Nat := %s" % m.group(1))
    # am() constants, in source order
    m = re.search(r"fn am\(&self\) -> f64 \{(.*?)\n    \}", src, re.S)
    if not m: die("am() not found")
    body = m.group(1)
    # whitespace-insensitive; float literals may be written 1. / 1.0 / 1.0_f64
    F = r"([\d.]+?)0*(?:_?f64)?"
    pat = (r"letm=self\.registers\.len\(\);ifm>=(\d+)\{" + F + r"/\(1\.0*(?:_?f64)?\+" + F + r"/\(masf64\)\)\}"
           r"elseifm>=(\d+)\{" + F + r"\}elseifm>=(\d+)\{" + F + r"\}else\{" + F + r"\}")
    mm = re.fullmatch(pat, re.sub(r"\s+", "", body))
    if not mm: die("am() has an unrecognised shape")
    g = mm.groups()
    for i, x in enumerate((g[0], g[3], g[5])):
        out.append("def amCut%d : Nat := %s" % (i, x))
    for i, x in enumerate((g[1], g[2], g[4], g[6], g[7])):
        out.append("def am%dBits : UInt64 := 0x%016x  -- %s" % (i, f64bits(x), x))
    out.append("def amCut : Array Nat := #[%s, %s, %s]" % (g[0], g[3], g[5]))
    out.append("def amBits : Array UInt64 := #[%s]  -- %s" % (", ".join("0x%016x" % f64bits(x) for x in (g[1], g[2], g[4], g[6], g[7])), ", ".join((g[1], g[2], g[4], g[6], g[7]))))
    out.append("def amDec : Array (Int × Nat) := #[%s]" % ", ".join("(%d, %d)" % dec_exact(x) for x in (g[1], g[2], g[4], g[6], g[7])))
    return out

def group_reservoir():
    src = strip_comments(open(os.path.join(REPO, "src/reservoirsampling.rs")).read())
    m = re.search(r"let \w+ = self\.k\.saturating_mul\((\d+)\);", src) or re.search(r"let \w+ = self\.k \* (\d+);", src)
    if not m: die("reservoir phase factor not found")
    return ["def reservoirPhaseFactor : Nat := %s" % m.group(1)]

def group_hll_tables():
    src = strip_comments(open(os.path.join(REPO, "src/hyperloglog/data.rs")).read())
    out = ["/- GENERATED by tools/translate.py from /repo/src/hyperloglog/data.rs; do not edit. -/", "set_option maxRecDepth 8000", "namespace Pds.Generated", ""]
    for nm, ln in (("THRESHOLD_DATA_OFFSET", "thresholdOffset"), ("RAW_ESTIMATE_DATA_OFFSET", "rawOffset"), ("BIAS_DATA_OFFSET", "biasOffset")):
        out.append("def %s : Nat := %d" % (ln, int(find_const(src, nm)[1])))
    ty, val = find_const(src, "THRESHOLD_DATA_VEC")
    thr = parse_array(val)
    out.append("def thresholds : Array Nat := #[%s]" % ", ".join(str(int(x)) for x in thr))
    for nm, ln in (("RAW_ESTIMATE_DATA_VEC", "raw"), ("BIAS_DATA_VEC", "bias")):
        ty, val = find_const(src, nm)
        rows = parse_array(val)
        if not all(isinstance(r, list) for r in rows): die(nm + ": expected rows")
        for i, r in enumerate(rows):
            out.append("def %sBits%d : Array UInt64 := #[\n" % (ln, i) + chunked(["0x%016x" % f64bits(x) for x in r]) + "]")
            out.append("def %sDec%d : Array (Int × Nat) := #[\n" % (ln, i) + chunked(["(%d, %d)" % dec_exact(x) for x in r]) + "]")
        out.append("def %sBits : Array (Array UInt64) := #[%s]" % (ln, ", ".join("%sBits%d" % (ln, i) for i in range(len(rows)))))
        out.append("def %sDec : Array (Array (Int × Nat)) := #[%s]" % (ln, ", ".join("%sDec%d" % (ln, i) for i in range(len(rows)))))
    ty, val = find_const(src, "POW2MINX")
    if re.sub(r"\s", "", ty) != "[f64;256]": die("POW2MINX type changed: " + ty)
    p2 = parse_array(val)
    out.append("def pow2minxBitsA : Array UInt64 := #[\n" + chunked(["0x%016x" % f64bits(x) for x in p2[:128]]) + "]")
    out.append("def pow2minxBitsB : Array UInt64 := #[\n" + chunked(["0x%016x" % f64bits(x) for x in p2[128:]]) + "]")
    out.append("def pow2minxBits : Array UInt64 := pow2minxBitsA ++ pow2minxBitsB")
    out += ["", "end Pds.Generated", ""]
    return out

def kernel_group(name):
    """Translate the functions of one kernel group (tools/kernels_spec.py) with tools/rustkern.py."""
    sys.path.insert(0, os.path.join(ROOT, "tools"))
    import rustkern, kernels_spec
    out = []
    for spec in kernels_spec.GROUPS[name]:
        try:
            src = open(os.path.join(REPO, spec["file"])).read()
            text = rustkern.find_fn(src, spec["fn"], spec.get("impl"), spec.get("nth", 0))
            for item in spec.get("subst", []):
                pat, rep, want = item[0], item[1], (item[2] if len(item) > 2 else 1)
                text, n = re.subn(pat, rep, text)
                if n != want: die("%s::%s: substitution /%s/ matched %d times (expected %d)" % (spec["file"], spec["fn"], pat, n, want))
            res = spec.get("result", ("value",))
            fn = rustkern.parse_fn(text, res[1] if res[0] == "lets" else None)
            spec = dict(spec, doc="translated from `%s`, fn `%s`" % (spec["file"], spec["fn"]))
            if spec.get("mode") == "flow":
                import rustflow
                lean = rustflow.emit_flow(fn, text, spec, kernels_spec.STRUCTS)
            else:
                lean, _, _ = rustkern.emit_kernel(fn, spec, spec.get("calls", {}))
        except rustkern.Unrecognised as ex:
            die("%s fn %s: %s" % (spec["file"], spec["fn"], ex))
        out += lean.rstrip("\n").split("\n") + [""]
    return out

def previous_group(path, name):
    """lines of group `name` in the Consts file generated last time (kept when the group's source is
    not recognised now, so that the file still compiles; the group is reported as failed)"""
    if not os.path.exists(path):
        return None
    txt = open(path).read()
    m = re.search(r"-- group: %s\n(.*?)-- end group: %s\n" % (name, name), txt, re.S)
    return m.group(1).rstrip("\n").split("\n") if m else None

def main():
    """Each group of constants is translated on its own; a group whose source is no longer recognised is
    reported in work/translate_status.json (the checks of the properties that depend on it then count
    the tie as broken) and keeps its previously generated text, so that the other groups stay tied."""
    import json
    status = {}
    cpath = os.path.join(ROOT, "lean/Pds/Generated/Consts.lean")
    out = ["/- GENERATED by tools/translate.py from /repo sources; do not edit. -/", "namespace Pds.Generated", ""]
    for name, fn in (("cuckoo", group_cuckoo), ("hll_consts", group_hll_consts), ("reservoir", group_reservoir)):
        try:
            lines = fn()
            status[name] = "ok"
        except (Unrecognised, OSError, ValueError) as ex:
            status[name] = "unrecognised: %s" % ex
            lines = previous_group(cpath, name)
            if lines is None:
                sys.stderr.write("translate.py: %s: %s (and no previous output to keep)\n" % (name, ex)); sys.exit(1)
        out += ["-- group: " + name] + lines + ["-- end group: " + name]
    out += ["", "end Pds.Generated", ""]
    write_if_changed(cpath, "\n".join(out))
    try:
        write_if_changed(os.path.join(ROOT, "lean/Pds/Generated/HllData.lean"), "\n".join(group_hll_tables()))
        status["hll_tables"] = "ok"
    except (Unrecognised, OSError, ValueError) as ex:
        status["hll_tables"] = "unrecognised: %s" % ex
        if not os.path.exists(os.path.join(ROOT, "lean/Pds/Generated/HllData.lean")):
            sys.stderr.write("translate.py: hll_tables: %s\n" % ex); sys.exit(1)
    # translated arithmetic kernels (logic, not constants): one generated module per group, so that a group
    # that is no longer recognised (or no longer provably equal to the model) breaks only its own tie
    sys.path.insert(0, os.path.join(ROOT, "tools"))
    import kernels_spec
    for name in kernels_spec.GROUPS:
        kpath = os.path.join(ROOT, "lean/Pds/Generated/Kernels/%s.lean" % kernels_spec.MODULE[name])
        head = ["/- GENERATED by tools/translate.py (tools/rustkern.py) from function bodies in /repo/src; do not edit.",
                "   Each definition is proved equal to the hand-written model's function in Pds/Proofs/KernelTie/. -/",
                "import Pds.Model.KernelOps"] + ["import " + m for m in kernels_spec.LEAN_IMPORTS.get(name, [])] + ["import Pds.Generated.Kernels." + m for m in kernels_spec.IMPORTS.get(name, [])] + [
                "set_option linter.unusedVariables false", "namespace Pds.Generated.Kernels", "open Pds", "",
                "variable {α : Type} [Add α] [Sub α] [Mul α] [Div α] [Neg α] [LT α] [LE α] [DecidableLT α] [DecidableLE α] [DecidableEq α] [KOps α]", ""]
        try:
            lines = kernel_group(name)
            status[name] = "ok"
        except (Unrecognised, OSError, ValueError) as ex:
            status[name] = "unrecognised: %s" % ex
            lines = previous_group(kpath, name)
            if lines is None:
                sys.stderr.write("translate.py: %s: %s (and no previous output to keep)\n" % (name, ex)); sys.exit(1)
        write_if_changed(kpath, "\n".join(head + ["-- group: " + name] + lines + ["-- end group: " + name, "", "end Pds.Generated.Kernels", ""]))
    os.makedirs(os.path.join(ROOT, "work"), exist_ok=True)
    json.dump(status, open(os.path.join(ROOT, "work", "translate_status.json"), "w"), indent=1)
    for k, v in status.items():
        if v != "ok":
            sys.stderr.write("translate.py: group %s: %s\n" % (k, v))

if __name__ == "__main__":
    main()
