#!/usr/bin/env python3
"""Rewrites the generated part of DESIGN.md section 12 (between the SEEDED-TABLE markers) from
seeded/*/meta.json and seeded/RESULTS.json."""
import json, os, subprocess, sys
ROOT = os.path.dirname(os.path.dirname(os.path.abspath(__file__)))
res = json.load(open(os.path.join(ROOT, "seeded", "RESULTS.json")))
ids = sorted(d for d in os.listdir(os.path.join(ROOT, "seeded")) if os.path.isdir(os.path.join(ROOT, "seeded", d)))
pairs = [(i, p, r) for i in ids for p, r in sorted(res.get(i, {}).items())]
caught = [x for x in pairs if x[2]["detected"]]
with_input = [x for x in caught if x[2]["failing_input"]]
missed = [x for x in pairs if not x[2]["detected"]]
norun = [i for i in ids if i not in res]
summary = ("Summary (generated): %d seeded changes (%d reversals of repairs, %d written by independent sub-agents), "
           "%d (change, property) pairs run; %d caught by the quick check of the property, %d of them with a concrete "
           "failing input as the replay, %d by a broken correspondence or proof obligation only; not caught: %s.%s\n" % (
    len(ids), len([i for i in ids if i.startswith("R")]), len([i for i in ids if not i.startswith("R")]),
    len(pairs), len(caught), len(with_input), len(caught) - len(with_input),
    ", ".join("`%s`" % x[0] for x in missed) or "none",
    (" Not yet run: %s." % ", ".join(norun)) if norun else ""))
table = subprocess.run([sys.executable, os.path.join(ROOT, "tools", "seeded_table.py")], capture_output=True, text=True).stdout
p = os.path.join(ROOT, "DESIGN.md")
s = open(p).read()
a = s.index("<!-- SEEDED-TABLE-BEGIN -->") + len("<!-- SEEDED-TABLE-BEGIN -->")
b = s.index("<!-- SEEDED-TABLE-END -->")
s = s[:a] + "\n" + summary + "\n" + table + s[b:]
open(p, "w").write(s)
print(summary)
