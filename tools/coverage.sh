#!/bin/bash
# usage: tools/coverage.sh [tier]      (not a registered command; scratch output under /tmp/pds-cov, removed at the end)
# Measures which lines of /repo/src the correspondence runs actually execute: builds the harness with
# -C instrument-coverage (nightly toolchain: llvm-profdata / llvm-cov ship with it), runs the generator of
# every property once, merges the profiles and prints llvm-cov's per-file report plus the lines never executed.
set -e
TIER=${1:-quick}
W=/tmp/pds-cov
B=$(dirname "$(rustup which --toolchain nightly rustc)")/../lib/rustlib/x86_64-unknown-linux-gnu/bin
rm -rf $W && mkdir -p $W/prof $W/out
# build from a scratch copy of /repo so that no profile file is dropped into /repo by build scripts
(cd /verif/harness && CARGO_NET_OFFLINE=true RUSTFLAGS="-C instrument-coverage" LLVM_PROFILE_FILE=$W/prof/build-%p.profraw CARGO_TARGET_DIR=$W/target cargo +nightly build --release --offline >/dev/null 2>&1)
rm -f $W/prof/build-*.profraw
for i in 01 02 03 04 05 06 07 08 09 10 11 12 13 14 15 16 17 18 19 20; do
  LLVM_PROFILE_FILE=$W/prof/C$i-%p.profraw $W/target/release/pds-harness gen C$i $TIER 1 $W/out/C$i >/dev/null 2>&1 &
done
wait
$B/llvm-profdata merge -sparse $W/prof/*.profraw -o $W/all.profdata
$B/llvm-cov report $W/target/release/pds-harness -instr-profile=$W/all.profdata --sources /repo/src 2>/dev/null
echo "--- lines of /repo/src never executed by any generator ---"
$B/llvm-cov show $W/target/release/pds-harness -instr-profile=$W/all.profdata --sources /repo/src --show-line-counts-or-regions 2>/dev/null | grep -E "^/repo|^\s+[0-9]+\|\s+0\|" | grep -B1 -E "^\s+[0-9]+\|\s+0\|" | grep -v "^--"
rm -rf $W
