import Pds.Model.Script
import Pds.Model.Hll
import Pds.Model.HllCount
import Pds.Driver
