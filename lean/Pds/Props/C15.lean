import Pds.Proofs.TDigestShape
import Mathlib.Algebra.Order.Field.Rat
import Mathlib.Tactic.NormNum
/-!
# C15 — shape of the t-digest `quantile` and `cdf` (in exact arithmetic)

Model: `Pds.TDigest` (`src/tdigest.rs`) over an arbitrary linearly ordered field `α`; every statement
holds for every scale function `sf` and every `maxBacklog`.  Histories (`run`, `Op`, `inserted`) are
as in C16.  `WF s` describes a merged state: empty backlog, positive weights, means sorted, and —
when there are centroids — `min`/`max` set with every mean in `[min, max]`.
`quantileInner`/`cdfInner` are what `quantile`/`cdf` evaluate after `merge`.
-/
set_option linter.unusedSectionVars false
namespace Pds.Props.C15
open Pds.TDigest Pds.PL
variable {α : Type} [Field α] [LinearOrder α] [IsStrictOrderedRing α]

/-! ### well-formedness of reachable states -/

/-- The greedy pass of `merge` keeps a list sorted by mean sorted (weights positive): the mean of a
fused centroid lies between the two means. -/
theorem merge_sorted (sf : ScaleFn α) (n : Nat) (S : α) (rest : List (Centroid α)) (cur : Centroid α)
    (q0 ql : α) (hp : ∀ c ∈ cur :: rest, 0 < c.count) (hs : SortedMean (cur :: rest)) :
    SortedMean (mergeLoop sf n S rest cur q0 ql []) := by
  rw [mergeLoop_eq]; exact (ml_fused sf n S rest cur q0 ql).sorted hp hs

/-- `reachable_wf`: after any history, the state seen by a read is well formed. -/
theorem reachable_wf (sf : ScaleFn α) {mb : Nat} {ops : List (Op α)} {s : St α}
    (h : run sf (new mb) ops = some s) : WF (merge sf s) :=
  wf_reachable sf h

/-- What `WF` says, spelled out. -/
theorem wf_iff (s : St α) : WF s ↔
    s.backlog = [] ∧ (∀ c ∈ s.centroids, 0 < c.count) ∧
    s.centroids.Pairwise (fun a b => a.mean ≤ b.mean) ∧
    (s.centroids ≠ [] → ∃ mn mx, s.min = some mn ∧ s.max = some mx ∧
      ∀ c ∈ s.centroids, mn ≤ c.mean ∧ c.mean ≤ mx) :=
  ⟨fun h => ⟨h.1, h.2, h.3, h.4⟩, fun h => ⟨h.1, h.2.1, h.2.2.1, h.2.2.2⟩⟩

/-! ### quantile -/

/-- `interpolate` without clamping: for `0 ≤ t ≤ 1` the clamp is the identity. -/
theorem interpolate_no_clamp {a b t : α} (h0 : 0 ≤ t) (h1 : t ≤ 1) :
    interpolate a b t = t * b + (1 - t) * a :=
  interpolate_of_mem h0 h1

/-- `mean_clamp_inactive`: on a well-formed state every centroid mean lies in `[min, max]`, so the
clamp `clamped_mean` applied by `quantile` and `cdf` when they read a mean is the identity (in exact
arithmetic); the piecewise-linear characterisations below are therefore in terms of the raw means. -/
theorem mean_clamp_inactive {s : St α} (h : WF s) {mn mx : α} (hmin : s.min = some mn)
    (hmax : s.max = some mx) {c : Centroid α} (hc : c ∈ s.centroids) :
    clampedMean mn mx c = c.mean :=
  clampedMean_eq_of_wf h hmin hmax hc

/-- On a non-empty well-formed state and `0 ≤ q ≤ 1`, `quantile` never panics (the `i > 0`
assertion cannot fire, `min`/`max` are set) and returns the *unclamped* piecewise-linear
interpolation through the knots `(0, min), (w₀/2, mean₀), (w₀ + w₁/2, mean₁), …, (S, max)` at
`S·q` — so the clamp of `interpolate` is the identity at every call site (`0 ≤ t ≤ 1` there). -/
theorem quantile_eq_interpolation {s : St α} (h : WF s) (hne : s.centroids ≠ []) :
    ∃ c0 cs mn mx, s.centroids = c0 :: cs ∧ s.min = some mn ∧ s.max = some mx ∧
      ∀ q, 0 ≤ q → q ≤ 1 →
        quantileInner s q = .val (plLE (0, mn) (knots mx 0 (c0 :: cs)) (sumCount (c0 :: cs) * q)) := by
  obtain ⟨c0, cs, mn, mx, sh⟩ := h.shape hne
  exact ⟨c0, cs, mn, mx, sh.hc, sh.hmin, sh.hmax, fun q h0 h1 => sh.quantile_eq h0 h1⟩

/-- `quantile` returns a value (never `.panic`, never `.nan`). -/
theorem quantile_no_panic {s : St α} (h : WF s) (hne : s.centroids ≠ []) {q : α} (hq0 : 0 ≤ q) (hq1 : q ≤ 1) :
    ∃ v, quantileInner s q = .val v := by
  obtain ⟨c0, cs, mn, mx, sh⟩ := h.shape hne
  exact ⟨_, sh.quantile_eq hq0 hq1⟩

/-- The result lies in `[min, max]`. -/
theorem quantile_in_range {s : St α} (h : WF s) {q v mn mx : α} (hq0 : 0 ≤ q) (hq1 : q ≤ 1)
    (hv : quantileInner s q = .val v) (hmin : s.min = some mn) (hmax : s.max = some mx) :
    mn ≤ v ∧ v ≤ mx := by
  have hne : s.centroids ≠ [] := by
    intro e; rw [quantileInner_nil e] at hv; cases hv
  obtain ⟨c0, cs, mn', mx', sh⟩ := h.shape hne
  rw [sh.quantile_eq hq0 hq1] at hv
  cases hv
  have e1 : mn = mn' := by have := sh.hmin; rw [hmin] at this; exact Option.some.inj this
  have e2 : mx = mx' := by have := sh.hmax; rw [hmax] at this; exact Option.some.inj this
  subst e1 e2
  exact ⟨sh.qv_ge hq0, sh.qv_le hq0⟩

/-- `quantile(0) = min`. -/
theorem quantile_zero {s : St α} (h : WF s) (hne : s.centroids ≠ []) :
    ∃ mn, s.min = some mn ∧ quantileInner s 0 = .val mn := by
  obtain ⟨c0, cs, mn, mx, sh⟩ := h.shape hne
  exact ⟨mn, sh.hmin, by rw [sh.quantile_eq le_rfl zero_le_one, sh.qv_zero]⟩

/-- `quantile(1) = max`. -/
theorem quantile_one {s : St α} (h : WF s) (hne : s.centroids ≠ []) :
    ∃ mx, s.max = some mx ∧ quantileInner s 1 = .val mx := by
  obtain ⟨c0, cs, mn, mx, sh⟩ := h.shape hne
  exact ⟨mx, sh.hmax, by rw [sh.quantile_eq zero_le_one le_rfl, sh.qv_one]⟩

/-- `quantile` is monotone in `q`. -/
theorem quantile_mono {s : St α} (h : WF s) {q₁ q₂ v₁ v₂ : α} (h0 : 0 ≤ q₁) (h12 : q₁ ≤ q₂) (h1 : q₂ ≤ 1)
    (hv₁ : quantileInner s q₁ = .val v₁) (hv₂ : quantileInner s q₂ = .val v₂) : v₁ ≤ v₂ := by
  have hne : s.centroids ≠ [] := by
    intro e; rw [quantileInner_nil e] at hv₁; cases hv₁
  obtain ⟨c0, cs, mn, mx, sh⟩ := h.shape hne
  rw [sh.quantile_eq h0 (le_trans h12 h1)] at hv₁
  rw [sh.quantile_eq (le_trans h0 h12) h1] at hv₂
  cases hv₁; cases hv₂
  exact sh.qv_mono h0 h12

/-! ### cdf -/

/-- On a non-empty well-formed state `cdf` never panics; for `min ≤ x` it is the unclamped
interpolation through the swapped knots `(min, 0), (mean₀, w₀/2), …, (max, S)` (first knot with
`x < abscissa`), divided by `S`.  No division by zero is reachable: in the selected segment
`lastMean ≤ x < c.mean`, so `delta > 0` even when several centroids share a mean. -/
theorem cdf_eq_interpolation {s : St α} (h : WF s) (hne : s.centroids ≠ []) :
    ∃ c0 cs mn mx, s.centroids = c0 :: cs ∧ s.min = some mn ∧ s.max = some mx ∧
      (∀ x, x < mn → cdfInner s x = some 0) ∧
      ∀ x, mn ≤ x →
        cdfInner s x = some (plLT (mn, 0) (swap (knots mx 0 (c0 :: cs))) x / sumCount (c0 :: cs)) := by
  obtain ⟨c0, cs, mn, mx, sh⟩ := h.shape hne
  exact ⟨c0, cs, mn, mx, sh.hc, sh.hmin, sh.hmax, fun x hx => sh.cdf_lt hx, fun x hx => sh.cdf_eq hx⟩

/-- `cdf` returns a value in `[0, 1]` (on any well-formed state, empty or not). -/
theorem cdf_in_unit {s : St α} (h : WF s) (x : α) : ∃ v, cdfInner s x = some v ∧ 0 ≤ v ∧ v ≤ 1 := by
  by_cases hne : s.centroids = []
  · exact ⟨0, cdfInner_nil hne x, le_rfl, zero_le_one⟩
  · obtain ⟨c0, cs, mn, mx, sh⟩ := h.shape hne
    rcases lt_or_ge x mn with hx | hx
    · exact ⟨0, sh.cdf_lt hx, le_rfl, zero_le_one⟩
    · exact ⟨_, sh.cdf_eq hx, sh.cv_nonneg hx, sh.cv_le_one hx⟩

/-- `cdf(x) = 0` below `min`. -/
theorem cdf_below_min {s : St α} (h : WF s) (hne : s.centroids ≠ []) {x mn : α} (hmin : s.min = some mn)
    (hx : x < mn) : cdfInner s x = some 0 := by
  obtain ⟨c0, cs, mn', mx, sh⟩ := h.shape hne
  have e1 : mn = mn' := by have := sh.hmin; rw [hmin] at this; exact Option.some.inj this
  subst e1
  exact sh.cdf_lt hx

/-- `cdf(x) = 1` from `max` on. -/
theorem cdf_above_max {s : St α} (h : WF s) (hne : s.centroids ≠ []) {x mx : α} (hmax : s.max = some mx)
    (hx : mx ≤ x) : cdfInner s x = some 1 := by
  obtain ⟨c0, cs, mn, mx', sh⟩ := h.shape hne
  have e2 : mx = mx' := by have := sh.hmax; rw [hmax] at this; exact Option.some.inj this
  subst e2
  rw [sh.cdf_eq (le_trans sh.mnmx hx), sh.cv_ge_max hx]

/-- `cdf` is monotone in `x`. -/
theorem cdf_mono {s : St α} (h : WF s) {x₁ x₂ v₁ v₂ : α} (h12 : x₁ ≤ x₂)
    (hv₁ : cdfInner s x₁ = some v₁) (hv₂ : cdfInner s x₂ = some v₂) : v₁ ≤ v₂ := by
  by_cases hne : s.centroids = []
  · rw [cdfInner_nil hne] at hv₁ hv₂; cases hv₁; cases hv₂; exact le_rfl
  · obtain ⟨c0, cs, mn, mx, sh⟩ := h.shape hne
    rcases lt_or_ge x₁ mn with hx | hx
    · rw [sh.cdf_lt hx] at hv₁; cases hv₁
      obtain ⟨v, e, h0, _⟩ := cdf_in_unit h x₂
      rw [e] at hv₂; cases hv₂; exact h0
    · rw [sh.cdf_eq hx] at hv₁
      rw [sh.cdf_eq (le_trans hx h12)] at hv₂
      cases hv₁; cases hv₂
      exact sh.cv_mono hx h12

/-- `cdf_quantile`: when the knot ordinates are strictly increasing
(`min < mean₀ < … < mean_last < max`), `cdf` inverts `quantile` on `[0, 1]`. -/
theorem cdf_quantile {s : St α} (h : WF s) (hk : StrictKnots s) {q v : α} (hq0 : 0 ≤ q) (hq1 : q ≤ 1)
    (hv : quantileInner s q = .val v) : cdfInner s v = some q := by
  have hne : s.centroids ≠ [] := by
    intro e; rw [quantileInner_nil e] at hv; cases hv
  obtain ⟨c0, cs, mn, mx, sh⟩ := h.shape hne
  rw [sh.quantile_eq hq0 hq1] at hv
  cases hv
  rw [sh.cdf_eq (sh.qv_ge hq0), sh.cv_qv hk hq0 hq1]

/-! ### reads are idempotent; empty digest -/

/-- `merge` is idempotent … -/
theorem merge_idempotent (sf : ScaleFn α) (s : St α) : merge sf (merge sf s) = merge sf s :=
  merge_merge sf s

/-- … so repeating a read returns the same value and the same state. -/
theorem reads_idempotent (sf : ScaleFn α) (s : St α) (q x : α) :
    quantile sf (quantile sf s q).1 q = quantile sf s q ∧
    cdf sf (cdf sf s x).1 x = cdf sf s x ∧
    count sf (count sf s).1 = count sf s ∧
    sum sf (sum sf s).1 = sum sf s ∧
    mean sf (mean sf s).1 = mean sf s ∧
    nCentroids sf (nCentroids sf s).1 = nCentroids sf s := by
  refine ⟨?_, ?_, ?_, ?_, ?_, ?_⟩
  · unfold quantile; split <;> simp [*, merge_merge]
  all_goals simp [cdf, count, sum, mean, nCentroids, merge_merge]

/-- An empty digest answers `NaN` / `0`. -/
theorem empty_reads (sf : ScaleFn α) {mb : Nat} {ops : List (Op α)} {s : St α}
    (h : run sf (new mb) ops = some s) (he : inserted ops = []) (q x : α) (hq : 0 ≤ q ∧ q ≤ 1) :
    (quantile sf s q).2 = .nan ∧ (cdf sf s x).2 = some 0 := by
  have hi := inv_merge sf (inv_reachable sf h)
  have hc : (merge sf s).centroids = [] := by
    have := hi.emp.2 he
    simpa using (List.append_eq_nil_iff.1 this).1
  simp only [quantile, hq, and_self, if_true, cdf]
  exact ⟨quantileInner_nil hc q, cdfInner_nil hc x⟩

/-! ### end to end -/

/-- After any history with at least one positive-weight insertion (since creation / `clear`), the
public `quantile(q)`, `0 ≤ q ≤ 1`, returns a value between the least and the greatest inserted value,
and the public `cdf(x)` a value in `[0, 1]`. -/
theorem reads_reachable (sf : ScaleFn α) {mb : Nat} {ops : List (Op α)} {s : St α}
    (h : run sf (new mb) ops = some s) (hne : inserted ops ≠ []) {q : α} (hq0 : 0 ≤ q) (hq1 : q ≤ 1) (x : α) :
    (∃ v mn mx, (quantile sf s q).2 = .val v ∧ s.min = some mn ∧ s.max = some mx ∧ mn ≤ v ∧ v ≤ mx) ∧
    (∃ v, (cdf sf s x).2 = some v ∧ 0 ≤ v ∧ v ≤ 1) := by
  have hw := reachable_wf sf h
  have hc : (merge sf s).centroids ≠ [] := by
    intro e
    have := (inv_merge sf (inv_reachable sf h)).emp.1 (by simp [e])
    exact hne this
  obtain ⟨v, hv⟩ := quantile_no_panic hw hc hq0 hq1
  obtain ⟨mn, mx, hmin, hmax, _⟩ := hw.bounds hc
  have hr := quantile_in_range hw hq0 hq1 hv hmin hmax
  rw [merge_min] at hmin; rw [merge_max] at hmax
  refine ⟨⟨v, mn, mx, ?_, hmin, hmax, hr⟩, ?_⟩
  · simp only [quantile, hq0, hq1, and_self, if_true]; exact hv
  · exact cdf_in_unit hw x

/-! ### non-vacuity (over ℚ) -/

/-- three centroids (weights 2, 1, 4; means 1, 3, 5), `min = 0`, `max = 6`, total weight 7;
knots `(0,0), (1,1), (5/2,3), (5,5), (7,6)` -/
def ex : St ℚ := ⟨[⟨2, 2⟩, ⟨3, 1⟩, ⟨20, 4⟩], 3, some 0, some 6, [], 10⟩

theorem ex_wf : WF ex := by
  refine ⟨rfl, ?_, ?_, ?_⟩
  · simp [ex]
  · simp [ex, SortedMean, Centroid.mean]; norm_num
  · intro _; refine ⟨0, 6, rfl, rfl, ?_⟩
    simp [ex, Centroid.mean]; norm_num

theorem ex_strict : StrictKnots ex := by
  refine ⟨?_, ?_⟩
  · simp [ex, StrictSortedMean, Centroid.mean]; norm_num
  · intro mn mx h1 h2
    simp only [ex, Option.some.injEq] at h1 h2
    subst h1 h2
    simp [ex, Centroid.mean]; norm_num

example : quantileInner ex (1 / 2) = .val (19 / 5) := by
  norm_num [quantileInner, quantileLoop, interpolate, clampedMean, totalCount, half, Centroid.mean, ex]
example : quantileInner ex (1 / 14) = .val (1 / 2) := by
  norm_num [quantileInner, quantileLoop, interpolate, clampedMean, totalCount, half, Centroid.mean, ex]
example : quantileInner ex (13 / 14) = .val (23 / 4) := by
  norm_num [quantileInner, quantileLoop, interpolate, clampedMean, totalCount, half, Centroid.mean, ex,
    List.getLast?]
example : cdfInner ex (19 / 5) = some (1 / 2) := by
  norm_num [cdfInner, cdfLoop, interpolate, clampedMean, totalCount, half, Centroid.mean, ex]
example : cdfInner ex (19 / 5) = some (1 / 2) :=
  cdf_quantile ex_wf ex_strict (by norm_num) (by norm_num)
    (by norm_num [quantileInner, quantileLoop, interpolate, clampedMean, totalCount, half, Centroid.mean, ex])
example : ∃ mn, ex.min = some mn ∧ quantileInner ex 0 = .val mn := quantile_zero ex_wf (by simp [ex])
example : ∃ mx, ex.max = some mx ∧ quantileInner ex 1 = .val mx := quantile_one ex_wf (by simp [ex])


/-- a reachable state: four unit insertions and a read with `K0`, `δ = 4` -/
theorem ex_run : run (k0 (4 : ℚ)) (new 10) [.insert 1 1, .insert 4 1, .insert 3 1, .insert 2 1, .read]
    = some ⟨[⟨3, 2⟩, ⟨7, 2⟩], 4, some 1, some 4, [], 10⟩ := by
  norm_num [run, step, insertWeighted, merge, List.mergeSort, List.MergeSort.Internal.splitInTwo,
    List.merge, mergeLoop, k0, Centroid.fuse, Centroid.mean, new, minOpt, maxOpt, totalCount]
  intro h; simp at h

example : WF (merge (k0 (4 : ℚ)) ⟨[⟨3, 2⟩, ⟨7, 2⟩], 4, some 1, some 4, [], 10⟩) := reachable_wf _ ex_run

example : quantileInner (⟨[⟨3, 2⟩, ⟨7, 2⟩], 4, some 1, some 4, [], 10⟩ : St ℚ) (1 / 2) = .val (5 / 2) := by
  norm_num [quantileInner, quantileLoop, interpolate, clampedMean, totalCount, half, Centroid.mean]

end Pds.Props.C15
