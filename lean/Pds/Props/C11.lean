import Pds.Model.Alloc
import Pds.Model.Bloom
import Pds.Model.Cms
import Pds.Model.Cuckoo
import Pds.Model.Quotient
import Pds.Model.Reservoir
import Pds.Proofs.Hll
import Pds.Props.C18
import Pds.Props.C04
import Pds.Props.C09
import Pds.Props.C10
/-!
# C11 — memory is bounded by the configuration, not by the stream

Two kinds of statements.  (1) The block arithmetic of the packed tables is tight: a vector of `len`
elements of `e` bits costs `e·len` bits rounded up to one 64-bit block — this is what failed before
the `all_zero_intvector` fix (`⌈64·len/e⌉` blocks, i.e. `4096/e²` times too many).  (2) The number of
stored machine items of each model state is a function of the configuration alone and is preserved
by every operation.  The tie to the real heap is the counting-allocator measurement (`mem.*` ops are
compared byte for byte with `Alloc.cuckooBytes`/`qfBytes`; the sweep over all nine structures is in
the harness' experiment).
-/
namespace Pds.Props.C11
open Pds

/-- The packed vector costs exactly `e·len` bits rounded up to a whole 64-bit block. -/
theorem nblocks_tight (e len : Nat) :
    e * len ≤ 64 * Alloc.nBlocks e len ∧ 64 * Alloc.nBlocks e len < e * len + 64 := by
  unfold Alloc.nBlocks
  simp only
  split <;> omega

/-- … so a cuckoo table of `slots` fingerprints of `l` bits holds at most `slots·l/8 + 8` bytes. -/
theorem cuckoo_bytes_bound (bs nb lf : Nat) :
    8 * (nb * bs * lf) ≤ 64 * Alloc.cuckooBytes bs nb lf ∧
    64 * Alloc.cuckooBytes bs nb lf < 8 * (nb * bs * lf) + 512 := by
  have h := nblocks_tight lf (nb * bs)
  unfold Alloc.cuckooBytes
  have e : lf * (nb * bs) = nb * bs * lf := by rw [Nat.mul_comm]
  omega

/-- … and a quotient filter with `2^q` slots and `r`-bit remainders holds at most
`slots·(r+3)/8` bytes plus rounding (three bit sets in 128-bit blocks, one packed vector). -/
theorem qf_bytes_bound (q r : Nat) :
    8 * Alloc.qfBytes q r ≤ 2 ^ q * (r + 3) + 3 * 128 + 64 ∧ 2 ^ q * (r + 3) ≤ 8 * Alloc.qfBytes q r := by
  have h := nblocks_tight r (2 ^ q)
  unfold Alloc.qfBytes Alloc.bitsetBytes
  have e : r * 2 ^ q = 2 ^ q * r := Nat.mul_comm _ _
  have d := Nat.div_add_mod (2 ^ q + 127) 128
  have m := Nat.mod_lt (2 ^ q + 127) (by omega : 128 > 0)
  have e2 : 2 ^ q * (r + 3) = 2 ^ q * r + 3 * 2 ^ q := by rw [Nat.mul_add, Nat.mul_comm (2 ^ q) 3]
  omega

/-- The pre-fix arithmetic (`⌈64·len/e⌉` blocks) is not tight: 8-bit elements, 8 of them. -/
example : ¬ ((64 * 8 + 7) / 8 * 64 < 8 * 8 + 64) := by decide

/-- Bloom filter: the bit array keeps its length `m` under every operation. -/
theorem bloom_size_invariant (hash : List Nat → Nat) (s : Bloom.St) :
    (∀ x s' r, Bloom.insert hash s x = some (s', r) → s'.m = s.m) ∧
    (∀ o s', Bloom.union s o = some s' → s'.m = s.m) ∧ (Bloom.clear s).m = s.m := by
  refine ⟨?_, ?_, ?_⟩
  · intro x s' r h
    unfold Bloom.insert at h
    split at h
    · cases h
    · rename_i ps _
      split at h
      · cases h
      · rename_i bits was hp
        cases h
        -- putAll preserves the size
        have : ∀ (ps : List Nat) (b : Array Bool) (w : Bool) b' w',
            Bloom.putAll b ps w = some (b', w') → b'.size = b.size := by
          intro ps
          induction ps with
          | nil => intro b w b' w' h; simp [Bloom.putAll] at h; rw [h.1]
          | cons p ps ih =>
            intro b w b' w' h
            unfold Bloom.putAll at h
            split at h
            · have := ih _ _ _ _ h; simpa using this
            · cases h
        exact this _ _ _ _ _ hp
  · intro o s' h
    unfold Bloom.union at h
    split at h
    · rename_i hc
      cases h
      simp [Bloom.St.m] at hc ⊢
      omega
    · cases h
  · simp [Bloom.clear, Bloom.St.m]

/-- CountMinSketch: `clear` rebuilds exactly `w·d` counters. -/
theorem cms_clear_size (s : Cms.St) : (Cms.clear s).table.size = s.w * s.d := by simp [Cms.clear]

/-- HyperLogLog: `2^b` registers after every add and merge (from C17's invariant). -/
theorem hll_size_invariant (s : Hll.St) (hv : Hll.Valid s) (h : Nat) :
    ∃ s', Hll.addHashed s h = some s' ∧ s'.regs.size = 2 ^ s.b := by
  obtain ⟨s', e, v, bb, _⟩ := Hll.addHashed_some hv h
  exact ⟨s', e, by rw [v.2.2, bb]⟩

/-- Cuckoo filter: `clear` keeps the slot count; the constructor allocates `n_buckets·bucketsize`. -/
theorem cuckoo_size (R : Type) (rng : R) (bs nb lf : Nat) (s : Cuckoo.St R)
    (h : Cuckoo.new rng bs nb lf = some s) :
    s.table.size = nb * bs ∧ (Cuckoo.clear s).table.size = nb * bs := by
  unfold Cuckoo.new at h
  split at h
  · cases h; simp [Cuckoo.clear]
  · cases h

/-- Quotient filter: the slot vector has the fixed length `N` by its type (`Vector Slot N`); every
operation of the model returns a state of the same type. -/
theorem quotient_size {N : Nat} (t : Quotient.St N) : t.slots.size = N := by simp

/-- Reservoir: at most `k` items however long the stream is (from C18). -/
theorem reservoir_size {R : Type} {I : Reservoir.RngI R} (hI : Reservoir.Lawful I) {k : Nat} (hk : 0 < k)
    {rng : R} {n : Nat} {s : Reservoir.St R} (h : Reservoir.run I k rng n = some s) : s.res.size ≤ k := by
  rw [Pds.Props.C18.res_length hI hk h]; exact Nat.min_le_right _ _

/-! ## Structures whose size bound is a theorem of another property -/

/-- T-Digest (scale function K0, any ordered field): after any history the backlog holds at most
`max_backlog_size` centroids, and after a read the digest holds fewer than `δ + 1` of them —
`O(δ + max_backlog_size)` whatever the stream length. (K1: C04 `centroid_bound_K1`.) -/
theorem tdigest_size_K0 {α : Type} [Field α] [LinearOrder α] [IsStrictOrderedRing α]
    {δ : α} (hδ : 0 < δ) {mb : Nat} {ops : List (Pds.TDigest.Op α)} {s : Pds.TDigest.St α}
    (h : Pds.TDigest.run (Pds.TDigest.k0 δ) (Pds.TDigest.new mb) ops = some s) :
    s.backlog.length ≤ mb ∧ ((Pds.TDigest.nCentroids (Pds.TDigest.k0 δ) s).2 : α) < δ + 1 :=
  ⟨(Pds.Props.C04.backlog_bound _ h).1, Pds.Props.C04.centroid_bound_K0 hδ h⟩

/-- CMSHeap: both indexes hold at most `k` entries however long the stream is (C10 `heap_size`). -/
theorem cmsheap_size {pos : Nat → List Nat} {k w d cmax : Nat} (hs : Pds.Proofs.Heap.Setup pos k w d)
    {xs : List Nat} (hlen : xs.length ≤ cmax) {s : Pds.CmsHeap.St}
    (hr : Pds.Proofs.Heap.run pos k w d cmax xs = some s) :
    s.obj2count.length ≤ k ∧ (Pds.CmsHeap.iter s).length ≤ k := by
  obtain ⟨h1, _, _, h4⟩ := Pds.Props.C10.heap_size hs hlen hr
  have h := Pds.Props.C10.heap_size_dedup hs hlen hr
  have : (Pds.CmsHeap.iter s).length ≤ k := by rw [h]; exact Nat.min_le_left _ _
  exact ⟨by rw [← h4]; exact this, this⟩

/-- LossyCounter: the documented logarithmic table size (C09 `size_bound`). -/
theorem lossy_size {width : Nat} (hw : 1 ≤ width) (xs : List Nat) :
    ((Pds.Props.C09.counter width xs).known.length : ℚ) ≤
      width * ∑ i ∈ Finset.range ((xs.length + width - 1) / width), (1 : ℚ) / ((i : ℚ) + 1) :=
  Pds.Props.C09.size_bound hw xs

end Pds.Props.C11
