import Pds.Proofs.BloomHist
import Pds.Proofs.BloomRef
import Pds.Props.C14
import Pds.Props.C13
/-!
# C01 — filters never report a false negative (Bloom and HashSet clauses)

Models: `Pds.HashIter` (`src/hash_utils.rs`), `Pds.Bloom` (`src/filters/bloomfilter.rs`); the
`HashSet` reference filter is `Pds.FinsetFilter` (a duplicate-free list).  The hasher is the
parameter `hash : List Nat → Nat`; everything holds for every `hash`.

A Bloom history is a `List Op` with `Op = insert x | union o | clear`, where `o` is an arbitrary
other filter state (whatever it contains); `run hash m k h` replays it on a fresh filter and is
`none` iff some step panics (a `union` with a filter of another shape).
`bit b j = b[j]?.getD false`; `posOf hash m k x` is the position list of `x`.
-/
namespace Pds.Props.C01
open Pds.Bloom Pds.HashIter

/-! ### the position iterator -/

/-- For `m > 0` the iterator yields exactly `k` positions, all `< m`
(index safety of the Bloom filter and of the count-min sketch). -/
theorem positions_spec (hash : List Nat → Nat) {m : Nat} (hm : 0 < m) (k x : Nat) :
    ∃ ps, positions hash m k x = some ps ∧ ps.length = k ∧ ∀ p ∈ ps, p < m :=
  positions_some hash hm k x

/-- The iterator panics (`% 0`) iff `m = 0`. -/
theorem positions_none_iff (hash : List Nat → Nat) (m k x : Nat) :
    positions hash m k x = none ↔ m = 0 :=
  positions_eq_none_iff hash m k x

/-! ### Bloom filter -/

/-- `bloom_no_false_negative`: in every history that does not panic, an `insert x` that is not
followed by a `clear` is reported by `query x` in the final state — whatever else is inserted
and whatever filters are united in between (invariant: every position of every inserted element
is set; bits are monotone under `insert` and `union`). -/
theorem bloom_no_false_negative {hash : List Nat → Nat} {m k : Nat} (hm : 0 < m)
    {pre post : List Op} {x : Nat} {s : St} (hpost : ∀ op ∈ post, op ≠ .clear)
    (hr : run hash m k (pre ++ .insert x :: post) = some s) : query hash s x = some true :=
  no_false_negative hm hpost hr

/-- `insert` and `query` never panic on a filter with `m ≥ 1` bits … -/
theorem bloom_insert_query_total (hash : List Nat → Nat) {s : St} (hm : 0 < s.m) (x : Nat) :
    (insert hash s x).isSome ∧ (query hash s x).isSome :=
  insert_query_total hash hm x

/-- … in particular on every state reached by a history (which keeps `k` and `m`). -/
theorem bloom_reachable_total {hash : List Nat → Nat} {m k : Nat} (hm : 0 < m) {h : List Op} {s : St}
    (hr : run hash m k h = some s) (x : Nat) :
    s.k = k ∧ s.m = m ∧ (insert hash s x).isSome ∧ (query hash s x).isSome :=
  have hs := run_shape hm hr
  ⟨hs.1, hs.2, insert_query_total hash (by rw [hs.2]; exact hm) x⟩

/-- A history panics only at a `union` with a filter of another shape. -/
theorem bloom_step_panics_iff {hash : List Nat → Nat} {s : St} (hm : 0 < s.m) (op : Op) :
    step hash s op = none ↔ ∃ o, op = .union o ∧ ¬ (s.k = o.k ∧ s.m = o.m) := by
  cases op with
  | insert x =>
    obtain ⟨s', r, e, _⟩ := insert_spec hash hm x
    simp [step, e]
  | union o =>
    have := union_isSome_iff s o
    cases h : union s o <;> simp_all [step]
  | clear => simp [step]

/-- `bloom_union_contains_both`: after `union`, every element reported by either operand is
reported by the result. -/
theorem bloom_union_contains_both {hash : List Nat → Nat} {s o u : St} (hm : 0 < s.m)
    (h : union s o = some u) {x : Nat}
    (hx : query hash s x = some true ∨ query hash o x = some true) : query hash u x = some true :=
  union_contains_both hm h hx

/-- `bloom_insert_result`: `insert` returns `false` ("was present") iff all positions of the
element were already set, i.e. iff `query` reported it before. -/
theorem bloom_insert_result {hash : List Nat → Nat} {s s' : St} (hm : 0 < s.m) {x : Nat} {r : Bool}
    (h : insert hash s x = some (s', r)) :
    (r = false ↔ ∀ p ∈ posOf hash s.m s.k x, bit s.bits p = true) ∧
    (r = false ↔ query hash s x = some true) := by
  obtain ⟨s1, r1, e, _, _, _, hr⟩ := insert_spec hash hm x
  rw [h] at e; cases e
  exact ⟨hr, by rw [query_eq_true_iff hash hm]; exact hr⟩

/-! ### the `HashSet` reference filter -/

open Pds.FinsetFilter in
/-- `finset_filter_exact`: the list-as-set filter is exact — membership after `insert` / `union`
is what it should be, `query` is membership, and the list stays duplicate-free. -/
theorem finset_filter_exact (l o : List Nat) (x y : Nat) :
    (FinsetFilter.query l y = true ↔ y ∈ l) ∧
    (FinsetFilter.query (FinsetFilter.insert l x) y = true ↔ y = x ∨ y ∈ l) ∧
    (FinsetFilter.query (FinsetFilter.union l o) y = true ↔ y ∈ l ∨ y ∈ o) ∧
    (l.Nodup → (FinsetFilter.insert l x).Nodup ∧ (FinsetFilter.union l o).Nodup) :=
  ⟨FinsetFilter.query_eq_true_iff l y,
   by rw [FinsetFilter.query_eq_true_iff]; exact mem_insert l x y,
   by rw [FinsetFilter.query_eq_true_iff]; exact mem_union l o y,
   fun h => ⟨nodup_insert h x, nodup_union h o⟩⟩

/-! ### non-vacuity -/

/-- a colliding hasher, `m = 5`, `k = 3`: insert, union with a foreign filter, clear, insert -/
example : (run (fun l => l.sum) 5 3
    [.insert 1, .union ⟨3, #[false, true, false, false, false]⟩, .clear, .insert 7, .insert 2]).bind
    (fun s => query (fun l => l.sum) s 7) = some true := by decide +kernel
/-- after `clear` the earlier element is (here) no longer reported: the hypothesis matters -/
example : (run (fun l => l.sum) 5 3 [.insert 1, .clear]).bind
    (fun s => query (fun l => l.sum) s 1) = some false := by decide
/-- a union with a filter of another shape panics -/
example : run (fun l => l.sum) 5 3 [.insert 1, .union ⟨2, #[false, true, false, false, false]⟩] = none := by
  decide +kernel
/-- `insert` reports "was present" the second time -/
example : (run (fun l => l.sum) 5 3 [.insert 1]).bind (fun s => (insert (fun l => l.sum) s 1).map (·.2)) =
    some false := by decide
example : positions (fun l => l.sum) 5 3 4 = some [1, 2, 3] ∧ positions (fun l => l.sum) 0 3 4 = none := by
  decide
example : FinsetFilter.union [1, 2] [2, 3, 3] = [3, 1, 2] := by decide

/-! ## Cuckoo filter clause (re-exported from the multiset refinement of C14) -/
section Cuckoo
open Pds.Cuckoo
variable {R : Type}

/-- Cuckoo filter: for every hasher, RNG and eviction limit, over any history of insert / delete /
clear / union (with failed inserts and failed unions anywhere), if `x` was inserted successfully
more often than elements of its class were deleted successfully since the last clear, then
`query x` is true. -/
theorem cuckoo_no_false_negative (I : RngI R) (hI : RngOK I) (hash : List Nat → Nat) (kicks : Nat)
    {rng : R} {bs nb lf : Nat} {e s : St R} (hnew : new rng bs nb lf = some e) (ops : List (Op R))
    (hops : ∀ op, op ∈ ops → OpOK hash bs nb lf op) {outs : List Out}
    (hrun : run I hash kicks e ops = some (s, outs)) (x : Nat)
    (hmore : nOkDel hash nb lf (clsOf hash nb lf x) 0 (ops.zip outs) < nOkIns x 0 (ops.zip outs)) :
    query hash s x = some true :=
  Pds.Props.C14.no_false_negatives I hI hash kicks hnew ops hops hrun x hmore

/-- Cuckoo filter: after a successful `union`, every element reported by either operand before is
reported by the result. -/
theorem cuckoo_union_contains_both (I : RngI R) (hI : RngOK I) (hash : List Nat → Nat) (kicks : Nat)
    {s o s' : St R} (hs : Inv hash s) (ho : Inv hash o)
    (hp : s.bs = o.bs ∧ s.nb = o.nb ∧ s.lf = o.lf) {b : Bool}
    (hr : union I hash kicks s o = some (s', .ok b)) (y : Nat)
    (hy : query hash s y = some true ∨ query hash o y = some true) : query hash s' y = some true := by
  obtain ⟨habs, _, hinv', hsp⟩ := Pds.Props.C14.union_ok I hI hash kicks hs ho hp hr
  rw [Pds.Props.C14.query_iff hash hinv', habs, Multiset.mem_add]
  have e1 : clsS hash s' y = clsS hash s y := by
    obtain ⟨h1, h2, h3⟩ := hsp
    simp [clsS, h2, h3]
  have e2 : clsS hash s' y = clsS hash o y := by
    obtain ⟨h1, h2, h3⟩ := hsp
    unfold clsS
    rw [h2, h3, hp.2.1, hp.2.2]
  rcases hy with hy | hy
  · left; rw [e1]; exact (Pds.Props.C14.query_iff hash hs y).mp hy
  · right; rw [e2]; exact (Pds.Props.C14.query_iff hash ho y).mp hy

end Cuckoo

/-! ## Quotient filter clause (from the set refinement of C13) -/
section QuotientFilter
open Pds.Quotient
variable {N : Nat}

/-- Quotient filter: whenever an insert of `(a, r)` returned `Ok` (`true` or `false`) at some point
of a history, the pair is reported present at the end of the history — later inserts, including
ones rejected with `Full`, never remove it. -/
theorem quotient_no_false_negative (hN : 0 < N) (pre post : List (Fin N × Nat)) (a : Fin N) (r : Nat)
    (hok : (specStep (specFrom (∅ : Finset (Fin N × Nat)) pre).1 (a, r)).2 ≠ .full) :
    ∃ t rs sr, runFrom (empty N) (pre ++ (a, r) :: post) = some (t, rs) ∧
      scan t a r false = some sr ∧ sr.present = true := by
  obtain ⟨t, hrun, hrep⟩ := Pds.Props.C13.history_refines hN (pre ++ (a, r) :: post)
  obtain ⟨sr, hs, hp⟩ := Pds.Props.C13.scan_correct hrep a r false
  refine ⟨t, _, sr, hrun, hs, hp.mpr ?_⟩
  -- the specification set only grows, and contains (a, r) right after its insert
  have grow : ∀ (h : List (Fin N × Nat)) (S : Finset (Fin N × Nat)), S ⊆ (specFrom S h).1 := by
    intro h
    induction h with
    | nil => intro S; exact Finset.Subset.refl _
    | cons x xs ih =>
      intro S
      refine Finset.Subset.trans ?_ (ih _)
      unfold specStep
      split
      · exact Finset.Subset.refl _
      · split
        · exact Finset.Subset.refl _
        · exact Finset.subset_insert _ _
  have app : ∀ (h1 h2 : List (Fin N × Nat)) (S : Finset (Fin N × Nat)),
      (specFrom S (h1 ++ h2)).1 = (specFrom (specFrom S h1).1 h2).1 := by
    intro h1
    induction h1 with
    | nil => intro h2 S; rfl
    | cons x xs ih => intro h2 S; simp only [List.cons_append, specFrom]; exact ih h2 _
  rw [app]
  apply grow post
  show (a, r) ∈ (specStep _ (a, r)).1
  revert hok
  unfold specStep
  split
  · intro _; assumption
  · split
    · intro h; exact absurd rfl h
    · intro _; exact Finset.mem_insert_self _ _

/-- Quotient filter: after a successful `union`, every pair stored in either operand is reported
present by the result. -/
theorem quotient_union_contains_both {t o t' : St N} {S So : Finset (Fin N × Nat)}
    (hr : Rep t S) (ho : Rep o So) {b : Bool} (hu : union t o = some (t', .ok b))
    (a : Fin N) (r : Nat) (hmem : (a, r) ∈ S ∨ (a, r) ∈ So) :
    ∃ sr, scan t' a r false = some sr ∧ sr.present = true := by
  rcases Pds.Props.C13.union_correct hr ho with ⟨hfull, _⟩ | ⟨t'', hu', hrep, _, _⟩
  · rw [hfull] at hu; cases hu
  · rw [hu'] at hu
    simp only [Option.some.injEq, Prod.mk.injEq] at hu
    obtain ⟨rfl, _⟩ := hu
    obtain ⟨sr, hs, hp⟩ := Pds.Props.C13.scan_correct hrep a r false
    exact ⟨sr, hs, hp.mpr (Finset.mem_union.mpr hmem)⟩

end QuotientFilter

end Pds.Props.C01
