import Pds.Proofs.SizingReal
import Pds.Proofs.SizingBloom
import Pds.Proofs.SizingCuckoo
import Pds.Props.C01
import Pds.Props.C06
import Pds.Props.C14
import Pds.Props.C13
/-!
# C07 — filters built from accuracy targets (deterministic part)

Sizing models: `Pds.Sizing.bloomParams` (`BloomFilter::with_properties_and_hash`),
`Pds.Sizing.cuckooParams` (`CuckooFilter::with_properties_and_hash_n`), `Pds.Sizing.bloomLen`
(`BloomFilter::len`), read at the carrier `ℝ` (`Pds.Sizing.instTranscReal`: `log = Real.log`,
`log2 = Real.logb 2`, `floorNat = ⌊·⌋₊`, `ceilNat = ⌈·⌉₊`).  Table models: `Pds.Bloom`, `Pds.Cuckoo`.

Proved here: the parameters the constructors compute and the inequalities they satisfy; the
counting facts that turn "a fresh element hashes uniformly" into the advertised false-positive
rate (cuckoo) and the bounds of the cardinality estimator `len` (Bloom).  Not proved: anything
about the distribution of hash values.
-/
namespace Pds.Props.C07
open Pds.Sizing

/-! ### 1. Bloom filter parameters -/

/-- `bloom_params_usable`: for `n ≥ 1`, `0 < p < 1` the constructor's assertions pass and it
computes `k = max 1 ⌊−log₂ p⌋`, `m = max 1 ⌊−n·ln p / (ln 2)²⌋`; both are `≥ 1`,
`k ≤ max 1 (−log₂ p)` and `m ≤ max 1 (−n·ln p/(ln 2)²) < m + 1`. -/
theorem bloom_params_usable {n : ℕ} {p : ℝ} (hn : 1 ≤ n) (hp : 0 < p) (hp1 : p < 1) :
    ∃ k m, bloomParams n p = some (k, m) ∧ 1 ≤ k ∧ 1 ≤ m ∧
      k = max 1 ⌊-Real.logb 2 p⌋₊ ∧
      m = max 1 ⌊-((n : ℝ) * Real.log p) / (Real.log 2 * Real.log 2)⌋₊ ∧
      (k : ℝ) ≤ max 1 (-Real.logb 2 p) ∧ max 1 (-Real.logb 2 p) < (k : ℝ) + 1 ∧
      (m : ℝ) ≤ max 1 (-((n : ℝ) * Real.log p) / (Real.log 2 * Real.log 2)) ∧
      max 1 (-((n : ℝ) * Real.log p) / (Real.log 2 * Real.log 2)) < (m : ℝ) + 1 :=
  ⟨_, _, bloomParams_eq hn hp hp1, le_max_left _ _, le_max_left _ _, rfl, rfl,
    (max_one_floor_bounds (le_of_lt (bloomKReal_pos hp hp1))).1,
    (max_one_floor_bounds (le_of_lt (bloomKReal_pos hp hp1))).2,
    (max_one_floor_bounds (le_of_lt (bloomMReal_pos hn hp hp1))).1,
    (max_one_floor_bounds (le_of_lt (bloomMReal_pos hn hp hp1))).2⟩

/-- the assertions fire exactly when `n = 0 ∨ p ≤ 0 ∨ 1 ≤ p` -/
theorem bloom_params_none_iff (n : ℕ) (p : ℝ) : bloomParams n p = none ↔ n = 0 ∨ p ≤ 0 ∨ 1 ≤ p :=
  bloomParams_eq_none_iff n p

/-- `p = 3/4`: the unclamped `⌊−log₂ 0.75⌋` is `0` (a filter with no hash function, every query
`true`); the constructor returns `k = 1`. -/
theorem bloom_k_three_quarters {n : ℕ} (hn : 1 ≤ n) :
    ⌊-Real.logb 2 (3 / 4 : ℝ)⌋₊ = 0 ∧ ∃ m, bloomParams n (3 / 4 : ℝ) = some (1, m) := by
  refine ⟨bloomK_three_quarters, max 1 ⌊bloomMReal n (3 / 4)⌋₊, ?_⟩
  rw [bloomParams_eq hn (by norm_num) (by norm_num), bloomK_three_quarters]
  rfl

/-- `n = 1, p = 9/10`: the unclamped `⌊−ln 0.9/(ln 2)²⌋ = ⌊0.219…⌋` is `0` (a zero-bit filter,
`% 0` panic); the constructor returns `m = 1`. -/
theorem bloom_m_one_nine_tenths :
    ⌊-(((1 : ℕ) : ℝ) * Real.log (9 / 10)) / (Real.log 2 * Real.log 2)⌋₊ = 0 ∧
      ∃ k, bloomParams 1 (9 / 10 : ℝ) = some (k, 1) := by
  refine ⟨bloomM_one_nine_tenths, max 1 ⌊bloomKReal (9 / 10)⌋₊, ?_⟩
  rw [bloomParams_eq (le_refl 1) (by norm_num) (by norm_num), bloomM_one_nine_tenths]
  rfl

/-! ### 2. cuckoo filter parameters -/

/-- `next_power_of_two`: a power of two, at least the argument, and below twice the argument -/
theorem nextPow2_spec (n : ℕ) :
    ∃ j, nextPow2 n = 2 ^ j ∧ n ≤ nextPow2 n ∧ (2 ≤ n → nextPow2 n < 2 * n) :=
  Pds.Sizing.nextPow2_spec n

/-- `cuckoo_params`: for `b ≥ 1`, `load > 0`, `0 < p < 1`, `n ≥ 1` the assertions pass and
`with_properties` passes `(b, nb, l)` on to the constructor with
* `l = ⌈log₂(2b/p)⌉ ≥ 2`, `2b/p ≤ 2^l`, i.e. the fingerprint-collision bound `2b/2^l ≤ p`;
* `nb = next_power_of_two(⌈n/load⌉)` (the `l` in `costs·n/l` cancels), a power of two with
  `nb ≥ n/load`, and `nb < 2⌈n/load⌉` once `⌈n/load⌉ ≥ 2`.
Note that `nb` counts *buckets* of `b` slots each: the table has `nb·b ≥ b·n/load` slots, `b` times
what the load factor asks for. -/
theorem cuckoo_params {b n : ℕ} {load p : ℝ} (hb : 1 ≤ b) (hl0 : 0 < load) (hp : 0 < p)
    (hp1 : p < 1) (hn : 1 ≤ n) :
    ∃ nb l j, cuckooParams b load p n = some (b, nb, l) ∧ l = ⌈Real.logb 2 (2 * (b : ℝ) / p)⌉₊ ∧
      2 ≤ l ∧ 2 * (b : ℝ) / p ≤ (2 : ℝ) ^ l ∧ 2 * (b : ℝ) / (2 : ℝ) ^ l ≤ p ∧
      nb = nextPow2 ⌈(n : ℝ) / load⌉₊ ∧ nb = 2 ^ j ∧ (n : ℝ) / load ≤ (nb : ℝ) ∧
      (2 ≤ ⌈(n : ℝ) / load⌉₊ → nb < 2 * ⌈(n : ℝ) / load⌉₊) :=
  cuckooParams_spec hb hl0 hp hp1 hn

/-- the argument assertions fire exactly when `n = 0 ∨ p ≤ 0 ∨ 1 ≤ p` -/
theorem cuckoo_params_none_iff (b : ℕ) (load p : ℝ) (n : ℕ) :
    cuckooParams b load p n = none ↔ n = 0 ∨ p ≤ 0 ∨ 1 ≤ p :=
  cuckooParams_eq_none_iff b load p n

/-- remark: the constructor afterwards rejects `l > 64`; `l ≤ 64 ↔ 2b/p ≤ 2^64` -/
theorem cuckoo_l_le_64_iff {b : ℕ} {p : ℝ} (hb : 1 ≤ b) (hp : 0 < p) (hp1 : p < 1) :
    ⌈Real.logb 2 (2 * (b : ℝ) / p)⌉₊ ≤ 64 ↔ 2 * (b : ℝ) / p ≤ (2 : ℝ) ^ 64 :=
  cuckoo_l_le_iff hb hp hp1 64

/-! ### 3. cuckoo filter: counting the pairs answered `true` -/
section
open Pds.Cuckoo
variable {R : Type}

/-- `cuckoo_fp_counting` (every hasher, every well-formed state): `query x` depends on `x` only
through the pair `(bucketOf x, fingerprint x)`, one of the `nb·(2^lf − 1)` pairs of `allPairs`;
the distinct stored classes are at most `len`; each class is hit by at most two pairs (`(i, f)` and
`(i ^^^ bucketOf f, f)`); hence at most `2·len` pairs are answered `true`. -/
theorem cuckoo_fp_counting (hash : List Nat → Nat) {s : St R} (h : Inv hash s) :
    (allPairs s.nb s.lf).card = s.nb * (2 ^ s.lf - 1) ∧
    (∀ x, (bucketOf hash s.nb x, fingerprint hash s.lf x) ∈ allPairs s.nb s.lf ∧
      (query hash s x = some true ↔
        (bucketOf hash s.nb x, fingerprint hash s.lf x) ∈ hitPairs hash s)) ∧
    hitPairs hash s ⊆ allPairs s.nb s.lf ∧
    (abs hash s).toFinset.card ≤ s.n ∧
    (hitPairs hash s).card ≤ 2 * s.n := by
  classical
  refine ⟨card_allPairs _ _, query_iff_hit hash h, ?_, ?_, hitPairs_card_le hash h⟩
  · unfold hitPairs; exact Finset.filter_subset _ _
  · rw [h.2]; exact Multiset.toFinset_card_le _

/-- two pairs per class: equal classes means equal fingerprints and the same pair of buckets -/
theorem cuckoo_class_two_pairs (hash : List Nat → Nat) (nb f g i k : Nat) :
    cls hash nb f i = cls hash nb g k ↔ f = g ∧ (i = k ∨ i = k ^^^ bucketOf hash nb g) :=
  cls_eq_iff hash nb f g i k

end

/-- `cuckoo_rate_bound`: with the `(nb, l)` of `with_properties` and `len ≤ n` stored elements the
fraction `2·len / (nb·(2^l − 1))` of pairs answered `true` is at most `(4/3)·(load/b)·p`.
(The slack `4/3 = 2^l/(2^l − 1)` at `l = 2` comes from the `2^l − 1` non-zero fingerprints; the
bound is `≤ p` iff `load ≤ (3/4)·b`, see `cuckoo_rate_le_p`; for `b = 1, load = 1` it can exceed
`p`: `p = 1/2, n = 4` gives `l = 2, nb = 4` and `2·4/(4·3) = 2/3`. The constructor rejects `b = 1`.) -/
theorem cuckoo_rate_bound {b n len nb l : ℕ} {load p : ℝ} (hb : 1 ≤ b) (hl0 : 0 < load)
    (hp : 0 < p) (hp1 : p < 1) (hn : 1 ≤ n) (hlen : len ≤ n)
    (h : cuckooParams b load p n = some (b, nb, l)) :
    2 * (len : ℝ) / ((nb : ℝ) * ((2 : ℝ) ^ l - 1)) ≤ 4 / 3 * (load / b) * p :=
  Pds.Sizing.cuckoo_rate_bound hb hl0 hp hp1 hn hlen h

/-- for the bucket sizes the constructor accepts (`b ≥ 2`) and `load ≤ 1` the fraction is at most
`(2/3)·load·p ≤ p` -/
theorem cuckoo_rate_le_p {b n len nb l : ℕ} {load p : ℝ} (hb : 2 ≤ b) (hl0 : 0 < load)
    (hl1 : load ≤ 1) (hp : 0 < p) (hp1 : p < 1) (hn : 1 ≤ n) (hlen : len ≤ n)
    (h : cuckooParams b load p n = some (b, nb, l)) :
    2 * (len : ℝ) / ((nb : ℝ) * ((2 : ℝ) ^ l - 1)) ≤ 2 / 3 * load * p ∧ 2 / 3 * load * p ≤ p :=
  Pds.Sizing.cuckoo_rate_le_p hb hl0 hl1 hp hp1 hn hlen h

/-! ### 4. `BloomFilter::len` -/
section
open Pds.Bloom

/-- `t ≤ −ln(1 − t) ≤ t + t²` on `[0, 1/2]` -/
theorem neg_log_one_sub_bounds {t : ℝ} (h0 : 0 ≤ t) (h1 : t ≤ 1 / 2) :
    t ≤ -Real.log (1 - t) ∧ -Real.log (1 - t) ≤ t + t ^ 2 :=
  Pds.Sizing.neg_log_one_sub_bounds h0 h1

/-- `bloom_len_bounds`: for `m > 0`, `k > 0` and `0 ≤ X ≤ m/2` set bits,
`X/k ≤ −(m/k)·ln(1 − X/m) ≤ (X/k)·(1 + X/m)`. -/
theorem bloom_len_bounds {m k X : ℝ} (hm : 0 < m) (hk : 0 < k) (hX0 : 0 ≤ X) (hX : X ≤ m / 2) :
    X / k ≤ (-m) / k * Real.log (1 - X / m) ∧ (-m) / k * Real.log (1 - X / m) ≤ X / k * (1 + X / m) :=
  bloomLenReal_bounds hm hk hX0 hX

/-- the model of `len()` at `ℝ` is the floor of that expression, so for `2X ≤ m`:
`X/k − 1 < len ≤ (X/k)·(1 + X/m)` -/
theorem bloom_len_floor {m k x : ℕ} (hm : 0 < m) (hk : 0 < k) (hx : 2 * x ≤ m) :
    bloomLen (α := ℝ) m k x = ⌊(-(m : ℝ)) / k * Real.log (1 - (x : ℝ) / m)⌋₊ ∧
      (x : ℝ) / k - 1 < (bloomLen (α := ℝ) m k x : ℝ) ∧
      (bloomLen (α := ℝ) m k x : ℝ) ≤ (x : ℝ) / k * (1 + (x : ℝ) / m) :=
  Pds.Sizing.bloomLen_floor hm hk hx

/-- the number of set bits (`count_ones`) of a filter that received the inserts `A` is at most
`k · (number of distinct elements of A)` (each insert sets the `k` positions of
`C01.positions_spec`) and at most `m`. -/
theorem bloom_ones_le (hash : List Nat → Nat) {m : Nat} (hm : 0 < m) (k : Nat) (A : List Nat) :
    ∃ s, run hash m k (inserts A) = some s ∧ s.k = k ∧ s.m = m ∧
      ones s = (setBits s).card ∧ ones s ≤ k * A.toFinset.card ∧ ones s ≤ m := by
  obtain ⟨s, h1, h2, h3, h4, h5⟩ := ones_le hash hm k A
  exact ⟨s, h1, h2, h3, ones_eq_card s, h4, h5⟩

/-- together: while at most half of the bits are set, `len()` (over `ℝ`) is at most
`D·(1 + X/m) ≤ 1.5·D` for `D` distinct inserted elements. -/
theorem bloom_len_le_distinct (hash : List Nat → Nat) {m k : Nat} (hm : 0 < m) (hk : 0 < k)
    (A : List Nat) :
    ∃ s, run hash m k (inserts A) = some s ∧ (2 * ones s ≤ m →
      (bloomLen (α := ℝ) m k (ones s) : ℝ) ≤ (A.toFinset.card : ℝ) * (1 + (ones s : ℝ) / m) ∧
      (bloomLen (α := ℝ) m k (ones s) : ℝ) ≤ 3 / 2 * (A.toFinset.card : ℝ)) :=
  Pds.Bloom.bloomLen_le_distinct hash hm hk A

end

/-! ### non-vacuity -/

/-- `n = 100, p = 1/4`: `k = ⌊2⌋ = 2`, `m = ⌊200/ln 2⌋ = 288` -/
example : bloomParams 100 (1 / 4 : ℝ) = some (2, 288) := by
  rw [bloomParams_eq (by norm_num) (by norm_num) (by norm_num)]
  have h3 := Real.log_two_gt_d9
  have h4 := Real.log_two_lt_d9
  have hl : Real.log (1 / 4) = -(2 * Real.log 2) := by
    rw [one_div, Real.log_inv, show (4 : ℝ) = 2 ^ 2 by norm_num, Real.log_pow]; norm_num
  have e1 : ⌊bloomKReal (1 / 4)⌋₊ = 2 := by
    unfold bloomKReal
    rw [Real.logb, hl, neg_div, neg_neg, mul_div_assoc, div_self (by linarith)]
    norm_num
  have e2 : ⌊bloomMReal 100 (1 / 4)⌋₊ = 288 := by
    unfold bloomMReal
    rw [hl, Nat.floor_eq_iff (by
      apply div_nonneg <;> nlinarith)]
    have hpos : 0 < Real.log 2 * Real.log 2 := by nlinarith
    rw [le_div_iff₀ hpos, div_lt_iff₀ hpos]
    constructor <;> push_cast <;> nlinarith
  rw [e1, e2]; rfl

example : bloomParams 0 (1 / 4 : ℝ) = none := (bloom_params_none_iff _ _).mpr (Or.inl rfl)
example : bloomParams 5 (1 : ℝ) = none := (bloom_params_none_iff _ _).mpr (Or.inr (Or.inr le_rfl))

/-- `b = 4, load = 1/2, p = 1/2, n = 10`: `l = ⌈log₂ 16⌉ = 4`, `nb = next_power_of_two(20) = 32` -/
example : cuckooParams 4 (1 / 2 : ℝ) (1 / 2) 10 = some (4, 32, 4) := by
  obtain ⟨nb, l, j, e, hl, -, -, -, hnb, -⟩ :=
    cuckoo_params (b := 4) (n := 10) (load := 1 / 2) (p := 1 / 2) (by norm_num) (by norm_num)
      (by norm_num) (by norm_num) (by norm_num)
  have e1 : Real.logb 2 (2 * ((4 : ℕ) : ℝ) / (1 / 2)) = 4 := by
    rw [show (2 * ((4 : ℕ) : ℝ) / (1 / 2)) = (2 : ℝ) ^ (4 : ℕ) by norm_num, Real.logb_pow,
      Real.logb_self_eq_one (by norm_num)]
    norm_num
  have e2 : ⌈((10 : ℕ) : ℝ) / (1 / 2)⌉₊ = 20 := by
    rw [show ((10 : ℕ) : ℝ) / (1 / 2) = ((20 : ℕ) : ℝ) by norm_num, Nat.ceil_natCast]
  rw [e1] at hl
  rw [e2] at hnb
  have hl' : l = 4 := by rw [hl, show (4 : ℝ) = ((4 : ℕ) : ℝ) by norm_num, Nat.ceil_natCast]
  have hnb' : nb = 32 := by rw [hnb]; decide
  rw [e, hl', hnb']

example : nextPow2 0 = 1 ∧ nextPow2 1 = 1 ∧ nextPow2 5 = 8 ∧ nextPow2 8 = 8 ∧ nextPow2 9 = 16 := by
  decide

/-- a `2`-slot, `4`-bucket filter holding one fingerprint answers `true` for exactly the two pairs
of its class (out of `4·3 = 12`) -/
example : (Pds.Cuckoo.allPairs 4 2).card = 12 := by decide

/-- the hypothesis `Inv hash s` of `cuckoo_fp_counting` holds for every constructed filter -/
example (hash : List Nat → Nat) :
    ∃ s : Pds.Cuckoo.St Unit, Pds.Cuckoo.Inv hash s ∧
      (Pds.Cuckoo.hitPairs hash s).card ≤ 2 * s.n := by
  obtain ⟨s, hs⟩ := Pds.Props.C14.new_succeeds () (bs := 2) (nb := 4) (lf := 2) (j := 2)
    (by decide) (by decide) (by decide) (by decide) (by decide) (by decide)
  have hi := (Pds.Props.C14.new_valid hash hs).2.2.2.2.1
  exact ⟨s, hi, (cuckoo_fp_counting hash hi).2.2.2.2⟩

/-- the estimator bounds at `m = 100, k = 2, X = 50`: `25 ≤ −50·ln(1/2) ≤ 37.5` -/
example : (50 : ℝ) / 2 ≤ (-100) / 2 * Real.log (1 - 50 / 100) ∧
    (-100 : ℝ) / 2 * Real.log (1 - 50 / 100) ≤ 50 / 2 * (1 + 50 / 100) :=
  bloom_len_bounds (by norm_num) (by norm_num) (by norm_num) (by norm_num)

/-! ## Why the Bloom rate has a floor under enhanced double hashing (open known finding)

`with_properties` sizes `k` and `m` for independent probe positions.  The hash iterator derives
all `k` positions of an element from the two residues `h₁ mod m`, `h₂ mod m`: -/

/-- Two elements whose two base hashes agree modulo `m` probe the same `k` positions, whatever
the hasher and however large `k` is: only `m²` of the `m^k` position tuples are reachable. -/
theorem bloom_double_hashing_same_positions (hash : List Nat → Nat) (m k x y : Nat)
    (h1 : hash [0, x] % m = hash [0, y] % m) (h2 : hash [1, x] % m = hash [1, y] % m) :
    HashIter.positions hash m k x = HashIter.positions hash m k y := by
  unfold HashIter.positions
  split
  · rfl
  · simp only [h1, h2]

/-- Such a pair is indistinguishable to the filter in every state. -/
theorem bloom_double_hashing_same_answer (hash : List Nat → Nat) (s : Pds.Bloom.St) (x y : Nat)
    (h1 : hash [0, x] % s.m = hash [0, y] % s.m) (h2 : hash [1, x] % s.m = hash [1, y] % s.m) :
    Pds.Bloom.query hash s x = Pds.Bloom.query hash s y := by
  unfold Pds.Bloom.query
  rw [bloom_double_hashing_same_positions hash s.m s.k x y h1 h2]

/-- Hence once `y` has been inserted, the never-inserted `x` is a false positive for good — with
probability about `1/m²` per inserted element under a uniform hasher, i.e. a false-positive
frequency of about `n/m²` that no number of hash functions reduces (measured: `exp_c07_floor`,
known finding `C07-bloom-double-hashing-floor`). -/
theorem bloom_double_hashing_false_positive {hash : List Nat → Nat} {m k : Nat} (hm : 0 < m)
    {pre post : List Pds.Bloom.Op} {x y : Nat} {s : Pds.Bloom.St}
    (hpost : ∀ op ∈ post, op ≠ .clear)
    (hr : Pds.Bloom.run hash m k (pre ++ .insert y :: post) = some s) (hsm : s.m = m)
    (h1 : hash [0, x] % m = hash [0, y] % m) (h2 : hash [1, x] % m = hash [1, y] % m) :
    Pds.Bloom.query hash s x = some true := by
  subst hsm
  rw [bloom_double_hashing_same_answer hash s x y h1 h2]
  exact Pds.Props.C01.bloom_no_false_negative hm hpost hr

/-- Non-vacuity: with the sum hasher and 3 bits, elements 1 and 4 probe the same 5 positions. -/
example : HashIter.positions (fun l => l.sum) 3 5 1 = HashIter.positions (fun l => l.sum) 3 5 4 := by
  decide

/-! ## Quotient filter clause (from the set refinement of C13) -/

/-- A quotient filter holding `len` pairs answers `true` for exactly `len` of the `N · 2^r`
(quotient, remainder) pairs (`N = 2^q` slots): a fresh element, whose pair a uniform hash draws
uniformly, is a false positive with frequency exactly `len · 2^-(q+r)` — never more, because no
slot bookkeeping adds positives. -/
theorem quotient_fp_exact {N : Nat} {t : Pds.Quotient.St N} {S : Finset (Fin N × Nat)}
    (hr : Pds.Quotient.Rep t S) (R : Nat) (hR : ∀ p ∈ S, p.2 < R) :
    ((Finset.univ ×ˢ Finset.range R).filter
      (fun p : Fin N × Nat => Pds.Quotient.present t p.1 p.2 = true)).card = t.n :=
  Pds.Props.C13.count_present hr R hR

end Pds.Props.C07
