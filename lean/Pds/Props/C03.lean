import Pds.Proofs.HllCountTotal
import Pds.Proofs.HllCountTables
import Pds.Proofs.HllCountReal
/-!
# C03 — `HyperLogLog::count()`: totality, walk structure, and table calibration

Model: `Pds/Model/HllCount.lean` (validated bit-for-bit against the Rust code).  Floats are opaque to
the kernel, so (A, B) are proved for **every** outcome of the float comparisons (the comparison of
the binary search is a parameter `cmp`; the `<` of the neighbour walk is never inspected), and (C)
is stated over the exact decimals / bit patterns regenerated from `data.rs`, with the bit patterns
tied to the decimals by `bits_match_decimals`.

Notation used in (C): a decimal is `(mantissa, exp)` meaning `mantissa / 10^exp`;
`scaled d = d · 10^18 : Int`; `entry row i = row[i]`; `calC raw bias i` = the integer nearest to
`raw[i] − bias[i]`; rows are `rawDec.getD p #[]` for precision `b = p + 4`.
-/
set_option maxRecDepth 8000
namespace Pds.Props.C03
open Pds.Generated Pds.HllCount

/-! ## A. totality / index safety -/

/-- **count() returns normally for any register contents**, whatever the float comparisons answer:
for every total three-way comparison `cmp`, every sketch with `4 ≤ b ≤ 18`, `2^b` registers, all
registers `< 256` (they are `u8`): no table index is out of range, the `assert!(len >= K)` holds and
the "neighborhood search failed" branch is unreachable. -/
theorem count_total (cmp : Float → Float → Option Cmp) (hc : ∀ v e, (cmp v e).isSome)
    (s : Hll.St) (hb : 4 ≤ s.b ∧ s.b ≤ 18) (hsz : s.regs.size = 2 ^ s.b)
    (hreg : ∀ x ∈ s.regs, x < 256) : (countWith cmp s).isSome :=
  countWith_isSome hc s hb hsz hreg

/-- Instance of `count_total` for the real comparison `partial_cmp`.  `Float` is opaque to the
kernel, so totality of `cmpF` (it fails exactly on NaN operands) cannot be proved and stays a
hypothesis. -/
theorem count_some_of_cmp_total (hc : ∀ v e, (cmpF v e).isSome)
    (s : Hll.St) (hb : 4 ≤ s.b ∧ s.b ≤ 18) (hsz : s.regs.size = 2 ^ s.b)
    (hreg : ∀ x ∈ s.regs, x < 256) : (count s).isSome :=
  countWith_isSome hc s hb hsz hreg

/-- Contrapositive: the only way `count()` can panic on a well-formed sketch is an unordered float
comparison (`partial_cmp(..).unwrap()` on a NaN) in the binary search. -/
theorem count_none_only_nan (s : Hll.St) (hb : 4 ≤ s.b ∧ s.b ≤ 18) (hsz : s.regs.size = 2 ^ s.b)
    (hreg : ∀ x ∈ s.regs, x < 256) (hnone : count s = none) : ∃ v e, cmpF v e = none := by
  apply Classical.byContradiction
  intro hno
  have hc : ∀ v e, (cmpF v e).isSome := by
    intro v e
    cases h : cmpF v e with
    | none => exact absurd ⟨v, e, h⟩ hno
    | some c => rfl
  have := count_some_of_cmp_total hc s hb hsz hreg
  rw [hnone] at this
  cases this

/-- `estimate_bias` never panics for `4 ≤ b ≤ 18` (tables exist, `len ≥ K`, the walk stays in range,
the bias row is as long as the raw row). -/
theorem estimateBias_total (cmp : Float → Float → Option Cmp) (hc : ∀ v e, (cmp v e).isSome)
    (b : Nat) (hb : 4 ≤ b ∧ b ≤ 18) (e : Float) : (estimateBias cmp b e).isSome :=
  estimateBias_isSome hc b hb e

/-- Shapes: 15 rows each, raw and bias rows of equal length `≥ K = 6`; 256 powers; 15 thresholds. -/
theorem table_shapes :
    rawBits.map (·.size) = #[79, 159, 200, 200, 200, 201, 200, 201, 201, 200, 201, 201, 200, 201, 200] ∧
    biasBits.map (·.size) = rawBits.map (·.size) ∧
    rawDec.map (·.size) = rawBits.map (·.size) ∧ biasDec.map (·.size) = rawBits.map (·.size) ∧
    pow2minxBits.size = 256 ∧ thresholds.size = 15 ∧ hllK = 6 :=
  ⟨rawBits_row_sizes, by rw [biasBits_row_sizes, rawBits_row_sizes],
   by rw [rawDec_row_sizes, rawBits_row_sizes], by rw [biasDec_row_sizes, rawBits_row_sizes],
   pow2minxBits_size, thresholds_size, rfl⟩

/-- The binary-search loop keeps `mid` in range and ends with `base < len`. -/
theorem bsLoop_in_range (cmp : Float → Float → Option Cmp) (hc : ∀ v e, (cmp v e).isSome)
    (a : Array Float) (e : Float) (h : 0 < a.size) :
    ∃ base, bsLoop cmp a e a.size a.size 0 = some base ∧ base < a.size := by
  obtain ⟨r, hr, _, hlt⟩ := bsLoop_some hc a e a.size a.size 0 h (by omega)
  exact ⟨r, hr, by omega⟩

/-- `neighbor_search_startpoints` returns in-range cursors which are either an exact hit
`(Some(i), Some(i))` or adjacent around the insertion point (`encL l = encR len r`, i.e.
`(None, Some(0))`, `(Some(i-1), Some(i))` or `(Some(len-1), None)`). -/
theorem startpoints_shape (cmp : Float → Float → Option Cmp) (hc : ∀ v e, (cmp v e).isSome)
    (a : Array Float) (e : Float) :
    ∃ l r, startpoints cmp a e = some (l, r) ∧ (0 < a.size → InRange a.size l r) ∧
      ((∃ i, i < a.size ∧ l = some i ∧ r = some i) ∨ (encL l = encR a.size r ∧ encL l ≤ a.size)) :=
  startpoints_some hc a e

/-- One walk step from in-range cursors with something left: succeeds, returns an index `< len`,
keeps the cursors in range and consumes exactly one position (on the left or on the right). -/
theorem knnStep_consumes_one (a : Array Float) (e : Float) (l r : Option Nat)
    (hr : InRange a.size l r) (hrem : 0 < encL l + (a.size - encR a.size r)) :
    ∃ i l' r', knnStep a e l r = some (i, l', r') ∧ InRange a.size l' r' ∧ i < a.size ∧
      encL l' + (a.size - encR a.size r') + 1 = encL l + (a.size - encR a.size r) := by
  obtain ⟨i, l', r', h, hr', hi, hc⟩ := knnStep_some a e l r hr hrem
  refine ⟨i, l', r', h, hr', hi, ?_⟩
  rcases hc with ⟨h0, _, hL, rfl⟩ | ⟨h0, _, hR, rfl⟩ <;> omega

/-! ## B. structure of the neighbour walk -/

/-- **Window theorem.**  Let `(l, r)` be the result of `startpoints` on an array `a` and `idxs` the
result of `k` walk steps (`0 < k ≤ len`; the code has `k = 6`).  Then `idxs` has `k` entries and
there is a window `lo ≤ hi ≤ len` such that the returned indices are *exactly* the positions
`lo ≤ x < hi` (contiguous, in range).  If the binary search found no exact match (`l ≠ r`): the
window has exactly `k` positions, no index is returned twice, and the window contains the insertion
point (`lo ≤ encL l = encR r ≤ hi`).  If it found an exact match (`l = r = Some(i)`): `i` is
returned, and the window has `k` or `k − 1` positions (in the latter case `i` is returned twice —
what the Rust code does). -/
theorem knn_walk_window (cmp : Float → Float → Option Cmp) (hc : ∀ v e, (cmp v e).isSome)
    (a : Array Float) (e : Float) (k : Nat) (hk : k ≤ a.size) (hk0 : 0 < k)
    {l r : Option Nat} {idxs : List Nat}
    (hsp : startpoints cmp a e = some (l, r)) (hknn : knn a e k l r = some idxs) :
    idxs.length = k ∧
    ∃ lo hi, lo ≤ hi ∧ hi ≤ a.size ∧ (∀ x, x ∈ idxs ↔ lo ≤ x ∧ x < hi) ∧
      (l ≠ r → hi - lo = k ∧ idxs.Nodup ∧ lo ≤ encL l ∧ encL l ≤ hi ∧ encL l = encR a.size r) ∧
      (l = r → ∃ i, l = some i ∧ i ∈ idxs ∧ (hi - lo = k ∨ hi - lo + 1 = k)) :=
  walk_window hc a e k hk hk0 hsp hknn

/-- The hypotheses of `knn_walk_window` are satisfiable for every array with `k ≤ len`: the start
points exist and the walk succeeds with in-range indices. -/
theorem knn_walk_exists (cmp : Float → Float → Option Cmp) (hc : ∀ v e, (cmp v e).isSome)
    (a : Array Float) (e : Float) (k : Nat) (hk : k ≤ a.size) (h0 : 0 < a.size) :
    ∃ l r idxs, startpoints cmp a e = some (l, r) ∧ knn a e k l r = some idxs ∧ idxs.length = k ∧
      ∀ x ∈ idxs, x < a.size :=
  walk_some hc a e k hk h0

/-- `knn_walk_window` applies to every call made by `estimate_bias`: each of the 15 raw rows has at
least `K = 6` entries (and the bias row has the same length), so `k = K` satisfies `0 < k ≤ len`. -/
theorem rows_allow_walk (p : Nat) (hp : p < 15) :
    ∃ lookup bias, rawF[p]? = some lookup ∧ biasF[p]? = some bias ∧ lookup.size = bias.size ∧
      hllK ≤ lookup.size ∧ 0 < hllK := by
  obtain ⟨lookup, bias, h1, h2, h3, h4⟩ := rows_exist hp
  exact ⟨lookup, bias, h1, h2, h3, h4, by decide⟩

/-- The walk in general position: from in-range cursors with `k` positions remaining, `k` steps
return exactly the `j` positions below the left cursor and the `k − j` positions from the right
cursor on, for some `j`. -/
theorem knn_two_runs (a : Array Float) (e : Float) (k : Nat) (l r : Option Nat)
    (hr : InRange a.size l r) (hk : k ≤ encL l + (a.size - encR a.size r)) :
    ∃ idxs j, knn a e k l r = some idxs ∧ idxs.length = k ∧ j ≤ k ∧ j ≤ encL l ∧
      encR a.size r + (k - j) ≤ a.size ∧
      (∀ x, x ∈ idxs ↔ (encL l - j ≤ x ∧ x < encL l) ∨ (encR a.size r ≤ x ∧ x < encR a.size r + (k - j))) ∧
      (encL l ≤ encR a.size r → idxs.Nodup) :=
  knn_some a e k l r hr hk

/-! ## C. calibration of the tables -/

/-- **C1.** For every precision row `p` (`b = p + 4`), `CalRow` holds: raw and bias rows have equal
positive length and decimal exponents `≤ 18`; at every table point
`|raw[i] − bias[i] − c[i]| ≤ 2^b·10^-15` for the integer `c[i] = calC … i`; `c[0] = 1`; successive
differences of `c` are in `{stepLo b, stepHi b} = {max 1 ⌊2^b/40⌋, ⌊2^b/40⌋ + 1}`; and
`c[last] ≤ 5·2^b`.  I.e. at every tabulated raw estimate, raw − bias is the calibrated cardinality. -/
theorem calibration_integral : ∀ p, p < 15 → CalRow (rawDec.getD p #[]) (biasDec.getD p #[]) (p + 4) :=
  calRow_all

/-- C1 unfolded, with the uniform tolerance `10^-9` of the task statement: every entry of
`raw − bias` is within `10^-9` of an integer `c` with `1 ≤ c ≤ 5·2^b`.
(Scale is `10^18`, not `10^15`: some literals have 16 decimals.) -/
theorem calibration_integral_explicit (p : Nat) (hp : p < 15) (i : Nat)
    (hi : i < (rawDec.getD p #[]).size) :
    let r := entry (rawDec.getD p #[]) i
    let b := entry (biasDec.getD p #[]) i
    r.2 ≤ 18 ∧ b.2 ≤ 18 ∧
    ∃ c : Int, (r.1 * 10 ^ (18 - r.2) - b.1 * 10 ^ (18 - b.2) - c * 10 ^ 18).natAbs ≤ 10 ^ 9 ∧
      1 ≤ c ∧ c ≤ 5 * 2 ^ (p + 4) := by
  have h := calRow_all p hp
  have hrange := h.range i hi
  obtain ⟨_, _, hexp, herr, _⟩ := h
  refine ⟨(hexp i hi).1, (hexp i hi).2, calC (rawDec.getD p #[]) (biasDec.getD p #[]) i, ?_, hrange⟩
  have h1 := herr i hi
  have h2 : 1000 * 2 ^ (p + 4) ≤ 10 ^ 9 := by
    have : (2 : Nat) ^ (p + 4) ≤ 2 ^ 18 := Nat.pow_le_pow_right (by omega) (by omega)
    omega
  exact Nat.le_trans h1 h2

/-- the per-row steps named in the task: `{1}` for b = 4, 5; `{1,2}` b = 6; `{3,4}`; `{6,7}`;
`{12,13}`; `{25,26}`; `{51,52}`; `{102,103}`; `{204,205}`; `{409,410}`; `{819,820}`; `{1638,1639}`;
`{3276,3277}`; `{6553,6554}`. -/
theorem calibration_steps :
    (List.range 15).map (fun p => (stepLo (p + 4), stepHi (p + 4))) =
      [(1, 1), (1, 1), (1, 2), (3, 4), (6, 7), (12, 13), (25, 26), (51, 52), (102, 103), (204, 205),
       (409, 410), (819, 820), (1638, 1639), (3276, 3277), (6553, 6554)] := by
  decide +kernel

/-- consequences of C1: `c` is strictly increasing along each row, between `1 + i·stepLo` and
`1 + i·stepHi`. -/
theorem calibration_monotone (p : Nat) (hp : p < 15) (i j : Nat) (hij : i < j)
    (hj : j < (rawDec.getD p #[]).size) :
    calC (rawDec.getD p #[]) (biasDec.getD p #[]) i < calC (rawDec.getD p #[]) (biasDec.getD p #[]) j ∧
    1 + (i : Int) * stepLo (p + 4) ≤ calC (rawDec.getD p #[]) (biasDec.getD p #[]) i ∧
    calC (rawDec.getD p #[]) (biasDec.getD p #[]) i ≤ 1 + (i : Int) * stepHi (p + 4) :=
  ⟨(calRow_all p hp).strictMono j i hij hj, (calRow_all p hp).affine i (by omega)⟩

/-- **C2.** The raw-estimate rows are strictly increasing for every precision except b = 5 and
b = 6 (rows 1 and 2). -/
theorem raw_sorted (p : Nat) (hp : p < 15) (h1 : p ≠ 1) (h2 : p ≠ 2) :
    StrictSortedRow (rawDec.getD p #[]) ∧ SortedRow (rawDec.getD p #[]) :=
  ⟨strictSorted_all p hp h1 h2, (strictSorted_all p hp h1 h2).sorted⟩

/-- … and rows b = 5 and b = 6 are *not* sorted: each has exactly two adjacent inversions
(b = 5: positions 127, 130; b = 6: positions 148, 167), so `binary_search_by` runs on an unsorted
slice there. -/
theorem raw_unsorted_rows :
    (∀ i, i + 1 < rawDec1.size →
      (scaled (entry rawDec1 (i + 1)) < scaled (entry rawDec1 i) ↔ i = 127 ∨ i = 130)) ∧
    (∀ i, i + 1 < rawDec2.size →
      (scaled (entry rawDec2 (i + 1)) < scaled (entry rawDec2 i) ↔ i = 148 ∨ i = 167)) := by
  constructor
  · intro i hi
    have := mem_descents rawDec1 i
    rw [descents1] at this
    simp only [List.mem_cons, List.not_mem_nil, or_false] at this
    exact ⟨fun hlt => this.2 ⟨hi, hlt⟩, fun h => (this.1 h).2⟩
  · intro i hi
    have := mem_descents rawDec2 i
    rw [descents2] at this
    simp only [List.mem_cons, List.not_mem_nil, or_false] at this
    exact ⟨fun hlt => this.2 ⟨hi, hlt⟩, fun h => (this.1 h).2⟩

/-- the offending literals: 128.3464 > 128.3462, 131.0342 > 131.0042 (b = 5);
238.1974 > 237.7474, 267.2566 > 267.1624 (b = 6). -/
theorem raw_unsorted_values :
    (entry rawDec1 127, entry rawDec1 128) = ((1283464, 4), (1283462, 4)) ∧
    (entry rawDec1 130, entry rawDec1 131) = ((1310342, 4), (1310042, 4)) ∧
    (entry rawDec2 148, entry rawDec2 149) = ((2381974, 4), (2377474, 4)) ∧
    (entry rawDec2 167, entry rawDec2 168) = ((2672566, 4), (2671624, 4)) :=
  descent_values

/-- **C3.** The 15 thresholds, strictly increasing, with `0.6·2^b ≤ thr ≤ 1.375·2^b`
(tight: `5/8` fails at b = 15 and `4/3` fails at b = 18); in particular `2^b/2 ≤ thr ≤ 3·2^b`. -/
theorem threshold_sane :
    thresholds = #[10, 20, 40, 80, 220, 400, 900, 1800, 3100, 6500, 11500, 20000, 50000, 120000, 350000] ∧
    (∀ p, p < 14 → thresholds.getD p 0 < thresholds.getD (p + 1) 0) ∧
    (∀ p, p < 15 → 6 * 2 ^ (p + 4) ≤ 10 * thresholds.getD p 0 ∧ 8 * thresholds.getD p 0 ≤ 11 * 2 ^ (p + 4)) ∧
    (∀ p, p < 15 → 2 ^ (p + 4) / 2 ≤ thresholds.getD p 0 ∧ thresholds.getD p 0 ≤ 3 * 2 ^ (p + 4)) ∧
    (¬ (5 * 2 ^ (11 + 4) ≤ 8 * thresholds.getD 11 0) ∧ ¬ (3 * thresholds.getD 14 0 ≤ 4 * 2 ^ (14 + 4))) := by
  refine ⟨thresholds_eq, thresholds_increasing, thresholds_bounds, ?_, thresholds_bounds_tight⟩
  intro p hp
  have := thresholds_bounds p hp
  omega

/-- **C4.** `POW2MINX[x]` is the bit pattern `(1023 − x) << 52`: sign `+`, biased exponent
`1023 − x ∈ [768, 1023]` (a normal number), fraction 0, i.e. exactly `2^52 / 2^(52+x) = 2^-x`. -/
theorem pow2minx_exact (x : Nat) (hx : x < 256) :
    pow2minxBits[x]? = some (UInt64.ofNat ((1023 - x) * 2 ^ 52)) ∧
    f64Sign (pow2minxBits.getD x 0) = false ∧ f64Exp (pow2minxBits.getD x 0) = 1023 - x ∧
    f64Frac (pow2minxBits.getD x 0) = 0 ∧
    f64Num (pow2minxBits.getD x 0) = 2 ^ 52 ∧ f64Den (pow2minxBits.getD x 0) = 52 + x :=
  ⟨pow2minx_bits hx, pow2minx_decoded x hx⟩

/-- **C5.** The `am` cut-offs and constants, and the f64 constants used by the model are the
correctly rounded values of those decimals. -/
theorem am_consts :
    amCut = #[128, 64, 32] ∧ amCut = #[amCut0, amCut1, amCut2] ∧
    amDec = #[(7213, 4), (1079, 3), (709, 3), (697, 3), (673, 3)] ∧
    amBits = #[am0Bits, am1Bits, am2Bits, am3Bits, am4Bits] ∧ RowMatches amBits amDec :=
  ⟨amCut_eq.1, amCut_eq.2, amDec_eq, amBits_eq, am_match⟩

/-- **Bits ↔ decimals.**  For every row, the bit-pattern row (what the model and the Rust code
compute with) and the decimal row (what C1/C2 talk about) have the same number of entries and every
f64 is within half an ulp of its decimal literal (`BitsMatchDec`): the f64 tables are the correctly
rounded images of the decimals, with exponent field `≤ 1075` (finite, no NaN/∞ in the tables). -/
theorem bits_match_decimals (p : Nat) (hp : p < 15) :
    RowMatches (rawBits.getD p #[]) (rawDec.getD p #[]) ∧
    RowMatches (biasBits.getD p #[]) (biasDec.getD p #[]) :=
  ⟨rawMatch_all p hp, biasMatch_all p hp⟩

/-! ## D. the estimator formulas over ℝ

These are statements about the real-valued formulas that the f64 code approximates (no claim about
f64 rounding). -/

/-- **D1.** An all-zero sketch (`v = m` zero registers) linear-counts to 0. -/
theorem linear_counting_empty (m : ℝ) (hm : 0 < m) : m * Real.log (m / m) = 0 :=
  RealFacts.linear_counting_empty m hm

/-- **D2.** With `m` registers of which `j ≥ 1` are non-zero (`v = m − j`) and `j (j+1) ≤ m`:
`j ≤ m·ln(m/(m−j)) < j + 1`, so truncation to `usize` gives exactly `j`.  For `j ≤ 8` this needs
`m ≥ 72`, i.e. every `b ≥ 7` (the task statement's `m ≥ 512` is more than enough). -/
theorem linear_counting_small (m j : ℕ) (hj : 0 < j) (hjm : j * (j + 1) ≤ m) :
    (j : ℝ) ≤ m * Real.log (m / (m - j)) ∧ (m : ℝ) * Real.log (m / (m - j)) < j + 1 ∧
    ⌊(m : ℝ) * Real.log ((m : ℝ) / ((m : ℝ) - (j : ℝ)))⌋₊ = j :=
  ⟨(RealFacts.linear_counting_bounds m j (by exact_mod_cast hj) (by exact_mod_cast hjm)).1,
   (RealFacts.linear_counting_bounds m j (by exact_mod_cast hj) (by exact_mod_cast hjm)).2,
   RealFacts.linear_counting_floor m j hj hjm⟩

/-- … and for `b = p + 4 ≥ 7`, `1 ≤ j ≤ 8` the linear-counting value is below the threshold of
that precision, so `count()` takes the linear-counting branch and (over ℝ) returns exactly `j`:
up to 8 distinct registers hit are counted exactly. -/
theorem linear_counting_small_below_threshold (p j : ℕ) (hp : 3 ≤ p) (hp' : p < 15)
    (hj : 1 ≤ j) (hj8 : j ≤ 8) :
    ((2 ^ (p + 4) : ℕ) : ℝ) * Real.log (((2 ^ (p + 4) : ℕ) : ℝ) / (((2 ^ (p + 4) : ℕ) : ℝ) - j)) ≤
      (thresholds.getD p 0 : ℝ) := by
  have hm : 128 ≤ 2 ^ (p + 4) := by
    calc 128 = 2 ^ 7 := by norm_num
      _ ≤ 2 ^ (p + 4) := Nat.pow_le_pow_right (by omega) (by omega)
  have hjm : j * (j + 1) ≤ 2 ^ (p + 4) := by
    have : j * (j + 1) ≤ 8 * 9 := Nat.mul_le_mul hj8 (by omega)
    omega
  have h := (RealFacts.linear_counting_bounds ((2 ^ (p + 4) : ℕ) : ℝ) j (by exact_mod_cast hj)
    (by exact_mod_cast hjm)).2
  have hthr : 10 ≤ thresholds.getD p 0 := by
    have := (thresholds_bounds p hp').1
    omega
  have h1 : (j : ℝ) + 1 ≤ 9 := by
    have : (j : ℝ) ≤ 8 := by exact_mod_cast hj8
    linarith
  have h2 : (10 : ℝ) ≤ (thresholds.getD p 0 : ℝ) := by exact_mod_cast hthr
  linarith

/-- **D3.** `relative_error() = sqrt(3 ln 2 − 1) / sqrt m` is positive and lies strictly between
`1.038 / sqrt m` and `1.04 / sqrt m` (the "1.04/√m" of the HyperLogLog paper). -/
theorem relative_error_formula (m : ℝ) (hm : 0 < m) :
    0 < Real.sqrt (3 * Real.log 2 - 1) / Real.sqrt m ∧
    1.038 / Real.sqrt m < Real.sqrt (3 * Real.log 2 - 1) / Real.sqrt m ∧
    Real.sqrt (3 * Real.log 2 - 1) / Real.sqrt m < 1.04 / Real.sqrt m ∧
    (1.03 : ℝ) < Real.sqrt (3 * Real.log 2 - 1) ∧ Real.sqrt (3 * Real.log 2 - 1) < 1.05 :=
  ⟨RealFacts.relative_error_pos m hm, (RealFacts.relative_error_bounds m hm).1,
   (RealFacts.relative_error_bounds m hm).2,
   lt_trans (by norm_num) RealFacts.sqrt_three_log_two_sub_one.1,
   lt_trans RealFacts.sqrt_three_log_two_sub_one.2 (by norm_num)⟩

/-! ## non-vacuity -/

/-- a total comparison exists, and a fresh `b = 4` sketch satisfies the hypotheses of `count_total` -/
example : (countWith (fun _ _ => some .gt) ⟨4, Array.replicate 16 0⟩).isSome :=
  count_total _ (fun _ _ => rfl) _ ⟨by decide, by decide⟩ (by decide) (by
    intro x hx; rw [Array.mem_replicate] at hx; omega)

/-- a saturated sketch (all registers 255) at `b = 18` as well -/
example : (countWith (fun _ _ => some .lt) ⟨18, Array.replicate (2 ^ 18) 255⟩).isSome :=
  count_total _ (fun _ _ => rfl) _ ⟨by decide, by decide⟩ (by simp) (by
    intro x hx; rw [Array.mem_replicate] at hx; omega)

/-- the hypotheses of `knn_walk_window`: no-match case (`l ≠ r`), walk `0,1,2,3,4,5` -/
example : startpoints (fun _ _ => some .gt) #[1, 2, 3, 4, 5, 6, 7] 0 = some (none, some 0) ∧
    knn #[1, 2, 3, 4, 5, 6, 7] 0 6 none (some 0) = some [0, 1, 2, 3, 4, 5] := ⟨rfl, rfl⟩

/-- exact-match case (`l = r`) occurs -/
example : startpoints (fun _ _ => some .eq) #[1, 2, 3, 4, 5, 6, 7] 0 = some (some 6, some 6) := rfl

/-- `CalRow` is not trivially true: it fails if one constant is perturbed in the 4th decimal
(`rawDec0[1] = 11.717 ↦ 11.7171`). -/
example : calRowCheck (rawDec0.set! 1 (117171, 4)) biasDec0 4 = false := by decide +kernel

/-- … and `RowMatches` fails if one bit of one f64 is flipped. -/
example : rowMatchesCheck (rawBits0.set! 1 0x40276f1a9fbe76c8) rawDec0 = false := by decide +kernel

/-- D2 at the smallest admissible size: `m = 128` (b = 7), `j = 8` -/
example : ⌊(128 : ℝ) * Real.log ((128 : ℝ) / ((128 : ℝ) - (8 : ℝ)))⌋₊ = 8 := by
  have := (linear_counting_small 128 8 (by norm_num) (by norm_num)).2.2
  simpa using this

end Pds.Props.C03
