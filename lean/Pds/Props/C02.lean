import Pds.Proofs.Cms
/-!
# C02 — CountMinSketch never underestimates and never exceeds the stream total

Model: `Pds.Cms` (`src/countminsketch.rs`) with columns from `Pds.HashIter.positions`
(`src/hash_utils.rs`).  The hasher is the parameter `hash : List Nat → Nat`; every theorem holds
for every `hash`, every `w d ≥ 1` (including `w ≠ d`) and every counter maximum `cmax`.

A history is a `List Op` with `Op = addN x n | merge (history of the other sketch) | clear`;
`run hash w d cmax h` replays it on a fresh sketch and is `none` iff some step panics (counter
overflow).  `stream h` is the weighted stream `[(element, weight)]` absorbed since the last
`clear` (a merged sketch contributes its own stream); `trueWeight h x` / `totalWeight h` are the
weight of `x` / of everything in it.  `cell t j = t[j]?.getD 0`.

All statements are about an arbitrary non-overflowing history, hence (by `prefix_closed`) about
every prefix of a non-overflowing history.
-/
namespace Pds.Props.C02
open Pds.Cms Pds.HashIter

/-! ### the reference semantics of histories (sanity equations) -/

theorem stream_nil : stream [] = [] := Cms.stream_nil
theorem stream_addN (h : List Op) (x n : Nat) : stream (h ++ [.addN x n]) = stream h ++ [(x, n)] :=
  stream_snoc_addN h x n
theorem stream_merge (h o : List Op) : stream (h ++ [.merge o]) = stream h ++ stream o :=
  stream_snoc_merge h o
theorem stream_clear (h : List Op) : stream (h ++ [.clear]) = [] := stream_snoc_clear h

/-- the weights are additive over the stream -/
theorem trueWeight_addN (h : List Op) (x n y : Nat) :
    trueWeight (h ++ [.addN x n]) y = trueWeight h y + if x = y then n else 0 := by
  simp [trueWeight, stream_snoc_addN, weightOf]
theorem trueWeight_merge (h o : List Op) (y : Nat) :
    trueWeight (h ++ [.merge o]) y = trueWeight h y + trueWeight o y := by
  simp [trueWeight, stream_snoc_merge, weightOf_append]
theorem totalWeight_addN (h : List Op) (x n : Nat) :
    totalWeight (h ++ [.addN x n]) = totalWeight h + n := by
  simp [totalWeight, stream_snoc_addN, total]
theorem totalWeight_merge (h o : List Op) :
    totalWeight (h ++ [.merge o]) = totalWeight h + totalWeight o := by
  simp [totalWeight, stream_snoc_merge, total_append]

/-- Every prefix of a non-overflowing history is a non-overflowing history. -/
theorem prefix_closed {hash : List Nat → Nat} {w d cmax : Nat} {h₁ h₂ : List Op} {s : St}
    (hr : run hash w d cmax (h₁ ++ h₂) = some s) : ∃ s₁, run hash w d cmax h₁ = some s₁ := by
  rw [run_append] at hr
  cases h : run hash w d cmax h₁ with
  | none => rw [h] at hr; cases hr
  | some s₁ => exact ⟨s₁, rfl⟩

/-! ### 1. index safety -/

/-- `index_lt`: for `w ≥ 1` the column list of every element has one column `< w` per row; every
accessed cell index `i * w + pos_i` is `< w * d`; cells of distinct rows are distinct. -/
theorem index_lt (hash : List Nat → Nat) {w : Nat} (hw : 0 < w) (d x : Nat) :
    ∃ cols, positions hash w d x = some cols ∧ cols.length = d ∧
      (∀ i (hi : i < cols.length), cols[i] < w ∧ i * w + cols[i] < w * d) ∧
      (∀ i i' (hi : i < cols.length) (hi' : i' < cols.length),
        i * w + cols[i] = i' * w + cols[i'] → i = i') := by
  obtain ⟨hp, hwf⟩ := colsOf_wf hash hw d x
  exact ⟨_, hp, hwf.1, wfcols_index hwf⟩

/-- A reachable state keeps its shape: the table has exactly `w * d` cells. -/
theorem run_shape {hash : List Nat → Nat} {w d cmax : Nat} (hw : 0 < w) (hd : 0 < d) {h : List Op}
    {s : St} (hr : run hash w d cmax h = some s) :
    s.w = w ∧ s.d = d ∧ s.cmax = cmax ∧ s.table.size = w * d :=
  let i := run_inv hw hd hr; ⟨i.hw, i.hd, i.hcmax, i.hsize⟩

/-- No counter ever exceeds `cmax` (no wrap-around). -/
theorem cells_le_cmax {hash : List Nat → Nat} {w d cmax : Nat} (hw : 0 < w) (hd : 0 < d)
    {h : List Op} {s : St} (hr : run hash w d cmax h = some s) :
    ∀ j (hj : j < s.table.size), s.table[j] ≤ cmax :=
  inv_table_le (run_inv hw hd hr)

/-! ### 2. the bounds -/

/-- `lower` and `upper`: `query_point` never panics on a reachable state and
`trueWeight h x ≤ query x ≤ totalWeight h`. -/
theorem bounds {hash : List Nat → Nat} {w d cmax : Nat} (hw : 0 < w) (hd : 0 < d) {h : List Op}
    {s : St} (hr : run hash w d cmax h = some s) (x : Nat) :
    ∃ v, query hash s x = some v ∧ trueWeight h x ≤ v ∧ v ≤ totalWeight h :=
  query_bounds hw hd (run_inv hw hd hr) x

theorem lower {hash : List Nat → Nat} {w d cmax : Nat} (hw : 0 < w) (hd : 0 < d) {h : List Op}
    {s : St} (hr : run hash w d cmax h = some s) (x : Nat) :
    ∃ v, query hash s x = some v ∧ trueWeight h x ≤ v :=
  let ⟨v, e, l, _⟩ := bounds hw hd hr x; ⟨v, e, l⟩

theorem upper {hash : List Nat → Nat} {w d cmax : Nat} (hw : 0 < w) (hd : 0 < d) {h : List Op}
    {s : St} (hr : run hash w d cmax h = some s) (x : Nat) :
    ∃ v, query hash s x = some v ∧ v ≤ totalWeight h :=
  let ⟨v, e, _, u⟩ := bounds hw hd hr x; ⟨v, e, u⟩

/-- The same at every prefix of a non-overflowing history. -/
theorem bounds_every_prefix {hash : List Nat → Nat} {w d cmax : Nat} (hw : 0 < w) (hd : 0 < d)
    {h₁ h₂ : List Op} {s : St} (hr : run hash w d cmax (h₁ ++ h₂) = some s) (x : Nat) :
    ∃ s₁ v, run hash w d cmax h₁ = some s₁ ∧ query hash s₁ x = some v ∧
      trueWeight h₁ x ≤ v ∧ v ≤ totalWeight h₁ :=
  let ⟨s₁, e⟩ := prefix_closed hr
  let ⟨v, q, l, u⟩ := bounds hw hd e x
  ⟨s₁, v, e, q, l, u⟩

/-- Invariant: every row sums to the total weight. -/
theorem row_sums {hash : List Nat → Nat} {w d cmax : Nat} (hw : 0 < w) (hd : 0 < d) {h : List Op}
    {s : St} (hr : run hash w d cmax h = some s) {r : Nat} (hrd : r < d) :
    ((List.range w).map fun c => cell s.table (r * w + c)).sum = totalWeight h :=
  inv_row_sum hw (run_inv hw hd hr) hrd

/-- Invariant: the cell of `x` in every row holds at least the true weight of `x`. -/
theorem cell_ge_weight {hash : List Nat → Nat} {w d cmax : Nat} (hw : 0 < w) (hd : 0 < d)
    {h : List Op} {s : St} (hr : run hash w d cmax h = some s) {x : Nat} {cols : List Nat}
    (hc : positions hash w d x = some cols) {r : Nat} (hrl : r < cols.length) :
    trueWeight h x ≤ cell s.table (r * w + cols[r]) := by
  cases colsOf_eq hc
  exact inv_cell_ge hw (run_inv hw hd hr) x hrl

/-! ### 3.–5. -/

/-- `add_returns_query`: the value returned by `add_n x n` is `query_point x` in the new state. -/
theorem add_returns_query {hash : List Nat → Nat} {w d cmax : Nat} (hw : 0 < w) (hd : 0 < d)
    {h : List Op} {s s' : St} (hr : run hash w d cmax h = some s) {x n r : Nat}
    (ha : addN hash s x n = some (s', r)) : query hash s' x = some r :=
  addN_returns_query ((run_inv hw hd hr).valid hw hd) ha

/-- `single_exact`: if everything absorbed since the last clear is `x`, the estimate is exact. -/
theorem single_exact {hash : List Nat → Nat} {w d cmax : Nat} (hw : 0 < w) (hd : 0 < d)
    {h : List Op} {s : St} (hr : run hash w d cmax h = some s) {x : Nat}
    (hx : ∀ e ∈ stream h, e.1 = x) : query hash s x = some (trueWeight h x) :=
  query_single hw hd (run_inv hw hd hr) hx

/-- `overflow_is_error`: on a reachable state `add_n x n` panics iff one of the `d` visited
counters would exceed `cmax`; there is no other failure (no index panic, no wrap-around). -/
theorem overflow_is_error {hash : List Nat → Nat} {w d cmax : Nat} (hw : 0 < w) (hd : 0 < d)
    {h : List Op} {s : St} (hr : run hash w d cmax h = some s) (x n : Nat) {cols : List Nat}
    (hc : positions hash w d x = some cols) :
    addN hash s x n = none ↔ ∃ i, ∃ _ : i < cols.length, cmax < cell s.table (i * w + cols[i]) + n := by
  have i := run_inv hw hd hr
  have := addN_eq_none_iff (hash := hash) (i.valid hw hd) x n
  rw [i.hw, i.hd, i.hcmax] at this
  cases colsOf_eq hc
  exact this

/-- The same for an arbitrary well-formed column list (as used by `CMSHeap`, whose columns come
from another hasher): `addCols` fails iff a visited counter would exceed `cmax`. -/
theorem overflow_is_error_cols {s : St} {cols : List Nat} (hsz : s.table.size = s.w * s.d)
    (hc : cols.length = s.d ∧ ∀ c ∈ cols, c < s.w) (hd : 0 < s.d) (n : Nat) :
    addCols s cols n = none ↔
      ∃ i, ∃ _ : i < cols.length, s.cmax < cell s.table (i * s.w + cols[i]) + n := by
  rw [(addCols_spec hsz hc hd n).1]
  constructor
  · rintro ⟨v, hv, hlt⟩
    obtain ⟨r, hr, rfl⟩ := mem_rowVals.mp hv
    exact ⟨r, hr, by simpa using hlt⟩
  · rintro ⟨r, hr, hlt⟩
    exact ⟨_, mem_rowVals.mpr ⟨r, hr, rfl⟩, by simpa using hlt⟩

/-! ### non-vacuity -/

/-- a `3 × 2` sketch (`w ≠ d`) with a colliding hasher, merge and clear -/
example : run (fun l => l.sum) 3 2 10 [.addN 1 2, .merge [.addN 1 3, .addN 2 1], .addN 4 4] =
    some ⟨3, 2, 10, #[9, 1, 0, 9, 0, 1]⟩ := by decide
example : (run (fun l => l.sum) 3 2 10 [.addN 1 2, .merge [.addN 1 3, .addN 2 1], .addN 4 4]).bind
    (query (fun l => l.sum) · 1) = some 9 := by decide  -- elements 1 and 4 collide in both rows
example : trueWeight [.addN 1 2, .merge [.addN 1 3, .addN 2 1], .addN 4 4] 1 = 5 ∧
    totalWeight [.addN 1 2, .merge [.addN 1 3, .addN 2 1], .addN 4 4] = 10 := by decide
/-- `add_n` returns the new estimate (here 6 = min(2, 5) + 4 …) -/
example : (run (fun l => l.sum) 3 2 10 [.addN 1 2, .addN 2 3]).bind
    (fun s => (addN (fun l => l.sum) s 1 4).map (·.2)) = some 6 := by decide +kernel
/-- overflow is reported, not wrapped -/
example : run (fun l => l.sum) 3 2 10 [.addN 1 6, .addN 1 5] = none := by decide
example : run (fun l => l.sum) 3 2 10 [.addN 1 6, .merge [.addN 1 5]] = none := by decide
/-- a constant hasher (all elements collide): the estimate is the stream total -/
example : (run (fun _ => 0) 2 3 9 [.addN 1 3, .addN 2 2, .clear, .addN 3 4, .addN 9 1]).bind
    (query (fun _ => 0) · 3) = some 5 := by decide +kernel

end Pds.Props.C02
