import Pds.Proofs.TDigestSize
import Mathlib.Algebra.Order.Field.Rat
import Mathlib.Tactic.NormNum
/-!
# C04 — size of a t-digest (provable part, exact arithmetic)

Model: `Pds.TDigest` (`src/tdigest.rs`) over an arbitrary linearly ordered field `α`.  Histories
(`run`, `Op`) are as in C16.  `backlog_bound` and `merge_ksize` hold for every scale function;
`centroid_bound_K0` is for `K0` (`k0 δ`).
-/
set_option linter.unusedSectionVars false
namespace Pds.Props.C04
open Pds.TDigest
variable {α : Type} [Field α] [LinearOrder α] [IsStrictOrderedRing α]

/-! ### backlog -/

/-- At every point of every history the backlog holds at most `maxBacklog` entries, and
`maxBacklog` is the constructor argument. -/
theorem backlog_bound (sf : ScaleFn α) {mb : Nat} {ops : List (Op α)} {s : St α}
    (h : run sf (new mb) ops = some s) : s.backlog.length ≤ mb ∧ s.maxBacklog = mb := by
  have := run_backlog sf ops (s := new mb) (by simp [new]) h
  have e : (new mb : St α).maxBacklog = mb := rfl
  rw [e] at this
  exact ⟨by rw [← this.2]; exact this.1, this.2⟩

/-- One step: an `insert_weighted` on a state within the bound ends within the bound
(the backlog is merged away as soon as it would exceed `maxBacklog`). -/
theorem backlog_bound_insert (sf : ScaleFn α) {s s' : St α} {x w : α}
    (hb : s.backlog.length ≤ s.maxBacklog) (h : insertWeighted sf s x w = some s') :
    s'.backlog.length ≤ s'.maxBacklog :=
  (insertWeighted_backlog sf hb h).1

/-- After every read the backlog is empty. -/
theorem backlog_after_read (sf : ScaleFn α) (s : St α) (q x : α) (hq : 0 ≤ q ∧ q ≤ 1) :
    (merge sf s).backlog = [] ∧
    (quantile sf s q).1.backlog = [] ∧ (cdf sf s x).1.backlog = [] ∧ (count sf s).1.backlog = [] ∧
    (sum sf s).1.backlog = [] ∧ (mean sf s).1.backlog = [] ∧ (nCentroids sf s).1.backlog = [] := by
  simp [quantile, cdf, count, sum, mean, nCentroids, hq]

/-! ### greedy invariant of the merge pass -/

/-- `Greedy sf n S q0 out`, spelled out: for adjacent output centroids `a, b` (with `q0` the weight
fraction to the left of `a`) `q0 + (a.count + b.count)/S` exceeds the limit
`lim sf n q0 = f⁻¹(f(q0) + 1)` that was in force for `a`; and so on with `q0 + a.count/S`. -/
theorem greedy_cons_cons (sf : ScaleFn α) (n : Nat) (S q0 : α) (a b : Centroid α) (rest : List (Centroid α)) :
    Greedy sf n S q0 (a :: b :: rest) ↔
      (sf.fInv (sf.f q0 n + 1) n < q0 + (a.count + b.count) / S ∧
        Greedy sf n S (q0 + a.count / S) (b :: rest)) := Iff.rfl

/-- `merge_ksize`: the output of the greedy pass satisfies the greedy invariant, for any scale
function (`S > 0`, positive weights; the pass is started with the limit belonging to `q0`). -/
theorem merge_ksize (sf : ScaleFn α) (n : Nat) {S : α} (hS : 0 < S) (rest : List (Centroid α))
    (cur : Centroid α) (q0 : α) (hpos : ∀ c ∈ rest, 0 < c.count) :
    Greedy sf n S q0 (mergeLoop sf n S rest cur q0 (lim sf n q0) []) := by
  rw [mergeLoop_eq]; exact ml_greedy sf n hS rest cur q0 hpos

/-- The same at the level of histories: what a read sees is empty or a greedy output with respect
to its own total weight (`n` = the sample count at the time of the last compression). -/
theorem reachable_ksize (sf : ScaleFn α) {mb : Nat} {ops : List (Op α)} {s : St α}
    (h : run sf (new mb) ops = some s) :
    (merge sf s).centroids = [] ∨
      ∃ n, Greedy sf n (sumCount (merge sf s).centroids) 0 (merge sf s).centroids :=
  invK_merge sf (inv_reachable sf h) (invK_reachable sf h)

/-! ### `K0` -/

/-- For `K0` every two adjacent centroids span more than `2/δ` of the total weight. -/
theorem K0_pairs_heavy {δ : α} (hδ : 0 < δ) {mb : Nat} {ops : List (Op α)} {s : St α}
    (h : run (k0 δ) (new mb) ops = some s) :
    PairsExceed (2 * sumCount (merge (k0 δ) s).centroids / δ) (merge (k0 δ) s).centroids := by
  have hi := inv_merge (k0 δ) (inv_reachable (k0 δ) h)
  have hpos : ∀ c ∈ (merge (k0 δ) s).centroids, 0 < c.count := fun c hc => hi.pos c (by simp [hc])
  rcases reachable_ksize (k0 δ) h with e | ⟨n, hg⟩
  · rw [e]; trivial
  · by_cases hne : (merge (k0 δ) s).centroids = []
    · rw [hne]; trivial
    · have hS := sumCount_pos hpos hne
      exact greedy_k0_pairs hδ n hS _ 0 le_rfl (by rw [zero_add, div_self hS.ne']) hpos hg

/-- `centroid_bound_K0`: with `K0` and compression `δ`, a read sees fewer than `δ + 1` centroids
(the code requires `1 < δ`; `0 < δ` suffices here). -/
theorem centroid_bound_K0 {δ : α} (hδ : 0 < δ) {mb : Nat} {ops : List (Op α)} {s : St α}
    (h : run (k0 δ) (new mb) ops = some s) :
    ((nCentroids (k0 δ) s).2 : α) < δ + 1 := by
  have hi := inv_merge (k0 δ) (inv_reachable (k0 δ) h)
  have hpos : ∀ c ∈ (merge (k0 δ) s).centroids, 0 < c.count := fun c hc => hi.pos c (by simp [hc])
  change (((merge (k0 δ) s).centroids.length : ℕ) : α) < δ + 1
  rcases reachable_ksize (k0 δ) h with e | ⟨n, hg⟩
  · rw [e]; simp; linarith
  · exact k0_length_bound hδ n _ hpos hg

/-- Sharper form: `m ≥ 2` centroids contain `⌊m/2⌋` disjoint adjacent pairs, so `2·⌊m/2⌋ < δ`
(an even count is `< δ`, an odd count `< δ + 1`). -/
theorem centroid_bound_K0_pairs {δ : α} (hδ : 0 < δ) {mb : Nat} {ops : List (Op α)} {s : St α}
    (h : run (k0 δ) (new mb) ops = some s) (h2 : 2 ≤ (nCentroids (k0 δ) s).2) :
    (2 * ((nCentroids (k0 δ) s).2 / 2 : ℕ) : α) < δ := by
  have hi := inv_merge (k0 δ) (inv_reachable (k0 δ) h)
  have hpos : ∀ c ∈ (merge (k0 δ) s).centroids, 0 < c.count := fun c hc => hi.pos c (by simp [hc])
  change 2 ≤ (merge (k0 δ) s).centroids.length at h2
  change (2 * (((merge (k0 δ) s).centroids.length / 2 : ℕ) : α)) < δ
  rcases reachable_ksize (k0 δ) h with e | ⟨n, hg⟩
  · rw [e] at h2; simp at h2
  · exact k0_pairs_bound hδ n _ hpos hg h2

/-! ### non-vacuity (over ℚ) -/

/-- four unit-weight insertions and a read with `K0`, `δ = 4`: two centroids of weight 2 -/
theorem ex_run : run (k0 (4 : ℚ)) (new 10) [.insert 1 1, .insert 4 1, .insert 3 1, .insert 2 1, .read]
    = some ⟨[⟨3, 2⟩, ⟨7, 2⟩], 4, some 1, some 4, [], 10⟩ := by
  norm_num [run, step, insertWeighted, merge, List.mergeSort, List.MergeSort.Internal.splitInTwo,
    List.merge, mergeLoop, k0, Centroid.fuse, Centroid.mean, new, minOpt, maxOpt, totalCount]
  intro h; simp at h

example : Greedy (k0 (4 : ℚ)) 4 4 0 [⟨3, 2⟩, ⟨7, 2⟩] := by
  norm_num [Greedy, lim, k0]

example : PairsExceed (2 * 4 / 4 : ℚ) [⟨3, 2⟩, ⟨7, 2⟩] := by
  norm_num [PairsExceed]

example : mergeLoop (k0 (4 : ℚ)) 0 4 [⟨2, 1⟩, ⟨3, 1⟩, ⟨4, 1⟩] ⟨1, 1⟩ 0 (lim (k0 4) 0 0) []
    = [⟨3, 2⟩, ⟨7, 2⟩] := by
  norm_num [mergeLoop, k0, lim, Centroid.fuse]

end Pds.Props.C04
