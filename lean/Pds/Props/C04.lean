import Pds.Proofs.TDigestSize
import Pds.Proofs.TDigestScaleReal
import Pds.Proofs.TDigestScaleLog
import Pds.Proofs.TDigestWidth
import Pds.Proofs.TDigestRank2
import Mathlib.Algebra.Order.Field.Rat
import Mathlib.Tactic.NormNum
/-!
# C04 — size of a t-digest (provable part, exact arithmetic)

Model: `Pds.TDigest` (`src/tdigest.rs`) over an arbitrary linearly ordered field `α`.  Histories
(`run`, `Op`) are as in C16.  `backlog_bound` and `merge_ksize` hold for every scale function;
`centroid_bound_K0` is for `K0` (`k0 δ`).  The last section is the upper k-size invariant
(`merge_ktight`, `merge_clusters_tight`) and the resulting bound on the weight of the clusters a merge
pass forms (`lim_width_K0` … `K3`, `cluster_width_K0`, `_K1`, `_K2_partial`, `_K3_partial`).
-/
set_option linter.unusedSectionVars false
namespace Pds.Props.C04
open Pds.TDigest
variable {α : Type} [Field α] [LinearOrder α] [IsStrictOrderedRing α]

/-! ### backlog -/

/-- At every point of every history the backlog holds at most `maxBacklog` entries, and
`maxBacklog` is the constructor argument. -/
theorem backlog_bound (sf : ScaleFn α) {mb : Nat} {ops : List (Op α)} {s : St α}
    (h : run sf (new mb) ops = some s) : s.backlog.length ≤ mb ∧ s.maxBacklog = mb := by
  have := run_backlog sf ops (s := new mb) (by simp [new]) h
  have e : (new mb : St α).maxBacklog = mb := rfl
  rw [e] at this
  exact ⟨by rw [← this.2]; exact this.1, this.2⟩

/-- One step: an `insert_weighted` on a state within the bound ends within the bound
(the backlog is merged away as soon as it would exceed `maxBacklog`). -/
theorem backlog_bound_insert (sf : ScaleFn α) {s s' : St α} {x w : α}
    (hb : s.backlog.length ≤ s.maxBacklog) (h : insertWeighted sf s x w = some s') :
    s'.backlog.length ≤ s'.maxBacklog :=
  (insertWeighted_backlog sf hb h).1

/-- After every read the backlog is empty. -/
theorem backlog_after_read (sf : ScaleFn α) (s : St α) (q x : α) (hq : 0 ≤ q ∧ q ≤ 1) :
    (merge sf s).backlog = [] ∧
    (quantile sf s q).1.backlog = [] ∧ (cdf sf s x).1.backlog = [] ∧ (count sf s).1.backlog = [] ∧
    (sum sf s).1.backlog = [] ∧ (mean sf s).1.backlog = [] ∧ (nCentroids sf s).1.backlog = [] := by
  simp [quantile, cdf, count, sum, mean, nCentroids, hq]

/-! ### greedy invariant of the merge pass -/

/-- `Greedy sf n S q0 out`, spelled out: for adjacent output centroids `a, b` (with `q0` the weight
fraction to the left of `a`) `q0 + (a.count + b.count)/S` exceeds the limit
`lim sf n q0 = f⁻¹(f(q0) + 1)` that was in force for `a`; and so on with `q0 + a.count/S`. -/
theorem greedy_cons_cons (sf : ScaleFn α) (n : Nat) (S q0 : α) (a b : Centroid α) (rest : List (Centroid α)) :
    Greedy sf n S q0 (a :: b :: rest) ↔
      (sf.fInv (sf.f q0 n + 1) n < q0 + (a.count + b.count) / S ∧
        Greedy sf n S (q0 + a.count / S) (b :: rest)) := Iff.rfl

/-- `merge_ksize`: the output of the greedy pass satisfies the greedy invariant, for any scale
function (`S > 0`, positive weights; the pass is started with the limit belonging to `q0`). -/
theorem merge_ksize (sf : ScaleFn α) (n : Nat) {S : α} (hS : 0 < S) (rest : List (Centroid α))
    (cur : Centroid α) (q0 : α) (hpos : ∀ c ∈ rest, 0 < c.count) :
    Greedy sf n S q0 (mergeLoop sf n S rest cur q0 (lim sf n q0) []) := by
  rw [mergeLoop_eq]; exact ml_greedy sf n hS rest cur q0 hpos

/-- The same at the level of histories: what a read sees is empty or a greedy output with respect
to its own total weight (`n` = the sample count at the time of the last compression). -/
theorem reachable_ksize (sf : ScaleFn α) {mb : Nat} {ops : List (Op α)} {s : St α}
    (h : run sf (new mb) ops = some s) :
    (merge sf s).centroids = [] ∨
      ∃ n, Greedy sf n (sumCount (merge sf s).centroids) 0 (merge sf s).centroids :=
  invK_merge sf (inv_reachable sf h) (invK_reachable sf h)

/-! ### `K0` -/

/-- For `K0` every two adjacent centroids span more than `2/δ` of the total weight. -/
theorem K0_pairs_heavy {δ : α} (hδ : 0 < δ) {mb : Nat} {ops : List (Op α)} {s : St α}
    (h : run (k0 δ) (new mb) ops = some s) :
    PairsExceed (2 * sumCount (merge (k0 δ) s).centroids / δ) (merge (k0 δ) s).centroids := by
  have hi := inv_merge (k0 δ) (inv_reachable (k0 δ) h)
  have hpos : ∀ c ∈ (merge (k0 δ) s).centroids, 0 < c.count := fun c hc => hi.pos c (by simp [hc])
  rcases reachable_ksize (k0 δ) h with e | ⟨n, hg⟩
  · rw [e]; trivial
  · by_cases hne : (merge (k0 δ) s).centroids = []
    · rw [hne]; trivial
    · have hS := sumCount_pos hpos hne
      exact greedy_k0_pairs hδ n hS _ 0 le_rfl (by rw [zero_add, div_self hS.ne']) hpos hg

/-- `centroid_bound_K0`: with `K0` and compression `δ`, a read sees fewer than `δ + 1` centroids
(the code requires `1 < δ`; `0 < δ` suffices here). -/
theorem centroid_bound_K0 {δ : α} (hδ : 0 < δ) {mb : Nat} {ops : List (Op α)} {s : St α}
    (h : run (k0 δ) (new mb) ops = some s) :
    ((nCentroids (k0 δ) s).2 : α) < δ + 1 := by
  have hi := inv_merge (k0 δ) (inv_reachable (k0 δ) h)
  have hpos : ∀ c ∈ (merge (k0 δ) s).centroids, 0 < c.count := fun c hc => hi.pos c (by simp [hc])
  change (((merge (k0 δ) s).centroids.length : ℕ) : α) < δ + 1
  rcases reachable_ksize (k0 δ) h with e | ⟨n, hg⟩
  · rw [e]; simp; linarith
  · exact k0_length_bound hδ n _ hpos hg

/-- Sharper form: `m ≥ 2` centroids contain `⌊m/2⌋` disjoint adjacent pairs, so `2·⌊m/2⌋ < δ`
(an even count is `< δ`, an odd count `< δ + 1`). -/
theorem centroid_bound_K0_pairs {δ : α} (hδ : 0 < δ) {mb : Nat} {ops : List (Op α)} {s : St α}
    (h : run (k0 δ) (new mb) ops = some s) (h2 : 2 ≤ (nCentroids (k0 δ) s).2) :
    (2 * ((nCentroids (k0 δ) s).2 / 2 : ℕ) : α) < δ := by
  have hi := inv_merge (k0 δ) (inv_reachable (k0 δ) h)
  have hpos : ∀ c ∈ (merge (k0 δ) s).centroids, 0 < c.count := fun c hc => hi.pos c (by simp [hc])
  change 2 ≤ (merge (k0 δ) s).centroids.length at h2
  change (2 * (((merge (k0 δ) s).centroids.length / 2 : ℕ) : α)) < δ
  rcases reachable_ksize (k0 δ) h with e | ⟨n, hg⟩
  · rw [e] at h2; simp at h2
  · exact k0_pairs_bound hδ n _ hpos hg h2

/-! ### non-vacuity (over ℚ) -/

/-- four unit-weight insertions and a read with `K0`, `δ = 4`: two centroids of weight 2 -/
theorem ex_run : run (k0 (4 : ℚ)) (new 10) [.insert 1 1, .insert 4 1, .insert 3 1, .insert 2 1, .read]
    = some ⟨[⟨3, 2⟩, ⟨7, 2⟩], 4, some 1, some 4, [], 10⟩ := by
  norm_num [run, step, insertWeighted, merge, List.mergeSort, List.MergeSort.Internal.splitInTwo,
    List.merge, mergeLoop, k0, Centroid.fuse, Centroid.mean, new, minOpt, maxOpt, totalCount]
  intro h; simp at h

example : Greedy (k0 (4 : ℚ)) 4 4 0 [⟨3, 2⟩, ⟨7, 2⟩] := by
  norm_num [Greedy, lim, k0]

example : PairsExceed (2 * 4 / 4 : ℚ) [⟨3, 2⟩, ⟨7, 2⟩] := by
  norm_num [PairsExceed]

example : mergeLoop (k0 (4 : ℚ)) 0 4 [⟨2, 1⟩, ⟨3, 1⟩, ⟨4, 1⟩] ⟨1, 1⟩ 0 (lim (k0 4) 0 0) []
    = [⟨3, 2⟩, ⟨7, 2⟩] := by
  norm_num [mergeLoop, k0, lim, Centroid.fuse]

/-! ### any scale function: the counting argument -/

/-- `ScaleOK sf n`, spelled out: on the quantile range `[0, 1]` (for the sample count `n`) `f` is
non-decreasing, `fInv` is non-decreasing (everywhere), and `fInv (f q) = q`. -/
theorem scaleOK_iff (sf : ScaleFn α) (n : Nat) : ScaleOK sf n ↔
    (∀ {q q' : α}, 0 ≤ q → q ≤ q' → q' ≤ 1 → sf.f q n ≤ sf.f q' n) ∧
    (∀ {k k' : α}, k ≤ k' → sf.fInv k n ≤ sf.fInv k' n) ∧
    (∀ {q : α}, 0 ≤ q → q ≤ 1 → sf.fInv (sf.f q n) n = q) :=
  ⟨fun h => ⟨h.1, h.2, h.3⟩, fun h => ⟨h.1, h.2.1, h.2.2⟩⟩

/-- Under `ScaleOK`, the greedy invariant of `merge_ksize` (`fInv (f q0 + 1) < q2`, with `q2` the
weight fraction at the right end of the adjacent pair) says that the pair spans more than 1 in
k-space. -/
theorem pair_span_gt_one {sf : ScaleFn α} {n : Nat} (hok : ScaleOK sf n) {q0 q2 : α}
    (h0 : 0 ≤ q2) (h1 : q2 ≤ 1) (hl : sf.fInv (sf.f q0 n + 1) n < q2) : sf.f q0 n + 1 < sf.f q2 n :=
  hok.span h0 h1 hl

/-- `reachable_ksize` with the sample count made explicit: what a read sees is empty or greedy
w.r.t. its own total weight and the *current* `nSamples` (no positive insertion can have happened
since the last compression when the backlog is empty). -/
theorem reachable_ksize_n (sf : ScaleFn α) {mb : Nat} {ops : List (Op α)} {s : St α}
    (h : run sf (new mb) ops = some s) :
    (merge sf s).centroids = [] ∨
      Greedy sf s.nSamples (sumCount (merge sf s).centroids) 0 (merge sf s).centroids :=
  greedy_reachable sf h

/-- `centroid_bound_of_scale`: for any scale function satisfying `ScaleOK` at the current sample
count, a read sees fewer than `2·(f 1 − f 0) + 1` centroids (`⌊m/2⌋` disjoint adjacent pairs, each
spanning more than 1 in k-space, fit into `f 1 − f 0`). -/
theorem centroid_bound_of_scale (sf : ScaleFn α) {mb : Nat} {ops : List (Op α)} {s : St α}
    (h : run sf (new mb) ops = some s) (hok : ScaleOK sf s.nSamples) :
    ((nCentroids sf s).2 : α) < 2 * (sf.f 1 s.nSamples - sf.f 0 s.nSamples) + 1 := by
  have hi := inv_merge sf (inv_reachable sf h)
  have hpos : ∀ c ∈ (merge sf s).centroids, 0 < c.count := fun c hc => hi.pos c (by simp [hc])
  exact scale_length_bound hok _ hpos (greedy_reachable sf h)

/-- Sharper form: `2·⌊m/2⌋ < 2·(f 1 − f 0)` for `m ≥ 2` centroids. -/
theorem centroid_bound_of_scale_pairs (sf : ScaleFn α) {mb : Nat} {ops : List (Op α)} {s : St α}
    (h : run sf (new mb) ops = some s) (hok : ScaleOK sf s.nSamples) (h2 : 2 ≤ (nCentroids sf s).2) :
    (2 * ((nCentroids sf s).2 / 2 : ℕ) : α) < 2 * (sf.f 1 s.nSamples - sf.f 0 s.nSamples) := by
  have hi := inv_merge sf (inv_reachable sf h)
  have hpos : ∀ c ∈ (merge sf s).centroids, 0 < c.count := fun c hc => hi.pos c (by simp [hc])
  change 2 ≤ (merge sf s).centroids.length at h2
  rcases greedy_reachable sf h with e | hg
  · rw [e] at h2; simp at h2
  · exact scale_pairs_bound hok _ hpos hg h2

/-- `K0` satisfies `ScaleOK` for every `n` (`0 < δ`). -/
theorem scaleOK_K0 {δ : α} (hδ : 0 < δ) (n : Nat) : ScaleOK (k0 δ) n := scaleOK_k0 hδ n

/-- `centroid_bound_K0` re-derived from the general theorem (`2·(f 1 − f 0) = δ` for `K0`). -/
theorem centroid_bound_K0_of_scale {δ : α} (hδ : 0 < δ) {mb : Nat} {ops : List (Op α)} {s : St α}
    (h : run (k0 δ) (new mb) ops = some s) :
    ((nCentroids (k0 δ) s).2 : α) < δ + 1 := by
  have := centroid_bound_of_scale (k0 δ) h (scaleOK_k0 hδ _)
  rwa [k0_span] at this

/-! ### `K1` over `ℝ` -/

/-- `K1` (with `Real.pi`, `Real.sin`, `Real.arcsin`) satisfies `ScaleOK` for every `n` (`0 < δ`). -/
theorem scaleOK_K1 {δ : ℝ} (hδ : 0 < δ) (n : Nat) : ScaleOK (k1 δ) n := scaleOK_k1 hδ n

/-- `centroid_bound_K1`: with `K1` and compression `δ`, over `ℝ`, a read sees fewer than `δ + 1`
centroids after any history (`2·(f 1 − f 0) = δ/π · (arcsin 1 − arcsin (−1)) = δ`). -/
theorem centroid_bound_K1 {δ : ℝ} (hδ : 0 < δ) {mb : Nat} {ops : List (Op ℝ)} {s : St ℝ}
    (h : run (k1 δ) (new mb) ops = some s) :
    ((nCentroids (k1 δ) s).2 : ℝ) < δ + 1 := by
  have := centroid_bound_of_scale (k1 δ) h (scaleOK_k1 hδ _)
  rwa [k1_span] at this

/-! ### unit-weight histories: counting away from the two ends (for `K2`, `K3`) -/

/-- `UnitOps ops`: every insertion of the history has weight 1.  Then every centroid weighs at least
1, the total weight is `nSamples`, and there are at most `nSamples` centroids. -/
theorem unit_weight_facts (sf : ScaleFn α) {mb : Nat} {ops : List (Op α)} {s : St α}
    (hu : UnitOps ops) (h : run sf (new mb) ops = some s) :
    (∀ c ∈ (merge sf s).centroids, 1 ≤ c.count) ∧
    sumCount (merge sf s).centroids = (s.nSamples : α) ∧
    ((nCentroids sf s).2 : α) ≤ (s.nSamples : α) := by
  have hi := invU_reachable sf hu h
  have hge : ∀ c ∈ (merge sf s).centroids, 1 ≤ c.count := fun c hc => hi.ge c (by simp [hc])
  have htot : sumCount (merge sf s).centroids = (s.nSamples : α) := by
    have := hi.tot; simpa using this
  exact ⟨hge, htot, by rw [← htot]; exact length_le_sumCount hge⟩

/-- `centroid_bound_of_scale` away from the ends: after a unit-weight history with `n = nSamples`,
if the scale function is fine on `[1/n, 1 − 1/n]` (`ScaleOKOn`: `f` non-decreasing there, `fInv`
non-decreasing, `fInv ∘ f = id` there), then `m ≥ 2` centroids satisfy
`m ≤ 2·(f(1 − 1/n) − f(1/n)) + 3`: only the first centroid starts below `1/n` and only the last one
ends above `1 − 1/n`; the others contain `⌊(m−2)/2⌋` disjoint pairs spanning more than 1 each. -/
theorem centroid_bound_of_scale_unit (sf : ScaleFn α) {mb : Nat} {ops : List (Op α)} {s : St α}
    (hu : UnitOps ops) (h : run sf (new mb) ops = some s)
    (hok : ScaleOKOn sf s.nSamples (1 / (s.nSamples : α)) (1 - 1 / (s.nSamples : α)))
    (h2 : 2 ≤ (nCentroids sf s).2) :
    ((nCentroids sf s).2 : α) ≤
      2 * (sf.f (1 - 1 / (s.nSamples : α)) s.nSamples - sf.f (1 / (s.nSamples : α)) s.nSamples) + 3 := by
  obtain ⟨hge, htot, _⟩ := unit_weight_facts sf hu h
  change 2 ≤ (merge sf s).centroids.length at h2
  rcases greedy_reachable sf h with e | hg
  · rw [e] at h2; simp at h2
  · exact unit_length_bound _ hok hge htot hg h2

/-- in a unit-weight history `m ≥ 2` centroids need `n ≥ 2` samples -/
theorem two_le_nSamples (sf : ScaleFn α) {mb : Nat} {ops : List (Op α)} {s : St α}
    (hu : UnitOps ops) (h : run sf (new mb) ops = some s) (h2 : 2 ≤ (nCentroids sf s).2) :
    2 ≤ s.nSamples := by
  have h3 := (unit_weight_facts sf hu h).2.2
  have : ((nCentroids sf s).2 : α) ≤ (s.nSamples : α) := h3
  have h4 : (nCentroids sf s).2 ≤ s.nSamples := by exact_mod_cast this
  omega

/-- `K2` over `ℝ` (`c` is the constant 24 of `K2::x`), unit weights, any `δ` for which
`x(n) = δ / (4 ln(n/δ) + c)` is positive: `m ≤ 4·x(n)·ln(n − 1) + 3`.
Partial: this is `≤ δ + 3` only when `ln(n − 1) ≤ ln(n/δ) + c/4` (see `centroid_bound_K2_partial`). -/
theorem centroid_bound_K2_span_partial {δ c : ℝ} {mb : Nat} {ops : List (Op ℝ)} {s : St ℝ}
    (hu : UnitOps ops) (h : run (k2 δ c) (new mb) ops = some s) (hx : 0 < scaleX δ c s.nSamples)
    (h2 : 2 ≤ (nCentroids (k2 δ c) s).2) :
    ((nCentroids (k2 δ c) s).2 : ℝ) ≤ 2 * (2 * scaleX δ c s.nSamples * Real.log ((s.nSamples : ℝ) - 1)) + 3 := by
  have hn := two_le_nSamples (k2 δ c) hu h h2
  have := centroid_bound_of_scale_unit (k2 δ c) hu h (scaleOKOn_k2 hn hx) h2
  rwa [k2_span hn] at this

/-- `K2` over `ℝ`, unit weights, `0 < δ` with `4·ln δ ≤ c` (for `c = 24`: `δ ≤ e⁶ ≈ 403`): a read sees
at most `δ + 3` centroids.  Partial w.r.t. the property: unit weights and this range of `δ` only. -/
theorem centroid_bound_K2_partial {δ c : ℝ} (hδ : 0 < δ) (hc : 4 * Real.log δ ≤ c) {mb : Nat}
    {ops : List (Op ℝ)} {s : St ℝ} (hu : UnitOps ops) (h : run (k2 δ c) (new mb) ops = some s) :
    ((nCentroids (k2 δ c) s).2 : ℝ) ≤ δ + 3 := by
  by_cases h2 : 2 ≤ (nCentroids (k2 δ c) s).2
  · have hn := two_le_nSamples (k2 δ c) hu h h2
    have := centroid_bound_K2_span_partial hu h (scaleX_pos hδ hc hn) h2
    have := k2_final hδ hc hn
    linarith
  · have : (nCentroids (k2 δ c) s).2 ≤ 1 := by omega
    have : ((nCentroids (k2 δ c) s).2 : ℝ) ≤ 1 := by exact_mod_cast this
    linarith

/-- `K3` over `ℝ` (`c` is the constant 21 of `K3::x`), unit weights, `x(n) > 0`:
`m ≤ 4·x(n)·ln(n/2) + 3`. -/
theorem centroid_bound_K3_span_partial {δ c : ℝ} {mb : Nat} {ops : List (Op ℝ)} {s : St ℝ}
    (hu : UnitOps ops) (h : run (k3 δ c) (new mb) ops = some s) (hx : 0 < scaleX δ c s.nSamples)
    (h2 : 2 ≤ (nCentroids (k3 δ c) s).2) :
    ((nCentroids (k3 δ c) s).2 : ℝ) ≤ 2 * (2 * scaleX δ c s.nSamples * Real.log ((s.nSamples : ℝ) / 2)) + 3 := by
  have hn := two_le_nSamples (k3 δ c) hu h h2
  have := centroid_bound_of_scale_unit (k3 δ c) hu h (scaleOKOn_k3 hn hx) h2
  rwa [k3_span hn] at this

/-- `K3` over `ℝ`, unit weights, `0 < δ` with `4·ln δ ≤ c` (for `c = 21`: `δ ≤ e^5.25 ≈ 190`): at most
`δ + 3` centroids.  Partial w.r.t. the property: unit weights and this range of `δ` only. -/
theorem centroid_bound_K3_partial {δ c : ℝ} (hδ : 0 < δ) (hc : 4 * Real.log δ ≤ c) {mb : Nat}
    {ops : List (Op ℝ)} {s : St ℝ} (hu : UnitOps ops) (h : run (k3 δ c) (new mb) ops = some s) :
    ((nCentroids (k3 δ c) s).2 : ℝ) ≤ δ + 3 := by
  by_cases h2 : 2 ≤ (nCentroids (k3 δ c) s).2
  · have hn := two_le_nSamples (k3 δ c) hu h h2
    have := centroid_bound_K3_span_partial hu h (scaleX_pos hδ hc hn) h2
    have := k3_final hδ hc hn
    linarith
  · have : (nCentroids (k3 δ c) s).2 ≤ 1 := by omega
    have : ((nCentroids (k3 δ c) s).2 : ℝ) ≤ 1 := by exact_mod_cast this
    linarith

/-! ### non-vacuity of the scale-function hypotheses -/

example : ScaleOK (k0 (4 : ℚ)) 7 := scaleOK_K0 (by norm_num) 7
example : ScaleOK (k1 (10 : ℝ)) 5 := scaleOK_K1 (by norm_num) 5

/-- the history of `ex_run` is a unit-weight history, and the general bound applies to it -/
example : UnitOps ([.insert 1 1, .insert 4 1, .insert 3 1, .insert 2 1, .read] : List (Op ℚ)) := by
  intro x w hm; simp at hm; rcases hm with h | h | h | h <;> exact h.2

example : ((nCentroids (k0 (4 : ℚ)) ⟨[⟨3, 2⟩, ⟨7, 2⟩], 4, some 1, some 4, [], 10⟩).2 : ℚ)
    < 2 * ((k0 (4 : ℚ)).f 1 4 - (k0 (4 : ℚ)).f 0 4) + 1 :=
  centroid_bound_of_scale (k0 4) ex_run (scaleOK_K0 (by norm_num) _)

/-! ### upper k-size invariant: every cluster the merge pass forms spans at most 1 in k-space

`merge_ksize` above is the *lower* invariant (adjacent pairs span more than 1 in k-space, hence few
centroids).  This section is the *upper* one, on which the accuracy claim rests: a centroid that the
pass forms by fusing inputs ends at or before the limit `lim sf n q0 = f⁻¹(f(q0) + 1)` that was in
force for it, hence its share of the total weight is at most the maximal cluster width `W` of the
scale function (`2/δ` for `K0`, `π/δ` for `K1`, `(ln(n/δ) + 6)/δ` for `K2`, `(2 ln(n/δ) + 10.5)/δ` for
`K3`).  Centroids the pass hands through unchanged are *not* bounded (a single heavy insertion stays
a heavy centroid), so every statement has the alternative "is one of the inputs". -/

/-- `Tight sf n S ins q0 out`, spelled out: the first output centroid `a` (with `q0` the weight
fraction to its left) is an element of `ins` or `q0 + a.count/S` is at most the limit
`f⁻¹(f(q0) + 1)` in force for it; and so on with `q0 + a.count/S`. -/
theorem tight_cons (sf : ScaleFn α) (n : Nat) (S q0 : α) (ins : List (Centroid α)) (a : Centroid α)
    (rest : List (Centroid α)) :
    Tight sf n S ins q0 (a :: rest) ↔
      ((a ∈ ins ∨ q0 + a.count / S ≤ sf.fInv (sf.f q0 n + 1) n) ∧
        Tight sf n S ins (q0 + a.count / S) rest) := Iff.rfl

/-- `merge_ktight`: the output of the greedy pass, started with the limit belonging to `q0`, satisfies
the upper invariant with the pass's own inputs `cur :: rest` as `ins` — for any scale function, any
`S`, any weights (no positivity needed). -/
theorem merge_ktight (sf : ScaleFn α) (n : Nat) (S : α) (rest : List (Centroid α)) (cur : Centroid α)
    (q0 : α) : Tight sf n S (cur :: rest) q0 (mergeLoop sf n S rest cur q0 (lim sf n q0) []) :=
  mergeLoop_tight sf n S rest cur q0

/-- `merge_clusters_tight`: what `merge` leaves is tight w.r.t. the sample count `s.nSamples`, the
total weight `S = sumCount (merge sf s).centroids` (equal to the `totalCount` of the sorted inputs that
the code divides by, and to `sumCount (s.centroids ++ s.backlog)`: see `merge_total`) and the inputs
`ins = s.centroids ++ s.backlog` (the pass runs on a sorted permutation of this list; membership is
the same).  It holds for *every* state `s`, in particular for every reachable one with a non-empty
backlog — the only case in which the pass runs; with an empty backlog `merge` is the identity and
every centroid is an input. -/
theorem merge_clusters_tight (sf : ScaleFn α) (s : St α) :
    Tight sf s.nSamples (sumCount (merge sf s).centroids) (s.centroids ++ s.backlog) 0
      (merge sf s).centroids :=
  merge_tight sf s

/-- For a reachable, non-empty state the `S` of `merge_clusters_tight` is positive and is the total
weight of the inputs, and all centroids have positive weight (so the weight fractions `count/S` of
`Tight` are genuine fractions in `(0, 1]` adding up to 1). -/
theorem merge_total (sf : ScaleFn α) {mb : Nat} {ops : List (Op α)} {s : St α}
    (h : run sf (new mb) ops = some s) (hne : s.centroids ++ s.backlog ≠ []) :
    0 < sumCount (merge sf s).centroids ∧
    sumCount (merge sf s).centroids = sumCount (s.centroids ++ s.backlog) ∧
    ∀ c ∈ (merge sf s).centroids, 0 < c.count := by
  have h0 := inv_reachable sf h
  have hi := inv_merge sf h0
  have hpos : ∀ c ∈ (merge sf s).centroids, 0 < c.count := fun c hc => hi.pos c (by simp [hc])
  have hcnt : sumCount (merge sf s).centroids = sumCount (s.centroids ++ s.backlog) := by
    have := hi.cnt
    rw [merge_backlog, List.append_nil] at this
    rw [this, h0.cnt]
  refine ⟨?_, hcnt, hpos⟩
  rw [hcnt]
  exact sumCount_pos h0.pos hne

/-! #### width of the limit, per scale function -/

/-- `K0` (`0 < δ`, any `n`): on `[0, 1]` the limit is `min (q0 + 2/δ) 1`, at most `2/δ` to the right
of `q0`. -/
theorem lim_width_K0 {δ : α} (hδ : 0 < δ) (n : Nat) {q0 : α} (h0 : 0 ≤ q0) (h1 : q0 ≤ 1) :
    lim (k0 δ) n q0 - q0 ≤ 2 / δ := lim_width_k0 hδ n h0 h1

/-- `K1` over `ℝ` (`0 < δ`, any `n`): `k = δ/(2π)·asin(2q − 1)` and `sin` is 1-Lipschitz, so one unit
of `k` is at most `π/δ` in `q`; the clamping of `k` in `fInv` only moves the limit to the left, never
below `q0`. -/
theorem lim_width_K1 {δ : ℝ} (hδ : 0 < δ) (n : Nat) {q0 : ℝ} (h0 : 0 ≤ q0) (h1 : q0 ≤ 1) :
    lim (k1 δ) n q0 - q0 ≤ Real.pi / δ := lim_width_k1 hδ n h0 h1

/-- `K2` over `ℝ` (`c` is the constant 24 of `K2::x`; `x(n) > 0`): `k = x(n)·ln(q/(1 − q))` and the
logistic function is `1/4`-Lipschitz, so one unit of `k` is at most `1/(4·x(n))` in `q`.
Open interval: at `q0 = 0` the model's `f 0 = x(n)·log 0` is `0` over `ℝ` (Mathlib's `log 0 = 0`;
in `f64` it is `−∞` and the limit is `0`), so there `lim = σ(1/x(n)) ≥ 1/2` and the bound is false as
soon as `x(n) > 1/2`.  Every centroid but the first starts at a `q0` in `(0, 1)`. -/
theorem lim_width_K2 {δ c : ℝ} {n : Nat} (hx : 0 < scaleX δ c n) {q0 : ℝ} (h0 : 0 < q0) (h1 : q0 < 1) :
    lim (k2 δ c) n q0 - q0 ≤ 1 / (4 * scaleX δ c n) := lim_width_k2 hx h0 h1

/-- The width of `K2` is the `W` named by the property: `1/(4·x(n)) = (ln(n/δ) + 6)/δ`.  No side
condition (when `δ = 0` or `x`'s denominator vanishes both sides are `0`). -/
theorem width_K2_eq (δ : ℝ) (n : Nat) :
    1 / (4 * scaleX δ 24 n) = (Real.log ((n : ℝ) / δ) + 6) / δ := k2_width_eq δ n

/-- `K3` over `ℝ` (`c` is the constant 21 of `K3::x`; `x(n) > 0`): the inverse of `K3`
(`e^u/2` for `u ≤ 0`, `1 − e^(−u)/2` above) is `1/2`-Lipschitz, so one unit of `k` is at most
`1/(2·x(n))` in `q`.  Open interval for the same reason as `lim_width_K2`: at `q0 = 0` the model has
`lim = 1 − e^(−1/x(n))/2 ≥ 1/2`. -/
theorem lim_width_K3 {δ c : ℝ} {n : Nat} (hx : 0 < scaleX δ c n) {q0 : ℝ} (h0 : 0 < q0) (h1 : q0 < 1) :
    lim (k3 δ c) n q0 - q0 ≤ 1 / (2 * scaleX δ c n) := lim_width_k3 hx h0 h1

/-- The width of `K3` is the `W` named by the property: `1/(2·x(n)) = (2 ln(n/δ) + 10.5)/δ`. -/
theorem width_K3_eq (δ : ℝ) (n : Nat) :
    1 / (2 * scaleX δ 21 n) = (2 * Real.log ((n : ℝ) / δ) + 10.5) / δ := k3_width_eq δ n

/-! #### weight of the clusters the pass forms

`s` is any reachable state; `(merge sf s).centroids` is what the next read sees.  When the backlog of
`s` is empty the pass does not run and every centroid is an element of `s.centroids` (first
alternative); the statements have content when the backlog is non-empty. -/

/-- Any scale function whose limit is at most `W` to the right of `q0` on `[0, 1)`: every centroid
after `merge` is one of the inputs (`s.centroids ++ s.backlog`, i.e. not formed by this pass) or its
share of the total weight is at most `W`. -/
theorem cluster_width_of_lim (sf : ScaleFn α) {mb : Nat} {ops : List (Op α)} {s : St α}
    (h : run sf (new mb) ops = some s) {W : α}
    (hw : ∀ q, 0 ≤ q → q < 1 → lim sf s.nSamples q - q ≤ W) :
    ∀ c ∈ (merge sf s).centroids,
      c ∈ s.centroids ++ s.backlog ∨ c.count / sumCount (merge sf s).centroids ≤ W :=
  merge_width sf s (fun c hc => (inv_merge sf (inv_reachable sf h)).pos c (by simp [hc])) hw

/-- The same when the limit is only controlled on the open interval `(0, 1)`: every centroid *except
the first* (the only one starting at `q0 = 0`). -/
theorem cluster_width_of_lim_tail (sf : ScaleFn α) {mb : Nat} {ops : List (Op α)} {s : St α}
    (h : run sf (new mb) ops = some s) {W : α}
    (hw : ∀ q, 0 < q → q < 1 → lim sf s.nSamples q - q ≤ W) :
    ∀ c ∈ (merge sf s).centroids.tail,
      c ∈ s.centroids ++ s.backlog ∨ c.count / sumCount (merge sf s).centroids ≤ W :=
  merge_width_tail sf s (fun c hc => (inv_merge sf (inv_reachable sf h)).pos c (by simp [hc])) hw

/-- `cluster_width_K0`: with `K0` and compression `δ > 0`, after any history every centroid a read sees
was an input of the last pass unchanged, or holds at most `2/δ` of the total weight. -/
theorem cluster_width_K0 {δ : α} (hδ : 0 < δ) {mb : Nat} {ops : List (Op α)} {s : St α}
    (h : run (k0 δ) (new mb) ops = some s) :
    ∀ c ∈ (merge (k0 δ) s).centroids,
      c ∈ s.centroids ++ s.backlog ∨ c.count / sumCount (merge (k0 δ) s).centroids ≤ 2 / δ :=
  cluster_width_of_lim (k0 δ) h (fun _ h0 h1 => lim_width_K0 hδ _ h0 h1.le)

/-- `cluster_width_K1`: with `K1` over `ℝ` and compression `δ > 0`, every centroid a read sees was an
input of the last pass unchanged, or holds at most `π/δ` of the total weight. -/
theorem cluster_width_K1 {δ : ℝ} (hδ : 0 < δ) {mb : Nat} {ops : List (Op ℝ)} {s : St ℝ}
    (h : run (k1 δ) (new mb) ops = some s) :
    ∀ c ∈ (merge (k1 δ) s).centroids,
      c ∈ s.centroids ++ s.backlog ∨ c.count / sumCount (merge (k1 δ) s).centroids ≤ Real.pi / δ :=
  cluster_width_of_lim (k1 δ) h (fun _ h0 h1 => lim_width_K1 hδ _ h0 h1.le)

/-- `cluster_width_K2_partial`: with `K2` over `ℝ` and `x(n) > 0` at the current sample count, every
centroid *but the first* was an input of the last pass unchanged, or holds at most `1/(4·x(n))` of the
total weight.  Partial: the first centroid is excluded.  It starts at `q0 = 0`, where the model over
`ℝ` computes `f 0 = x(n)·log 0 = 0` and a limit `σ(1/x(n)) ≥ 1/2`, so in the model the first cluster
can hold half of the weight and the bound is false for it (`lim_width_K2`); in `f64` the same limit
evaluates to `0` (`f 0 = −∞`), i.e. there the first centroid is never fused at all. -/
theorem cluster_width_K2_partial {δ c : ℝ} {mb : Nat} {ops : List (Op ℝ)} {s : St ℝ}
    (h : run (k2 δ c) (new mb) ops = some s) (hx : 0 < scaleX δ c s.nSamples) :
    ∀ d ∈ (merge (k2 δ c) s).centroids.tail,
      d ∈ s.centroids ++ s.backlog ∨
        d.count / sumCount (merge (k2 δ c) s).centroids ≤ 1 / (4 * scaleX δ c s.nSamples) :=
  cluster_width_of_lim_tail (k2 δ c) h (fun _ h0 h1 => lim_width_K2 hx h0 h1)

/-- The same with the constant 24 of the code and the `W` of the property, `(ln(n/δ) + 6)/δ`. -/
theorem cluster_width_K2_W_partial {δ : ℝ} {mb : Nat} {ops : List (Op ℝ)} {s : St ℝ}
    (h : run (k2 δ 24) (new mb) ops = some s) (hx : 0 < scaleX δ 24 s.nSamples) :
    ∀ d ∈ (merge (k2 δ 24) s).centroids.tail,
      d ∈ s.centroids ++ s.backlog ∨
        d.count / sumCount (merge (k2 δ 24) s).centroids ≤ (Real.log ((s.nSamples : ℝ) / δ) + 6) / δ := by
  rw [← width_K2_eq]; exact cluster_width_K2_partial h hx

/-- `cluster_width_K3_partial`: with `K3` over `ℝ` and `x(n) > 0`, every centroid *but the first* was
an input of the last pass unchanged, or holds at most `1/(2·x(n))` of the total weight.  Partial: the
first centroid is excluded, for the same reason as in `cluster_width_K2_partial` (model limit at
`q0 = 0` is `1 − e^(−1/x(n))/2 ≥ 1/2`; in `f64` it is `0`). -/
theorem cluster_width_K3_partial {δ c : ℝ} {mb : Nat} {ops : List (Op ℝ)} {s : St ℝ}
    (h : run (k3 δ c) (new mb) ops = some s) (hx : 0 < scaleX δ c s.nSamples) :
    ∀ d ∈ (merge (k3 δ c) s).centroids.tail,
      d ∈ s.centroids ++ s.backlog ∨
        d.count / sumCount (merge (k3 δ c) s).centroids ≤ 1 / (2 * scaleX δ c s.nSamples) :=
  cluster_width_of_lim_tail (k3 δ c) h (fun _ h0 h1 => lim_width_K3 hx h0 h1)

/-- The same with the constant 21 of the code and the `W` of the property, `(2 ln(n/δ) + 10.5)/δ`. -/
theorem cluster_width_K3_W_partial {δ : ℝ} {mb : Nat} {ops : List (Op ℝ)} {s : St ℝ}
    (h : run (k3 δ 21) (new mb) ops = some s) (hx : 0 < scaleX δ 21 s.nSamples) :
    ∀ d ∈ (merge (k3 δ 21) s).centroids.tail,
      d ∈ s.centroids ++ s.backlog ∨
        d.count / sumCount (merge (k3 δ 21) s).centroids
          ≤ (2 * Real.log ((s.nSamples : ℝ) / δ) + 10.5) / δ := by
  rw [← width_K3_eq]; exact cluster_width_K3_partial h hx

/-! #### non-vacuity of the upper invariant -/

/-- the state of `ex_run` just before the read: four unit-weight entries in the backlog -/
theorem ex_run_backlog :
    run (k0 (4 : ℚ)) (new 10) [.insert 1 1, .insert 4 1, .insert 3 1, .insert 2 1]
      = some ⟨[], 4, some 1, some 4, [⟨2, 1⟩, ⟨3, 1⟩, ⟨4, 1⟩, ⟨1, 1⟩], 10⟩ := by
  norm_num [run, step, insertWeighted, new, minOpt, maxOpt]

/-- … and what `merge` makes of it: two centroids, both formed by the pass -/
theorem ex_merge_backlog :
    merge (k0 (4 : ℚ)) ⟨[], 4, some 1, some 4, [⟨2, 1⟩, ⟨3, 1⟩, ⟨4, 1⟩, ⟨1, 1⟩], 10⟩
      = ⟨[⟨3, 2⟩, ⟨7, 2⟩], 4, some 1, some 4, [], 10⟩ := by
  norm_num [merge, List.mergeSort, List.MergeSort.Internal.splitInTwo,
    List.merge, mergeLoop, k0, Centroid.fuse, Centroid.mean, totalCount]

/-- `Tight` evaluated: neither output centroid is an input, both end exactly at their limit
(`0 + 2/4 ≤ lim 0 = 1/2`, `1/2 + 2/4 ≤ lim (1/2) = 1`) -/
example : Tight (k0 (4 : ℚ)) 4 4 [⟨2, 1⟩, ⟨3, 1⟩, ⟨4, 1⟩, ⟨1, 1⟩] 0 [⟨3, 2⟩, ⟨7, 2⟩] := by
  norm_num [Tight, lim, k0]

example : (⟨3, 2⟩ : Centroid ℚ) ∉ [⟨2, 1⟩, ⟨3, 1⟩, ⟨4, 1⟩, ⟨1, 1⟩] ∧
    (⟨7, 2⟩ : Centroid ℚ) ∉ [⟨2, 1⟩, ⟨3, 1⟩, ⟨4, 1⟩, ⟨1, 1⟩] := by
  simp

/-- `Tight` is not vacuous: fusing all four inputs into one centroid violates it -/
example : ¬ Tight (k0 (4 : ℚ)) 4 4 [⟨2, 1⟩, ⟨3, 1⟩, ⟨4, 1⟩, ⟨1, 1⟩] 0 [⟨10, 4⟩] := by
  norm_num [Tight, lim, k0]

/-- `merge_ktight` on the pass of `ex_run` (inputs sorted by mean) -/
example : Tight (k0 (4 : ℚ)) 4 4 [⟨1, 1⟩, ⟨2, 1⟩, ⟨3, 1⟩, ⟨4, 1⟩] 0 [⟨3, 2⟩, ⟨7, 2⟩] := by
  have := merge_ktight (k0 (4 : ℚ)) 4 4 [⟨2, 1⟩, ⟨3, 1⟩, ⟨4, 1⟩] ⟨1, 1⟩ 0
  norm_num [mergeLoop, k0, lim, Centroid.fuse] at this
  norm_num [k0, lim]
  exact this

/-- `merge_clusters_tight` and `merge_total` on the reachable state `ex_run_backlog` -/
example : Tight (k0 (4 : ℚ)) 4 (sumCount [⟨3, 2⟩, ⟨7, 2⟩])
    ([] ++ [⟨2, 1⟩, ⟨3, 1⟩, ⟨4, 1⟩, ⟨1, 1⟩]) 0 [⟨3, 2⟩, ⟨7, 2⟩] := by
  have := merge_clusters_tight (k0 (4 : ℚ)) ⟨[], 4, some 1, some 4, [⟨2, 1⟩, ⟨3, 1⟩, ⟨4, 1⟩, ⟨1, 1⟩], 10⟩
  rwa [ex_merge_backlog] at this

example : (0 : ℚ) < sumCount [⟨3, 2⟩, ⟨7, 2⟩] := by
  have := (merge_total (k0 (4 : ℚ)) ex_run_backlog (by simp)).1
  rwa [ex_merge_backlog] at this

/-- `cluster_width_K0` on that state: both centroids hold `2/4` of the weight — the bound `2/δ` is
attained -/
example : ∀ c ∈ ([⟨3, 2⟩, ⟨7, 2⟩] : List (Centroid ℚ)),
    c ∈ [] ++ [⟨2, 1⟩, ⟨3, 1⟩, ⟨4, 1⟩, ⟨1, 1⟩] ∨ c.count / sumCount [⟨3, 2⟩, ⟨7, 2⟩] ≤ 2 / 4 := by
  have := cluster_width_K0 (by norm_num : (0 : ℚ) < 4) ex_run_backlog
  rwa [ex_merge_backlog] at this

example : (⟨3, 2⟩ : Centroid ℚ).count / sumCount [⟨3, 2⟩, ⟨7, 2⟩] = 2 / 4 := by
  norm_num [sumCount]

/-- the alternative "is one of the inputs" cannot be dropped: a weight-10 insertion followed by a
weight-1 insertion (`K0`, `δ = 4`) leaves the heavy centroid unfused with `10/11 > 2/δ` of the weight -/
example : run (k0 (4 : ℚ)) (new 10) [.insert 1 10, .insert 2 1, .read]
    = some ⟨[⟨10, 10⟩, ⟨2, 1⟩], 2, some 1, some 2, [], 10⟩ ∧
    ¬ ((⟨10, 10⟩ : Centroid ℚ).count / sumCount [⟨10, 10⟩, ⟨2, 1⟩] ≤ 2 / 4) := by
  constructor
  · norm_num [run, step, insertWeighted, merge, List.mergeSort, List.MergeSort.Internal.splitInTwo,
      List.merge, mergeLoop, k0, Centroid.fuse, Centroid.mean, new, minOpt, maxOpt, totalCount]
    intro h; simp at h
  · norm_num [sumCount]

/-- `lim_width_K0`: hypotheses hold at `q0 = 0` and `q0 = 1/2`, and the bound is attained at `q0 = 0` -/
example : lim (k0 (4 : ℚ)) 4 (1 / 2) - 1 / 2 ≤ 2 / 4 :=
  lim_width_K0 (by norm_num) 4 (by norm_num) (by norm_num)

example : lim (k0 (4 : ℚ)) 4 0 - 0 = 2 / 4 := by norm_num [lim, k0]

/-- two unit-weight insertions over `ℝ`, any scale function (no merge happens: `2 ≤ maxBacklog`) -/
theorem ex_run_real (sf : ScaleFn ℝ) : run sf (new 10) [.insert 1 1, .insert 2 1]
    = some ⟨[], 2, some 1, some 2, [⟨2, 1⟩, ⟨1, 1⟩], 10⟩ := by
  norm_num [run, step, insertWeighted, new, minOpt, maxOpt]

example : lim (k1 (10 : ℝ)) 2 (1 / 2) - 1 / 2 ≤ Real.pi / 10 :=
  lim_width_K1 (by norm_num) 2 (by norm_num) (by norm_num)

example : ∀ c ∈ (merge (k1 (10 : ℝ)) ⟨[], 2, some 1, some 2, [⟨2, 1⟩, ⟨1, 1⟩], 10⟩).centroids,
    c ∈ [] ++ [(⟨2, 1⟩ : Centroid ℝ), ⟨1, 1⟩] ∨
      c.count / sumCount (merge (k1 (10 : ℝ)) ⟨[], 2, some 1, some 2, [⟨2, 1⟩, ⟨1, 1⟩], 10⟩).centroids
        ≤ Real.pi / 10 :=
  cluster_width_K1 (by norm_num) (ex_run_real _)

/-- `x(n) > 0` for `δ = 2`, `n = 2` and both constants of the code (`4·ln 2 ≤ 4 ≤ 21`) -/
theorem ex_scaleX_pos {c : ℝ} (hc : 4 ≤ c) : 0 < scaleX (2 : ℝ) c 2 := by
  have := Real.log_le_sub_one_of_pos (show (0 : ℝ) < 2 by norm_num)
  exact scaleX_pos (by norm_num) (by linarith) le_rfl

example : lim (k2 (2 : ℝ) 24) 2 (1 / 2) - 1 / 2 ≤ (Real.log (((2 : ℕ) : ℝ) / 2) + 6) / 2 := by
  rw [← width_K2_eq]
  exact lim_width_K2 (ex_scaleX_pos (by norm_num)) (by norm_num) (by norm_num)

example : lim (k3 (2 : ℝ) 21) 2 (1 / 2) - 1 / 2 ≤ (2 * Real.log (((2 : ℕ) : ℝ) / 2) + 10.5) / 2 := by
  rw [← width_K3_eq]
  exact lim_width_K3 (ex_scaleX_pos (by norm_num)) (by norm_num) (by norm_num)

example : ∀ d ∈ (merge (k2 (2 : ℝ) 24) ⟨[], 2, some 1, some 2, [⟨2, 1⟩, ⟨1, 1⟩], 10⟩).centroids.tail,
    d ∈ [] ++ [(⟨2, 1⟩ : Centroid ℝ), ⟨1, 1⟩] ∨
      d.count / sumCount (merge (k2 (2 : ℝ) 24) ⟨[], 2, some 1, some 2, [⟨2, 1⟩, ⟨1, 1⟩], 10⟩).centroids
        ≤ (Real.log (((2 : ℕ) : ℝ) / 2) + 6) / 2 :=
  cluster_width_K2_W_partial (ex_run_real _) (ex_scaleX_pos (by norm_num))

example : ∀ d ∈ (merge (k3 (2 : ℝ) 21) ⟨[], 2, some 1, some 2, [⟨2, 1⟩, ⟨1, 1⟩], 10⟩).centroids.tail,
    d ∈ [] ++ [(⟨2, 1⟩ : Centroid ℝ), ⟨1, 1⟩] ∨
      d.count / sumCount (merge (k3 (2 : ℝ) 21) ⟨[], 2, some 1, some 2, [⟨2, 1⟩, ⟨1, 1⟩], 10⟩).centroids
        ≤ (2 * Real.log (((2 : ℕ) : ℝ) / 2) + 10.5) / 2 :=
  cluster_width_K3_W_partial (ex_run_real _) (ex_scaleX_pos (by norm_num))

/-- the exclusion of `q0 = 0` in `lim_width_K2` is necessary in the model: with `x(n) = 1` the limit at
`0` is `σ(1) = e/(e + 1) > 1/2 > 1/4` -/
example {δ c : ℝ} {n : Nat} (hx : scaleX δ c n = 1) :
    1 / (4 * scaleX δ c n) < lim (k2 δ c) n 0 - 0 := by
  rw [lim, k2_f_eq δ c n le_rfl zero_le_one, k2_fInv_eq, hx]
  have he : (1 : ℝ) < Real.exp 1 := by
    have := Real.add_one_le_exp (1 : ℝ); linarith
  have e0 : (1 : ℝ) * Real.log (0 / (1 - 0)) + 1 = 1 := by simp
  rw [e0, div_one, sub_zero, lt_div_iff₀ (by linarith)]
  linarith


/-! ### rank accuracy of `quantile` and `cdf`

The accuracy clause of C04 in full: *for every history of unit-weight inserts, every `q`: the
fraction of inserted values `≤ quantile(q)` differs from `q` by at most a small multiple of the
maximal cluster width `W` plus `2/n`; `cdf` likewise*.  For histories with several compression passes
this is **not** a theorem of the algorithm (centroids formed in different passes overlap in value
range; adversarial insertion orders with unbounded rank error are known for the merging t-digest), and
it is decided by the sampling experiment only.  What is proved:

* `rank_*_one_pass_partial` — the full data-level statement with constant `3/2` for a digest whose
  data went through **one** compression pass (`n ≤ max_backlog_size`, any scale function, any
  insertion order, ties allowed): with `wmax` a bound on the centroid weights,
  `#{x < v} ≤ n·q + 3/2·wmax` and `n·q ≤ #{x ≤ v} + 3/2·wmax` for `v = quantile(q)`, and
  `#{y < x} − 3/2·wmax ≤ n·cdf(x) ≤ #{y ≤ x} + 3/2·wmax`.  (The rank *interval* `[#{x<v}, #{x≤v}]` is
  what the statement's "heavy ties … across which interpolation must bridge" refers to.)
* `rank_*_one_pass_K0`, `…_K1` — the same with `wmax` discharged by the cluster-width theorems:
  `3/2·max 1 (W·n)`, `W = 2/δ` (any ordered field) and `W = π/δ` (over ℝ).
* `rank_*_centroids` — for **every** reachable state (any weights, any number of passes, any scale
  function): `quantile`/`cdf` are `3/2·wmax`-accurate with respect to the centroid summary they read
  (`wLT`/`wLE` = weight of the centroids with mean `<`/`≤` the argument).  The interpolation layer thus
  never adds more than `3/2` cluster widths to whatever error the centroids already carry. -/

open Pds.TDigest in
/-- one pass, `quantile`, any scale function (partial: one compression pass) -/
theorem rank_quantile_one_pass_partial (sf : ScaleFn α) {mb : Nat} {xs : List α} {s : St α}
    (h : run sf (new mb) (xs.map (fun x => Op.insert x 1)) = some s) (hne : xs ≠ [])
    (hmb : xs.length ≤ mb) {wmax : α} (hw : ∀ c ∈ (merge sf s).centroids, c.count ≤ wmax)
    {q : α} (hq0 : 0 ≤ q) (hq1 : q ≤ 1) :
    ∃ v, (quantile sf s q).2 = .val v ∧
      (countLT xs v : α) ≤ (xs.length : α) * q + 3 / 2 * wmax ∧
      (xs.length : α) * q ≤ (countLE xs v : α) + 3 / 2 * wmax :=
  quantile_rank_of_run sf h hne hmb hw hq0 hq1

/-- one pass, `cdf`, any scale function (partial: one compression pass) -/
theorem rank_cdf_one_pass_partial (sf : ScaleFn α) {mb : Nat} {xs : List α} {s : St α}
    (h : run sf (new mb) (xs.map (fun x => Op.insert x 1)) = some s) (hne : xs ≠ [])
    (hmb : xs.length ≤ mb) {wmax : α} (hw : ∀ c ∈ (merge sf s).centroids, c.count ≤ wmax) (x : α) :
    ∃ r, (cdf sf s x).2 = some r ∧
      (countLT xs x : α) - 3 / 2 * wmax ≤ (xs.length : α) * r ∧
      (xs.length : α) * r ≤ (countLE xs x : α) + 3 / 2 * wmax :=
  cdf_rank_of_run sf h hne hmb hw x

/-- one pass with `K0`: as fractions of `n`, `F̂(v−) ≤ q + ε` and `q ≤ F̂(v) + ε` with
`ε = 3/2·max (1/n) (2/δ)` -/
theorem rank_quantile_one_pass_K0 {δ : α} (hδ : 0 < δ) {mb : Nat} {xs : List α} {s : St α}
    (h : run (k0 δ) (new mb) (xs.map (fun x => Op.insert x 1)) = some s) (hne : xs ≠ [])
    (hmb : xs.length ≤ mb) {q : α} (hq0 : 0 ≤ q) (hq1 : q ≤ 1) :
    ∃ v, (quantile (k0 δ) s q).2 = .val v ∧
      (countLT xs v : α) / (xs.length : α) ≤ q + 3 / 2 * max (1 / (xs.length : α)) (2 / δ) ∧
      q ≤ (countLE xs v : α) / (xs.length : α) + 3 / 2 * max (1 / (xs.length : α)) (2 / δ) :=
  quantile_rank_K0_frac hδ h hne hmb hq0 hq1

theorem rank_cdf_one_pass_K0 {δ : α} (hδ : 0 < δ) {mb : Nat} {xs : List α} {s : St α}
    (h : run (k0 δ) (new mb) (xs.map (fun x => Op.insert x 1)) = some s) (hne : xs ≠ [])
    (hmb : xs.length ≤ mb) (x : α) :
    ∃ r, (cdf (k0 δ) s x).2 = some r ∧
      (countLT xs x : α) / (xs.length : α) - 3 / 2 * max (1 / (xs.length : α)) (2 / δ) ≤ r ∧
      r ≤ (countLE xs x : α) / (xs.length : α) + 3 / 2 * max (1 / (xs.length : α)) (2 / δ) :=
  cdf_rank_K0_frac hδ h hne hmb x

/-- one pass with `K1` over ℝ: rank error at most `3/2·max 1 (πn/δ)` -/
theorem rank_quantile_one_pass_K1 {δ : ℝ} (hδ : 0 < δ) {mb : Nat} {xs : List ℝ} {s : St ℝ}
    (h : run (k1 δ) (new mb) (xs.map (fun x => Op.insert x 1)) = some s) (hne : xs ≠ [])
    (hmb : xs.length ≤ mb) {q : ℝ} (hq0 : 0 ≤ q) (hq1 : q ≤ 1) :
    ∃ v, (quantile (k1 δ) s q).2 = .val v ∧
      (countLT xs v : ℝ) ≤ (xs.length : ℝ) * q + 3 / 2 * max 1 (Real.pi / δ * (xs.length : ℝ)) ∧
      (xs.length : ℝ) * q ≤ (countLE xs v : ℝ) + 3 / 2 * max 1 (Real.pi / δ * (xs.length : ℝ)) :=
  quantile_rank_K1 hδ h hne hmb hq0 hq1

theorem rank_cdf_one_pass_K1 {δ : ℝ} (hδ : 0 < δ) {mb : Nat} {xs : List ℝ} {s : St ℝ}
    (h : run (k1 δ) (new mb) (xs.map (fun x => Op.insert x 1)) = some s) (hne : xs ≠ [])
    (hmb : xs.length ≤ mb) (x : ℝ) :
    ∃ r, (cdf (k1 δ) s x).2 = some r ∧
      (countLT xs x : ℝ) - 3 / 2 * max 1 (Real.pi / δ * (xs.length : ℝ)) ≤ (xs.length : ℝ) * r ∧
      (xs.length : ℝ) * r ≤ (countLE xs x : ℝ) + 3 / 2 * max 1 (Real.pi / δ * (xs.length : ℝ)) :=
  cdf_rank_K1 hδ h hne hmb x

/-- every reachable state: `quantile` against the centroid summary -/
theorem rank_quantile_centroids (sf : ScaleFn α) {mb : Nat} {ops : List (Op α)} {s : St α}
    (h : run sf (new mb) ops = some s) (hne : (merge sf s).centroids ≠ []) {wmax : α}
    (hw : ∀ c ∈ (merge sf s).centroids, c.count ≤ wmax) {q : α} (hq0 : 0 ≤ q) (hq1 : q ≤ 1) :
    ∃ v, (quantile sf s q).2 = .val v ∧
      wLT (merge sf s).centroids v ≤ sumCount (merge sf s).centroids * q + 3 / 2 * wmax ∧
      sumCount (merge sf s).centroids * q ≤ wLE (merge sf s).centroids v + 3 / 2 * wmax :=
  quantile_rank_centroids_of_run sf h hne hw hq0 hq1

/-- every reachable state: `cdf` against the centroid summary -/
theorem rank_cdf_centroids (sf : ScaleFn α) {mb : Nat} {ops : List (Op α)} {s : St α}
    (h : run sf (new mb) ops = some s) (hne : (merge sf s).centroids ≠ []) {wmax : α}
    (hw : ∀ c ∈ (merge sf s).centroids, c.count ≤ wmax) (x : α) :
    ∃ r, (cdf sf s x).2 = some r ∧
      wLT (merge sf s).centroids x - 3 / 2 * wmax ≤ sumCount (merge sf s).centroids * r ∧
      sumCount (merge sf s).centroids * r ≤ wLE (merge sf s).centroids x + 3 / 2 * wmax :=
  cdf_rank_centroids_of_run sf h hne hw x

/-- non-vacuity: six shuffled values, `K0` with `δ = 4`, backlog 10 — the hypotheses hold, the digest
has two centroids of weight 3, `quantile(1/2) = 7/2` with `#{x < 7/2} = #{x ≤ 7/2} = 3 = n·q` -/
example : run (k0 (4 : ℚ)) (new 10) (([3, 1, 6, 2, 5, 4] : List ℚ).map (fun x => Op.insert x 1))
    = some exBacklog := ex_rank_run

example : ∃ v, (quantile (k0 (4 : ℚ)) exBacklog (1 / 2)).2 = .val v ∧
    (countLT ([3, 1, 6, 2, 5, 4] : List ℚ) v : ℚ) / (6 : ℕ) ≤ 1 / 2 + 3 / 2 * max (1 / ((6 : ℕ) : ℚ)) (2 / 4) ∧
    1 / 2 ≤ (countLE ([3, 1, 6, 2, 5, 4] : List ℚ) v : ℚ) / (6 : ℕ) + 3 / 2 * max (1 / ((6 : ℕ) : ℚ)) (2 / 4) :=
  rank_quantile_one_pass_K0 (by norm_num) ex_rank_run (by simp [exData]) (by simp [exData]) (by norm_num) (by norm_num)


end Pds.Props.C04
