import Pds.Props.C14
import Pds.Model.Quotient
/-!
# C12 — failed cuckoo-filter operations leave the filter unchanged

Model: `Pds.Cuckoo` (`src/filters/cuckoofilter.rs`); vocabulary as in `Pds.Props.C14`.
A failing `insert` / `union` has already moved fingerprints around (up to `kicks` evictions per
transferred fingerprint) and — for `union` — has already written the fingerprints transferred
before the failing one.  Every write, including those into free slots, is logged as
`(slot, previous content)`; `restore_state` replays the log newest-first.  The theorems say that this
gives back the table *exactly* (not merely the same abstraction), together with `len`.
Only the RNG state may differ afterwards.
-/
namespace Pds.Props.C12
open Pds.Cuckoo Multiset

variable {R : Type}

/-- `insert` reporting `CuckooFilterFull` leaves table, `len` and parameters exactly as they were,
for every eviction limit and every random choice of victims. -/
theorem insert_full_unchanged (I : RngI R) (hI : RngOK I) (hash : List Nat → Nat) (kicks : Nat)
    {s s' : St R} (h : Inv hash s) {x : Nat} (hr : insert I hash kicks s x = some (s', .full)) :
    s'.table = s.table ∧ s'.n = s.n ∧ SameParams s s' := by
  obtain ⟨s1, r, e, hp, _, hfull⟩ := insert_spec I hI hash kicks h x
  rw [e] at hr
  simp only [Option.some.injEq, Prod.mk.injEq] at hr
  obtain ⟨rfl, rfl⟩ := hr
  obtain ⟨a, b⟩ := hfull rfl
  exact ⟨a, b, hp⟩

/-- `union` reporting `CuckooFilterFull` — at the first, a middle or the last transferred
fingerprint — leaves table, `len` and parameters of the receiver exactly as they were.
Remark: the second operand `o` is an immutable argument (`&Self`), it cannot change. -/
theorem union_full_unchanged (I : RngI R) (hI : RngOK I) (hash : List Nat → Nat) (kicks : Nat)
    {s o s' : St R} (hs : Inv hash s) (ho : Inv hash o)
    (hp : s.bs = o.bs ∧ s.nb = o.nb ∧ s.lf = o.lf)
    (hr : union I hash kicks s o = some (s', .full)) :
    s'.table = s.table ∧ s'.n = s.n ∧ SameParams s s' := by
  obtain ⟨s1, r, e, hsp, _, hfull⟩ := union_spec I hI hash kicks hs ho hp
  rw [e] at hr
  simp only [Option.some.injEq, Prod.mk.injEq] at hr
  obtain ⟨rfl, rfl⟩ := hr
  obtain ⟨a, b⟩ := hfull rfl
  exact ⟨a, b, hsp⟩

/-- `delete` reporting `false` returns the very same state (including the RNG). -/
theorem delete_false_unchanged (hash : List Nat → Nat) {s s' : St R} (h : Inv hash s) {x : Nat}
    (hr : delete hash s x = some (s', false)) : s' = s := by
  obtain ⟨s1, b, e, _, _, hf⟩ := Pds.Cuckoo.delete_spec hash h x
  rw [e] at hr
  simp only [Option.some.injEq, Prod.mk.injEq] at hr
  obtain ⟨rfl, rfl⟩ := hr
  exact hf rfl

/-- Consequently a failed `insert` or `union` is unobservable: the state is still well-formed, holds
the same multiset of classes, and answers every query as before. -/
theorem failed_insert_unobservable (I : RngI R) (hI : RngOK I) (hash : List Nat → Nat) (kicks : Nat)
    {s s' : St R} (h : Inv hash s) {x : Nat} (hr : insert I hash kicks s x = some (s', .full)) :
    Inv hash s' ∧ abs hash s' = abs hash s ∧ ∀ y, query hash s' y = query hash s y := by
  obtain ⟨a, b, c⟩ := insert_full_unchanged I hI hash kicks h hr
  obtain ⟨d, e⟩ := h.of_same c a b
  exact ⟨d, e, query_congr hash c a⟩

theorem failed_union_unobservable (I : RngI R) (hI : RngOK I) (hash : List Nat → Nat) (kicks : Nat)
    {s o s' : St R} (hs : Inv hash s) (ho : Inv hash o)
    (hp : s.bs = o.bs ∧ s.nb = o.nb ∧ s.lf = o.lf)
    (hr : union I hash kicks s o = some (s', .full)) :
    Inv hash s' ∧ abs hash s' = abs hash s ∧ ∀ y, query hash s' y = query hash s y := by
  obtain ⟨a, b, c⟩ := union_full_unchanged I hI hash kicks hs ho hp hr
  obtain ⟨d, e⟩ := hs.of_same c a b
  exact ⟨d, e, query_congr hash c a⟩

/-! ## Non-vacuity (RNG, hash and `view` from `Pds.Props.C14`) -/
open Pds.Props.C14

/-- An insert that fails after 500 evictions: fingerprints 2, 4, 6 are all confined to bucket 0 of
size 2.  Table and `len` are those before the attempt. -/
example : view (run rngX hashX 500 emptyX [.insert 1002, .insert 1004]) =
    some ([2, 4, 0, 0], 2, [.ins (.ok true), .ins (.ok true)]) := by decide
example : view (run rngX hashX 500 emptyX [.insert 1002, .insert 1004, .insert 1006]) =
    some ([2, 4, 0, 0], 2, [.ins (.ok true), .ins (.ok true), .ins .full]) := by decide +kernel

/-- The unrestored table of that failing insert really differs (evictions happened): the raw
`insert_internal` outcome before `restore`. -/
example : (insertInternal rngX hashX 2 2 500 #[2, 4, 0, 0] 2 0 [] 6 0 0).map
      (fun st => (st.res, st.table.toList, st.log.length)) =
    some (.full, [6, 2, 0, 0], 500) := by decide +kernel

/-- A failing union at a *middle* fingerprint: the other filter holds 3, 6, 5 in slots 0, 1, 2.
Fingerprint 3 is transferred (into bucket 1), then 6 fails; the transferred 3 is undone as well.
With the receiver's bucket 1 initially empty the failure happens at the second of three. -/
example : view (run rngX hashX 500 emptyX
      [.insert 1002, .insert 1004, .union ⟨2, 2, 8, #[3, 6, 5, 0], 3, 0⟩]) =
    some ([2, 4, 0, 0], 2, [.ins (.ok true), .ins (.ok true), .uni .full]) := by decide +kernel

/-- … at the *first* transferred fingerprint … -/
example : view (run rngX hashX 500 emptyX
      [.insert 1002, .insert 1004, .union ⟨2, 2, 8, #[6, 3, 0, 0], 2, 0⟩]) =
    some ([2, 4, 0, 0], 2, [.ins (.ok true), .ins (.ok true), .uni .full]) := by decide +kernel

/-- … and at the *last* one. -/
example : view (run rngX hashX 500 emptyX
      [.insert 1002, .insert 1004, .union ⟨2, 2, 8, #[3, 0, 5, 6], 3, 0⟩]) =
    some ([2, 4, 0, 0], 2, [.ins (.ok true), .ins (.ok true), .uni .full]) := by decide +kernel

/-- the operand of these unions satisfies the side condition of the theorems -/
example : (3 : Nat) = card (abs hashX (⟨2, 2, 8, #[3, 6, 5, 0], 3, 0⟩ : St Nat)) := by decide

/-- Quotient filter: an `insert` that reports `Full` returns exactly the state it was given
(the capacity test precedes every write), for every table, quotient and remainder. -/
theorem quotient_insert_full_unchanged {N : Nat} (t t' : Pds.Quotient.St N) (a : Fin N) (r : Nat)
    (h : Pds.Quotient.insertInternal t a r = some (t', .full)) : t' = t := by
  unfold Pds.Quotient.insertInternal at h
  split at h
  · cases h
  · split at h
    · cases h
    · split at h
      · cases h; rfl
      · simp only at h
        split at h
        · cases h
        · cases h

/-- Quotient filter: a `union` that reports `Full` (at whichever transferred fingerprint) returns
exactly the receiver it was given — the complete backup is restored. -/
theorem quotient_union_full_unchanged {N : Nat} (t o t' : Pds.Quotient.St N)
    (h : Pds.Quotient.union t o = some (t', .full)) : t' = t := by
  unfold Pds.Quotient.union at h
  split at h
  · cases h
  · cases h; rfl
  · cases h

/-- Quotient filter, public level: `insert` of an element hash that reports `Full` leaves the state unchanged. -/
theorem quotient_insert_hash_full_unchanged {N : Nat} (q r : Nat) (t t' : Pds.Quotient.St N) (fp : Nat)
    (h : Pds.Quotient.insert q r t fp = some (t', .full)) : t' = t := by
  unfold Pds.Quotient.insert at h
  simp only at h
  split at h
  · exact quotient_insert_full_unchanged t t' _ _ h
  · cases h

end Pds.Props.C12
