import Pds.Proofs.TDigestHist
import Mathlib.Algebra.Order.Field.Rat
import Mathlib.Tactic.NormNum
/-!
# C16 — t-digest aggregates are exact (in exact arithmetic)

Model: `Pds.TDigest` (`src/tdigest.rs`), instantiated at an arbitrary linearly ordered field `α`.
Every statement holds for every scale function `sf` and every `maxBacklog`.

A *history* is a `List (Op α)` run from `new mb` by `run` (`none` = a negative weight hit the
assertion of `insert_weighted`); `Op.read` stands for any read (its state effect is `merge`), and
`inserted ops` lists the pairs `(x, w)` with `0 < w` inserted since creation or the last `clear`.
-/
set_option linter.unusedSectionVars false
namespace Pds.Props.C16
open Pds.TDigest
variable {α : Type} [Field α] [LinearOrder α] [IsStrictOrderedRing α]

/-! ### what `run` and `inserted` mean -/

/-- A history runs to completion iff it never inserts a negative weight. -/
theorem run_ok_iff (sf : ScaleFn α) (mb : Nat) (ops : List (Op α)) :
    (run sf (new mb) ops).isSome ↔ ∀ x w, Op.insert x w ∈ ops → 0 ≤ w :=
  run_isSome_iff sf _ ops

theorem inserted_nil : inserted ([] : List (Op α)) = [] := rfl

/-- An insertion is recorded iff its weight is positive. -/
theorem inserted_insert (ops : List (Op α)) (x w : α) :
    inserted (ops ++ [Op.insert x w]) = if 0 < w then (x, w) :: inserted ops else inserted ops := by
  simp [inserted, List.foldl_append, record]

theorem inserted_read (ops : List (Op α)) : inserted (ops ++ [Op.read]) = inserted ops := by
  simp [inserted, List.foldl_append, record]

theorem inserted_clear (ops : List (Op α)) : inserted (ops ++ [Op.clear]) = [] := by
  simp [inserted, List.foldl_append, record]

/-- Every read leaves the state `merge sf s` behind (for `quantile`: when `q` passes the assertion). -/
theorem read_state (sf : ScaleFn α) (s : St α) (q x : α) (hq : 0 ≤ q ∧ q ≤ 1) :
    (quantile sf s q).1 = merge sf s ∧ (cdf sf s x).1 = merge sf s ∧ (count sf s).1 = merge sf s ∧
    (sum sf s).1 = merge sf s ∧ (mean sf s).1 = merge sf s ∧ (nCentroids sf s).1 = merge sf s := by
  simp [quantile, cdf, count, sum, mean, nCentroids, hq]

/-! ### aggregates -/

/-- The invariant: centroids and backlog together carry exactly the inserted weight and the
inserted weighted sum, at every point of every history. -/
theorem aggregates_invariant (sf : ScaleFn α) {mb : Nat} {ops : List (Op α)} {s : St α}
    (h : run sf (new mb) ops = some s) :
    sumCount (s.centroids ++ s.backlog) = ((inserted ops).map Prod.snd).sum ∧
    sumSum (s.centroids ++ s.backlog) = ((inserted ops).map (fun p => p.1 * p.2)).sum :=
  ⟨(inv_reachable sf h).cnt, (inv_reachable sf h).sm⟩

/-- `merge` preserves both aggregates (for any state whose weights are positive). -/
theorem merge_preserves (sf : ScaleFn α) (s : St α) :
    sumCount ((merge sf s).centroids ++ (merge sf s).backlog) = sumCount (s.centroids ++ s.backlog) ∧
    sumSum ((merge sf s).centroids ++ (merge sf s).backlog) = sumSum (s.centroids ++ s.backlog) := by
  rcases merge_centroids sf s with ⟨hb, _⟩ | ⟨x, hperm, _, hf⟩
  · rw [merge_of_nil hb]; exact ⟨rfl, rfl⟩
  · rw [merge_backlog, List.append_nil, hf.sumCount, hf.sumSum, sumCount_perm hperm, sumSum_perm hperm]
    exact ⟨rfl, rfl⟩

/-- `count()` returns the sum of the inserted weights. -/
theorem count_exact (sf : ScaleFn α) {mb : Nat} {ops : List (Op α)} {s : St α}
    (h : run sf (new mb) ops = some s) :
    (count sf s).2 = ((inserted ops).map Prod.snd).sum := by
  have := (inv_merge sf (inv_reachable sf h)).cnt
  simpa [count, totalCount_eq] using this

/-- `sum()` returns `Σ x·w`. -/
theorem sum_exact (sf : ScaleFn α) {mb : Nat} {ops : List (Op α)} {s : St α}
    (h : run sf (new mb) ops = some s) :
    (sum sf s).2 = ((inserted ops).map (fun p => p.1 * p.2)).sum := by
  have := (inv_merge sf (inv_reachable sf h)).sm
  simpa [sum, totalSum_eq] using this

/-- `mean()` returns `Σ x·w / Σ w` (in a field `0/0 = 0`; the code returns NaN on an empty digest). -/
theorem mean_exact (sf : ScaleFn α) {mb : Nat} {ops : List (Op α)} {s : St α}
    (h : run sf (new mb) ops = some s) :
    (mean sf s).2 =
      ((inserted ops).map (fun p => p.1 * p.2)).sum / ((inserted ops).map Prod.snd).sum := by
  have h1 := sum_exact sf h
  have h2 := count_exact sf h
  simp only [sum, count, mean] at *
  rw [h1, h2]

/-! ### min / max -/

/-- `min` is the least inserted value … -/
theorem min_exact (sf : ScaleFn α) {mb : Nat} {ops : List (Op α)} {s : St α}
    (h : run sf (new mb) ops = some s) (m : α) :
    s.min = some m ↔ m ∈ (inserted ops).map Prod.fst ∧ ∀ x ∈ (inserted ops).map Prod.fst, m ≤ x := by
  have hm := (inv_reachable sf h).mn
  cases hmin : s.min with
  | none =>
    rw [hmin] at hm
    simp only [IsMinOf] at hm
    simp [hm]
  | some a =>
    rw [hmin] at hm
    obtain ⟨h1, h2⟩ := hm
    constructor
    · intro e; cases e; exact ⟨h1, h2⟩
    · rintro ⟨h3, h4⟩
      exact congrArg some (le_antisymm (h2 m h3) (h4 a h1))

/-- … and `max` the greatest. -/
theorem max_exact (sf : ScaleFn α) {mb : Nat} {ops : List (Op α)} {s : St α}
    (h : run sf (new mb) ops = some s) (m : α) :
    s.max = some m ↔ m ∈ (inserted ops).map Prod.fst ∧ ∀ x ∈ (inserted ops).map Prod.fst, x ≤ m := by
  have hm := (inv_reachable sf h).mx
  cases hmax : s.max with
  | none =>
    rw [hmax] at hm
    simp only [IsMaxOf] at hm
    simp [hm]
  | some a =>
    rw [hmax] at hm
    obtain ⟨h1, h2⟩ := hm
    constructor
    · intro e; cases e; exact ⟨h1, h2⟩
    · rintro ⟨h3, h4⟩
      exact congrArg some (le_antisymm (h4 a h1) (h2 m h3))

/-- `min`/`max` are unset (the code's `±∞`) iff nothing with positive weight was inserted since
creation / `clear`. -/
theorem min_max_none_iff (sf : ScaleFn α) {mb : Nat} {ops : List (Op α)} {s : St α}
    (h : run sf (new mb) ops = some s) :
    (s.min = none ↔ inserted ops = []) ∧ (s.max = none ↔ inserted ops = []) := by
  have hm := (inv_reachable sf h).mn
  have hx := (inv_reachable sf h).mx
  constructor
  · cases hmin : s.min with
    | none => rw [hmin] at hm; simpa [IsMinOf] using hm
    | some a =>
      rw [hmin] at hm
      simp only [reduceCtorEq, false_iff]
      intro e; rw [e] at hm; simp [IsMinOf] at hm
  · cases hmax : s.max with
    | none => rw [hmax] at hx; simpa [IsMaxOf] using hx
    | some a =>
      rw [hmax] at hx
      simp only [reduceCtorEq, false_iff]
      intro e; rw [e] at hx; simp [IsMaxOf] at hx

/-! ### no-ops, emptiness, clear -/

/-- Inserting with weight 0 changes nothing (on any state). -/
theorem zero_weight_noop (sf : ScaleFn α) (s : St α) (x : α) : insertWeighted sf s x 0 = some s :=
  insertWeighted_zero sf s x

/-- A negative weight hits the assertion. -/
theorem negative_weight_panics (sf : ScaleFn α) (s : St α) (x : α) {w : α} (hw : w < 0) :
    insertWeighted sf s x w = none :=
  insertWeighted_neg sf s x hw

/-- `is_empty` iff there was no positive-weight insertion since creation or `clear`. -/
theorem isEmpty_iff (sf : ScaleFn α) {mb : Nat} {ops : List (Op α)} {s : St α}
    (h : run sf (new mb) ops = some s) : isEmpty s = true ↔ inserted ops = [] := by
  rw [← (inv_reachable sf h).emp]
  simp [isEmpty, List.isEmpty_iff]

/-- `clear` gives back the freshly constructed digest. -/
theorem clear_eq_new (s : St α) : clear s = new s.maxBacklog := rfl

/-- … so a history continued after `clear` behaves like a new one. -/
theorem run_clear (sf : ScaleFn α) {mb : Nat} {ops : List (Op α)} {s : St α}
    (h : run sf (new mb) ops = some s) (ops' : List (Op α)) :
    run sf s (Op.clear :: ops') = run sf (new mb) ops' := by
  have := (run_backlog sf ops (by simp [new]) h).2
  simp only [run, step, Option.bind_some, clear_eq_new, this]
  rfl

/-! ### non-vacuity (over ℚ) -/

/-- a concrete history: three insertions (one of weight 0), a read, then one more insertion -/
def exOps : List (Op ℚ) := [.insert 1 2, .insert 5 0, .insert 3 1, .read, .insert 2 3]

example : inserted exOps = [(2, 3), (3, 1), (1, 2)] := by
  simp [exOps, inserted, record]

example : (run (k0 2) (new 10) exOps).isSome := by
  rw [run_ok_iff]; intro x w hm; simp [exOps] at hm; rcases hm with h | h | h | h <;> simp [h.2]

example (s : St ℚ) (h : run (k0 2) (new 10) exOps = some s) :
    (count (k0 2) s).2 = 6 ∧ (sum (k0 2) s).2 = 11 ∧ (mean (k0 2) s).2 = 11 / 6 ∧
    s.min = some 1 ∧ s.max = some 3 ∧ isEmpty s = false := by
  have hi : inserted exOps = [(2, 3), (3, 1), (1, 2)] := by simp [exOps, inserted, record]
  refine ⟨?_, ?_, ?_, ?_, ?_, ?_⟩
  · rw [count_exact _ h, hi]; norm_num
  · rw [sum_exact _ h, hi]; norm_num
  · rw [mean_exact _ h, hi]; norm_num
  · rw [min_exact _ h, hi]; simp
  · rw [max_exact _ h, hi]; simp; norm_num
  · have := isEmpty_iff _ h
    rw [hi] at this
    cases hh : isEmpty s
    · rfl
    · exact absurd (this.1 hh) (by simp)

/-- the same history evaluated: the read compresses everything into one centroid (`K0`, `δ = 2`) -/
example : run (k0 (2 : ℚ)) (new 10) exOps = some ⟨[⟨5, 3⟩], 3, some 1, some 3, [⟨6, 3⟩], 10⟩ := by
  norm_num [exOps, run, step, insertWeighted, new, minOpt, maxOpt]
  norm_num [merge, List.mergeSort, List.MergeSort.Internal.splitInTwo,
    List.merge, mergeLoop, k0, Centroid.fuse, Centroid.mean, totalCount]

end Pds.Props.C16
