import Pds.Proofs.Hll
/-!
# C17 — HyperLogLog state is a function of the set of distinct hashes

Model: `Pds.Hll` (`src/hyperloglog/mod.rs`).  Hash values are inputs, so every statement holds for
every `BuildHasher`.  `run b hs` feeds the hashes `hs` (any order, any repetitions) to a fresh
sketch of precision `b`.
-/
namespace Pds.Props.C17
open Pds.Hll

/-- Rank = 1-based position of the first set bit among bits `63 … b` of the hash. -/
theorem rank_spec {b h t : Nat} (hb : 4 ≤ b ∧ b ≤ 18) (ht : 1 ≤ t ∧ t ≤ 64 - b)
    (hset : h.testBit (64 - t) = true) (hclr : ∀ i, 64 - t < i → h.testBit i = false) :
    rank b h = t :=
  rank_of_first_bit hb.2 ht.1 ht.2 hset hclr

/-- … and `64 - b + 1` when none of those bits is set. -/
theorem rank_none {b h : Nat} (hb : 4 ≤ b ∧ b ≤ 18) (hz : h / 2 ^ b = 0) : rank b h = 64 - b + 1 :=
  rank_of_no_bit hb.2 hz

/-- The rank always fits the `u8` register (the `as u8` cast is exact). -/
theorem rank_fits_u8 {b h : Nat} : rank b h ≤ 65 - b ∧ rank b h < 256 := by
  have := @rank_le b h; omega

/-- `add_hashed` never goes out of bounds on a constructed sketch, and each register holds the
maximum rank over the added hashes whose low `b` bits address it (0 if none). -/
theorem registers_eq_max {b : Nat} (hb : 4 ≤ b ∧ b ≤ 18) (hs : List Nat) :
    ∃ s, run b hs = some s ∧ s.b = b ∧ s.regs.size = 2 ^ b ∧
      ∀ j, j < 2 ^ b → s.regs[j]? = some (maxRank b hs j) := by
  obtain ⟨s, e, v, bb, r⟩ := run_spec hb hs
  refine ⟨s, e, bb, by rw [v.2.2, bb], ?_⟩
  intro j hj
  have hlt : j < s.regs.size := by rw [v.2.2, bb]; exact hj
  have := r j
  simp only [reg, hlt, Array.getElem?_eq_getElem, Option.getD_some] at this
  simp [hlt, this]

/-- `maxRank` really is the maximum: an upper bound that is attained (or 0 when no hash addresses `j`). -/
theorem maxRank_is_max (b j : Nat) (hs : List Nat) :
    (∀ h ∈ hs, h % 2 ^ b = j → rank b h ≤ maxRank b hs j) ∧
    (maxRank b hs j = 0 ∨ ∃ h ∈ hs, h % 2 ^ b = j ∧ rank b h = maxRank b hs j) :=
  maxRank_spec b j hs

/-- The state depends only on the *set* of hashes: same members ⇒ identical sketch.
Permutations and repetitions are special cases. -/
theorem state_function_of_set {b : Nat} (hb : 4 ≤ b ∧ b ≤ 18) {hs hs' : List Nat}
    (hset : ∀ h, h ∈ hs ↔ h ∈ hs') : run b hs = run b hs' := by
  obtain ⟨s, e, v, bb, r⟩ := run_spec hb hs
  obtain ⟨s', e', v', bb', r'⟩ := run_spec hb hs'
  rw [e, e']
  congr 1
  apply valid_ext v v' (by rw [bb, bb'])
  intro j
  rw [r j, r' j, maxRank_congr b j hset]

theorem registers_perm {b : Nat} (hb : 4 ≤ b ∧ b ≤ 18) {hs hs' : List Nat} (hp : hs.Perm hs') :
    run b hs = run b hs' :=
  state_function_of_set hb (fun _ => hp.mem_iff)

theorem registers_dup {b : Nat} (hb : 4 ≤ b ∧ b ≤ 18) (hs : List Nat) :
    run b (hs ++ hs) = run b hs :=
  state_function_of_set hb (fun h => by simp)

/-- `add(x)` is `add_hashed(hash(x))` for every hasher. -/
theorem add_is_add_hashed (hash : Nat → Nat) (s : St) (x : Nat) : add hash s x = addHashed s (hash x) := rfl

/-- Reconstruction from `b` and `registers()` gives an equal sketch; the constructor accepts
exactly `4 ≤ b ≤ 18 ∧ len = 2^b`. -/
theorem with_registers_roundtrip {b : Nat} (hb : 4 ≤ b ∧ b ≤ 18) (hs : List Nat) {s : St}
    (h : run b hs = some s) : withRegisters s.b s.regs = some s := by
  obtain ⟨s', e, v, _, _⟩ := run_spec hb hs
  rw [h] at e; cases e
  exact withRegisters_eq_some.mpr ⟨v, rfl⟩

theorem with_registers_accepts_iff (b : Nat) (regs : Array Nat) :
    (withRegisters b regs).isSome ↔ (4 ≤ b ∧ b ≤ 18 ∧ regs.size = 2 ^ b) := by
  unfold withRegisters; split <;> simp_all

/-- Non-vacuity: a concrete run on b = 4 with boundary hashes (0, u64::MAX, single bits). -/
example : (run 4 [0, 2^64 - 1, 2^63, 16, 2^64 - 1, 17]).map (·.regs.toList) =
    some [61, 60, 0, 0, 0, 0, 0, 0, 0, 0, 0, 0, 0, 0, 0, 1] := by decide

example : rank 4 (2^63) = 1 ∧ rank 4 16 = 60 ∧ rank 4 15 = 61 := by decide

end Pds.Props.C17
