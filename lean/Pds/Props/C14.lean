import Pds.Proofs.CuckooHist
/-!
# C14 — the cuckoo filter is an exact multiset of fingerprint classes  (also C01, C06 for this filter)

Model: `Pds.Cuckoo` (`src/filters/cuckoofilter.rs`).  The hash function `hash : List Nat → Nat`,
the RNG (`RngI R`, any state type `R`, only the contract `RngOK I : ∀ n r, 0 < n → (I.below n r).1 < n`)
and the eviction limit `kicks` (500 in the code) are universally quantified.

Vocabulary (defined in `Pds/Proofs/Cuckoo*.lean`):
* `Valid s` — `2 ≤ bs`, `nb = 2^j` with `1 ≤ j`, `2 ≤ lf ≤ 64`, `table.size = nb * bs` (what `new` guarantees).
* `Cls = Nat × Nat`; `cls hash nb f i = (f, min i (i ^^^ bucketOf hash nb f))` is the class of the
  fingerprint `f` stored in bucket `i`; `clsS hash s x` is the class of element `x`
  (its fingerprint in its primary bucket).
* `abs hash s : Multiset Cls` — the classes of all non-zero slots `p` (bucket `p / bs`).
* `Inv hash s := Valid s ∧ s.n = card (abs hash s)` — `len` is the number of occupied slots.
* `SameParams s s'` — `bs nb lf` unchanged.
* Histories: `Op R = insert x | delete x | clear | union o`, `run` folds them and collects the outcomes,
  `ledger` accumulates, since the last `clear`, the classes of successfully inserted elements (plus
  the contents of successfully merged filters) in `ins`, the classes of successfully deleted
  elements in `del`, and the corresponding numbers in `nIns`, `nDel`.
-/
namespace Pds.Props.C14
open Pds.Cuckoo Multiset

variable {R : Type}

/-! ## Fingerprints and classes -/

/-- A fingerprint is never the free marker 0 and fits into `lf` bits. -/
theorem fingerprint_range (hash : List Nat → Nat) {lf : Nat} (h : 2 ≤ lf ∧ lf ≤ 64) (x : Nat) :
    1 ≤ fingerprint hash lf x ∧ fingerprint hash lf x < 2 ^ lf :=
  ⟨fingerprint_pos hash lf x, fingerprint_lt hash h.1 x⟩

/-- With a power-of-two number of buckets the alternate bucket is a bucket, and taking the alternate
twice returns to the start. -/
theorem alt_bucket (hash : List Nat → Nat) {j i : Nat} (hi : i < 2 ^ j) (f : Nat) :
    i ^^^ bucketOf hash (2 ^ j) f < 2 ^ j ∧
    (i ^^^ bucketOf hash (2 ^ j) f) ^^^ bucketOf hash (2 ^ j) f = i :=
  ⟨Nat.xor_lt_two_pow hi (bucketOf_lt hash (Nat.two_pow_pos j) f), xor_xor_cancel _ _⟩

/-- Both candidate buckets of a fingerprint denote the same class. -/
theorem class_alt (hash : List Nat → Nat) (nb f i : Nat) :
    cls hash nb f (i ^^^ bucketOf hash nb f) = cls hash nb f i := cls_alt hash nb f i

/-- Two stored fingerprints have the same class iff they are equal and sit in the same pair of buckets. -/
theorem class_eq_iff (hash : List Nat → Nat) (nb f g i k : Nat) :
    cls hash nb f i = cls hash nb g k ↔ f = g ∧ (i = k ∨ i = k ^^^ bucketOf hash nb g) :=
  cls_eq_iff hash nb f g i k

/-- A class is in the abstraction iff some occupied slot carries it. -/
theorem mem_abs_iff (hash : List Nat → Nat) (s : St R) (c : Cls) :
    c ∈ abs hash s ↔
      ∃ p, p < s.table.size ∧ gt s.table p ≠ 0 ∧ cls hash s.nb (gt s.table p) (p / s.bs) = c :=
  mem_absT

/-! ## Construction -/

/-- `new` yields a valid, empty filter with all slots free. -/
theorem new_valid (hash : List Nat → Nat) {rng : R} {bs nb lf : Nat} {s : St R}
    (h : new rng bs nb lf = some s) :
    Valid s ∧ s.n = 0 ∧ (∀ p, gt s.table p = 0) ∧ abs hash s = 0 ∧ Inv hash s ∧
      s.bs = bs ∧ s.nb = nb ∧ s.lf = lf := by
  obtain ⟨a, b, c, d, e, _, g, h', i⟩ := new_spec hash h
  exact ⟨a, b, g, h', i, c, d, e⟩

/-- `new` does not panic on the documented parameter ranges (and the two `usize` limits). -/
theorem new_succeeds (rng : R) {bs nb lf j : Nat} (h1 : 2 ≤ bs) (h2 : nb = 2 ^ j) (hj : 1 ≤ j)
    (h3 : 2 ≤ lf ∧ lf ≤ 64) (h5 : nb * bs < 2 ^ 64) (h6 : lf * (nb * bs) < 2 ^ 64) :
    ∃ s, new rng bs nb lf = some s := new_isSome rng h1 h2 hj h3.1 h3.2 h5 h6

/-! ## No panic -/

/-- `insert` never indexes out of bounds on a well-formed filter. -/
theorem insert_no_panic (I : RngI R) (hI : RngOK I) (hash : List Nat → Nat) (kicks : Nat) {s : St R}
    (h : Inv hash s) (x : Nat) : insert I hash kicks s x ≠ none := by
  obtain ⟨_, _, e, _⟩ := insert_spec I hI hash kicks h x; rw [e]; simp

/-- `delete` never panics. -/
theorem delete_no_panic (hash : List Nat → Nat) {s : St R} (h : Inv hash s) (x : Nat) :
    delete hash s x ≠ none := by
  obtain ⟨_, _, e, _⟩ := delete_spec hash h x; rw [e]; simp

/-- `query` never panics. -/
theorem query_no_panic (hash : List Nat → Nat) {s : St R} (h : Inv hash s) (x : Nat) :
    query hash s x ≠ none := by
  obtain ⟨_, e, _⟩ := query_spec hash h.1 x; rw [e]; simp

/-- `union` of two well-formed filters with equal parameters never panics. -/
theorem union_no_panic (I : RngI R) (hI : RngOK I) (hash : List Nat → Nat) (kicks : Nat) {s o : St R}
    (hs : Inv hash s) (ho : Inv hash o) (hp : s.bs = o.bs ∧ s.nb = o.nb ∧ s.lf = o.lf) :
    union I hash kicks s o ≠ none := by
  obtain ⟨_, _, e, _⟩ := union_spec I hI hash kicks hs ho hp; rw [e]; simp

/-! ## insert -/

/-- A successful `insert` reports `true`, adds exactly one copy of the class of `x` and nothing else
— whatever number of evictions it took — and increments `len`. -/
theorem insert_ok (I : RngI R) (hI : RngOK I) (hash : List Nat → Nat) (kicks : Nat) {s s' : St R}
    (h : Inv hash s) {x : Nat} {b : Bool} (hr : insert I hash kicks s x = some (s', .ok b)) :
    b = true ∧ abs hash s' = abs hash s + {clsS hash s x} ∧ s'.n = s.n + 1 ∧ Inv hash s' ∧
      SameParams s s' := by
  obtain ⟨s1, r, e, hp, hok, _⟩ := insert_spec I hI hash kicks h x
  rw [e] at hr
  simp only [Option.some.injEq, Prod.mk.injEq] at hr
  obtain ⟨rfl, rfl⟩ := hr
  obtain ⟨a, b', c, d⟩ := hok b rfl
  exact ⟨a, b', c, d, hp⟩

/-- With fewer than `bucketsize` elements an insert cannot fail. -/
theorem insert_small_succeeds (I : RngI R) (hash : List Nat → Nat) (kicks : Nat) {s : St R}
    (h : Inv hash s) (hsmall : s.n < s.bs) (x : Nat) :
    ∃ s', insert I hash kicks s x = some (s', .ok true) := insert_small I hash kicks h hsmall x

/-! ## delete and query -/

/-- `delete` answers `true` iff the class of `x` is present; it then removes exactly one copy of it
and decrements `len`; otherwise the filter is untouched. -/
theorem delete_spec (hash : List Nat → Nat) {s : St R} (h : Inv hash s) (x : Nat) :
    ∃ s' b, delete hash s x = some (s', b) ∧
      (b = true ↔ clsS hash s x ∈ abs hash s) ∧
      (b = true → abs hash s' = (abs hash s).erase (clsS hash s x) ∧ s'.n + 1 = s.n ∧
        Inv hash s' ∧ SameParams s s' ∧ s'.rng = s.rng) ∧
      (b = false → s' = s) := by
  obtain ⟨s', b, e, h1, h2, h3⟩ := Pds.Cuckoo.delete_spec hash h x
  refine ⟨s', b, e, h1, ?_, h3⟩
  intro hb
  obtain ⟨a1, a2, a3, a4, a5⟩ := h2 hb
  exact ⟨a3, a4, a5, a1, a2⟩

/-- `query y` is exactly membership of the class of `y`. -/
theorem query_iff (hash : List Nat → Nat) {s : St R} (h : Inv hash s) (y : Nat) :
    query hash s y = some true ↔ clsS hash s y ∈ abs hash s := by
  obtain ⟨b, e, hiff⟩ := query_spec hash h.1 y
  rw [e, ← hiff]; simp

/-! ## union (C06) -/

/-- A successful `union` adds exactly the contents of the other filter; `len` adds up.  (The bucket
recomputed as `counter / bucketsize` is the bucket the transferred fingerprint lives in.)
Remark: the second operand is an immutable argument of the model function, as `&Self` is in Rust. -/
theorem union_ok (I : RngI R) (hI : RngOK I) (hash : List Nat → Nat) (kicks : Nat) {s o s' : St R}
    (hs : Inv hash s) (ho : Inv hash o) (hp : s.bs = o.bs ∧ s.nb = o.nb ∧ s.lf = o.lf) {b : Bool}
    (hr : union I hash kicks s o = some (s', .ok b)) :
    abs hash s' = abs hash s + abs hash o ∧ s'.n = s.n + o.n ∧ Inv hash s' ∧ SameParams s s' := by
  obtain ⟨s1, r, e, hsp, hok, _⟩ := union_spec I hI hash kicks hs ho hp
  rw [e] at hr
  simp only [Option.some.injEq, Prod.mk.injEq] at hr
  obtain ⟨rfl, rfl⟩ := hr
  obtain ⟨_, a, b', c⟩ := hok b rfl
  exact ⟨a, b', c, hsp⟩

/-- `union` asserts equal parameters. -/
theorem union_param_mismatch (I : RngI R) (hash : List Nat → Nat) (kicks : Nat) {s o : St R}
    (hp : ¬ (s.bs = o.bs ∧ s.nb = o.nb ∧ s.lf = o.lf)) : union I hash kicks s o = none :=
  union_mismatch I hash kicks hp

/-! ## Histories (C14 proper, C01) -/

/-- After any history from `new` — inserts, deletes, clears, unions with well-formed filters of the
same parameters, each with whatever outcome it reported — nothing panics, and with `L` the ledger of
*successful* operations since the last clear:
`len = #ok-inserts − #ok-deletes`, the content is `L.ins − L.del` as a multiset of classes, and
`query y` is `true` exactly when that multiset contains the class of `y`. -/
theorem history (I : RngI R) (hI : RngOK I) (hash : List Nat → Nat) (kicks : Nat)
    {rng : R} {bs nb lf : Nat} {e : St R} (hnew : new rng bs nb lf = some e) (ops : List (Op R))
    (hops : ∀ op, op ∈ ops → OpOK hash bs nb lf op) :
    ∃ s outs, run I hash kicks e ops = some (s, outs) ∧ outs.length = ops.length ∧ Inv hash s ∧
      Matches hash s (ledger hash nb lf Ledger.empty (ops.zip outs)) := by
  obtain ⟨_, _, c, d, f, _, _, ha, hinv⟩ := new_spec hash hnew
  subst c d f
  obtain ⟨s, outs, h1, h2, _, h4, h5⟩ :=
    history_core I hI hash kicks hinv (Agree.empty_of_abs ha) ops hops
  exact ⟨s, outs, h1, h2, h4, h5⟩

/-- The same from any well-formed state that agrees with a ledger `L0` (so histories compose). -/
theorem history_from (I : RngI R) (hI : RngOK I) (hash : List Nat → Nat) (kicks : Nat)
    {s0 : St R} {L0 : Ledger} (hinv : Inv hash s0) (hag : Agree hash s0 L0) (ops : List (Op R))
    (hops : ∀ op, op ∈ ops → OpOK hash s0.bs s0.nb s0.lf op) :
    ∃ s outs, run I hash kicks s0 ops = some (s, outs) ∧ outs.length = ops.length ∧
      SameParams s0 s ∧ Inv hash s ∧
      Matches hash s (ledger hash s0.nb s0.lf L0 (ops.zip outs)) :=
  history_core I hI hash kicks hinv hag ops hops

/-- No false negatives: if, since the last clear, `x` was inserted successfully more often than
elements of its class were deleted successfully, then `query x = true` — whatever failed inserts,
failed unions, or other operations are interleaved. -/
theorem no_false_negatives (I : RngI R) (hI : RngOK I) (hash : List Nat → Nat) (kicks : Nat)
    {rng : R} {bs nb lf : Nat} {e s : St R} (hnew : new rng bs nb lf = some e) (ops : List (Op R))
    (hops : ∀ op, op ∈ ops → OpOK hash bs nb lf op) {outs : List Out}
    (hrun : run I hash kicks e ops = some (s, outs)) (x : Nat)
    (hmore : nOkDel hash nb lf (clsOf hash nb lf x) 0 (ops.zip outs) < nOkIns x 0 (ops.zip outs)) :
    query hash s x = some true := by
  obtain ⟨_, _, c, d, f, _, _, ha, hinv⟩ := new_spec hash hnew
  subst c d f
  obtain ⟨s1, outs1, h1, _, hp, _, h5⟩ :=
    history_core I hI hash kicks hinv (Agree.empty_of_abs ha) ops hops
  rw [hrun] at h1
  simp only [Option.some.injEq, Prod.mk.injEq] at h1
  obtain ⟨rfl, rfl⟩ := h1
  obtain ⟨b, hb, hiff⟩ := h5.query x
  have h1 := nOkIns_le (R := R) hash e.nb e.lf x (ops.zip outs) 0 Ledger.empty (Nat.zero_le _)
  have h2 := nOkDel_eq (R := R) hash e.nb e.lf (clsOf hash e.nb e.lf x) (ops.zip outs) 0
    Ledger.empty (by simp [Ledger.empty])
  have : clsS hash s x ∈ (ledger hash e.nb e.lf Ledger.empty (ops.zip outs)).ins -
      (ledger hash e.nb e.lf Ledger.empty (ops.zip outs)).del := by
    rw [← count_pos, count_sub]
    show 0 < count (clsOf hash s.nb s.lf x) _ - count (clsOf hash s.nb s.lf x) _
    rw [hp.2.1, hp.2.2]
    omega
  rw [hb, hiff.2 this]

/-! ## Classes are the indistinguishability classes -/

/-- "`x` and `y` are indistinguishable" — a filter holding only `x` reports `y` present — is
exactly equality of classes. -/
theorem indist_iff_same_class (I : RngI R) (hash : List Nat → Nat) (kicks : Nat) {e : St R}
    (hv : Valid e) (hempty : e.n = 0 ∧ abs hash e = 0) (hI : RngOK I) (x y : Nat) :
    ∃ s1, insert I hash kicks e x = some (s1, .ok true) ∧
      (query hash s1 y = some true ↔ clsS hash e x = clsS hash e y) := by
  have hinv : Inv hash e := ⟨hv, by rw [hempty.1, hempty.2]; rfl⟩
  obtain ⟨s1, h1⟩ := insert_small I hash kicks hinv (by have := hv.bs2; omega) x
  refine ⟨s1, h1, ?_⟩
  obtain ⟨_, a2, _, a4, a5⟩ := insert_ok I hI hash kicks hinv h1
  rw [query_iff hash a4, a2, hempty.2, zero_add, mem_singleton]
  show clsOf hash s1.nb s1.lf y = _ ↔ _
  rw [a5.2.1, a5.2.2]
  exact eq_comm

/-- The same for the filter returned by `new`. -/
theorem indist_iff_same_class_new (I : RngI R) (hI : RngOK I) (hash : List Nat → Nat) (kicks : Nat)
    {rng : R} {bs nb lf : Nat} {e : St R} (hnew : new rng bs nb lf = some e) (x y : Nat) :
    ∃ s1, insert I hash kicks e x = some (s1, .ok true) ∧
      (query hash s1 y = some true ↔ clsOf hash nb lf x = clsOf hash nb lf y) := by
  obtain ⟨hv, h0, _, ha, _, _, rfl, rfl⟩ := new_valid hash hnew
  exact indist_iff_same_class I hash kicks hv ⟨h0, ha⟩ hI x y

/-! ## Non-vacuity -/

/-- a concrete RNG: always `true`; `gen_range(0..n)` cycles through `0, 1, …` -/
def rngX : RngI Nat := ⟨fun r => (true, r), fun n r => (r % n, r + 1)⟩

theorem rngX_ok : RngOK rngX := fun _ r h => Nat.mod_lt r h

/-- a concrete hash: element `1000 + 100·b + f` has fingerprint `f` and primary bucket `b`; a
fingerprint moves to the other bucket iff it is odd -/
def hashX : List Nat → Nat
  | [0, x] => x % 100 - 1
  | [1, y] => if y < 1000 then y % 2 else (y / 100) % 10
  | _ => 0

def emptyX : St Nat := ⟨2, 2, 8, #[0, 0, 0, 0], 0, 0⟩

example : new 0 2 2 8 = some emptyX := rfl

def view (r : Option (St Nat × List Out)) : Option (List Nat × Nat × List Out) :=
  r.map (fun p => (p.1.table.toList, p.1.n, p.2))

/-- Insert succeeding after a two-step eviction: bucket 0 = [2, 3]; inserting fingerprint 4 (stuck to
bucket 0) first kicks 2 (which cannot leave bucket 0), then kicks 3, which moves to bucket 1. -/
example : view (run rngX hashX 500 emptyX [.insert 1002, .insert 1003]) =
    some ([2, 3, 0, 0], 2, [.ins (.ok true), .ins (.ok true)]) := by decide
example : view (run rngX hashX 500 emptyX [.insert 1002, .insert 1003, .insert 1004]) =
    some ([4, 2, 3, 0], 3, [.ins (.ok true), .ins (.ok true), .ins (.ok true)]) := by decide

/-- delete and query on that state -/
example : view (run rngX hashX 500 emptyX
      [.insert 1002, .insert 1003, .insert 1004, .delete 1003, .delete 1003]) =
    some ([4, 2, 0, 0], 2,
      [.ins (.ok true), .ins (.ok true), .ins (.ok true), .del true, .del false]) := by decide

/-- a successful union: bucket 0 of the receiver is full, the odd fingerprint goes to bucket 1 -/
example : view (run rngX hashX 500 emptyX
      [.insert 1002, .insert 1004, .union ⟨2, 2, 8, #[3, 0, 0, 0], 1, 0⟩]) =
    some ([2, 4, 3, 0], 3, [.ins (.ok true), .ins (.ok true), .uni (.ok true)]) := by decide

end Pds.Props.C14
