import Pds.Proofs.SizingReal
import Pds.Proofs.SizingCount
import Pds.Proofs.SizingCms
import Pds.Props.C02
/-!
# C08 — the `(ε, δ)` guarantee of `CountMinSketch::with_point_query_properties` (deterministic part)

Sizing model: `Pds.Sizing.cmsParams` (`src/countminsketch.rs`, `with_point_query_properties_and_hasher`),
read at the carrier `ℝ` (`Pds.Sizing.instTranscReal`: `log = Real.log`, `exp = Real.exp`,
`ceilNat = ⌈·⌉₊`).  Table model: `Pds.Cms` with the history semantics of `Pds.Props.C02`.

What is proved, for **every** hasher `hash` and **every** (also adversarial) stream:

* the constructor returns `w = ⌈e/ε⌉`, `d = ⌈ln(1/δ)⌉` with `w ≥ e/ε`, `exp(−d) ≤ δ`;
* the overestimate `query x − trueWeight x` is the minimum over the rows of the weight the *other*
  elements put into `x`'s cell; those cells are cells of the sketch of the stream without `x`,
  whose rows each sum to `N − trueWeight x ≤ N`;
* in each row fewer than `1/ε ≤ w/e` columns hold more than `ε·N`;
* hence of the `w^d` column tuples fewer than `(w/e)^d = w^d·e^{−d} ≤ δ·w^d` are heavy in every row,
  and `x` is overestimated by more than `ε·N` iff its column tuple is one of them.

Not proved (and not provable here): that the `d` columns of a fresh element produced by enhanced
double hashing over SipHash are uniform and independent across rows, which is what turns the
counting inequality into "probability `< δ`".
-/
namespace Pds.Props.C08
open Pds.Sizing Pds.Cms Pds.HashIter

/-! ### 1. the parameters -/

/-- `cms_params`: for `ε > 0`, `0 < δ < 1` the constructor's arguments are accepted and
`w = ⌈e/ε⌉ ≥ e/ε`, `w ≥ 1`, `d = ⌈ln(1/δ)⌉ ≥ 1`, `exp(−d) ≤ δ`. -/
theorem cms_params {ε δ : ℝ} (hε : 0 < ε) (hδ : 0 < δ) (hδ1 : δ < 1) :
    ∃ w d, cmsParams ε δ = some (w, d) ∧ w = ⌈Real.exp 1 / ε⌉₊ ∧ d = ⌈Real.log (1 / δ)⌉₊ ∧
      Real.exp 1 / ε ≤ (w : ℝ) ∧ 1 ≤ w ∧ 1 ≤ d ∧ Real.exp (-(d : ℝ)) ≤ δ :=
  ⟨_, _, cmsParams_eq hε hδ hδ1, rfl, rfl, (cms_width_bounds hε).1, (cms_width_bounds hε).2,
    (cms_depth_bounds hδ hδ1).1, (cms_depth_bounds hδ hδ1).2⟩

/-- the argument assertions fire exactly when `ε ≤ 0 ∨ δ ≤ 0 ∨ 1 ≤ δ` -/
theorem cms_params_none_iff (ε δ : ℝ) : cmsParams ε δ = none ↔ ε ≤ 0 ∨ δ ≤ 0 ∨ 1 ≤ δ :=
  cmsParams_eq_none_iff ε δ

/-! ### 2. pigeonhole on a row -/

/-- `row_pigeonhole`: in a list of naturals, `(number of entries > t)·t ≤ sum`; if the sum is at
most `N > 0` and `t > 0`, fewer than `N/t` entries exceed `t`. -/
theorem row_pigeonhole (row : List ℕ) {t : ℝ} (ht : 0 < t) {N : ℕ} (hN : 0 < N) (hsum : row.sum ≤ N) :
    ((row.countP fun v : ℕ => t < (v : ℝ)) : ℝ) * t ≤ (row.sum : ℝ) ∧
      ((row.countP fun v : ℕ => t < (v : ℝ)) : ℝ) < (N : ℝ) / t :=
  ⟨(list_heavy_mul_le_sum row t).1, list_heavy_lt row ht hN hsum⟩

/-- the same for a family indexed by a finite set -/
theorem row_pigeonhole_finset {ι : Type} (s : Finset ι) (f : ι → ℕ) {t : ℝ} (ht : 0 < t) {N : ℕ}
    (hN : 0 < N) (hsum : ∑ i ∈ s, f i ≤ N) :
    ((s.filter fun i => t < (f i : ℝ)).card : ℝ) < (N : ℝ) / t :=
  card_heavy_lt s f ht hN hsum

/-- with `t = ε·N` and `w ≥ e/ε`: fewer than `1/ε ≤ w/e` entries exceed `ε·N` -/
theorem row_pigeonhole_eps {ι : Type} (s : Finset ι) (f : ι → ℕ) {ε : ℝ} (hε : 0 < ε) {N : ℕ}
    (hN : 0 < N) (hsum : ∑ i ∈ s, f i ≤ N) {w : ℕ} (hw : Real.exp 1 / ε ≤ (w : ℝ)) :
    ((s.filter fun i => ε * (N : ℝ) < (f i : ℝ)).card : ℝ) < 1 / ε ∧ 1 / ε ≤ (w : ℝ) / Real.exp 1 :=
  card_heavy_lt_width s f hε hN hsum hw

/-- on a reachable sketch: fewer than `1/ε` cells of row `r` hold more than `ε·N`,
`N = totalWeight h` (the row sums to `N` by `C02.row_sums`). -/
theorem sketch_row_heavy {hash : List Nat → Nat} {w d cmax : Nat} (hw : 0 < w) (hd : 0 < d)
    {h : List Op} {s : St} (hr : run hash w d cmax h = some s) {r : Nat} (hrd : r < d) {ε : ℝ}
    (hε : 0 < ε) (hN : 0 < totalWeight h) :
    ((((List.range w).map fun c => cell s.table (r * w + c)).countP
      fun v : ℕ => ε * (totalWeight h : ℝ) < (v : ℝ)) : ℝ) < 1 / ε :=
  Pds.Cms.sketch_row_heavy hw hd hr hrd hε hN

/-! ### 3. the overestimate comes from the other elements -/

/-- `cms_overestimate_is_others`: on a reachable sketch, `query x = trueWeight x + min over rows r
of (weight of the other elements that share x's column in row r)`: it is `≤` that sum for every
row and equal to it for some row. `others x (stream h)` is the stream with `x` removed. -/
theorem cms_overestimate_is_others {hash : List Nat → Nat} {w d cmax : Nat} (hw : 0 < w) (hd : 0 < d)
    {h : List Op} {s : St} (hr : run hash w d cmax h = some s) (x : Nat) :
    ∃ v, query hash s x = some v ∧
      (∀ r (hr : r < (colsOf hash w d x).length),
        v ≤ trueWeight h x + cellSum hash w d r (colsOf hash w d x)[r] (others x (stream h))) ∧
      ∃ r, ∃ hr : r < (colsOf hash w d x).length,
        v = trueWeight h x + cellSum hash w d r (colsOf hash w d x)[r] (others x (stream h)) :=
  query_overestimate hw hd (run_inv hw hd hr) x

/-- the stream without `x` contains no `x`, keeps every other element's weight, has total
`N − trueWeight x`, and each row of its sketch (`cellSum … (others x str)`) sums to that total. -/
theorem others_stream (hash : List Nat → Nat) {w d : Nat} (hw : 0 < w) (x : Nat)
    (str : List (Nat × Nat)) :
    weightOf x (others x str) = 0 ∧ (∀ y, y ≠ x → weightOf y (others x str) = weightOf y str) ∧
      total (others x str) + weightOf x str = total str ∧
      ∀ r, r < d →
        ((List.range w).map fun c => cellSum hash w d r c (others x str)).sum = total (others x str) :=
  ⟨weightOf_others x str, fun _ hy => weightOf_others_ne hy str, total_others x str,
    fun _ hr => rowSum_cellSum hash hw hr _⟩

/-- `cellSum` of a stream *is* the cell of the sketch that absorbed that stream (C02 invariant). -/
theorem cellSum_is_cell {hash : List Nat → Nat} {w d cmax : Nat} (hw : 0 < w) (hd : 0 < d)
    {h : List Op} {s : St} (hr : run hash w d cmax h = some s) (r : Nat) {c : Nat} (hc : c < w) :
    cell s.table (r * w + c) = cellSum hash w d r c (stream h) :=
  (run_inv hw hd hr).hcell r c hc

/-! ### 4. the counting form of the `(ε, δ)` guarantee -/

/-- `cms_eps_delta_counting` (pure counting): for per-row "bad column" sets `B r ⊆ [0,w)` with
`|B r| < w/e`, the number of column tuples `(c_0 … c_{d−1}) ∈ [0,w)^d` with `c_r ∈ B r` for every
`r` is `∏|B r| < (w/e)^d = w^d·exp(−d) ≤ δ·w^d` whenever `exp(−d) ≤ δ`; `w^d` is the number of all
tuples. -/
theorem cms_eps_delta_counting {w d : ℕ} (hd : 0 < d) (B : Fin d → Finset (Fin w))
    (hB : ∀ r, ((B r).card : ℝ) < (w : ℝ) / Real.exp 1) {δ : ℝ} (hδ : Real.exp (-(d : ℝ)) ≤ δ) :
    ((Fintype.piFinset B).card : ℝ) < δ * (w : ℝ) ^ d ∧
      ((w : ℝ) / Real.exp 1) ^ d = (w : ℝ) ^ d * Real.exp (-(d : ℝ)) ∧
      Fintype.card (Fin d → Fin w) = w ^ d :=
  ⟨card_all_bad_lt hd B hB hδ, div_exp_pow w d, card_tuples w d⟩

/-- `cms_eps_delta`: everything together. Take `ε > 0`, `0 < δ < 1`, the `(w, d)` the constructor
computes, any hasher, any non-overflowing history `h` with total weight `N > 0`, any element `x`.
Let `bad = badTuples … (ε·N) (others x (stream h))` be the column tuples that are heavy (more than
`ε·N` weight of the other elements) in every row. Then
* `|bad| < δ · w^d` — fewer than a `δ` fraction of all column tuples;
* `query x` overestimates `trueWeight x` by more than `ε·N` iff `x`'s own column tuple is in `bad`.
`bad` depends on the other elements' hashes only. -/
theorem cms_eps_delta {ε δ : ℝ} (hε : 0 < ε) (hδ : 0 < δ) (hδ1 : δ < 1) {w d : ℕ}
    (hp : cmsParams ε δ = some (w, d)) (hash : List Nat → Nat) (cmax : Nat) {h : List Op} {s : St}
    (hN : 0 < totalWeight h) (x : Nat) :
    ∃ hw : 0 < w, 0 < d ∧
      ((badTuples hash w d (ε * totalWeight h) (others x (stream h))).card : ℝ) < δ * (w : ℝ) ^ d ∧
      (run hash w d cmax h = some s → ∀ v, query hash s x = some v →
        (ε * (totalWeight h : ℝ) < (v : ℝ) - (trueWeight h x : ℝ) ↔
          colTuple hash hw d x ∈ badTuples hash w d (ε * totalWeight h) (others x (stream h)))) :=
  Pds.Cms.cms_eps_delta hε hδ hδ1 hp hash cmax hN x

/-! ### non-vacuity -/

/-- `ε = 1`, `δ = 1/2` gives the `3 × 1` sketch (`⌈e⌉ = 3`, `⌈ln 2⌉ = 1`) -/
theorem cms_params_one_half : cmsParams (1 : ℝ) (1 / 2) = some (3, 1) := by
  rw [cmsParams_eq (by norm_num) (by norm_num) (by norm_num)]
  have h1 := Real.exp_one_gt_d9
  have h2 := Real.exp_one_lt_d9
  have h3 := Real.log_two_gt_d9
  have h4 := Real.log_two_lt_d9
  have e1 : ⌈Real.exp 1 / 1⌉₊ = 3 := by
    rw [div_one, Nat.ceil_eq_iff (by norm_num)]
    constructor <;> norm_num <;> linarith
  have e2 : ⌈Real.log (1 / (1 / 2))⌉₊ = 1 := by
    rw [one_div_one_div, Nat.ceil_eq_iff (by norm_num)]
    constructor <;> norm_num <;> linarith
  rw [e1, e2]

/-- the hypotheses of `cms_eps_delta` are satisfiable: the `3 × 1` sketch, a colliding hasher and the
stream `[(1,2),(2,3)]` of total weight 5 -/
example (x : Nat) :
    ((badTuples (fun l => l.sum) 3 1 ((1 : ℝ) * totalWeight [.addN 1 2, .addN 2 3])
      (others x (stream [.addN 1 2, .addN 2 3]))).card : ℝ) < 1 / 2 * ((3 : ℕ) : ℝ) ^ 1 := by
  obtain ⟨_, _, h, _⟩ := cms_eps_delta (s := default) (by norm_num) (by norm_num) (by norm_num)
    cms_params_one_half (fun l => l.sum) 10 (h := [.addN 1 2, .addN 2 3]) (by decide) x
  exact h

example : cmsParams (0 : ℝ) (1 / 2) = none := (cms_params_none_iff _ _).mpr (Or.inl le_rfl)
example : cmsParams (1 : ℝ) 1 = none := (cms_params_none_iff _ _).mpr (Or.inr (Or.inr le_rfl))

/-- the C02 example: element 1 (weight 5) collides with element 4 (weight 4) in both rows; the
estimate is 9 = 5 + 4 and the stream without 1 is `[(2,1),(4,4)]` -/
example : others 1 (stream [.addN 1 2, .merge [.addN 1 3, .addN 2 1], .addN 4 4]) = [(2, 1), (4, 4)] := by
  decide
example : colsOf (fun l => l.sum) 3 2 1 = [0, 0] ∧
    cellSum (fun l => l.sum) 3 2 0 0 [(2, 1), (4, 4)] = 4 ∧
    cellSum (fun l => l.sum) 3 2 1 0 [(2, 1), (4, 4)] = 4 := by decide
/-- a row `[9, 1, 0]` (sum 10): one cell exceeds `t = 3`, and `1·3 ≤ 10`, `1 < 10/3` -/
example : ([9, 1, 0].countP fun v : ℕ => (3 : ℝ) < (v : ℝ)) = 1 := by
  simp

/-! ## Why the guarantee has a floor under enhanced double hashing (the open known finding)

The theorems above give `< δ·w^d` bad column tuples **among all `w^d`**.  The hash iterator,
however, derives all `d` columns of an element from the two residues `h₁ mod w`, `h₂ mod w`: -/

/-- Two elements whose two base hashes agree modulo the width get the same column in **every**
row, whatever the hasher and however many rows there are.  Only `w²` of the `w^d` column tuples
are reachable, so two heavy elements collide everywhere with probability about `1/w²` under a
uniform hasher — a failure rate no number of rows reduces (measured: ≈ 0.135·ε). -/
theorem double_hashing_full_collision (hash : List Nat → Nat) (w d x y : Nat)
    (h1 : hash [0, x] % w = hash [0, y] % w) (h2 : hash [1, x] % w = hash [1, y] % w) :
    HashIter.positions hash w d x = HashIter.positions hash w d y := by
  unfold HashIter.positions
  split
  · rfl
  · simp only [h1, h2]

/-- Consequently such a pair is indistinguishable to the sketch: same cells, same estimate. -/
theorem double_hashing_same_estimate (hash : List Nat → Nat) (s : Cms.St) (x y : Nat)
    (h1 : hash [0, x] % s.w = hash [0, y] % s.w) (h2 : hash [1, x] % s.w = hash [1, y] % s.w) :
    Cms.query hash s x = Cms.query hash s y := by
  unfold Cms.query
  rw [double_hashing_full_collision hash s.w s.d x y h1 h2]

/-- Non-vacuity: with the sum hasher and width 3, elements 1 and 4 collide in all of 5 rows. -/
example : HashIter.positions (fun l => l.sum) 3 5 1 = HashIter.positions (fun l => l.sum) 3 5 4 := by decide

end Pds.Props.C08
