import Pds.Proofs.CmsMerge
import Pds.Proofs.BloomUnion
import Pds.Proofs.HllMerge
import Pds.Props.C14
import Pds.Props.C13
/-!
# C06 — merge/union is equivalent to having processed both streams (Bloom, CMS, HLL clauses)

Models: `Pds.Cms`, `Pds.Bloom`, `Pds.Hll`.  Hashers are parameters (`hash : List Nat → Nat`; for
HyperLogLog the hash values themselves are the inputs), so every theorem holds for every hasher.
In all three models `merge`/`union` is a pure function of `(self, other)` that returns only the
new `self`: the argument `other` is not modified (aliasing is the harness's business).

CMS: `run hash w d cmax h` replays a history (`Pds.Props.C02`), `stream h` is the weighted stream
it absorbed since its last clear, `replay str` is the history that feeds `str` by `add_n`.
Bloom: `run hash m k (inserts A)` inserts the elements of `A` into a fresh filter.
HLL: `run b hs` feeds the hashes `hs` to a fresh sketch of precision `b`.
-/
namespace Pds.Props.C06

/-! ### CountMinSketch -/
section Cms
open Pds.Cms

/-- `cms_merge_eq_concat`: for sketches `a`, `b` built by non-overflowing histories `A`, `B`,
`a.merge(b)` **is** the sketch obtained by feeding A's stream and then B's stream to a fresh
sketch — as `Option`s, i.e. the merge panics (overflow) exactly when that replay does. -/
theorem cms_merge_eq_concat {hash : List Nat → Nat} {w d cmax : Nat} (hw : 0 < w) (hd : 0 < d)
    {A B : List Op} {a b : St} (ha : run hash w d cmax A = some a) (hb : run hash w d cmax B = some b) :
    merge a b = run hash w d cmax (replay (stream A ++ stream B)) :=
  merge_eq_replay hw hd ha hb

/-- Special case of plain `add_n` streams `SA`, `SB`. -/
theorem cms_merge_eq_concat_adds {hash : List Nat → Nat} {w d cmax : Nat} (hw : 0 < w) (hd : 0 < d)
    {SA SB : List (Nat × Nat)} {a b : St} (ha : run hash w d cmax (replay SA) = some a)
    (hb : run hash w d cmax (replay SB) = some b) :
    merge a b = run hash w d cmax (replay SA ++ replay SB) := by
  rw [merge_eq_replay hw hd ha hb, stream_replay, stream_replay, replay_append]

/-- Inside a history: a `merge` step can be replaced by replaying the other sketch's stream. -/
theorem cms_merge_step_eq_replay {hash : List Nat → Nat} {w d cmax : Nat} (hw : 0 < w) (hd : 0 < d)
    {A B : List Op} {b : St} (hb : run hash w d cmax B = some b) :
    run hash w d cmax (A ++ [.merge B]) = run hash w d cmax (A ++ replay (stream B)) :=
  run_merge_eq_run_replay hw hd hb

/-- `cms_merge_comm` (tables; both sides panic together).  `cmax` is the maximum of the common
counter type. -/
theorem cms_merge_comm {a b : St} (hc : a.cmax = b.cmax) :
    (merge a b).map (·.table) = (merge b a).map (·.table) :=
  merge_comm_table hc

/-- `cms_merge_assoc` (tables; both sides panic together), for tables of one size. -/
theorem cms_merge_assoc {a b c : St} (hab : a.table.size = b.table.size)
    (hbc : b.table.size = c.table.size) (hc : a.cmax = b.cmax) :
    ((merge a b).bind (merge · c)).map (·.table) = ((merge b c).bind (merge a)).map (·.table) :=
  merge_assoc_table hab hbc hc

/-- The hypotheses of `cms_merge_comm` / `cms_merge_assoc` hold for sketches built by histories. -/
theorem cms_reachable_shape {hash : List Nat → Nat} {w d cmax : Nat} (hw : 0 < w) (hd : 0 < d)
    {A : List Op} {a : St} (ha : run hash w d cmax A = some a) :
    a.cmax = cmax ∧ a.table.size = w * d :=
  let i := run_inv hw hd ha; ⟨i.hcmax, i.hsize⟩

/-- `merge` succeeds iff the shapes agree and no cell sum exceeds `cmax`; each cell is the sum. -/
theorem cms_merge_cells {a b : St} (hs : a.table.size = b.table.size) :
    (merge a b = none ↔ ¬ (a.d = b.d ∧ a.w = b.w) ∨ ∃ j, a.cmax < cell a.table j + cell b.table j) ∧
    ∀ s', merge a b = some s' → s'.w = a.w ∧ s'.d = a.d ∧ s'.cmax = a.cmax ∧
      s'.table.size = a.table.size ∧ ∀ j, cell s'.table j = cell a.table j + cell b.table j :=
  merge_spec hs

end Cms

/-! ### Bloom filter -/
section Bloom
open Pds.Bloom

/-- `bloom_union_eq_concat`: `(run A).union(run B)` is the filter `run (A ++ B)` (same `k`, same bits). -/
theorem bloom_union_eq_concat (hash : List Nat → Nat) {m : Nat} (hm : 0 < m) (k : Nat) (A B : List Nat) :
    ((run hash m k (inserts A)).bind fun a => (run hash m k (inserts B)).bind fun b => union a b) =
      run hash m k (inserts (A ++ B)) :=
  union_eq_concat hash hm k A B

/-- the bits of an insert-only filter are exactly the positions of its elements -/
theorem bloom_bits_eq_positions (hash : List Nat → Nat) {m : Nat} (hm : 0 < m) (k : Nat) (A : List Nat) :
    ∃ s, run hash m k (inserts A) = some s ∧ s.k = k ∧ s.m = m ∧
      ∀ j, bit s.bits j = true ↔ ∃ x ∈ A, j ∈ posOf hash m k x :=
  run_inserts_spec hash hm k A

theorem bloom_union_comm (s o : St) : union s o = union o s := union_comm s o

theorem bloom_union_assoc (a b c : St) : (union a b).bind (union · c) = (union b c).bind (union a) :=
  union_assoc a b c

/-- `s.union(s) = s` -/
theorem bloom_union_idem (s : St) : union s s = some s := union_idem s

/-- `(s.union(o)).union(o) = s.union(o)` -/
theorem bloom_union_twice (s o : St) : (union s o).bind (union · o) = union s o := union_twice s o

/-- `union` succeeds iff `k` and `m` agree; then it is the bitwise OR. -/
theorem bloom_union_succeeds_iff (s o : St) : (union s o).isSome ↔ s.k = o.k ∧ s.m = o.m :=
  union_isSome_iff s o

theorem bloom_union_bits {s o u : St} (h : union s o = some u) :
    u.k = s.k ∧ u.m = s.m ∧ ∀ j, bit u.bits j = (bit s.bits j || bit o.bits j) :=
  union_spec h

end Bloom

/-! ### HyperLogLog -/
section Hll
open Pds.Hll

/-- `hll_merge_eq_concat`: merging two sketches of the same precision is the sketch of the
concatenated hash stream (registers = pointwise max). -/
theorem hll_merge_eq_concat {b : Nat} (hb : 4 ≤ b ∧ b ≤ 18) (hs₁ hs₂ : List Nat) :
    ((run b hs₁).bind fun s₁ => (run b hs₂).bind fun s₂ => merge s₁ s₂) = run b (hs₁ ++ hs₂) :=
  merge_run_eq_concat hb hs₁ hs₂

/-- registers of a merge of valid sketches: pointwise maximum -/
theorem hll_merge_registers {s o : St} (hs : Valid s) (ho : Valid o) (hb : s.b = o.b) :
    ∃ u, merge s o = some u ∧ Valid u ∧ u.b = s.b ∧ ∀ j, reg u j = max (reg s j) (reg o j) :=
  merge_spec hs ho hb

theorem hll_merge_succeeds_iff (s o : St) : (merge s o).isSome ↔ s.b = o.b := merge_isSome_iff s o

theorem hll_merge_comm (s o : St) : merge s o = merge o s := merge_comm s o

theorem hll_merge_assoc (a b c : St) : (merge a b).bind (merge · c) = (merge b c).bind (merge a) :=
  merge_assoc a b c

theorem hll_merge_idem (s : St) : merge s s = some s := merge_idem s

theorem hll_merge_twice (s o : St) : (merge s o).bind (merge · o) = merge s o := merge_twice s o

end Hll

/-! ### non-vacuity -/

/-- CMS: A contains a `clear`; the merge equals the replay of `stream A ++ stream B` -/
example : Cms.stream [.addN 1 2, .clear, .addN 2 3] ++ Cms.stream [.addN 4 1, .addN 2 2] =
    [(2, 3), (4, 1), (2, 2)] := by decide
example : ((Cms.run (fun l => l.sum) 3 2 10 [.addN 1 2, .clear, .addN 2 3]).bind fun a =>
    (Cms.run (fun l => l.sum) 3 2 10 [.addN 4 1, .addN 2 2]).bind fun b => Cms.merge a b) =
    some ⟨3, 2, 10, #[1, 5, 0, 1, 0, 5]⟩ := by decide +kernel
example : Cms.run (fun l => l.sum) 3 2 10 (Cms.replay [(2, 3), (4, 1), (2, 2)]) =
    some ⟨3, 2, 10, #[1, 5, 0, 1, 0, 5]⟩ := by decide +kernel
/-- both overflow together -/
example : ((Cms.run (fun l => l.sum) 3 2 10 [.addN 2 6]).bind fun a =>
    (Cms.run (fun l => l.sum) 3 2 10 [.addN 2 5]).bind fun b => Cms.merge a b) = none ∧
    Cms.run (fun l => l.sum) 3 2 10 (Cms.replay [(2, 6), (2, 5)]) = none := by decide +kernel

example : ((Bloom.run (fun l => l.sum) 7 2 (Bloom.inserts [1, 5])).bind fun a =>
    (Bloom.run (fun l => l.sum) 7 2 (Bloom.inserts [3])).bind fun b => Bloom.union a b) =
    some ⟨2, #[true, false, false, true, false, true, true]⟩ := by decide +kernel
example : Bloom.run (fun l => l.sum) 7 2 (Bloom.inserts [1, 5, 3]) =
    some ⟨2, #[true, false, false, true, false, true, true]⟩ := by decide +kernel

example : ((Hll.run 4 [0, 2^64 - 1, 17]).bind fun a => (Hll.run 4 [2^63, 16, 33]).bind fun b =>
    Hll.merge a b) = some ⟨4, #[61, 60, 0, 0, 0, 0, 0, 0, 0, 0, 0, 0, 0, 0, 0, 1]⟩ := by decide +kernel
example : Hll.run 4 ([0, 2^64 - 1, 17] ++ [2^63, 16, 33]) =
    some ⟨4, #[61, 60, 0, 0, 0, 0, 0, 0, 0, 0, 0, 0, 0, 0, 0, 1]⟩ := by decide +kernel

/-! ## Cuckoo filter clause (from the multiset refinement of C14) -/
section Cuckoo
open Pds.Cuckoo
variable {R : Type}

/-- Cuckoo filter: a successful `union` leaves the receiver holding exactly the multiset sum of
both filters' fingerprint classes, and `len` adds up — which is the abstract state a filter of the
same configuration reaches after receiving both streams (each successful insert adds one copy of
its class, C14 `insert_ok`); hence the same `query`/`len` answers for every element, for every
outcome of the eviction choices.  The second operand is an immutable argument. -/
theorem cuckoo_union_eq_sum (I : RngI R) (hI : RngOK I) (hash : List Nat → Nat) (kicks : Nat)
    {s o s' : St R} (hs : Inv hash s) (ho : Inv hash o)
    (hp : s.bs = o.bs ∧ s.nb = o.nb ∧ s.lf = o.lf) {b : Bool}
    (hr : union I hash kicks s o = some (s', .ok b)) :
    abs hash s' = abs hash s + abs hash o ∧ s'.n = s.n + o.n ∧ Inv hash s' :=
  let h := Pds.Props.C14.union_ok I hI hash kicks hs ho hp hr
  ⟨h.1, h.2.1, h.2.2.1⟩

/-- Observational form: two well-formed cuckoo filters with the same parameters and the same
multiset of classes answer every query identically and have the same length. -/
theorem cuckoo_same_abs_same_answers (hash : List Nat → Nat) {s t : St R}
    (hs : Inv hash s) (ht : Inv hash t) (hp : s.nb = t.nb ∧ s.lf = t.lf)
    (habs : abs hash s = abs hash t) (y : Nat) :
    (query hash s y = some true ↔ query hash t y = some true) ∧ s.n = t.n := by
  refine ⟨?_, by rw [hs.2, ht.2, habs]⟩
  rw [Pds.Props.C14.query_iff hash hs, Pds.Props.C14.query_iff hash ht, habs]
  unfold clsS
  rw [hp.1, hp.2]

end Cuckoo

/-! ## Quotient filter clause (from the set refinement of C13) -/
section QuotientFilter
open Pds.Quotient
variable {N : Nat}

/-- Quotient filter: `union` either fails with `Full` (exactly when the two sets together exceed the
`N` slots) leaving the receiver untouched, or succeeds and then the receiver stores exactly the
set union — the same abstract state as after receiving both streams — with `len` its cardinality.
The cluster walk with the FIFO queue of pending quotients decodes the other operand exactly, also
for clusters of three and more runs and clusters wrapping around the end of the slot array. -/
theorem quotient_union_eq_set_union {t o : St N} {S So : Finset (Fin N × Nat)}
    (hr : Rep t S) (ho : Rep o So) :
    (union t o = some (t, .full) ∧ N < (S ∪ So).card) ∨
      ∃ t', union t o = some (t', .ok true) ∧ Rep t' (S ∪ So) ∧ t'.n = (S ∪ So).card :=
  match Pds.Props.C13.union_correct hr ho with
  | .inl h => .inl h
  | .inr ⟨t', h1, h2, h3, _⟩ => .inr ⟨t', h1, h2, h3⟩

/-- Observational form: two well-formed tables storing the same set answer every query identically
and have the same length; hence `union` is commutative, associative and idempotent as observed
through the API (`S ∪ So = So ∪ S`, `(S ∪ T) ∪ U = S ∪ (T ∪ U)`, `S ∪ S = S`). -/
theorem quotient_same_set_same_answers {t t' : St N} {S : Finset (Fin N × Nat)}
    (hr : Rep t S) (hr' : Rep t' S) (a : Fin N) (r : Nat) :
    (∃ sr sr', scan t a r false = some sr ∧ scan t' a r false = some sr' ∧ sr.present = sr'.present) ∧
    t.n = t'.n := by
  obtain ⟨sr, hs, hp⟩ := Pds.Props.C13.scan_correct hr a r false
  obtain ⟨sr', hs', hp'⟩ := Pds.Props.C13.scan_correct hr' a r false
  refine ⟨⟨sr, sr', hs, hs', ?_⟩, by rw [hr.2, hr'.2]⟩
  cases h1 : sr.present <;> cases h2 : sr'.present <;> simp_all

/-- Merging a quotient filter with itself changes nothing observable: it succeeds and stores the same set. -/
theorem quotient_union_idem {t : St N} {S : Finset (Fin N × Nat)} (hr : Rep t S) (hcard : S.card ≤ N) :
    ∃ t', union t t = some (t', .ok true) ∧ Rep t' S := by
  rcases Pds.Props.C13.union_correct hr hr with ⟨_, hlt⟩ | ⟨t', h1, h2, _, _⟩
  · rw [Finset.union_self] at hlt; omega
  · rw [Finset.union_self] at h2; exact ⟨t', h1, h2⟩

end QuotientFilter

end Pds.Props.C06
