import Pds.Proofs.LossySize
import Mathlib.Tactic.NormNum
/-!
# C09 — LossyCounter: deterministic frequency guarantees (Manku–Motwani lossy counting)

Model: `Pds.Lossy` (`src/topk/lossycounter.rs`).  `counter width xs` is the state of
`LossyCounter::with_width(width)` after `add`ing the stream `xs`; every statement is for an arbitrary
stream, hence holds at every prefix.  `xs.count x` is the true frequency, `xs.length` is `n`,
`(n + width - 1) / width = ⌈n / width⌉` is the index of the current window and `n / width` the number
of completed windows.  The float expression of `query` is glue: the theorems about `queryBound` are
stated over `ℚ` for the exact value `⌈(thr - ε)·n⌉.max(0)` of that expression, with `ε ≥ 1/width`
(`with_width`: `ε = 1/width`; `with_epsilon ε`: `width = ⌈1/ε⌉`).
-/
namespace Pds.Props.C09
open Pds.Lossy Pds.Proofs.Lossy

/-- the counter `with_width width` after the stream `xs` -/
def counter (width : Nat) (xs : List Nat) : St :=
  xs.foldl (fun s x => (Lossy.add s x).1) ⟨width, 0, []⟩

/-- `with_width` succeeds exactly for `width ≥ 1`, with the empty state `counter width []`. -/
theorem new_ok {width : Nat} (hw : 1 ≤ width) : Lossy.new width = some (counter width []) :=
  new_eq hw

/-- `n()` is the stream length, and the window width never changes. -/
theorem lossy_n (width : Nat) (xs : List Nat) :
    (counter width xs).n = xs.length ∧ (counter width xs).width = width :=
  ⟨(inv_run width xs).n_eq, (inv_run width xs).width_eq⟩

/-- `add` reports `true` exactly when the element is not tracked at that moment (never seen, or pruned). -/
theorem add_reports_new (width : Nat) (xs : List Nat) (x : Nat) :
    (Lossy.add (counter width xs) x).2 = true ↔ x ∉ (counter width xs).known.map (·.key) :=
  add_snd _ x

/-- `known` never holds a key twice. -/
theorem known_nodup (width : Nat) (xs : List Nat) : ((counter width xs).known.map (·.key)).Nodup :=
  (inv_run width xs).nodup

/-- The lossy-counting invariant for a tracked entry `(x, f, Δ)`:
`1 ≤ f ≤ true x ≤ f + Δ`, `Δ + 1 ≤ ⌈n/width⌉`, and the entry is not yet prunable (`f + Δ > ⌊n/width⌋`). -/
theorem lossy_undercount {width : Nat} (hw : 1 ≤ width) (xs : List Nat) (e : Entry)
    (he : e ∈ (counter width xs).known) :
    1 ≤ e.f ∧ e.f ≤ xs.count e.key ∧ xs.count e.key ≤ e.f + e.delta ∧
      e.delta + 1 ≤ (xs.length + width - 1) / width ∧ xs.length / width < e.f + e.delta :=
  have ok := (inv_run width xs).entries e he
  ⟨ok.f_pos, ok.f_le, ok.le_fd, (delta_ceil_iff hw).2 ok.delta_lt, (inv_run width xs).alive e he⟩

/-- An untracked element occurred at most once per completed window: `true x ≤ ⌊n/width⌋`. -/
theorem untracked_rare (width : Nat) (xs : List Nat) (x : Nat)
    (hx : x ∉ (counter width xs).known.map (·.key)) : xs.count x ≤ xs.length / width :=
  (inv_run width xs).untracked x hx

/-- Every element of relative frequency `> 1/width` is tracked. -/
theorem tracked_if_frequent (width : Nat) (xs : List Nat) (x : Nat)
    (h : xs.count x * width > xs.length) : x ∈ (counter width xs).known.map (·.key) :=
  tracked_of_frequent xs x h

/-- `query` misses no element of relative frequency `≥ thr` (and `> 1/width`).  The bound is
described by the characteristic inequality of `max 0 ⌈(thr - ε)·n⌉`. -/
theorem no_miss {width : Nat} (hw : 1 ≤ width) (xs : List Nat) (x : Nat) (thr ε : ℚ) (bound : Nat)
    (hε : 1 / (width : ℚ) ≤ ε)
    (hbound : bound = 0 ∨ (bound : ℚ) - 1 < (thr - ε) * xs.length)
    (hthr : thr * xs.length ≤ xs.count x) (hfreq : xs.count x * width > xs.length) :
    x ∈ queryBound (counter width xs) bound :=
  query_no_miss hw xs x thr ε bound hε hbound hthr hfreq

/-- `query` reports no element of relative frequency `< thr - ε`. -/
theorem no_intruder (width : Nat) (xs : List Nat) (x : Nat) (thr ε : ℚ) (bound : Nat)
    (hbound : (thr - ε) * xs.length ≤ bound) (hx : x ∈ queryBound (counter width xs) bound) :
    (thr - ε) * xs.length ≤ xs.count x :=
  query_no_intruder xs x _ bound hbound hx

/-- Both directions for the bound the code computes, `⌈(thr - ε)·n⌉₊ = max 0 ⌈(thr - ε)·n⌉`. -/
theorem query_ceil {width : Nat} (hw : 1 ≤ width) (xs : List Nat) (x : Nat) (thr ε : ℚ)
    (hε : 1 / (width : ℚ) ≤ ε) :
    (thr * xs.length ≤ xs.count x → xs.count x * width > xs.length →
        x ∈ queryBound (counter width xs) ⌈(thr - ε) * xs.length⌉₊) ∧
    (x ∈ queryBound (counter width xs) ⌈(thr - ε) * xs.length⌉₊ →
        (thr - ε) * xs.length ≤ xs.count x) :=
  ⟨fun h1 h2 => query_no_miss hw xs x thr ε _ hε (natCeil_char _).2 h1 h2,
   fun h => query_no_intruder xs x _ _ (natCeil_char _).1 h⟩

/-- Space: at most `width · H(⌈n/width⌉)` entries, `H` the harmonic number. -/
theorem size_bound {width : Nat} (hw : 1 ≤ width) (xs : List Nat) :
    ((counter width xs).known.length : ℚ) ≤
      width * ∑ i ∈ Finset.range ((xs.length + width - 1) / width), (1 : ℚ) / ((i : ℚ) + 1) := by
  rw [← Pds.Proofs.LossyHarmonic.H_eq_sum]; exact size_le_harmonic hw xs

/-- The (weaker) form with one unit of slack. -/
theorem size_bound_plus_one {width : Nat} (hw : 1 ≤ width) (xs : List Nat) :
    ((counter width xs).known.length : ℚ) ≤
      width * (∑ i ∈ Finset.range ((xs.length + width - 1) / width), (1 : ℚ) / ((i : ℚ) + 1) + 1) := by
  have h := size_bound hw xs
  have hw' : (0 : ℚ) ≤ width := Nat.cast_nonneg _
  rw [mul_add, mul_one]
  linarith

/-! ### Non-vacuity: concrete histories -/

/-- width 3: `2` is pruned at the end of window 1, `3` is freshly inserted in window 2 with `Δ = 1`,
and pruned at its end. -/
example : (counter 3 [1, 1, 2, 1, 3]).known = [⟨3, 1, 1⟩, ⟨1, 3, 0⟩] ∧
    (counter 3 [1, 1, 2, 1, 3, 4]).known = [⟨1, 3, 0⟩] := by decide
/-- an element can be pruned and come back: its `f` undercounts (`true 2 = 4`, `f = 2`, `Δ = 2`). -/
example : (counter 3 [2, 2, 1, 1, 3, 1, 2, 2]).known = [⟨2, 2, 2⟩, ⟨1, 2, 1⟩] := by decide
example : (Lossy.add (counter 3 [2, 2, 1, 1, 3, 1]) 2).2 = true ∧
    (Lossy.add (counter 3 [2, 2, 1, 1, 3, 1]) 1).2 = false := by decide
/-- `width = 4`, `ε = 1/4`, `thr = 1/2`, `n = 8`: bound `⌈(1/2 - 1/4)·8⌉ = 2`; only `1` (5 of 8) is reported. -/
example : queryBound (counter 4 [1, 2, 1, 3, 1, 1, 4, 1]) 2 = [1] := by decide
example : 1 ∈ queryBound (counter 4 [1, 2, 1, 3, 1, 1, 4, 1]) 2 :=
  no_miss (by decide) [1, 2, 1, 3, 1, 1, 4, 1] 1 (1 / 2) (1 / 4) 2 (by norm_num)
    (Or.inr (by norm_num)) (by norm_num) (by decide)
/-- the space bound is attained: `width` distinct elements inside the first window. -/
example : (counter 3 [1, 2]).known.length = 2 ∧ (counter 3 [1, 2, 3]).known.length = 0 := by decide

end Pds.Props.C09
