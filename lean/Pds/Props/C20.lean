import Pds.Proofs.Hll
import Pds.Model.Serde
/-!
# C20 — HyperLogLog survives serialisation and rejects invalid serialised state

Model: `Pds.Serde` (`src/hyperloglog/serde.rs`): a document is the ordered list of its fields with
values already parsed by `serde_json` (trusted); `deserialize` follows `visit_map` and then the
constructor's checks.  The hasher type is arbitrary.
-/
namespace Pds.Props.C20
open Pds.Serde Pds.Hll

variable {H : Type}

/-- Round trip: serialising a valid sketch whose registers are bytes and deserialising the result
gives back the same sketch (same `b`, registers, hasher — hence the same `count()` and the same
reaction to further adds and merges, which are functions of that state). -/
theorem deser_ser (s : St) (h : H) (hv : Valid s) (hu8 : ∀ r ∈ s.regs.toList, r < 256) :
    deserialize (serialize s h) = some (s, h) := by
  have hall : s.regs.toList.all (· < 256) = true := by
    rw [List.all_eq_true]; intro x hx; exact decide_eq_true (hu8 x hx)
  have hw : withRegisters s.b s.regs = some s := withRegisters_eq_some.mpr ⟨hv, rfl⟩
  simp [deserialize, serialize, visit, hall, hw]

/-- Every sketch reachable by adds has byte registers (ranks are at most 61), so the round trip
applies to every sketch the API can produce. -/
theorem reachable_regs_u8 {b : Nat} (hb : 4 ≤ b ∧ b ≤ 18) (hs : List Nat) {s : St}
    (hrun : run b hs = some s) : ∀ r ∈ s.regs.toList, r < 256 := by
  obtain ⟨s', e, v, bb, r⟩ := run_spec hb hs
  rw [hrun] at e; cases e
  intro x hx
  rw [Array.mem_toList_iff, Array.mem_iff_getElem] at hx
  obtain ⟨j, hj, rfl⟩ := hx
  have hr := r j
  simp only [reg, hj, Array.getElem?_eq_getElem, Option.getD_some] at hr
  rw [hr]
  obtain ⟨_, hm⟩ := maxRank_spec b j hs
  rcases hm with hm | ⟨y, _, _, hy⟩
  · omega
  · rw [← hy]; have := @rank_le b y; omega

/-- Whatever document deserialises successfully yields a sketch satisfying the constructor's
invariants (`4 ≤ b ≤ 18`, exactly `2^b` registers) — so `add`, `count`, `merge` are total on it
(C17 `registers_eq_max`, C03 `count_total`). -/
theorem deser_valid (d : Doc H) (s : St) (h : H) (hd : deserialize d = some (s, h)) : Valid s := by
  unfold deserialize at hd
  split at hd
  · cases hd
  · rename_i acc _
    split at hd
    · rename_i r b hh _ _ _
      split at hd
      · simp only [Option.map_eq_some_iff, Prod.mk.injEq] at hd
        obtain ⟨s', hw, rfl, _⟩ := hd
        obtain ⟨hv, rfl⟩ := withRegisters_eq_some.mp hw
        exact hv
      · cases hd
    · cases hd

/-- Registers outside `u8` are rejected. -/
theorem deser_rejects_non_bytes (r : List Nat) (b : Nat) (h : H) (hbad : ∃ x ∈ r, 256 ≤ x) :
    deserialize [.registers (some r), .b (some b), .buildhasher (some h)] = none := by
  obtain ⟨x, hx, hx2⟩ := hbad
  have : r.all (· < 256) = false := by
    rw [List.all_eq_false]; exact ⟨x, hx, by simp; omega⟩
  simp [deserialize, visit, this]

/-- An unknown field anywhere in the document is an error. -/
theorem deser_unknown_field (pre post : Doc H) :
    ∀ acc : Acc H, visit (pre ++ Field.unknown :: post) acc = none := by
  induction pre with
  | nil => intro acc; rfl
  | cons f pre ih =>
    intro acc
    have ih' := ih
    cases f with
    | unknown => rfl
    | registers v =>
      simp only [List.cons_append, visit]
      split
      · rfl
      · cases v <;> simp [ih']
    | b v =>
      simp only [List.cons_append, visit]
      split
      · rfl
      · cases v <;> simp [ih']
    | buildhasher v =>
      simp only [List.cons_append, visit]
      split
      · rfl
      · cases v <;> simp [ih']

/-- Omitting any of the three fields is an error. -/
theorem deser_missing_field (r : List Nat) (b : Nat) (h : H) :
    deserialize ([.b (some b), .buildhasher (some h)] : Doc H) = none ∧
    deserialize ([.registers (some r), .buildhasher (some h)] : Doc H) = none ∧
    deserialize ([.registers (some r), .b (some b)] : Doc H) = none := by
  refine ⟨?_, ?_, ?_⟩ <;> simp [deserialize, visit]

/-- A duplicated field is an error, wherever the duplicate stands. -/
theorem deser_duplicate_field (r r' : List Nat) (b b' : Nat) (h h' : H) :
    deserialize ([.registers (some r), .b (some b), .registers (some r'), .buildhasher (some h)] : Doc H) = none ∧
    deserialize ([.registers (some r), .b (some b), .buildhasher (some h), .b (some b')] : Doc H) = none ∧
    deserialize ([.buildhasher (some h), .registers (some r), .b (some b), .buildhasher (some h')] : Doc H) = none := by
  refine ⟨?_, ?_, ?_⟩ <;> simp [deserialize, visit]

/-- Field order does not matter for a complete, duplicate-free document. -/
theorem deser_any_order (s : St) (h : H) (hv : Valid s) (hu8 : ∀ r ∈ s.regs.toList, r < 256) :
    deserialize ([.buildhasher (some h), .b (some s.b), .registers (some s.regs.toList)] : Doc H) = some (s, h) := by
  have hall : s.regs.toList.all (· < 256) = true := by
    rw [List.all_eq_true]; intro x hx; exact decide_eq_true (hu8 x hx)
  have hw : withRegisters s.b s.regs = some s := withRegisters_eq_some.mpr ⟨hv, rfl⟩
  simp [deserialize, visit, hall, hw]

/-- Non-vacuity: b = 99 with 16 registers, and b = 4 with an empty register list, are rejected;
a genuine b = 4 document is accepted. -/
example : deserialize ([.registers (some (List.replicate 16 0)), .b (some 99), .buildhasher (some ())] : Doc Unit) = none := by decide
example : deserialize ([.registers (some []), .b (some 4), .buildhasher (some ())] : Doc Unit) = none := by decide
example : (deserialize ([.registers (some (List.replicate 16 3)), .b (some 4), .buildhasher (some ())] : Doc Unit)).isSome = true := by decide

end Pds.Props.C20
