import Pds.Proofs.Hll
import Pds.Model.Bloom
import Pds.Model.Cms
import Pds.Model.Cuckoo
import Pds.Model.Quotient
import Pds.Model.Reservoir
import Pds.Model.Lossy
import Pds.Model.CmsHeap
import Pds.Model.TDigest
/-!
# C19 — clear() restores a fresh structure and clone() is an independent copy

For each of the nine models: `clear s` **is** the state the constructor builds for `s`'s
configuration (equality of states, so every later operation sequence behaves identically; for the
RNG-carrying structures equality is up to the RNG position, as the property says).
`clone` is the identity on immutable model states, so independence holds trivially in the model;
whether the Rust `Clone` shares mutable state (`Rc` keys of CMSHeap, `RefCell` of TDigest) is tied
by the correspondence run (clone, divergent mutation, `both` observations).
-/
namespace Pds.Props.C19

theorem hll_clear_eq_new (s : Hll.St) (hv : Hll.Valid s) : Hll.new s.b = some (Hll.clear s) := by
  rw [Hll.new_some ⟨hv.1, hv.2.1⟩]; simp [Hll.clear, hv.2.2]

theorem hll_clear_empty (s : Hll.St) : Hll.isEmpty (Hll.clear s) = true := by
  unfold Hll.isEmpty Hll.clear; rw [Array.all_eq_true]; intro i hi; simp

theorem bloom_clear_eq_new (s : Bloom.St) (hok : HashIter.builderOk s.m s.k = true) :
    Bloom.new s.m s.k = some (Bloom.clear s) := by
  unfold Bloom.St.m at hok; simp [Bloom.new, hok, Bloom.clear, Bloom.St.m]

theorem bloom_clear_empty (s : Bloom.St) : Bloom.isEmpty (Bloom.clear s) = true := by
  unfold Bloom.isEmpty Bloom.clear; rw [Array.all_eq_true]; intro i hi; simp

theorem cms_clear_eq_new (s : Cms.St) (hok : HashIter.builderOk s.w s.d = true) :
    Cms.new s.w s.d s.cmax = some (Cms.clear s) := by
  simp [Cms.new, hok, Cms.clear]

theorem cms_clear_empty (s : Cms.St) : Cms.isEmpty (Cms.clear s) = true := by
  unfold Cms.isEmpty Cms.clear; rw [Array.all_eq_true]; intro i hi; simp

/-- cuckoo filter: `clear` gives the constructor's state for the same parameters with the RNG left
where it is. -/
theorem cuckoo_clear_eq_new {R : Type} (s : Cuckoo.St R) (hsz : s.table.size = s.nb * s.bs)
    {s0 : Cuckoo.St R} (h0 : Cuckoo.new s.rng s.bs s.nb s.lf = some s0) : Cuckoo.clear s = s0 := by
  unfold Cuckoo.new at h0
  split at h0
  · cases h0; simp [Cuckoo.clear, hsz]
  · cases h0

theorem quotient_clear_eq_empty {N : Nat} (t : Quotient.St N) : Quotient.clear t = Quotient.empty N := rfl

/-- reservoir: `clear` gives `new k` with the RNG left where it is. -/
theorem reservoir_clear_eq_new {R : Type} (s : Reservoir.St R) (hk : 0 < s.k) :
    Reservoir.new s.k s.rng = some (Reservoir.clear s) := by
  simp [Reservoir.new, hk, Reservoir.clear]

theorem reservoir_clear_empty {R : Type} (s : Reservoir.St R) : Reservoir.isEmpty (Reservoir.clear s) = true := by
  simp [Reservoir.isEmpty, Reservoir.clear]

theorem lossy_clear_eq_new (s : Lossy.St) (hw : 0 < s.width) : Lossy.new s.width = some (Lossy.clear s) := by
  simp [Lossy.new, hw, Lossy.clear]

theorem cmsheap_clear_eq_new (s : CmsHeap.St) (hk : 0 < s.k) :
    CmsHeap.new s.k (Cms.clear s.cms) = some (CmsHeap.clear s) := by
  simp [CmsHeap.new, hk, CmsHeap.clear]

theorem cmsheap_clear_empty (s : CmsHeap.St) : CmsHeap.isEmpty (CmsHeap.clear s) = true := by
  simp [CmsHeap.isEmpty, CmsHeap.clear]

/-- t-digest, any carrier and scale function: `clear` gives `new max_backlog_size` — including the
sample counter that the scale functions K2/K3 read. -/
theorem tdigest_clear_eq_new {α : Type} (s : TDigest.St α) : TDigest.clear s = TDigest.new s.maxBacklog := by
  simp [TDigest.clear, TDigest.new]

theorem tdigest_clear_empty {α : Type} (s : TDigest.St α) : TDigest.isEmpty (TDigest.clear s) = true := by
  simp [TDigest.isEmpty, TDigest.clear]

/-- Non-vacuity: a used HLL state and a used t-digest state, cleared. -/
example : (Hll.run 4 [5, 99, 12345]).map (fun s => Hll.clear s) = Hll.new 4 := by decide
example : TDigest.clear (⟨[⟨3, 2⟩], 7, some 1, some 2, [⟨1, 1⟩], 5⟩ : TDigest.St Nat) = TDigest.new 5 := by decide

end Pds.Props.C19
