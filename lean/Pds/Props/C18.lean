import Pds.Proofs.Reservoir
/-!
# C18 — the reservoir is always a valid sample

Model: `Pds.Reservoir` (`src/reservoirsampling.rs`).  The RNG is a parameter: any state type `R`
and any `I : RngI R` whose `below n` (= `gen_range(0..n)`) answers `< n`; the geometric `gap` draw
may be any function whatsoever.  `run I k rng n` is a fresh sampler of capacity `k` fed with the
position ids `0, …, n-1`; `feed I s xs` feeds an arbitrary item list.
-/
namespace Pds.Props.C18
open Pds.Reservoir

variable {R : Type}

/-- `run` is literally `new` followed by `add` of every position id of `List.range n`. -/
theorem run_def (I : RngI R) (k : Nat) (rng : R) (n : Nat) :
    run I k rng n = (new k rng).bind fun s => (List.range n).foldlM (add I) s := rfl

/-- `feed` is the monadic left fold of `add` (any `none` = index panic aborts). -/
theorem feed_def (I : RngI R) (s : St R) (xs : List Nat) : feed I s xs = xs.foldlM (add I) s := rfl

/-- The only RNG assumption used anywhere in this file. -/
theorem lawful_def (I : RngI R) : Lawful I ↔ ∀ n r, 0 < n → (I.below n r).1 < n := Iff.rfl

/-- Single step, any item, any phase (fill / plain / skipping): when the reservoir has the length
the sampler maintains (`min i k`), `add` does not hit an out-of-range index. -/
theorem add_total_step {I : RngI R} (hI : Lawful I) (s : St R) (x : Nat) (hk : 0 < s.k)
    (hsz : s.res.size = min s.i s.k) : (add I s x).isSome :=
  add_isSome hI s x hk hsz

/-- `add` never returns `none` on a constructed sampler, for every stream length. -/
theorem add_total {I : RngI R} (hI : Lawful I) {k : Nat} (hk : 0 < k) (rng : R) (n : Nat) :
    ∃ s, run I k rng n = some s :=
  let ⟨s, e, _⟩ := run_inv hI hk rng n; ⟨s, e⟩

/-- … and `new` fails exactly for `k = 0` (the `assert!`). -/
theorem new_none_iff (k : Nat) (rng : R) : new k rng = none ↔ k = 0 := by
  unfold new; split <;> simp <;> omega

/-- The reservoir holds `min n k` items. -/
theorem res_length {I : RngI R} (hI : Lawful I) {k : Nat} (hk : 0 < k) {rng : R} {n : Nat}
    {s : St R} (h : run I k rng n = some s) : s.res.size = min n k := by
  obtain ⟨s', e, v⟩ := run_inv hI hk rng n
  cases h.symm.trans e; exact v.size

/-- `i()` counts the items seen, and `k()` is the capacity. -/
theorem res_i {I : RngI R} (hI : Lawful I) {k : Nat} (hk : 0 < k) {rng : R} {n : Nat}
    {s : St R} (h : run I k rng n = some s) : s.i = n ∧ s.k = k := by
  obtain ⟨s', e, v⟩ := run_inv hI hk rng n
  cases h.symm.trans e; exact ⟨v.i_eq, v.k_eq⟩

/-- `is_empty` iff nothing was observed. -/
theorem isEmpty_iff {I : RngI R} (hI : Lawful I) {k : Nat} (hk : 0 < k) {rng : R} {n : Nat}
    {s : St R} (h : run I k rng n = some s) : isEmpty s = true ↔ n = 0 := by
  rw [isEmpty, (res_i hI hk h).1]; simp

/-- Every reservoir entry is a position that was added. -/
theorem res_subset {I : RngI R} (hI : Lawful I) {k : Nat} (hk : 0 < k) {rng : R} {n : Nat}
    {s : St R} (h : run I k rng n = some s) : ∀ x ∈ s.res, x < n := by
  obtain ⟨s', e, v⟩ := run_inv hI hk rng n
  cases h.symm.trans e; exact fun x hx => v.mem_lt hx

/-- No position occurs twice. -/
theorem res_nodup {I : RngI R} (hI : Lawful I) {k : Nat} (hk : 0 < k) {rng : R} {n : Nat}
    {s : St R} (h : run I k rng n = some s) : s.res.toList.Nodup := by
  obtain ⟨s', e, v⟩ := run_inv hI hk rng n
  cases h.symm.trans e; exact v.nodup

/-- While at most `k` items were seen the reservoir is the stream itself, in order. -/
theorem res_prefix {I : RngI R} (hI : Lawful I) {k : Nat} (hk : 0 < k) {rng : R} {n : Nat}
    {s : St R} (h : run I k rng n = some s) (hn : n ≤ k) : s.res = Array.range n := by
  obtain ⟨s', e, v⟩ := run_inv hI hk rng n
  cases h.symm.trans e; exact v.pre hn

/-- `clear` gives back the freshly constructed sampler (with the RNG state reached so far). -/
theorem clear_is_new {I : RngI R} (hI : Lawful I) {k : Nat} (hk : 0 < k) {rng : R} {n : Nat}
    {s : St R} (h : run I k rng n = some s) : some (clear s) = new k s.rng := by
  obtain ⟨s', e, v⟩ := run_inv hI hk rng n
  cases h.symm.trans e; exact clear_eq_new v

/-- … hence feeding `0, …, m-1` after `clear` is a `run` again, and every theorem above applies. -/
theorem after_clear {I : RngI R} (hI : Lawful I) {k : Nat} (hk : 0 < k) {rng : R} {n : Nat}
    {s : St R} (h : run I k rng n = some s) (m : Nat) :
    feed I (clear s) (List.range m) = run I k s.rng m := by
  rw [run, ← clear_is_new hI hk h]; rfl

/-- Arbitrary items: feeding `xs` is feeding the positions `0, …, |xs|-1` and reading the items
off the sampled positions (`add` never inspects an item).  So the reservoir of any stream is
`xs[p]` for `min |xs| k` pairwise distinct positions `p < |xs|`. -/
theorem stream_sample {I : RngI R} (hI : Lawful I) {k : Nat} (hk : 0 < k) (rng : R)
    (xs : List Nat) :
    ∃ s₀ s ps, new k rng = some s₀ ∧ feed I s₀ xs = some s ∧ s.i = xs.length ∧
      ps.size = min xs.length k ∧ (∀ p ∈ ps, p < xs.length) ∧ ps.toList.Nodup ∧
      (xs.length ≤ k → ps = Array.range xs.length) ∧
      s.res = ps.map fun p => xs.getD p 0 := by
  obtain ⟨sp, _, v, e⟩ := feed_stream hI hk rng xs
  exact ⟨_, _, sp.res, new_eq hk rng, e, v.i_eq, v.size, fun p hp => v.mem_lt hp, v.nodup, v.pre, rfl⟩

/-! ### non-vacuity: a concrete lawful RNG and concrete runs through all three phases -/

/-- a toy linear congruential generator -/
def lcg : RngI Nat where
  below n r := (r % n, (r * 75 + 74) % 65537)
  gap _ _ r := (r % 3, (r * 75 + 74) % 65537)

example : Lawful lcg := fun _ r hn => Nat.mod_lt r hn

-- k = 2: fill (n ≤ 2), plain (2 ≤ i < 8, first gap drawn at i = 7), skipping (i ≥ 8)
example : (run lcg 2 7 0).map (fun s => (s.res, s.i, s.skipUntil, isEmpty s)) =
    some (#[], 0, 0, true) := by decide
example : (run lcg 2 7 2).map (fun s => (s.res, s.i, s.skipUntil, isEmpty s)) =
    some (#[0, 1], 2, 0, false) := by decide
example : (run lcg 2 7 8).map (fun s => (s.res, s.i, s.skipUntil)) = some (#[6, 2], 8, 10) := by
  decide
example : (run lcg 2 7 11).map (fun s => (s.res, s.i, s.skipUntil)) = some (#[10, 2], 11, 12) := by
  decide
example : (run lcg 2 7 14).map (fun s => (s.res, s.i, s.skipUntil)) = some (#[13, 12], 14, 16) := by
  decide
example : (run lcg 3 1 40).map (fun s => (s.res, s.i, s.skipUntil)) =
    some (#[39, 32, 36], 40, 40) := by decide
example : ((run lcg 2 7 14).bind fun s => feed lcg (clear s) [0, 1]).map (fun s => (s.res, s.i)) =
    some (#[0, 1], 2) := by decide
example : ((new 2 7).bind fun s => feed lcg s [50, 51, 52, 53, 54]).map (·.res) =
    some #[50, 52] := by decide
/-- an unlawful RNG does make `add` panic: `below` answering `k` in the skipping phase -/
example : run (⟨fun n r => (if n = 1 then 1 else 0, r), fun _ _ r => (0, r)⟩ : RngI Unit) 1 () 5 =
    none := by decide

end Pds.Props.C18
