import Pds.Proofs.HeapRun
import Mathlib.Data.List.Dedup
/-!
# C10 — CMSHeap: top-k over a count-min sketch

Model: `Pds.CmsHeap` (`src/topk/cmsheap.rs`) over the sketch model `Pds.Cms`.
`run pos k w d cmax xs` is `CMSHeap::new(k, CountMinSketch::with_params(w, d))` followed by `add`ing
the stream `xs`; `pos x` are the `d` sketch columns (`< w`) of the element `x`, an arbitrary function
(`Setup.hpos`), so every statement holds for every hasher.  `cmax` is the maximum of the counter type;
`xs.length ≤ cmax` excludes counter overflow.  Every statement is for an arbitrary stream, hence holds
at every prefix.  `xs.count y` is the true frequency.

`OverBy pos d xs E` says that `E` bounds the overestimate of the sketch along the run: whenever `x` is
added, one of the `d` cells of `x` counts at most `E` colliding elements.  By `estimate_spec` the value
returned by the sketch is the minimum of these cells, so (`overBy_of_returned`) `E` may be taken as any
number such that every value returned by `Cms.addCols` along the run is `≤ true count + E`.
-/
namespace Pds.Props.C10
open Pds.CmsHeap Pds.Proofs.Heap
open Pds.Proofs.HeapCms (PosOk cell)

/-- The sketch along the run: `add_n` does not panic, returns the minimum over the rows of the cell of
`x` (the number of stream elements sharing `x`'s column in that row), hence at least the true count. -/
theorem estimate_spec {pos : Nat → List Nat} {k w d cmax : Nat} (hs : Setup pos k w d) {xs : List Nat}
    (x : Nat) (hlen : xs.length < cmax) {s : St} (hr : run pos k w d cmax xs = some s) :
    ∃ c est, Cms.addCols s.cms (pos x) 1 = some (c, est) ∧
      (xs ++ [x]).count x ≤ est ∧
      (∀ i, i < d → est ≤ cell pos i ((pos x).getD i 0) (xs ++ [x])) ∧
      (∃ i, i < d ∧ est = cell pos i ((pos x).getD i 0) (xs ++ [x])) :=
  Pds.Proofs.Heap.estimate_spec hs hlen hr

/-- `E` may be any bound on (returned estimate − true count) along the run. -/
theorem overBy_of_returned {pos : Nat → List Nat} {k w d cmax E : Nat} (hs : Setup pos k w d)
    {xs : List Nat} (hlen : xs.length ≤ cmax)
    (hret : ∀ pre x, pre ++ [x] <+: xs → ∀ s c est, run pos k w d cmax pre = some s →
      Cms.addCols s.cms (pos x) 1 = some (c, est) → est ≤ (pre ++ [x]).count x + E) :
    OverBy pos d xs E :=
  Pds.Proofs.Heap.overBy_of_returned hs hlen hret

/-- Some `E` always exists (the stream length). -/
theorem overBy_length {pos : Nat → List Nat} {k w d : Nat} (hs : Setup pos k w d) (xs : List Nat) :
    OverBy pos d xs xs.length :=
  overBy_of_le_length hs.hd (Nat.le_refl _)

/-- A row whose columns separate the elements of the stream makes the sketch exact (`E = 0`). -/
theorem overBy_zero_of_injective_row {pos : Nat → List Nat} {k w d : Nat} (hs : Setup pos k w d)
    (xs : List Nat) (i : Nat) (hi : i < d)
    (hinj : ∀ x ∈ xs, ∀ y ∈ xs, (pos y)[i]? = (pos x)[i]? → y = x) : OverBy pos d xs 0 :=
  overBy_zero_of_inj hs.hpos i hi hinj

/-- `add` never panics — in particular not when collisions inflate the estimate of a first-seen
element (the 1×1 sketch, see the examples). -/
theorem add_total {pos : Nat → List Nat} {k w d cmax : Nat} (hs : Setup pos k w d) (xs : List Nat)
    (hlen : xs.length ≤ cmax) : ∃ s, run pos k w d cmax xs = some s := by
  obtain ⟨s, h, _⟩ := run_inv (cmax := cmax) hs xs hlen (overBy_length hs xs)
  exact ⟨s, h⟩

/-- `tree` and `obj2count` hold the same `(key, count)` pairs, no key twice, and `tree` is strictly
ascending by `(count, key)`. -/
theorem indexes_consistent {pos : Nat → List Nat} {k w d cmax : Nat} (hs : Setup pos k w d)
    {xs : List Nat} (hlen : xs.length ≤ cmax) {s : St} (hr : run pos k w d cmax xs = some s) :
    (∀ n x, (n, x) ∈ s.tree ↔ (x, n) ∈ s.obj2count) ∧
    (s.obj2count.map Prod.fst).Nodup ∧
    s.tree.Pairwise (fun a b => CmsHeap.lt a b = true) ∧ s.k = k :=
  have h := run_inv' hs hlen (overBy_length hs xs) hr
  ⟨h.heap.same, h.heap.nodup, h.heap.sorted, h.k_eq⟩

/-- `iter` yields `min k (#distinct elements seen)` elements (`l` any duplicate-free enumeration of the
elements of the stream), without duplicates, each of which was added. -/
theorem heap_size {pos : Nat → List Nat} {k w d cmax : Nat} (hs : Setup pos k w d)
    {xs : List Nat} (hlen : xs.length ≤ cmax) {s : St} (hr : run pos k w d cmax xs = some s) :
    (∀ l : List Nat, l.Nodup → (∀ x, x ∈ l ↔ x ∈ xs) → (iter s).length = min k l.length) ∧
    (iter s).Nodup ∧ (∀ y ∈ iter s, y ∈ xs) ∧ (iter s).length = s.obj2count.length :=
  have h := (run_inv' hs hlen (overBy_length hs xs) hr).heap
  ⟨iter_length_min h, iter_nodup h,
    fun y hy => by
      obtain ⟨p, hp, rfl⟩ := List.mem_map.1 ((mem_iter_iff h y).1 hy)
      exact h.seen p hp,
    iter_length h⟩

/-- … in particular with Mathlib's `dedup`. -/
theorem heap_size_dedup {pos : Nat → List Nat} {k w d cmax : Nat} (hs : Setup pos k w d)
    {xs : List Nat} (hlen : xs.length ≤ cmax) {s : St} (hr : run pos k w d cmax xs = some s) :
    (iter s).length = min k xs.dedup.length :=
  (heap_size hs hlen hr).1 xs.dedup (List.nodup_dedup xs) (fun _ => List.mem_dedup)

/-- Every held count is between the true count and the true count plus `E`. -/
theorem counts_sandwich {pos : Nat → List Nat} {k w d cmax E : Nat} (hs : Setup pos k w d)
    {xs : List Nat} (hlen : xs.length ≤ cmax) (hE : OverBy pos d xs E) {s : St}
    (hr : run pos k w d cmax xs = some s) (y n : Nat) (hy : (y, n) ∈ s.obj2count) :
    xs.count y ≤ n ∧ n ≤ xs.count y + E :=
  have h := (run_inv' hs hlen hE hr).heap
  ⟨h.lower _ hy, h.upper _ hy⟩

/-
Full statement (false): "the minimum held count never decreases", i.e. without `hfull` below.
Counter-example (second `example` at the end): `k = 2`, stream `[1, 1, 2]` — after `[1, 1]` the
minimum is 2, after the first `2` (room left, inserted with count 1) it is 1.
-/
/-- Once the heap is full (`k` elements held) it stays full and the minimum held count never
decreases: every lower bound `b` of the held counts remains one; in terms of the first tree entry:
`mn.1 ≤ mn'.1`. -/
theorem min_monotone_partial {pos : Nat → List Nat} {k w d cmax : Nat} (hs : Setup pos k w d)
    (xs ys : List Nat) (hlen : (xs ++ ys).length ≤ cmax) {s s' : St}
    (hr : run pos k w d cmax xs = some s) (hr' : run pos k w d cmax (xs ++ ys) = some s')
    (hfull : s.obj2count.length = k) :
    s'.obj2count.length = k ∧
    (∀ b, (∀ p ∈ s.obj2count, b ≤ p.2) → ∀ p ∈ s'.obj2count, b ≤ p.2) ∧
    (∀ mn mn', s.tree.head? = some mn → s'.tree.head? = some mn' → mn.1 ≤ mn'.1) :=
  have h := full_keep hs xs ys hlen hr hr' hfull
  ⟨h.1, h.2, fun _ _ h1 h2 => full_min_le hs xs ys hlen hr hr' hfull h1 h2⟩

/-- A seen element that is not held is justified: the heap holds `k` elements and each of them has
`true y + E ≥ true x`. -/
theorem missing_justified {pos : Nat → List Nat} {k w d cmax E : Nat} (hs : Setup pos k w d)
    {xs : List Nat} (hlen : xs.length ≤ cmax) (hE : OverBy pos d xs E) {s : St}
    (hr : run pos k w d cmax xs = some s) (x : Nat) (hx : x ∈ xs) (hnot : x ∉ iter s) :
    (iter s).length = k ∧ (iter s).Nodup ∧ ∀ y ∈ iter s, xs.count x ≤ xs.count y + E :=
  have h := (run_inv' hs hlen hE hr).heap
  ⟨(missing h hx hnot).1, iter_nodup h, (missing h hx hnot).2⟩

/-- The stronger invariant behind it: an element that is not held has a true count below every held
*count* (hence below the current minimum). -/
theorem absent_le_held {pos : Nat → List Nat} {k w d cmax : Nat} (hs : Setup pos k w d)
    {xs : List Nat} (hlen : xs.length ≤ cmax) {s : St} (hr : run pos k w d cmax xs = some s)
    (x : Nat) (hnot : x ∉ iter s) (y n : Nat) (hy : (y, n) ∈ s.obj2count) : xs.count x ≤ n :=
  have h := (run_inv' hs hlen (overBy_length hs xs) hr).heap
  h.absent x (fun hh => hnot ((mem_iter_iff h x).2 hh)) _ hy

/-- If the sketch never overestimates (`E = 0`), the held counts are the true counts and the held set
is a set of `min k #distinct` elements of maximal true frequency. -/
theorem exact_when_collision_free {pos : Nat → List Nat} {k w d cmax : Nat} (hs : Setup pos k w d)
    {xs : List Nat} (hlen : xs.length ≤ cmax) (hE : OverBy pos d xs 0) {s : St}
    (hr : run pos k w d cmax xs = some s) :
    (∀ y n, (y, n) ∈ s.obj2count → n = xs.count y) ∧
    (∀ x, x ∉ iter s → ∀ y ∈ iter s, xs.count x ≤ xs.count y) ∧
    (iter s).length = min k xs.dedup.length :=
  have h := (run_inv' hs hlen hE hr).heap
  ⟨fun y n hy => (exact_of_overBy_zero h).1 (y, n) hy, (exact_of_overBy_zero h).2,
    heap_size_dedup hs hlen hr⟩

/-! ### Non-vacuity: concrete histories -/

/-- the 1×1 sketch (every element collides): a valid setup; the second, first-seen element gets the
estimate 2 and is nevertheless inserted with count 1 — no panic (the witness of the former
`debug_assert!(count == 1)` defect). -/
example : Setup (fun _ => [0]) 3 1 1 := ⟨fun _ => ⟨rfl, by simp⟩, by decide, by decide, by decide⟩
example : (run (fun _ => [0]) 3 1 1 100 [1, 2]).map (fun s => (s.obj2count, s.tree, s.cms.table)) =
    some ([(1, 1), (2, 1)], [(1, 1), (1, 2)], #[2]) := by decide
/-- `min_monotone` without "full" fails: `k = 2`, the minimum goes from 2 to 1. -/
example : (run (fun x => [x % 8]) 2 8 1 100 [1, 1]).map (·.tree) = some [(2, 1)] ∧
    (run (fun x => [x % 8]) 2 8 1 100 [1, 1, 2]).map (·.tree) = some [(1, 2), (2, 1)] := by decide
/-- overestimation evicts a more frequent element: 1×1 sketch, `k = 1`; `2` enters with the estimate 3
(`true 2 = 1`, `E = 2`) and `1` (`true 1 = 2`) is dropped: `true 2 + E ≥ true 1`. -/
example : (run (fun _ => [0]) 1 1 1 100 [1, 1, 2]).map (fun s => (s.obj2count, s.tree)) =
    some ([(2, 3)], [(3, 2)]) := by decide
/-- two rows, `k = 2`: eviction by estimate, then exact counting of the held elements. -/
example : (run (fun x => [x % 8, x % 3]) 2 8 2 100 [1, 2, 3, 3, 2, 3, 4, 4, 4]).map (fun s => (s.obj2count, s.tree)) =
    some ([(3, 3), (4, 3)], [(3, 3), (3, 4)]) := by decide
example : (run (fun x => [x % 8, x % 3]) 2 8 2 100 [1, 2, 3, 3, 2, 3, 4, 4, 4, 4, 5]).map iter = some [3, 4] := by
  decide
/-- `k = 0` is rejected by `new`. -/
example : run (fun x => [x % 8]) 0 8 1 100 [] = none := by decide

end Pds.Props.C10
