import Pds.Proofs.ReservoirUniform
import Pds.Proofs.ReservoirReal
import Pds.Proofs.ReservoirBias
/-!
# C05 — reservoir sampling is exactly uniform (counting identities)

Model: `Pds.Reservoir` (`src/reservoirsampling.rs`).  Probabilities are stated as counting
identities over the finite list of equally likely RNG outcomes, and the reservoir for a given
outcome is computed by the model's own `add`, driven by the replay generator `replay`
(state = pending gap outcomes × pending slot outcomes; `below n` pops a slot outcome, `gap` pops a
gap outcome, an exhausted list answers 0 and consumes nothing).

* `runPlain k n js` — reservoir after the positions `0 … n-1` with plain-phase slot draws `js`;
* `allChoices k n` — all draw sequences `(j_k, …, j_{n-1})` with `j_i ∈ {0, …, i}`;
* `runSwitch k js g j`, `switchSpace k gs` — the same for `n = 4k+1`, with first gap outcome `g`
  and slot outcome `j` of the first skipping-phase item.
-/
namespace Pds.Props.C05
open Pds.Reservoir

/-! ### what is being counted -/

/-- `runPlain` is the model's `run` on the replay generator without gap outcomes. -/
theorem runPlain_def (k n : Nat) (js : List Nat) :
    runPlain k n js = ((run replay k ([], js) n).map (·.res)).getD #[] := rfl

/-- `runSwitch` likewise, one gap outcome `g`, slot outcomes `js ++ [j]`, `4k+1` positions. -/
theorem runSwitch_def (k : Nat) (js : List Nat) (g j : Nat) :
    runSwitch k js g j = ((run replay k ([g], js ++ [j]) (4 * k + 1)).map (·.res)).getD #[] := rfl

/-- The replay generator satisfies the RNG law of C18, so every C18 theorem applies to it. -/
theorem replay_is_lawful : Lawful replay := replay_lawful

/-- The sample space: `js ∈ allChoices k n` iff it has one draw per plain-phase item `i = k + t`
and that draw is in `{0, …, i}` (what `gen_range(0..=i)` can return). -/
theorem allChoices_spec {k n : Nat} {js : List Nat} :
    js ∈ allChoices k n ↔ js.length = n - k ∧ ∀ t (h : t < js.length), js[t] ≤ k + t :=
  mem_allChoices

/-- Every draw sequence is listed once, so `countP` counts outcomes, not repetitions. -/
theorem allChoices_distinct (k n : Nat) : (allChoices k n).Nodup := allChoices_nodup k n

/-- `|allChoices k (n+1)| = (n+1) · |allChoices k n|` for `n ≥ k`, and `|allChoices k k| = 1`. -/
theorem allChoices_card {k n : Nat} (h : k ≤ n) :
    (allChoices k k).length = 1 ∧
      (allChoices k (n + 1)).length = (n + 1) * (allChoices k n).length :=
  ⟨by rw [allChoices_le (Nat.le_refl k)]; rfl, length_allChoices_succ h⟩

/-- The replayed run, exactly: after `n ∈ [k, 4k]` positions with draws `js` the model's state is
`⟨k, runPlain k n js, n, skipUntil, rng⟩`, whatever gap outcomes `gs` and surplus slot outcomes `t`
are pending.  In particular the gap drawn (before the slot) while adding item `4k-1` influences
`skipUntil` only, not the reservoir. -/
theorem gap_irrelevant {k : Nat} (hk : 0 < k) {n : Nat} (h1 : k ≤ n) (h2 : n ≤ 4 * k)
    {js : List Nat} (hjs : js ∈ allChoices k n) (gs t : List Nat) :
    run replay k (gs, js ++ t) n =
      some ⟨k, runPlain k n js, n, if n = 4 * k then 4 * k + gs.headD 0 else 0,
        (if n = 4 * k then gs.tail else gs, t)⟩ :=
  run_replay hk h1 h2 hjs gs t

/-- One plain step: draw `j` at item `n` overwrites slot `j` iff `j < k`. -/
theorem plain_step {k : Nat} (hk : 0 < k) {n : Nat} (h1 : k ≤ n) (h2 : n < 4 * k)
    {js : List Nat} (hjs : js ∈ allChoices k n) {j : Nat} (hj : j ≤ n) :
    runPlain k (n + 1) (js ++ [j]) =
      if j < k then (runPlain k n js).setIfInBounds j n else runPlain k n js :=
  runPlain_succ hk h1 h2 hjs (by omega)

/-! ### uniformity -/

/-- **Plain phase.**  For `k ≤ n ≤ 4k` and every position `p < n`: among all equally likely draw
sequences, `p` is in the reservoir in exactly the fraction `k / n` of them. -/
theorem plain_phase_uniform {k : Nat} (hk : 0 < k) {n : Nat} (h1 : k ≤ n) (h2 : n ≤ 4 * k)
    {p : Nat} (hp : p < n) :
    n * (allChoices k n).countP (fun js => decide (p ∈ runPlain k n js)) =
      k * (allChoices k n).length :=
  plain_count hk n h1 h2 p hp

/-- The first item of the skipping phase (index `4k`) is accepted iff the gap drawn at the end of
the plain phase is 0; an accepted item overwrites slot `j`. -/
theorem switch_step {k : Nat} (hk : 0 < k) {js : List Nat} (hjs : js ∈ allChoices k (4 * k))
    (g : Nat) {j : Nat} (hj : j < k) :
    runSwitch k js g j =
      if g = 0 then (runPlain k (4 * k) js).setIfInBounds j (4 * k) else runPlain k (4 * k) js :=
  runSwitch_eq hk hjs g hj

/-- **Switch to skipping.**  If the gap outcomes `gs` are equally likely and exactly the fraction
`k / (4k+1)` of them is 0 (`|gs| = 4k+1`, `k` zeros), and the slot is uniform on `range k`, then
after `4k+1` items every position `p ≤ 4k` is in the reservoir with probability exactly
`k / (4k+1)`. -/
theorem switch_uniform {k : Nat} (hk : 0 < k) {gs : List Nat} (hlen : gs.length = 4 * k + 1)
    (hzero : gs.count 0 = k) {p : Nat} (hp : p < 4 * k + 1) :
    (4 * k + 1) *
        (switchSpace k gs).countP (fun x => decide (p ∈ runSwitch k x.1 x.2.1 x.2.2)) =
      k * (switchSpace k gs).length :=
  switch_count hk gs hlen hzero p hp

/-- `switchSpace` is the plain product of the three outcome lists. -/
theorem switchSpace_def (k : Nat) (gs : List Nat) :
    switchSpace k gs =
      (allChoices k (4 * k)).flatMap fun js =>
        gs.flatMap fun g => (List.range k).map fun j => (js, g, j) := rfl

/-! ### skipping phase -/

/-- `Accepts s`: the sampler is in the skipping phase and will overwrite a slot on the next item. -/
theorem accepts_def {R : Type} (s : St R) :
    Accepts s ↔ phaseEnd s.k ≤ s.i ∧ s.skipUntil ≤ s.i := Iff.rfl

/-- **Skip semantics** (any lawful RNG).  If item `i = s.i` of the skipping phase is accepted and
the gap drawn is `g`, then `x` enters the reservoir, the next `g` items (indices `i+1 … i+g`)
change nothing but the counter, and the next accepted index is exactly `i + 1 + g`
(`Accepts` after `m` further items iff `m ≥ g`). -/
theorem skip_semantics {R : Type} {I : RngI R} (hI : Lawful I) (s : St R) (x : Nat) (hk : 0 < s.k)
    (hsz : s.res.size = s.k) (h : Accepts s) :
    ∃ s', add I s x = some s' ∧ s'.k = s.k ∧ s'.i = s.i + 1 ∧
      s'.skipUntil = s.i + 1 + (I.gap s.k (s.i + 1) s.rng).1 ∧
      x ∈ s'.res ∧ s'.res.size = s.k ∧
      (∀ xs : List Nat, xs.length ≤ (I.gap s.k (s.i + 1) s.rng).1 →
        feed I s' xs = some { s' with i := s'.i + xs.length }) ∧
      (∀ m, Accepts { s' with i := s'.i + m } ↔ (I.gap s.k (s.i + 1) s.rng).1 ≤ m) :=
  accept_then_skip hI s x hk hsz h

/-- A non-accepting state of the skipping phase ignores its item. -/
theorem skip_step {R : Type} (I : RngI R) (s : St R) (x : Nat) (h1 : phaseEnd s.k ≤ s.i)
    (h2 : s.i < s.skipUntil) : add I s x = some { s with i := s.i + 1 } :=
  add_skip I s x (by have := phaseEnd_eq s.k; omega) h1 h2

/-! ### the gap formula is geometric (over `ℝ`) -/

/-- `⌊ln u / ln(1-p)⌋ ≥ s ↔ u ≤ (1-p)^s`: for uniform `u ∈ (0,1]` the gap is geometric,
`P(gap ≥ s) = (1-p)^s`. -/
theorem gap_geometric_law {u p : ℝ} (hu : 0 < u ∧ u ≤ 1) (hp : 0 < p ∧ p < 1) (s : ℕ) :
    s ≤ ⌊Real.log u / Real.log (1 - p)⌋.toNat ↔ u ≤ (1 - p) ^ s :=
  gap_toNat_ge_iff_real hu.1 hu.2 hp.1 hp.2 s

/-- `gap = 0 ↔ u > 1 - p`, an event of probability `p` (`= k/(seen+1)`, the acceptance
probability of the next item; `k/(4k+1)` at the switch, as `switch_uniform` assumes). -/
theorem gap_zero_prob {u p : ℝ} (hu : 0 < u ∧ u ≤ 1) (hp : 0 < p ∧ p < 1) :
    ⌊Real.log u / Real.log (1 - p)⌋ = 0 ↔ 1 - p < u :=
  gap_zero_iff_real hu.1 hu.2 hp.1 hp.2

/-- **The sign of the gap-sampling bias.**  Exact reservoir sampling skips the items `j, …, j+s−1` with
probability `∏_{t<s} (1 − k/(j+t))`; the code's geometric gap, with the first acceptance probability
frozen, has `P(gap ≥ s) = (1 − k/j)^s` (`gap_geometric_law`).  The frozen law never overestimates a gap —
so, relative to exact sampling, the next acceptance comes stochastically earlier (recent items over-, early
items under-represented: the documented approximation) — and the two laws coincide for `s ≤ 1`, which is
why the first gap (the switch at `4k + 1`) is exact. -/
theorem gap_bias_direction {k j : ℕ} (hk : 0 < k) (hkj : k ≤ j) (s : ℕ) :
    (1 - (k : ℝ) / j) ^ s ≤ ∏ t ∈ Finset.range s, (1 - (k : ℝ) / ((j + t : ℕ) : ℝ)) :=
  frozen_gap_survival_le hk hkj s

theorem gap_first_step_exact (k j : ℕ) :
    (1 - (k : ℝ) / j) ^ 1 = ∏ t ∈ Finset.range 1, (1 - (k : ℝ) / ((j + t : ℕ) : ℝ)) :=
  frozen_gap_survival_one k j

/-! ### non-vacuity -/

example : allChoices 1 3 = [[0, 0], [0, 1], [0, 2], [1, 0], [1, 1], [1, 2]] := by decide
example : (allChoices 1 3).map (runPlain 1 3) = [#[2], #[1], #[1], #[2], #[0], #[0]] := by decide
example : (allChoices 2 4).length = 12 ∧ runPlain 2 4 [1, 3] = #[0, 2] ∧
    runPlain 2 4 [2, 0] = #[3, 1] := by decide
-- k = 2, n = 4: every position is in 6 of the 12 outcomes (4 · 6 = 2 · 12)
example : (List.range 4).map (fun p =>
    (allChoices 2 4).countP fun js => decide (p ∈ runPlain 2 4 js)) = [6, 6, 6, 6] := by
  decide +kernel
-- k = 1, n = 5 with gap outcomes [0,1,2,3,7]: every position in 24 of 120 outcomes (5 · 24 = 120)
example : (switchSpace 1 [0, 1, 2, 3, 7]).length = 120 ∧
    runSwitch 1 [0, 1, 2] 0 0 = #[4] ∧ runSwitch 1 [0, 1, 2] 3 0 = #[1] := by decide +kernel
example : (List.range 5).map (fun p => (switchSpace 1 [0, 1, 2, 3, 7]).countP
    fun x => decide (p ∈ runSwitch 1 x.1 x.2.1 x.2.2)) = [24, 24, 24, 24, 24] := by decide +kernel
-- a biased gap (2 zeros out of 5) is *not* uniform: the hypothesis `gs.count 0 = k` matters
example : (List.range 5).map (fun p => (switchSpace 1 [0, 0, 2, 3, 7]).countP
    fun x => decide (p ∈ runSwitch 1 x.1 x.2.1 x.2.2)) = [18, 18, 18, 18, 48] := by decide +kernel
-- an accepting state: k = 1, item 4 accepted with gap 2 ⇒ items 5, 6 skipped, item 7 accepted
example : (run replay 1 ([0, 2, 1], [0, 0, 0, 0, 0]) 5).map (fun s => (s.res, s.i, s.skipUntil)) =
    some (#[4], 5, 7) := by decide
example : (run replay 1 ([0, 2, 1], [0, 0, 0, 0, 0]) 7).map (fun s => (s.res, s.i, s.skipUntil)) =
    some (#[4], 7, 7) := by decide
example : (run replay 1 ([0, 2, 1], [0, 0, 0, 0, 0]) 8).map (fun s => (s.res, s.i, s.skipUntil)) =
    some (#[7], 8, 9) := by decide

end Pds.Props.C05
