import Pds.Proofs.QuotientFinal
import Pds.Proofs.QuotientCanon4
/-!
# C13 — the quotient filter is an exact set of (quotient, remainder) pairs

Model: `Pds.Quotient` (`src/filters/quotientfilter.rs`).  `N` is the number of slots (`2^q` in the
real filter; sections 1–3, 5, 6 hold for every `N > 0`).  `none` results of the model stand for
panics / non-termination of the Rust code.

`Rep t S` says: the table `t` satisfies the representation invariant (`LInv t z qt`: relative to
some reference slot `z` whose `shift` bit is clear, with a ghost function `qt` giving the quotient
of the element in each slot — elements sit at or after their canonical slot, no gaps, quotients
non-decreasing, `shift`/`cont`/`occ` bits as determined by the ghost, remainders strictly
increasing inside a run), stores exactly the pairs of the finite set `S`, and `t.n = |S|`.
All statements are fully general (no `_partial` fallbacks were needed).
-/
namespace Pds.Props.C13
open Pds.Quotient

variable {N : Nat}

/-! ## 1. `scan` / `query` -/

/-- `scan` (with either value of `on_insert`) terminates within its fuel on every well-formed
table and reports `present` exactly for the stored pairs. -/
theorem scan_correct {t : St N} {S : Finset (Fin N × Nat)} (hr : Rep t S) (a : Fin N) (r : Nat)
    (onInsert : Bool) :
    ∃ sr, scan t a r onInsert = some sr ∧ (sr.present = true ↔ (a, r) ∈ S) :=
  rep_scan hr a r onInsert

/-- The position returned by `scan … true` for an absent pair is the correct insertion point.
Stated in the linear coordinates of the proof: `z` is the start of the cluster containing the
quotient slot `ka` (`ClusterCtx`); then `position = z + kp`, every slot before `kp` holds a
lexicographically smaller (quotient, remainder), the slot at `kp` (if used) a larger one, and
`start_of_run` is the first slot `ks ≤ kp` of the run of `ka` iff that run exists (`InsPoint`). -/
theorem scan_insertion_point {t : St N} {z : Fin N} {qt : Nat → Nat} {ka : Nat}
    (c : ClusterCtx t z qt ka) (r : Nat) :
    ∃ sr, scan t (pos z ka) r true = some sr ∧ (sr.present = true ↔ Abs t z qt (pos z ka) r) ∧
      (sr.present = false → ∃ kp ks, InsPoint t z qt ka r sr kp ks) :=
  (scan_spec c r true).imp fun _ h => ⟨h.1, h.2.1, h.2.2 rfl⟩

/-- Every well-formed table can be put into the form required by `scan_insertion_point`
(the reference slot can be moved to the start of the cluster of any given quotient `a`, which is
what `walkBack` finds) without changing the stored set. -/
theorem cluster_start_exists {t : St N} {z : Fin N} {qt : Nat → Nat} (h : LInv t z qt) (a : Fin N) :
    ∃ z' qt' ka, ClusterCtx t z' qt' ka ∧ a = pos z' ka ∧
      ∀ a r, Abs t z' qt' a r ↔ Abs t z qt a r :=
  to_cluster h a

/-! ## 2. `insertInternal` -/

/-- The empty table is well formed and represents `∅`. -/
theorem empty_rep (hN : 0 < N) : Rep (empty N) ∅ := rep_empty hN

/-- The element counter is the cardinality of the represented set, which is at most `N`. -/
theorem count_eq_card {t : St N} {S : Finset (Fin N × Nat)} (hr : Rep t S) :
    t.n = S.card ∧ S.card ≤ N := ⟨hr.2, rep_card_le hr⟩

/-- Inserting a stored pair: `Ok(false)`, state unchanged. -/
theorem insert_known {t : St N} {S : Finset (Fin N × Nat)} (hr : Rep t S) {a : Fin N} {r : Nat}
    (hmem : (a, r) ∈ S) : insertInternal t a r = some (t, .ok false) :=
  Pds.Quotient.insert_known hr.1 hmem

/-- Inserting a new pair into a full table: `Err(QuotientFilterFull)`, state unchanged. -/
theorem insert_full {t : St N} {S : Finset (Fin N × Nat)} (hr : Rep t S) {a : Fin N} {r : Nat}
    (hmem : (a, r) ∉ S) (hn : t.n = N) : insertInternal t a r = some (t, .full) :=
  Pds.Quotient.insert_full hr.1 hmem hn

/-- Inserting a new pair into a non-full table: `Ok(true)`; the new table is well formed,
represents `S ∪ {(a, r)}`, its counter grew by one, and the new remainder sits exactly at the
position that `scan … true` returned.  In particular the "infinite loop detected" panic and
fuel exhaustion are unreachable. -/
theorem insert_fresh {t : St N} {S : Finset (Fin N × Nat)} (hr : Rep t S) {a : Fin N} {r : Nat}
    (hmem : (a, r) ∉ S) (hn : t.n < N) :
    ∃ t', insertInternal t a r = some (t', .ok true) ∧ Rep t' (Insert.insert (a, r) S) ∧
      t'.n = t.n + 1 ∧
      ∃ sr, scan t a r true = some sr ∧ (t'.get sr.position).rem = r :=
  rep_insert_fresh hr hmem hn

/-- The three cases are exhaustive (`t.n ≤ N` always) and are summarised by `specStep`. -/
theorem insert_refines_specStep {t : St N} {S : Finset (Fin N × Nat)} (hr : Rep t S)
    (x : Fin N × Nat) :
    ∃ t', insertInternal t x.1 x.2 = some (t', (specStep S x).2) ∧ Rep t' (specStep S x).1 :=
  rep_insert hr x

/-! ## 3. Refinement of whole histories (property C13) -/

/-- For every history of inserts the run from the empty table never panics or diverges; the
results are those of the set specification `specFrom ∅`, and the final table represents the
specification's final set. -/
theorem history_refines (hN : 0 < N) (h : List (Fin N × Nat)) :
    ∃ t, runFrom (empty N) h = some (t, (specFrom ∅ h).2) ∧ Rep t (specFrom ∅ h).1 :=
  rep_history hN h

/-- After any history, `query` reports `(a', r')` present iff some earlier insert of that pair
returned `Ok(true)`; and the counter is the number of distinct stored pairs. -/
theorem history_query (hN : 0 < N) (h : List (Fin N × Nat)) (a' : Fin N) (r' : Nat) :
    ∃ t rs sr, runFrom (empty N) h = some (t, rs) ∧ scan t a' r' false = some sr ∧
      t.n = (specFrom ∅ h).1.card ∧
      (sr.present = true ↔ ∃ pre post, h = pre ++ (a', r') :: post ∧
        (specStep (specFrom (∅ : Finset (Fin N × Nat)) pre).1 (a', r')).2 = .ok true) :=
  rep_history_query hN h a' r'

/-- The result of each single insert of a history, in terms of the set `S` stored just before it:
`Ok(false)` iff the pair is known, `Err(Full)` iff it is new and `|S| = N`, `Ok(true)` iff it is
new and `|S| ≠ N` (i.e. `< N`); the set grows exactly on `Ok(true)`. -/
theorem history_results (S : Finset (Fin N × Nat)) (x : Fin N × Nat) :
    ((specStep S x).2 = .ok false ↔ x ∈ S) ∧
    ((specStep S x).2 = .full ↔ (x ∉ S ∧ S.card = N)) ∧
    ((specStep S x).2 = .ok true ↔ (x ∉ S ∧ S.card ≠ N)) ∧
    ((specStep S x).1 = if (specStep S x).2 = .ok true then Insert.insert x S else S) :=
  ⟨specStep_ok_false_iff S x, specStep_full_iff S x, specStep_ok_true_iff S x, specStep_set_eq S x⟩

/-- The result list of `h₁ ++ h₂` is the result list of `h₁` followed by that of `h₂` run from the
set reached after `h₁` (so `history_results` describes every individual insert). -/
theorem history_results_append (S : Finset (Fin N × Nat)) (h1 h2 : List (Fin N × Nat)) :
    specFrom S (h1 ++ h2) =
      ((specFrom (specFrom S h1).1 h2).1, (specFrom S h1).2 ++ (specFrom (specFrom S h1).1 h2).2) :=
  specFrom_append S h1 h2

/-- If the distinct pairs of the history fit into the table, no insert is rejected and the
filter holds exactly the inserted pairs: `query` is true iff the pair was inserted. -/
theorem history_fits (hN : 0 < N) (h : List (Fin N × Nat)) (hfit : h.toFinset.card ≤ N)
    (a' : Fin N) (r' : Nat) :
    ∃ t rs sr, runFrom (empty N) h = some (t, rs) ∧ (∀ res ∈ rs, res ≠ .full) ∧
      t.n = h.toFinset.card ∧ scan t a' r' false = some sr ∧
      (sr.present = true ↔ (a', r') ∈ h) :=
  rep_history_fits hN h hfit a' r'

/-! ## 4. Index arithmetic and the public `insert` / `query` -/

/-- `calc_quotient_remainder`: for valid parameters and a 64-bit hash the quotient is bits
`r … q+r-1` of the hash and the remainder bits `0 … r-1`; both are in range. -/
theorem calcQR_spec {q r fp : Nat} (hp : paramsOk q r = true) (hfp : fp < 2 ^ 64) :
    calcQR q r fp = ((fp % 2 ^ (q + r)) / 2 ^ r, fp % 2 ^ r) ∧
      (fp % 2 ^ (q + r)) / 2 ^ r < 2 ^ q ∧ fp % 2 ^ r < 2 ^ r :=
  ⟨calcQR_eq hp hfp, quo_lt q r fp, rem_lt r fp⟩

/-- The public `insert` never reaches its `else none` branch (index out of bounds) and is
`insert_internal` on `key q r fp = (bits r…q+r-1, bits 0…r-1)`; on a well-formed table it
behaves like the set specification. -/
theorem public_insert {q r fp : Nat} (hp : paramsOk q r = true) (hfp : fp < 2 ^ 64)
    {t : St (2 ^ q)} {S : Finset (Fin (2 ^ q) × Nat)} (hr : Rep t S) :
    ∃ t', insert q r t fp = some (t', (specStep S (key q r fp)).2) ∧
      Rep t' (specStep S (key q r fp)).1 :=
  insert_eq hp hfp t ▸ rep_insert hr (key q r fp)

/-- The public `query` never panics and answers membership of `key q r fp`. -/
theorem public_query {q r fp : Nat} (hp : paramsOk q r = true) (hfp : fp < 2 ^ 64)
    {t : St (2 ^ q)} {S : Finset (Fin (2 ^ q) × Nat)} (hr : Rep t S) :
    query q r t fp = some (decide (key q r fp ∈ S)) :=
  rep_query hp hfp hr

/-- Whole histories of hashes through the public `insert`: never `none`, results and final set
as in the specification run on the keys. -/
theorem public_history {q r : Nat} (hp : paramsOk q r = true) (fps : List Nat)
    (hfps : ∀ fp ∈ fps, fp < 2 ^ 64) :
    ∃ t, runPub q r (empty (2 ^ q)) fps = some (t, (specFrom ∅ (fps.map (key q r))).2) ∧
      Rep t (specFrom ∅ (fps.map (key q r))).1 :=
  runPub_eq hp fps hfps _ ▸ rep_history (Nat.two_pow_pos q) _

/-- Two hashes are indistinguishable — a filter that holds only the first reports the second —
iff they agree modulo `2^(q+r)`. -/
theorem indistinguishable_iff {q r fp1 fp2 : Nat} (hp : paramsOk q r = true)
    (h1 : fp1 < 2 ^ 64) (h2 : fp2 < 2 ^ 64) :
    ∃ t, insert q r (empty (2 ^ q)) fp1 = some (t, .ok true) ∧
      query q r t fp2 = some (decide (fp1 % 2 ^ (q + r) = fp2 % 2 ^ (q + r))) :=
  indistinguishable hp h1 h2

/-- … which is the same as having the same (quotient, remainder) key. -/
theorem key_eq_iff_mod (q r fp1 fp2 : Nat) :
    key q r fp1 = key q r fp2 ↔ fp1 % 2 ^ (q + r) = fp2 % 2 ^ (q + r) :=
  key_eq_iff q r fp1 fp2

/-! ## 5. `union` -/

/-- `union` never panics on well-formed tables.  It either reports `Full` leaving `self`
untouched — and then the union really does not fit, `|S ∪ So| > N` — or it succeeds and then
represents the union of the two sets, with the right counter. -/
theorem union_correct {t o : St N} {S So : Finset (Fin N × Nat)} (hr : Rep t S) (ho : Rep o So) :
    (union t o = some (t, .full) ∧ N < (S ∪ So).card) ∨
      ∃ t', union t o = some (t', .ok true) ∧ Rep t' (S ∪ So) ∧ t'.n = (S ∪ So).card ∧
        (S ∪ So).card ≤ N :=
  rep_union hr ho

/-- `union` fails with `Full` exactly when the union of the two sets has more than `N` pairs. -/
theorem union_full_iff {t o : St N} {S So : Finset (Fin N × Nat)} (hr : Rep t S) (ho : Rep o So) :
    (∃ t', union t o = some (t', .full)) ↔ N < (S ∪ So).card :=
  rep_union_full_iff hr ho

/-- On `Full` the complete backup is restored (no invariant needed). -/
theorem union_full_restores (t o t' : St N) (h : union t o = some (t', .full)) : t' = t :=
  union_full_eq t o t' h

/-! ## 6. Counting -/

/-- Exactly `t.n` of the `N × R` pairs `(a, x)`, `x < R`, are reported present, provided all
stored remainders are below `R` (`R = 2^r` in the real filter). -/
theorem count_present {t : St N} {S : Finset (Fin N × Nat)} (hr : Rep t S) (R : Nat)
    (hR : ∀ p ∈ S, p.2 < R) :
    ((Finset.univ ×ˢ Finset.range R).filter
      (fun p : Fin N × Nat => present t p.1 p.2 = true)).card = t.n :=
  Pds.Quotient.count_present hr R hR

/-- Remainders produced by the public interface are always below `2^r`, so the hypothesis of
`count_present` holds for every table built through `insert`. -/
theorem public_remainders_small {q r : Nat} (fps : List Nat) :
    ∀ p ∈ (specFrom (∅ : Finset (Fin (2 ^ q) × Nat)) (fps.map (key q r))).1, p.2 < 2 ^ r :=
  remainders_small fps

/-! ## Non-vacuity (all checked by kernel evaluation, independently of the theorems above) -/

/-- inserting quotients 6, 6, 7, 7, 0, 6, 3 into 8 slots: one cluster of four runs that wraps
around the end of the array (slot 6 … slot 4) -/
def hist8 : List (Fin 8 × Nat) := [(6, 5), (6, 2), (7, 4), (7, 1), (0, 9), (6, 7), (3, 3)]

def t8 : St 8 := ⟨#v[⟨true, true, true, 7⟩, ⟨false, false, true, 1⟩, ⟨false, true, true, 4⟩,
  ⟨true, false, true, 9⟩, ⟨false, false, true, 3⟩, ⟨false, false, false, 0⟩,
  ⟨true, false, false, 2⟩, ⟨true, true, true, 5⟩], 7⟩

/-- ghost quotients relative to reference slot 6: slots 6,7,0 hold quotient 6 (index 0),
slots 1,2 quotient 7 (index 1), slot 3 quotient 0 (index 2), slot 4 quotient 3 (index 5) -/
def qt8 (k : Nat) : Nat := [0, 0, 0, 1, 1, 2, 5, 7].getD k 0

/-- the model really produces that table … -/
example : runFrom (empty 8) hist8 = some (t8, List.replicate 7 (.ok true)) := by decide +kernel

/-- … which satisfies the invariant with the explicit ghost … -/
example : LInv t8 6 qt8 where
  z0 := by decide
  le := by decide
  chain := forall_succ_lt (by decide)
  shift := by decide
  cont0 := by decide
  cont := forall_succ_lt (by decide)
  occ := by decide
  sorted := forall_succ_lt (by decide)
  emp := by decide

/-- … and stores e.g. the wrapped element `(6, 7)` (in slot 0) but not `(0, 7)`. -/
example : Abs t8 6 qt8 6 7 ∧ ¬ Abs t8 6 qt8 0 7 :=
  ⟨⟨2, by decide, by decide, by decide, by decide⟩, by unfold Abs; decide⟩

/-- the hypotheses of `scan_insertion_point` are satisfiable on that table: relative to slot 6,
the quotient slot 0 (index 2) lies in the cluster starting at 6 -/
example : ClusterCtx t8 6 qt8 2 :=
  ⟨⟨by decide, by decide, forall_succ_lt (by decide), by decide, by decide,
    forall_succ_lt (by decide), by decide, forall_succ_lt (by decide), by decide⟩, by decide,
    fun k h1 h2 => (by decide : ∀ k, k < 3 → 0 < k → (t8.at 6 k).shift = true) k (by omega) h1⟩

/-- `union` on that table (a wrapped cluster with four runs, so the FIFO queue of pending
quotients is exercised): merging it into the empty table reproduces it exactly. -/
example : union (empty 8) t8 = some (t8, .ok true) := by decide +kernel

def t2 : St 8 := ⟨#v[{}, ⟨true, false, false, 1⟩, ⟨true, false, false, 2⟩, {}, {}, {}, {}, {}], 2⟩

/-- … and merging it into a table that already holds two other pairs overflows the 8 slots. -/
example : runFrom (empty 8) [(1, 1), (2, 2)] = some (t2, [.ok true, .ok true]) ∧
    union t2 t8 = some (t2, .full) := ⟨by decide +kernel, by decide +kernel⟩

/-- public level: `q = 3`, `r = 4`; the hash of the doc comment's "foo" maps to quotient 2,
remainder 5, and is indistinguishable from any hash with the same low 7 bits -/
example : key 3 4 0x0123456789abcda5 = (2, 5) ∧ key 3 4 0xffff000000000025 = (2, 5) := by
  decide +kernel

/-! ## 7. Canonicity: the table is a function of the stored set

`Rep` does not constrain the `rem` field of *unused* slots (`rep_not_unique` below), so uniqueness
is stated (a) up to that field for `Rep`, and (b) exactly for `RepC t S := Rep t S ∧ Clean t`,
where `Clean t` says that unused slots still hold remainder 0.  `Clean` holds for `empty` and is
preserved by `insertInternal` and `union` (they only write to slots that end up used), so `RepC`
holds for every reachable table. -/

/-- (a) Two well-formed tables representing the same set have the same counter and agree in every
slot on all three bits and, for used slots, on the remainder (`SlotAgree`). -/
theorem rep_unique_upto {t t' : St N} {S : Finset (Fin N × Nat)} (hr : Rep t S) (hr' : Rep t' S) :
    t.n = t'.n ∧ ∀ p, SlotAgree (t.get p) (t'.get p) :=
  rep_agree hr hr'

/-- (b) `rep_unique`: clean tables representing the same set are equal — slot vector and `n`. -/
theorem rep_unique {t t' : St N} {S : Finset (Fin N × Nat)} (h : RepC t S) (h' : RepC t' S) :
    t = t' :=
  repC_unique h h'

/-- The literal statement `Rep t S → Rep t' S → t = t'` is false: a never-used slot may hold any
remainder.  Counterexample with `N = 2`, `S = ∅`. -/
theorem rep_not_unique : Rep dirtyEmpty ∅ ∧ Rep (empty 2) ∅ ∧ dirtyEmpty ≠ empty 2 :=
  ⟨dirtyEmpty_rep, rep_empty (by decide), by decide⟩

/-- `RepC` is what the operations maintain: it holds for `empty` … -/
theorem repC_empty (hN : 0 < N) : RepC (empty N) ∅ := Pds.Quotient.repC_empty hN

/-- … is preserved by every `insertInternal` (whatever its result) … -/
theorem repC_insert {t : St N} {S : Finset (Fin N × Nat)} (hr : RepC t S) (x : Fin N × Nat) :
    ∃ t', insertInternal t x.1 x.2 = some (t', (specStep S x).2) ∧ RepC t' (specStep S x).1 :=
  Pds.Quotient.repC_insert hr x

/-- … hence by whole histories … -/
theorem repC_history (hN : 0 < N) (h : List (Fin N × Nat)) :
    ∃ t, runFrom (empty N) h = some (t, (specFrom ∅ h).2) ∧ RepC t (specFrom ∅ h).1 :=
  repC_run (Pds.Quotient.repC_empty hN) h

/-- … and by `union`. -/
theorem repC_union {t o : St N} {S So : Finset (Fin N × Nat)} (hr : RepC t S) (ho : RepC o So) :
    (union t o = some (t, .full) ∧ N < (S ∪ So).card) ∨
      ∃ t', union t o = some (t', .ok true) ∧ RepC t' (S ∪ So) :=
  Pds.Quotient.repC_union hr ho

/-- Insertion order (and repetition) does not matter: two histories with the same set of pairs
that fits into the table produce the same final table. -/
theorem insertion_order_irrelevant (hN : 0 < N) {h h' : List (Fin N × Nat)}
    (hset : ∀ x, x ∈ h ↔ x ∈ h') (hfit : h.toFinset.card ≤ N) :
    ∃ t rs rs', runFrom (empty N) h = some (t, rs) ∧ runFrom (empty N) h' = some (t, rs') :=
  run_order_irrelevant hN hset hfit

/-- In particular for permutations. -/
theorem insertion_perm (hN : 0 < N) {h h' : List (Fin N × Nat)} (hp : h.Perm h')
    (hfit : h.toFinset.card ≤ N) :
    ∃ t rs rs', runFrom (empty N) h = some (t, rs) ∧ runFrom (empty N) h' = some (t, rs') :=
  run_order_irrelevant hN (fun _ => hp.mem_iff) hfit

/-- `union` is commutative on tables: when both directions succeed the results are equal. -/
theorem union_comm {t o t1 t2 : St N} {S So : Finset (Fin N × Nat)} (hr : RepC t S)
    (ho : RepC o So) (h1 : union t o = some (t1, .ok true)) (h2 : union o t = some (t2, .ok true)) :
    t1 = t2 :=
  union_comm_state hr ho h1 h2

/-- `union t t` succeeds and leaves `t` unchanged. -/
theorem union_self {t : St N} {S : Finset (Fin N × Nat)} (hr : RepC t S) :
    union t t = some (t, .ok true) :=
  union_self_state hr

/-- `union (union t o) o = union t o`: merging `o` a second time is a no-op. -/
theorem union_idem {t o t1 : St N} {S So : Finset (Fin N × Nat)} (hr : RepC t S) (ho : RepC o So)
    (h1 : union t o = some (t1, .ok true)) : union t1 o = some (t1, .ok true) :=
  union_idem_state hr ho h1

/-- non-vacuity: the wrapped four-run table `t8` is clean (and `Rep`/`RepC` hold for it by
`repC_history`, since it is `runFrom (empty 8) hist8`) -/
example : Clean t8 := by unfold Clean; decide

end Pds.Props.C13
