/-
Model of `HyperLogLog::count` (src/hyperloglog/mod.rs: `am`, `neighbor_search_startpoints`,
`estimate_bias`, `linear_counting`, `threshold`, `count`) over the tables regenerated from
src/hyperloglog/data.rs.  Every table access is `Option`-valued: `none` = the real code would
panic (index out of bounds / `unwrap` on a NaN comparison / "neighborhood search failed").
-/
import Pds.Model.Hll
import Pds.Generated.Consts
import Pds.Generated.HllData

namespace Pds.HllCount
open Pds.Generated

def rawF : Array (Array Float) := rawBits.map (·.map Float.ofBits)
def biasF : Array (Array Float) := biasBits.map (·.map Float.ofBits)
def pow2F : Array Float := pow2minxBits.map Float.ofBits

def am (m : Nat) : Float :=
  if m ≥ amCut0 then Float.ofBits am0Bits / (1 + Float.ofBits am1Bits / Float.ofNat m)
  else if m ≥ amCut1 then Float.ofBits am2Bits
  else if m ≥ amCut2 then Float.ofBits am3Bits
  else Float.ofBits am4Bits

inductive Cmp | lt | eq | gt deriving BEq, DecidableEq

/-- `v.partial_cmp(&e)`; `none` for unordered (the `unwrap` panics). -/
def cmpF (v e : Float) : Option Cmp :=
  if v < e then some .lt else if v > e then some .gt else if v == e then some .eq else none

/-- The `while size > 1` loop of `slice::binary_search_by` (Rust ≥ 1.82). Returns the final `base`. -/
def bsLoop (cmpF : Float → Float → Option Cmp) (a : Array Float) (e : Float) : Nat → Nat → Nat → Option Nat
  | 0, _, base => some base
  | fuel + 1, size, base =>
    if size > 1 then
      let half := size / 2
      let mid := base + half
      match a[mid]? with
      | none => none
      | some v =>
        match cmpF v e with
        | none => none
        | some c => bsLoop cmpF a e fuel (size - half) (if c == .gt then base else mid)
    else some base

/-- `neighbor_search_startpoints`: `(idx_left, idx_right)`. -/
def startpoints (cmpF : Float → Float → Option Cmp) (a : Array Float) (e : Float) :
    Option (Option Nat × Option Nat) :=
  if a.size = 0 then some (none, some 0)   -- Err(0): i == 0
  else
    match bsLoop cmpF a e a.size a.size 0 with
    | none => none
    | some base =>
      match a[base]? with
      | none => none
      | some v =>
        match cmpF v e with
        | none => none
        | some .eq => some (some base, some base)
        | some c =>
          let i := base + (if c == .lt then 1 else 0)
          if i = 0 then some (none, some 0)
          else if i = a.size then some (some (i - 1), none)
          else some (some (i - 1), some i)

/-- One round of the k-nearest-neighbour walk: chosen index and the new `(idx_left, idx_right)`. -/
def knnStep (a : Array Float) (e : Float) (l r : Option Nat) : Option (Nat × Option Nat × Option Nat) :=
  let goRight (i : Nat) := (i, l, if i < a.size - 1 then some (i + 1) else none)
  let goLeft (i : Nat) := (i, (if i > 0 then some (i - 1) else none), r)
  match l, r with
  | some il, some ir =>
    match a[il]?, a[ir]? with
    | some vl, some vr =>
      if (vr - e).abs < (vl - e).abs then some (goRight ir) else some (goLeft il)
    | _, _ => none
  | some il, none => some (goLeft il)
  | none, some ir => some (goRight ir)
  | none, none => none

def knn (a : Array Float) (e : Float) : Nat → Option Nat → Option Nat → Option (List Nat)
  | 0, _, _ => some []
  | k + 1, l, r =>
    match knnStep a e l r with
    | none => none
    | some (i, l', r') => (knn a e k l' r').map (i :: ·)

def estimateBias (cmpF : Float → Float → Option Cmp) (b : Nat) (e : Float) : Option Float :=
  match rawF[b - rawOffset]?, biasF[b - biasOffset]? with
  | some lookup, some bias =>
    if lookup.size < hllK then none else   -- assert!(lookup_array.len() >= K)
    match startpoints cmpF lookup e with
    | none => none
    | some (l, r) =>
      match knn lookup e hllK l r with
      | none => none
      | some idxs =>
        match idxs.mapM (fun i => bias[i]?) with
        | none => none
        | some vs => some (vs.foldl (· + ·) 0 / Float.ofNat hllK)
  | _, _ => none

/-- `count()` with the float comparison of the binary search as a parameter (so that index safety
can be stated for every outcome of the comparisons); `none` = panic. -/
def countWith (cmpF : Float → Float → Option Cmp) (s : Hll.St) : Option Nat :=
  let m := Float.ofNat s.regs.size
  match s.regs.toList.mapM (fun x => pow2F[x]?) with
  | none => none
  | some ps =>
    let z := 1 / ps.foldl (· + ·) 0
    let e := am s.regs.size * m * m * z
    let eStar? : Option Float := if e ≤ 5 * m then (estimateBias cmpF s.b e).map (e - ·) else some e
    match eStar?, thresholds[s.b - thresholdOffset]? with
    | some eStar, some thr =>
      let v := s.regs.foldl (fun c r => if r == 0 then c + 1 else c) 0
      let h := if v ≠ 0 then m * (m / Float.ofNat v).log else eStar
      if h ≤ Float.ofNat thr then some h.toUInt64.toNat else some eStar.toUInt64.toNat
    | _, _ => none

/-- `count()` -/
def count (s : Hll.St) : Option Nat := countWith cmpF s

/-- `relative_error()` -/
def relativeError (s : Hll.St) : Float :=
  (3 * Float.log 2 - 1).sqrt / (Float.ofNat s.regs.size).sqrt

end Pds.HllCount
