/-
Model of `filters::bloomfilter::BloomFilter` (FixedBitSet = `Array Bool`).
-/
import Pds.Model.HashIter
import Pds.Model.Sizing
namespace Pds.Bloom

structure St where
  k : Nat
  bits : Array Bool
  deriving Repr, BEq, DecidableEq, Inhabited

def St.m (s : St) : Nat := s.bits.size

/-- `with_params_and_hash`; `none` = constructor panics. -/
def new (m k : Nat) : Option St :=
  if HashIter.builderOk m k then some ⟨k, Array.replicate m false⟩ else none

/-- `FixedBitSet::put` over a list of positions: returns the new bits and "all were set before".
`none` = index out of bounds (panic). -/
def putAll (bits : Array Bool) : List Nat → Bool → Option (Array Bool × Bool)
  | [], was => some (bits, was)
  | p :: ps, was =>
    if h : p < bits.size then putAll (bits.set p true) ps (was && bits[p]) else none

/-- `insert`: `Ok(!was_present)`; `none` = panic. -/
def insert (hash : List Nat → Nat) (s : St) (x : Nat) : Option (St × Bool) :=
  match HashIter.positions hash s.m s.k x with
  | none => none
  | some ps =>
    match putAll s.bits ps true with
    | none => none
    | some (bits, was) => some ({ s with bits := bits }, !was)

/-- `query`; the real loop returns at the first clear bit, `none` = panic (out of bounds before that). -/
def queryPos (bits : Array Bool) : List Nat → Option Bool
  | [] => some true
  | p :: ps => match bits[p]? with
    | none => none
    | some false => some false
    | some true => queryPos bits ps

def query (hash : List Nat → Nat) (s : St) (x : Nat) : Option Bool :=
  match HashIter.positions hash s.m s.k x with
  | none => none
  | some ps => queryPos s.bits ps

/-- `union`; `none` = one of the three assertions fires (hasher equality is checked by the caller). -/
def union (s o : St) : Option St :=
  if s.k = o.k ∧ s.m = o.m then some { s with bits := Array.zipWith (· || ·) s.bits o.bits } else none

def clear (s : St) : St := { s with bits := Array.replicate s.bits.size false }

def isEmpty (s : St) : Bool := s.bits.all (· == false)

def ones (s : St) : Nat := s.bits.foldl (fun c b => if b then c + 1 else c) 0

/-- `len()`: `(-m / k * ln(1 - x/m)) as usize` (the formula is `Sizing.bloomLen`) -/
def len (s : St) : Nat := Sizing.bloomLen (α := Float) s.m s.k (ones s)

end Pds.Bloom
