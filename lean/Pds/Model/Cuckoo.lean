/-
Model of `filters::cuckoofilter::CuckooFilter`.

* hasher: parameter `hash : List Nat → Nat` (`finish()` after the written words);
  `fingerprint x = 1 + hash [0, x] % (2^l - 1)`, bucket `hash [1, x] % n_buckets`
  (`& (n_buckets - 1)` with `n_buckets` a power of two), alternate bucket `i ^^^ bucketOf f`.
* RNG: an arbitrary state type `R` with the two requests the code makes (`gen::<bool>()`,
  `gen_range(0..bucketsize)`); theorems quantify over `R` and both functions.
* table: the packed `IntVector` is an `Array Nat` of exactly `n_buckets * bucketsize` slots, 0 = free.
  (The real vector may have a few unused padding slots behind them; they are never written and
  `union` skips them because they are 0.)
* `none` results = the real code panics (index out of bounds).
-/
import Pds.Generated.Consts
namespace Pds.Cuckoo

structure RngI (R : Type) where
  bool : R → Bool × R
  below : Nat → R → Nat × R

structure St (R : Type) where
  bs : Nat
  nb : Nat
  lf : Nat
  table : Array Nat
  n : Nat
  rng : R

inductive Res where
  | ok (b : Bool)
  | full
  deriving Repr, BEq, DecidableEq

def isPow2 (n : Nat) : Bool := n != 0 && 2 ^ Nat.log2 n == n

/-- `with_params_and_hash`; `none` = an assertion or "Table size too large" fires. -/
def new {R : Type} (rng : R) (bs nb lf : Nat) : Option (St R) :=
  if bs ≥ 2 ∧ isPow2 nb ∧ nb ≥ 2 ∧ lf > 1 ∧ lf ≤ 64 ∧ nb * bs < 2 ^ 64 ∧ lf * (nb * bs) < 2 ^ 64 then
    some ⟨bs, nb, lf, Array.replicate (nb * bs) 0, 0, rng⟩
  else none

def fingerprint (hash : List Nat → Nat) (lf x : Nat) : Nat := 1 + hash [0, x] % (2 ^ lf - 1)
def bucketOf (hash : List Nat → Nat) (nb x : Nat) : Nat := hash [1, x] % nb

abbrev Log := List (Nat × Nat)

inductive Find where
  | found (x : Nat)
  | absent
  | oob
  deriving Repr, BEq, DecidableEq

/-- first slot in `[off, off+len)` holding `v` -/
def find (t : Array Nat) (v : Nat) : Nat → Nat → Find
  | _, 0 => .absent
  | off, len + 1 =>
    match t[off]? with
    | none => .oob
    | some y => if y = v then .found off else find t v (off + 1) len

/-- `write_to_bucket`: `some (some (t', log'))` written (the write into the free slot is logged as
`(slot, 0)`), `some none` bucket full, `none` panic -/
def writeToBucket (t : Array Nat) (bs i f : Nat) (log : List (Nat × Nat)) :
    Option (Option (Array Nat × List (Nat × Nat))) :=
  match find t 0 (i * bs) bs with
  | .found x => some (some (t.setIfInBounds x f, (x, 0) :: log))
  | .absent => some none
  | .oob => none

def hasInBucket (t : Array Nat) (bs i f : Nat) : Option Bool :=
  match find t f (i * bs) bs with
  | .found _ => some true
  | .absent => some false
  | .oob => none

/-- `remove_from_bucket` -/
def removeFromBucket (t : Array Nat) (bs i f : Nat) : Option (Option (Array Nat)) :=
  match find t f (i * bs) bs with
  | .found x => some (some (t.setIfInBounds x 0))
  | .absent => some none
  | .oob => none


/-- outcome of `insert_internal`: table, element count, rng, log -/
structure Step (R : Type) where
  res : Res
  table : Array Nat
  n : Nat
  rng : R
  log : Log

/-- The eviction loop (`for _ in 0..MAX_NUM_KICKS`). -/
def kickLoop {R : Type} (I : RngI R) (hash : List Nat → Nat) (bs nb : Nat) :
    Nat → Array Nat → Nat → Nat → Nat → R → Log → Option (Step R)
  | 0, t, n, _, _, rng, log => some ⟨.full, t, n, rng, log⟩
  | kicks + 1, t, n, f, i, rng, log =>
    let (e, rng) := I.below bs rng
    let x := i * bs + e
    match t[x]? with
    | none => none
    | some tmp =>
      let log := (x, tmp) :: log
      let t := t.setIfInBounds x f
      let f := tmp
      let i := i ^^^ bucketOf hash nb f
      match writeToBucket t bs i f log with
      | none => none
      | some (some (t', log')) => some ⟨.ok true, t', n + 1, rng, log'⟩
      | some none => kickLoop I hash bs nb kicks t n f i rng log

/-- `insert_internal(f, i1, i2, log)` -/
def insertInternal {R : Type} (I : RngI R) (hash : List Nat → Nat) (bs nb kicks : Nat)
    (t : Array Nat) (n : Nat) (rng : R) (log : Log) (f i1 i2 : Nat) : Option (Step R) :=
  match writeToBucket t bs i1 f log with
  | none => none
  | some (some (t', log')) => some ⟨.ok true, t', n + 1, rng, log'⟩
  | some none =>
    match writeToBucket t bs i2 f log with
    | none => none
    | some (some (t', log')) => some ⟨.ok true, t', n + 1, rng, log'⟩
    | some none =>
      let (c, rng) := I.bool rng
      let i := if c then i1 else i2
      kickLoop I hash bs nb kicks t n f i rng log

/-- `restore_state`: the log is kept newest-first, so this is the reverse iteration. -/
def restore (t : Array Nat) : Log → Array Nat
  | [] => t
  | (pos, data) :: rest => restore (t.setIfInBounds pos data) rest

/-- `start(t)` -/
def start {R : Type} (hash : List Nat → Nat) (s : St R) (x : Nat) : Nat × Nat × Nat :=
  let f := fingerprint hash s.lf x
  let i1 := bucketOf hash s.nb x
  (f, i1, i1 ^^^ bucketOf hash s.nb f)

/-- `insert`; `none` = panic -/
def insert {R : Type} (I : RngI R) (hash : List Nat → Nat) (kicks : Nat) (s : St R) (x : Nat) :
    Option (St R × Res) :=
  let (f, i1, i2) := start hash s x
  match insertInternal I hash s.bs s.nb kicks s.table s.n s.rng [] f i1 i2 with
  | none => none
  | some st =>
    match st.res with
    | .ok b => some ({ s with table := st.table, n := st.n, rng := st.rng }, .ok b)
    | .full => some ({ s with table := restore st.table st.log, n := st.n, rng := st.rng }, .full)

def delete {R : Type} (hash : List Nat → Nat) (s : St R) (x : Nat) : Option (St R × Bool) :=
  let (f, i1, i2) := start hash s x
  match removeFromBucket s.table s.bs i1 f with
  | none => none
  | some (some t') => some ({ s with table := t', n := s.n - 1 }, true)
  | some none =>
    match removeFromBucket s.table s.bs i2 f with
    | none => none
    | some (some t') => some ({ s with table := t', n := s.n - 1 }, true)
    | some none => some (s, false)

def query {R : Type} (hash : List Nat → Nat) (s : St R) (x : Nat) : Option Bool :=
  let (f, i1, i2) := start hash s x
  match hasInBucket s.table s.bs i1 f with
  | none => none
  | some true => some true
  | some false => hasInBucket s.table s.bs i2 f

/-- the transfer loop of `union` over the other table's slots `(counter, f)` -/
def unionLoop {R : Type} (I : RngI R) (hash : List Nat → Nat) (bs nb kicks : Nat) :
    List Nat → Nat → Array Nat → Nat → R → Log → Option (Step R)
  | [], _, t, n, rng, log => some ⟨.ok true, t, n, rng, log⟩
  | f :: rest, counter, t, n, rng, log =>
    if f = 0 then unionLoop I hash bs nb kicks rest (counter + 1) t n rng log else
    let i1 := counter / bs
    let i2 := i1 ^^^ bucketOf hash nb f
    match insertInternal I hash bs nb kicks t n rng log f i1 i2 with
    | none => none
    | some st =>
      match st.res with
      | .full => some st
      | .ok _ => unionLoop I hash bs nb kicks rest (counter + 1) st.table st.n st.rng st.log

/-- `union`; `none` = assertion/index panic (hasher equality is checked by the caller) -/
def union {R : Type} (I : RngI R) (hash : List Nat → Nat) (kicks : Nat) (s o : St R) :
    Option (St R × Res) :=
  if s.bs = o.bs ∧ s.nb = o.nb ∧ s.lf = o.lf then
    match unionLoop I hash s.bs s.nb kicks o.table.toList 0 s.table s.n s.rng [] with
    | none => none
    | some st =>
      match st.res with
      | .ok _ => some ({ s with table := st.table, n := st.n, rng := st.rng }, .ok true)
      | .full => some ({ s with table := restore st.table st.log, n := s.n, rng := st.rng }, .full)
  else none

def clear {R : Type} (s : St R) : St R := { s with table := Array.replicate s.table.size 0, n := 0 }

end Pds.Cuckoo
