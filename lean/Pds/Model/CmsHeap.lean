/-
Model of `topk::cmsheap::CMSHeap`: the sketch (`Cms` model, `usize` counters), the exact-count
index `obj2count` (association list) and the ordered index `tree` (list sorted by `(n, key)`),
kept separately as in the code, so that their consistency is a theorem and not an artefact.
`add` takes the element's sketch columns as an argument.  `none` = panic.
-/
import Pds.Model.Cms
namespace Pds.CmsHeap

structure St where
  k : Nat
  cms : Cms.St
  obj2count : List (Nat × Nat)      -- (key, n)
  tree : List (Nat × Nat)           -- (n, key), ascending
  deriving Repr, BEq, DecidableEq, Inhabited

def new (k : Nat) (cms : Cms.St) : Option St := if k > 0 then some ⟨k, cms, [], []⟩ else none

def lt (a b : Nat × Nat) : Bool := a.1 < b.1 || (a.1 == b.1 && a.2 < b.2)

/-- `BTreeSet::insert` (no-op when an equal entry exists) -/
def treeInsert (e : Nat × Nat) : List (Nat × Nat) → List (Nat × Nat)
  | [] => [e]
  | x :: xs => if lt e x then e :: x :: xs else if e == x then x :: xs else x :: treeInsert e xs

/-- `BTreeSet::remove` -/
def treeRemove (e : Nat × Nat) (t : List (Nat × Nat)) : List (Nat × Nat) := t.filter (· != e)

def lookup (x : Nat) : List (Nat × Nat) → Option Nat
  | [] => none
  | (k, n) :: rest => if k = x then some n else lookup x rest

def mapSet (x n : Nat) : List (Nat × Nat) → List (Nat × Nat)
  | [] => [(x, n)]
  | (k, m) :: rest => if k = x then (k, n) :: rest else (k, m) :: mapSet x n rest

def mapRemove (x : Nat) (m : List (Nat × Nat)) : List (Nat × Nat) := m.filter (·.1 != x)

def add (s : St) (x : Nat) (cols : List Nat) : Option St :=
  match Cms.addCols s.cms cols 1 with
  | none => none
  | some (cms, count) =>
    let size := s.obj2count.length
    match lookup x s.obj2count with
    | some n =>
      let tree := treeInsert (n + 1, x) (treeRemove (n, x) s.tree)
      some { s with cms := cms, obj2count := mapSet x (n + 1) s.obj2count, tree := tree }
    | none =>
      if size < s.k then
        some { s with cms := cms, obj2count := mapSet x 1 s.obj2count, tree := treeInsert (1, x) s.tree }
      else
        match s.tree with
        | [] => none   -- `.next().unwrap()` (unreachable: k > 0)
        | mn :: _ =>
          if count > mn.1 then
            let tree := treeInsert (count, x) (treeRemove mn s.tree)
            some { s with cms := cms, obj2count := mapRemove mn.2 (mapSet x count s.obj2count), tree := tree }
          else some { s with cms := cms }

def iter (s : St) : List Nat := s.tree.map (·.2)
def isEmpty (s : St) : Bool := s.obj2count.isEmpty
def clear (s : St) : St := { s with cms := Cms.clear s.cms, obj2count := [], tree := [] }

end Pds.CmsHeap
