/-
Model of `reservoirsampling::ReservoirSampling` (items are `Nat`s).
RNG: arbitrary state `R` with the two requests the code makes: `below n` = `gen_range(0..n)` and
`gap k seen` = `⌊ln u / ln(1 - k/(seen+1))⌋` for a fresh `u ∈ (0,1]` (the float computation lives
in the driver glue; theorems hold for every `gap` function).  `none` = index panic.
-/
import Pds.Generated.Consts
namespace Pds.Reservoir

structure RngI (R : Type) where
  below : Nat → R → Nat × R
  gap : Nat → Nat → R → Nat × R

structure St (R : Type) where
  k : Nat
  res : Array Nat
  i : Nat
  skipUntil : Nat
  rng : R

/-- `new`; `none` = `assert!(k > 0)` -/
def new {R : Type} (k : Nat) (rng : R) : Option (St R) :=
  if k > 0 then some ⟨k, #[], 0, 0, rng⟩ else none

def phaseEnd (k : Nat) : Nat := k * Pds.Generated.reservoirPhaseFactor

def add {R : Type} (I : RngI R) (s : St R) (x : Nat) : Option (St R) :=
  let t := phaseEnd s.k
  if s.i < s.k then
    some { s with res := s.res.push x, i := s.i + 1 }
  else if s.i < t then
    -- plain reservoir sampling; when the phase ends the first gap is drawn (before the slot)
    let (skipUntil, rng) :=
      if s.i + 1 = t then let (g, rng) := I.gap s.k t s.rng; (t + g, rng) else (s.skipUntil, s.rng)
    let (j, rng) := I.below (s.i + 1) rng
    if j < s.k then
      if j < s.res.size then
        some { s with res := s.res.setIfInBounds j x, rng := rng, skipUntil := skipUntil, i := s.i + 1 }
      else none
    else some { s with rng := rng, skipUntil := skipUntil, i := s.i + 1 }
  else if s.i ≥ s.skipUntil then
    let (g, rng) := I.gap s.k (s.i + 1) s.rng
    let (j, rng) := I.below s.k rng
    if j < s.res.size then
      some { s with res := s.res.setIfInBounds j x, rng := rng, skipUntil := s.i + 1 + g, i := s.i + 1 }
    else none
  else some { s with i := s.i + 1 }

def isEmpty {R : Type} (s : St R) : Bool := s.i == 0

def clear {R : Type} (s : St R) : St R := { s with i := 0, skipUntil := 0, res := #[] }

end Pds.Reservoir
