/-
Model of `HyperLogLog`'s register machine (src/hyperloglog/mod.rs: `with_registers_and_hash`,
`add_hashed`, `merge`, `clear`, `is_empty`).  Hashes are inputs (`add x = addHashed (hash x)`), so
theorems about `addHashed` cover every `BuildHasher`.
-/
namespace Pds.Hll

/-- `u64::leading_zeros`. -/
def clz64 (w : Nat) : Nat := if w = 0 then 64 else 63 - Nat.log2 w

structure St where
  b : Nat
  regs : Array Nat
  deriving Repr, BEq, Inhabited, DecidableEq

/-- `with_registers_and_hash`: rejects (real code: panics) unless `4 ≤ b ≤ 18` and `len = 2^b`. -/
def withRegisters (b : Nat) (regs : Array Nat) : Option St :=
  if 4 ≤ b ∧ b ≤ 18 ∧ regs.size = 2 ^ b then some ⟨b, regs⟩ else none

def new (b : Nat) : Option St :=
  if 4 ≤ b ∧ b ≤ 18 then withRegisters b (Array.replicate (2 ^ b) 0) else none

/-- `p = w.leading_zeros() + 1 - b` for `w = h >> b`. -/
def rank (b h : Nat) : Nat := clz64 (h / 2 ^ b) + 1 - b

/-- `add_hashed`; `none` = index out of bounds (the real code would panic). -/
def addHashed (s : St) (h : Nat) : Option St :=
  let j := h % 2 ^ s.b
  if hj : j < s.regs.size then
    some { s with regs := s.regs.set j (max s.regs[j] (rank s.b h)) }
  else none

/-- `add(obj)` is `add_hashed(buildhasher.hash_one(obj))`; the hasher is a parameter. -/
def add (hash : Nat → Nat) (s : St) (x : Nat) : Option St := addHashed s (hash x)

/-- Feeding a list of hashes to a fresh sketch. -/
def run (b : Nat) (hs : List Nat) : Option St := hs.foldlM addHashed =<< new b

/-- `merge`: `none` = the `assert_eq!(b)` fires.  `zip` truncates like the real code. -/
def merge (s o : St) : Option St :=
  if s.b = o.b then some { s with regs := Array.zipWith max s.regs o.regs } else none

def clear (s : St) : St := { s with regs := Array.replicate s.regs.size 0 }

def isEmpty (s : St) : Bool := s.regs.all (· == 0)

end Pds.Hll
