/-
Model of `filters::quotientfilter::QuotientFilter`.

The three bit sets and the packed remainder vector are one `Vector Slot N` (`N = 2^bits_quotient`);
positions are `Fin N`, `incr`/`decr` are the code's wrap-around helpers, so every slot access is in
bounds by construction.  All `while`/`loop` constructs take fuel `N + 1`; running out of fuel
(`none`) means the real code would not terminate, and the explicit `panic!("infinite loop detected")`
and `pop_front().unwrap()` are `none` as well.
-/
namespace Pds.Quotient

structure Slot where
  occ : Bool := false
  cont : Bool := false
  shift : Bool := false
  rem : Nat := 0
  deriving Repr, BEq, DecidableEq, Inhabited

structure St (N : Nat) where
  slots : Vector Slot N
  n : Nat
  deriving Repr, DecidableEq

variable {N : Nat}

def St.get (t : St N) (p : Fin N) : Slot := t.slots[p]
def St.set (t : St N) (p : Fin N) (s : Slot) : St N := { t with slots := t.slots.set p s }

def empty (N : Nat) : St N := ⟨Vector.replicate N {}, 0⟩

/-- `incr`: `if pos == len - 1 { 0 } else { pos + 1 }` -/
def incr (p : Fin N) : Fin N :=
  if h : p.val + 1 < N then ⟨p.val + 1, h⟩ else ⟨0, Nat.lt_of_le_of_lt (Nat.zero_le _) p.isLt⟩

/-- `decr`: `if pos == 0 { len - 1 } else { pos - 1 }` -/
def decr (p : Fin N) : Fin N :=
  if p.val = 0 then ⟨N - 1, Nat.sub_lt (Nat.lt_of_le_of_lt (Nat.zero_le _) p.isLt) Nat.one_pos⟩
  else ⟨p.val - 1, Nat.lt_of_le_of_lt (Nat.sub_le _ _) p.isLt⟩

structure ScanResult (N : Nat) where
  present : Bool
  position : Fin N
  startOfRun : Option (Fin N)
  deriving Repr, DecidableEq

def ScanResult.hasRun (r : ScanResult N) : Bool := r.startOfRun.isSome
def ScanResult.atStartOfRun (r : ScanResult N) : Bool :=
  match r.startOfRun with
  | some s => s == r.position
  | none => false

/-- `while self.is_shifted[b] { decr(b) }` -/
def walkBack (t : St N) : Nat → Fin N → Option (Fin N)
  | 0, _ => none
  | fuel + 1, b => if (t.get b).shift then walkBack t fuel (decr b) else some b

/-- `loop { incr(s); if !is_continuation[s] { break } }` -/
def skipRun (t : St N) : Nat → Fin N → Option (Fin N)
  | 0, _ => none
  | fuel + 1, s => let s := incr s; if (t.get s).cont then skipRun t fuel s else some s

/-- `loop { incr(b); if is_occupied[b] || (b == quotient && on_insert) { break } }` -/
def nextOcc (t : St N) (quotient : Fin N) (onInsert : Bool) : Nat → Fin N → Option (Fin N)
  | 0, _ => none
  | fuel + 1, b =>
    let b := incr b
    if (t.get b).occ || (b == quotient && onInsert) then some b else nextOcc t quotient onInsert fuel b

/-- `while b != quotient { skip run; next occupied }` — returns `s` -/
def walkFwd (t : St N) (quotient : Fin N) (onInsert : Bool) : Nat → Fin N → Fin N → Option (Fin N)
  | 0, _, _ => none
  | fuel + 1, b, s =>
    if b == quotient then some s else
    match skipRun t (N + 1) s, nextOcc t quotient onInsert (N + 1) b with
    | some s', some b' => walkFwd t quotient onInsert fuel b' s'
    | _, _ => none

/-- the search of the remainder within the run: `(present, position)` -/
def searchRun (t : St N) (remainder : Nat) : Nat → Fin N → Option (Bool × Fin N)
  | 0, _ => none
  | fuel + 1, s =>
    let r := (t.get s).rem
    if r = remainder then some (true, s)
    else if r > remainder then some (false, s)
    else
      let s := incr s
      if (t.get s).cont then searchRun t remainder fuel s else some (false, s)

/-- `scan(quotient, remainder, on_insert)` -/
def scan (t : St N) (quotient : Fin N) (remainder : Nat) (onInsert : Bool) : Option (ScanResult N) :=
  let runExists := (t.get quotient).occ
  if !runExists && !onInsert then some ⟨false, quotient, none⟩ else
  match walkBack t (N + 1) quotient with
  | none => none
  | some b =>
    match walkFwd t quotient onInsert (N + 1) b b with
    | none => none
    | some s =>
      if runExists then
        match searchRun t remainder (N + 1) s with
        | none => none
        | some (present, pos) => some ⟨present, pos, some s⟩
      else some ⟨false, s, none⟩

inductive Res where
  | ok (b : Bool)
  | full
  deriving Repr, BEq, DecidableEq

/-- the swap chain: `while current_used { … }` -/
def swapLoop (t : St N) (start : Fin N) : Nat → Fin N → Bool → Nat → Bool → Option (St N)
  | 0, _, _, _, _ => none
  | fuel + 1, position, curCont, curRem, curUsed =>
    if !curUsed then some t else
    let position := incr position
    let nx := t.get position
    let t' := t.set position { nx with shift := true, cont := curCont, rem := curRem }
    if position == start then none  -- panic!("infinite loop detected")
    else swapLoop t' start fuel position nx.cont nx.rem (nx.occ || nx.shift)

/-- `insert_internal(quotient, remainder)`; `none` = panic / non-termination -/
def insertInternal (t : St N) (quotient : Fin N) (remainder : Nat) : Option (St N × Res) :=
  match scan t quotient remainder true with
  | none => none
  | some sr =>
    if sr.present then some (t, .ok false) else
    if t.n = N then some (t, .full) else
    let cur := t.get sr.position
    let curCont := cur.cont || sr.atStartOfRun
    let curRem := cur.rem
    let curUsed := cur.occ || cur.shift
    let s1 : Slot := { cur with rem := remainder }
    let s2 : Slot := if sr.hasRun && !sr.atStartOfRun then { s1 with cont := true } else s1
    let s3 : Slot := if sr.position != quotient then { s2 with shift := true } else s2
    let t1 := t.set sr.position s3
    match swapLoop t1 sr.position (N + 1) sr.position curCont curRem curUsed with
    | none => none
    | some t2 =>
      let q := t2.get quotient
      let t3 := t2.set quotient { q with occ := true }
      some ({ t3 with n := t3.n + 1 }, .ok true)

/-- `calc_quotient_remainder` on the 64-bit fingerprint -/
def calcQR (q r fp : Nat) : Nat × Nat :=
  let bitsTrash := 64 - r - q
  let trash := if bitsTrash > 0 then (fp >>> (64 - bitsTrash)) <<< (64 - bitsTrash) else 0
  let clean := fp - trash
  let quo := clean >>> r
  (quo, clean - (quo <<< r))

/-- constructor assertions of `with_params_and_hash` -/
def paramsOk (q r : Nat) : Bool := r > 0 && r ≤ 64 && q > 0 && r + q ≤ 64

/-- `insert(obj)` given the element's 64-bit hash; `none` = panic -/
def insert (q r : Nat) (t : St N) (fp : Nat) : Option (St N × Res) :=
  let (quo, rm) := calcQR q r fp
  if h : quo < N then insertInternal t ⟨quo, h⟩ rm else none

def query (q r : Nat) (t : St N) (fp : Nat) : Option Bool :=
  let (quo, rm) := calcQR q r fp
  if h : quo < N then (scan t ⟨quo, h⟩ rm false).map (·.present) else none

/-- inner `while (j != i) && other.is_shifted[j]` loop of `union` -/
def unionCluster (o : St N) (i : Fin N) : Nat → Fin N → Fin N → List (Fin N) → St N → Option (St N × Res)
  | 0, _, _, _, _ => none
  | fuel + 1, j, quotient, queue, t =>
    if j != i && (o.get j).shift then
      let queue := if (o.get j).occ then queue ++ [j] else queue
      let step (quotient : Fin N) (queue : List (Fin N)) : Option (St N × Res) :=
        match insertInternal t quotient (o.get j).rem with
        | none => none
        | some (t', .full) => some (t', .full)
        | some (t', .ok _) => unionCluster o i fuel (incr j) quotient queue t'
      if !(o.get j).cont then
        match queue with
        | [] => none   -- pop_front().unwrap()
        | qh :: qt => step qh qt
      else step quotient queue
    else some (t, .ok true)

/-- outer `for i in 0..len` loop of `union` -/
def unionLoop (o : St N) : List (Fin N) → St N → Option (St N × Res)
  | [], t => some (t, .ok true)
  | i :: rest, t =>
    if (o.get i).occ && !(o.get i).shift then
      match insertInternal t i (o.get i).rem with
      | none => none
      | some (t', .full) => some (t', .full)
      | some (t', .ok _) =>
        match unionCluster o i (N + 1) (incr i) i [] t' with
        | none => none
        | some (t'', .full) => some (t'', .full)
        | some (t'', .ok _) => unionLoop o rest t''
    else unionLoop o rest t

/-- `union`: on `Full` the complete backup is restored -/
def union (t o : St N) : Option (St N × Res) :=
  match unionLoop o (List.finRange N) t with
  | none => none
  | some (_, .full) => some (t, .full)
  | some (t', .ok b) => some (t', .ok b)

def clear (_t : St N) : St N := empty N

end Pds.Quotient
