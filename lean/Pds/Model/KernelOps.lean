/-
Operations the *translated kernels* (`Pds/Generated/Kernels.lean`, written by tools/translate.py from
/repo's current source) are expressed in.  `KOps α` bundles what Rust's `f64` offers beyond the field
operations; the arithmetic and order operations themselves are separate instance arguments, so the
same generated definitions run at `Float` and are reasoned about over any linearly ordered field.
`fmin`/`fmax` are faithful to `f64::min`/`f64::max` (a NaN operand yields the other operand).
Integers are unbounded `Nat`; `checked*`/`sat*` compare against 2^64.
-/
namespace Pds

class KOps (α : Type) where
  pi : α
  e : α
  nan : α
  sin : α → α
  asin : α → α
  log : α → α
  log2 : α → α
  exp : α → α
  sqrt : α → α
  ceil : α → α
  floor : α → α
  fabs : α → α
  isInf : α → Bool
  isNan : α → Bool
  isFinite : α → Bool
  /-- `n as f64` -/
  ofNat : Nat → α
  /-- `x as usize` (saturating; NaN and negatives give 0) -/
  toNat : α → Nat

namespace KOps

section
variable {α : Type} [KOps α] [Div α] [LT α] [LE α] [DecidableLT α] [DecidableLE α]

/-- a decimal literal `m / 10^e`: both are exact at `Float` (m < 2^53, e ≤ 22) and IEEE division is
correctly rounded, so this is the `f64` rustc parses the literal to -/
def lit (m e : Nat) : α := (ofNat m : α) / ofNat (10 ^ e)

/-- `f64::min`: a NaN operand yields the other one -/
def fmin (a b : α) : α := if b < a then b else if a ≤ a then a else b
/-- `f64::max` -/
def fmax (a b : α) : α := if a < b then b else if a ≤ a then a else b
end

/-- `u64::leading_zeros` -/
def clz64 (w : Nat) : Nat := if w = 0 then 64 else 63 - Nat.log2 w
/-- `usize::next_power_of_two` -/
def nextPow2 (n : Nat) : Nat := if n ≤ 1 then 1 else 2 ^ (Nat.log2 (n - 1) + 1)
def satMul (a b : Nat) : Nat := if a * b < 2 ^ 64 then a * b else 2 ^ 64 - 1
def checkedMul (a b : Nat) : Option Nat := if a * b < 2 ^ 64 then some (a * b) else none
def checkedAdd (a b : Nat) : Option Nat := if a + b < 2 ^ 64 then some (a + b) else none

/-- `FixedBitSet::put(i)`: the previous bit and the set with bit `i` on; `none` = out of bounds (panic) -/
def bitPut (bs : List Bool) (i : Nat) : Option (Bool × List Bool) :=
  match bs[i]? with
  | none => none
  | some b => some (b, bs.set i true)
/-- `QuotientFilter::incr` / `decr`: the wrap-around successor / predecessor of a slot position -/
def ringIncr (len pos : Nat) : Nat := if pos = len - 1 then 0 else pos + 1
def ringDecr (len pos : Nat) : Nat := if pos = 0 then len - 1 else pos - 1
/-- `C::checked_add` against the maximum of the counter type -/
def checkedAddMax (cmax a b : Nat) : Option Nat := if a + b ≤ cmax then some (a + b) else none

/-- `usize::is_power_of_two` -/
def isPow2 (n : Nat) : Bool := n != 0 && 2 ^ Nat.log2 n == n

/-- `a.iter().zip(b.iter()).map(|x| f(x.0, x.1).unwrap()).collect()`: `none` = one of the `unwrap`s panics -/
def zipWithM {α β γ : Type} (f : α → β → Option γ) : List α → List β → Option (List γ)
  | a :: xs, b :: ys =>
    match f a b with
    | none => none
    | some c => (zipWithM f xs ys).map (c :: ·)
  | _, _ => some []

end KOps

/-- Control flow of a translated function body (tools/rustflow.py): it returned `r`, fell through with the
mutable variables `s`, or panicked (assertion, index out of bounds). -/
inductive Flow (ρ σ : Type) where
  | ret (r : ρ)
  | cont (s : σ)
  | panic
  deriving Repr, DecidableEq

def Flow.bind {ρ σ τ : Type} (x : Flow ρ σ) (f : σ → Flow ρ τ) : Flow ρ τ :=
  match x with
  | .ret r => .ret r
  | .cont s => f s
  | .panic => .panic

/-- one iteration of a `loop { … }` body: it returned, it panicked, it hit `break` (with the state), or it
reached the end of the body (with the state) -/
inductive Iter (ρ σ : Type) where
  | ret (r : ρ)
  | panic
  | brk (s : σ)
  | next (s : σ)

/-- scan result of the quotient filter (`struct ScanResult`) -/
structure QfScan where
  present : Bool
  position : Nat
  start_of_run : Option Nat
  deriving Repr, DecidableEq

@[simp] theorem Flow.bind_ret {ρ σ τ : Type} (r : ρ) (f : σ → Flow ρ τ) : (Flow.ret r : Flow ρ σ).bind f = .ret r := rfl
@[simp] theorem Flow.bind_cont {ρ σ τ : Type} (s : σ) (f : σ → Flow ρ τ) : (Flow.cont s : Flow ρ σ).bind f = f s := rfl
@[simp] theorem Flow.bind_panic {ρ σ τ : Type} (f : σ → Flow ρ τ) : (Flow.panic : Flow ρ σ).bind f = .panic := rfl

/-- the value a translated function returned (`none`: it panicked or fell through) -/
def Flow.ret? {ρ σ : Type} : Flow ρ σ → Option ρ
  | .ret r => some r
  | _ => none
@[simp] theorem Flow.ret?_ret {ρ σ : Type} (r : ρ) : (Flow.ret r : Flow ρ σ).ret? = some r := rfl
@[simp] theorem Flow.ret?_cont {ρ σ : Type} (s : σ) : (Flow.cont s : Flow ρ σ).ret? = none := rfl
@[simp] theorem Flow.ret?_panic {ρ σ : Type} : (Flow.panic : Flow ρ σ).ret? = none := rfl
theorem Flow.ite_bind {ρ σ τ : Type} (c : Prop) [Decidable c] (x y : Flow ρ σ) (f : σ → Flow ρ τ) :
    (if c then x else y).bind f = if c then x.bind f else y.bind f := by split <;> rfl
theorem Flow.ite_ret? {ρ σ : Type} (c : Prop) [Decidable c] (x y : Flow ρ σ) :
    (if c then x else y).ret? = if c then x.ret? else y.ret? := by split <;> rfl

instance : KOps Float where
  pi := Float.ofBits 0x400921FB54442D18
  e := Float.ofBits 0x4005BF0A8B145769
  nan := 0.0 / 0.0
  sin := Float.sin
  asin := Float.asin
  log := Float.log
  log2 := Float.log2
  exp := Float.exp
  sqrt := Float.sqrt
  ceil := Float.ceil
  floor := Float.floor
  fabs := Float.abs
  isInf := Float.isInf
  isNan := Float.isNaN
  isFinite := Float.isFinite
  ofNat := Float.ofNat
  toNat x := x.toUInt64.toNat

end Pds
