/-
Model of `countminsketch::CountMinSketch`.  `cmax` is the maximum of the counter type `C`
(`checked_add(..).unwrap()` panics beyond it).  Column lists come from `HashIter.positions` with
`m = w`, `k = d`; the table operations take the column list as an argument so that the same
functions serve CMSHeap (whose columns come from SipHash through the public HashIterBuilder).
-/
import Pds.Model.HashIter
namespace Pds.Cms

structure St where
  w : Nat
  d : Nat
  cmax : Nat
  table : Array Nat
  deriving Repr, BEq, DecidableEq, Inhabited

/-- `with_params_and_hasher`; `none` = panic (`HashIterBuilder::new(0, d>0)`). -/
def new (w d cmax : Nat) : Option St :=
  if HashIter.builderOk w d then some ⟨w, d, cmax, Array.replicate (w * d) 0⟩ else none

/-- the row loop of `add_n`: `(table, result)`; `none` = panic (index or counter overflow). -/
def addRows (w cmax n : Nat) : Nat → List Nat → Array Nat → Nat → Option (Array Nat × Nat)
  | _, [], t, res => some (t, res)
  | i, pos :: ps, t, res =>
    let x := i * w + pos
    if h : x < t.size then
      let cur := t[x]
      let res' := if i = 0 then cur else min res cur
      if cur + n ≤ cmax then addRows w cmax n (i + 1) ps (t.set x (cur + n)) res' else none
    else none

/-- `add_n` given the element's column list: new state and the returned estimate. -/
def addCols (s : St) (cols : List Nat) (n : Nat) : Option (St × Nat) :=
  match addRows s.w s.cmax n 0 cols s.table 0 with
  | none => none
  | some (t, res) => if res + n ≤ s.cmax then some ({ s with table := t }, res + n) else none

/-- `query_point` given the column list; `none` = panic (index, or `min().unwrap()` on `d = 0`). -/
def queryCols (s : St) (cols : List Nat) : Option Nat :=
  let rec go : Nat → List Nat → Option Nat → Option Nat
    | _, [], acc => acc
    | i, pos :: ps, acc =>
      match s.table[i * s.w + pos]? with
      | none => none
      | some v => go (i + 1) ps (some (match acc with | none => v | some a => min a v))
  go 0 cols none

def addN (hash : List Nat → Nat) (s : St) (x n : Nat) : Option (St × Nat) :=
  match HashIter.positions hash s.w s.d x with
  | none => none
  | some cols => addCols s cols n

def query (hash : List Nat → Nat) (s : St) (x : Nat) : Option Nat :=
  match HashIter.positions hash s.w s.d x with
  | none => none
  | some cols => queryCols s cols

/-- cell-wise checked addition of `merge` -/
def mergeCells (cmax : Nat) : List Nat → List Nat → Option (List Nat)
  | a :: xs, b :: ys => if a + b ≤ cmax then (mergeCells cmax xs ys).map (fun l => (a + b) :: l) else none
  | _, _ => some []

/-- `merge`; `none` = assertion or overflow panic (hasher equality is checked by the caller). -/
def merge (s o : St) : Option St :=
  if s.d = o.d ∧ s.w = o.w then
    (mergeCells s.cmax s.table.toList o.table.toList).map fun l => { s with table := l.toArray }
  else none

def clear (s : St) : St := { s with table := Array.replicate (s.w * s.d) 0 }

def isEmpty (s : St) : Bool := s.table.all (· == 0)

end Pds.Cms
