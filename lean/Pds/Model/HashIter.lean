/-
Model of `hash_utils::HashIterBuilder` / `HashIter` (enhanced double hashing).
The hasher is a parameter `hash : List Nat → Nat` (the `finish()` value after writing the given
words), so statements quantified over `hash` cover every `BuildHasher`.
For an element `x : u64` the real code computes `h_i(x) = hash [i, x]` (`write_usize(i)`,
`x.hash()`), and `f(i) = hash [i + 2] % m`.
-/
namespace Pds.HashIter

/-- `HashIterBuilder::new` panics iff `m = 0 ∧ k > 0` (`% 0` in `setup_f`). -/
def builderOk (m k : Nat) : Bool := !(m == 0 && k > 0)

/-- The `k` values emitted by `iter_for(x)`; `none` = `% 0` panic (`m = 0`). -/
def positions (hash : List Nat → Nat) (m k x : Nat) : Option (List Nat) :=
  if m = 0 then none else
  let h1 := hash [0, x] % m
  let h2 := hash [1, x] % m
  some ((List.range k).map fun i => (h1 + (i % m) * h2 + hash [i + 2] % m) % m)

end Pds.HashIter
