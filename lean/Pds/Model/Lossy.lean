/-
Model of `topk::lossycounter::LossyCounter`.  `known` (a `HashMap`) is an association list
`(key, f, delta)` without duplicate keys; iteration order is not observable (query results are
compared as sorted lists).  The float threshold arithmetic of `query` is glue: the model's
`queryBound` takes the integer bound `⌈(threshold - ε)·n⌉.max(0)` as an argument.
-/
namespace Pds.Lossy

structure Entry where
  key : Nat
  f : Nat
  delta : Nat
  deriving Repr, BEq, DecidableEq, Inhabited

structure St where
  width : Nat
  n : Nat
  known : List Entry
  deriving Repr, BEq, DecidableEq, Inhabited

/-- `with_width`; `none` = `assert!(width > 0)` -/
def new (width : Nat) : Option St := if width > 0 then some ⟨width, 0, []⟩ else none

def bump (x : Nat) : List Entry → Option (List Entry)
  | [] => none
  | e :: es => if e.key = x then some ({ e with f := e.f + 1 } :: es) else (bump x es).map (e :: ·)

/-- `add`: returns the new state and `was_new` -/
def add (s : St) (x : Nat) : St × Bool :=
  let n := s.n + 1
  let atEnd := n % s.width = 0
  let bCur := n / s.width + (if atEnd then 0 else 1)
  let (known, wasNew) := match bump x s.known with
    | some k => (k, false)
    | none => (⟨x, 1, bCur - 1⟩ :: s.known, true)
  let known := if atEnd then known.filter (fun e => e.f + e.delta > bCur) else known
  ({ s with n := n, known := known }, wasNew)

/-- `query` with the already computed integer bound -/
def queryBound (s : St) (bound : Nat) : List Nat := (s.known.filter (fun e => e.f ≥ bound)).map (·.key)

def clear (s : St) : St := { s with n := 0, known := [] }

end Pds.Lossy
