/-
Models of the sizing formulas (`BloomFilter::with_properties`, `CuckooFilter::with_properties_*`,
`CountMinSketch::with_point_query_properties`, `LossyCounter::with_epsilon`, the bound of
`LossyCounter::query`, `BloomFilter::len`), written once over a carrier `α` with the operations
the code uses, so that they run at `Float` in the driver and are reasoned about over `ℝ`.
`floorNat` is the `as usize` truncation of a non-negative value (negative / NaN give 0),
`ceilNat` is `.ceil() as usize`.
-/
namespace Pds.Sizing

class Transc (α : Type) where
  log : α → α
  log2 : α → α
  exp : α → α
  floorNat : α → Nat
  ceilNat : α → Nat

instance : Transc Float where
  log := Float.log
  log2 := Float.log2
  exp := Float.exp
  floorNat x := x.toUInt64.toNat
  ceilNat x := x.ceil.toUInt64.toNat

instance : NatCast Float := ⟨Float.ofNat⟩

section
variable {α : Type} [Add α] [Sub α] [Mul α] [Div α] [Neg α] [LT α] [DecidableLT α] [NatCast α]
  [OfNat α 0] [OfNat α 1] [Transc α]

/-- `(k, m)` of `BloomFilter::with_properties(n, p)`; `none` = assertion panic -/
def bloomParams (n : Nat) (p : α) : Option (Nat × Nat) :=
  if 0 < n ∧ 0 < p ∧ p < 1 then
    let k := Transc.floorNat (-(Transc.log2 p))
    let ln2 : α := Transc.log ((2 : Nat) : α)
    let m := Transc.floorNat (-(((n : Nat) : α) * Transc.log p) / (ln2 * ln2))
    some (max k 1, max m 1)
  else none

def nextPow2 (n : Nat) : Nat := if n ≤ 1 then 1 else 2 ^ (Nat.log2 (n - 1) + 1)

/-- `(bucketsize, n_buckets, l_fingerprint)` of `with_properties_and_hash_n`; `none` = the
assertions on the arguments fire (the constructor's own checks come afterwards) -/
def cuckooParams (bucketsize : Nat) (loadFactor p : α) (n : Nat) : Option (Nat × Nat × Nat) :=
  if 1 ≤ n ∧ 0 < p ∧ p < 1 then
    let l := Transc.ceilNat (Transc.log2 (((2 : Nat) : α) * ((bucketsize : Nat) : α) / p))
    let costs : α := ((l : Nat) : α) / loadFactor
    let nb := nextPow2 (Transc.ceilNat (costs * ((n : Nat) : α) / ((l : Nat) : α)))
    some (bucketsize, nb, l)
  else none

/-- `(w, d)` of `with_point_query_properties(epsilon, delta)`; `e` is `f64::consts::E` -/
def cmsParams (eps delta : α) : Option (Nat × Nat) :=
  if 0 < eps ∧ 0 < delta ∧ delta < 1 then
    some (Transc.ceilNat (Transc.exp (1 : α) / eps), Transc.ceilNat (Transc.log ((1 : α) / delta)))
  else none

/-- `width` of `LossyCounter::with_epsilon` -/
def lossyWidth (eps : α) : Option Nat :=
  if 0 < eps ∧ eps < 1 then some (Transc.ceilNat ((1 : α) / eps)) else none

/-- the integer bound of `LossyCounter::query(threshold)`: `⌈(threshold − ε)·n⌉.max(0)` -/
def lossyBound (threshold eps : α) (n : Nat) : Nat :=
  Transc.ceilNat ((threshold - eps) * ((n : Nat) : α))

/-- `BloomFilter::len()`: `(-m / k * ln(1 - x/m)) as usize` for `x` set bits -/
def bloomLen (m k x : Nat) : Nat :=
  let mf : α := ((m : Nat) : α)
  let kf : α := ((k : Nat) : α)
  let xf : α := ((x : Nat) : α)
  Transc.floorNat ((-mf) / kf * Transc.log ((1 : α) - xf / mf))

end
end Pds.Sizing
