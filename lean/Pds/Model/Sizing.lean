/-
Float models of the sizing formulas (`BloomFilter::with_properties`, `CuckooFilter::with_properties_*`,
`CountMinSketch::with_point_query_properties`, `LossyCounter::with_epsilon`, `LossyCounter::query`'s bound).
Executable glue at `Float`; the exact-arithmetic statements about them are in the proof files.
-/
namespace Pds.Sizing

def toUsize (x : Float) : Nat := x.toUInt64.toNat

/-- `(k, m)` of `BloomFilter::with_properties(n, p)`; `none` = assertion panic -/
def bloomParams (n : Nat) (p : Float) : Option (Nat × Nat) :=
  if n > 0 ∧ p > 0 ∧ p < 1 then
    let k := toUsize (-(p.log2))
    let ln2 := Float.log 2
    let m := toUsize (-(Float.ofNat n * p.log) / (ln2 * ln2))
    some (max k 1, max m 1)
  else none

def nextPow2 (n : Nat) : Nat := if n ≤ 1 then 1 else 2 ^ (Nat.log2 (n - 1) + 1)

/-- `(bucketsize, n_buckets, l_fingerprint)` of `with_properties_and_hash_n`; `none` = the
assertions on the arguments fire (the constructor's own checks come afterwards) -/
def cuckooParams (bucketsize : Nat) (loadFactor p : Float) (n : Nat) : Option (Nat × Nat × Nat) :=
  if n ≥ 1 ∧ p > 0 ∧ p < 1 then
    let l := toUsize ((2.0 * Float.ofNat bucketsize / p).log2.ceil)
    let costs := Float.ofNat l / loadFactor
    let nb := nextPow2 (toUsize ((costs * Float.ofNat n / Float.ofNat l).ceil))
    some (bucketsize, nb, l)
  else none

/-- `(w, d)` of `with_point_query_properties(epsilon, delta)` -/
def cmsParams (eps delta : Float) : Option (Nat × Nat) :=
  if eps > 0 ∧ delta > 0 ∧ delta < 1 then
    some (toUsize ((Float.exp 1 / eps).ceil), toUsize ((1 / delta).log.ceil))
  else none

/-- `width` of `LossyCounter::with_epsilon` -/
def lossyWidth (eps : Float) : Option Nat :=
  if eps > 0 ∧ eps < 1 then some (toUsize (1 / eps).ceil) else none

/-- the integer bound of `LossyCounter::query(threshold)` -/
def lossyBound (threshold eps : Float) (n : Nat) : Nat :=
  let v := ((threshold - eps) * Float.ofNat n).ceil
  toUsize (if v < 0 then 0 else if v ≥ 0 then v else 0)

end Pds.Sizing
