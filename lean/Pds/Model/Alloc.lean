/-
Block arithmetic of the packed tables (`helpers::all_zero_intvector`, `succinct::IntVector`
with 64-bit blocks; `fixedbitset` 0.5 allocates 128-bit SIMD blocks) and the resulting heap
bytes of a freshly constructed CuckooFilter / QuotientFilter.
-/
namespace Pds.Alloc

/-- number of 64-bit blocks `all_zero_intvector(element_bits, len)` allocates -/
def nBlocks (elementBits len : Nat) : Nat :=
  let bits := elementBits * len
  if bits % 64 ≠ 0 then bits / 64 + 1 else bits / 64

def cuckooBytes (bs nb lf : Nat) : Nat := 8 * nBlocks lf (nb * bs)

def bitsetBytes (n : Nat) : Nat := 16 * ((n + 127) / 128)

def qfBytes (q r : Nat) : Nat := 3 * bitsetBytes (2 ^ q) + 8 * nBlocks r (2 ^ q)

end Pds.Alloc
