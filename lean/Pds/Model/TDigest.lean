/-
Model of `tdigest::TDigest`, written once over an arbitrary carrier `α` with the arithmetic and
order operations the code uses (individual instance arguments, so that the same definitions run
at `Float` in the driver and are reasoned about over any linearly ordered field in the proofs).
`min`/`max` are `Option α` (`none` = the code's ±infinity of an empty digest).
`none` results of operations = the real code panics (assertions, index underflow).
-/
namespace Pds.TDigest

structure Centroid (α : Type) where
  sum : α
  count : α
  deriving Repr, BEq, DecidableEq, Inhabited

structure ScaleFn (α : Type) where
  f : α → Nat → α
  fInv : α → Nat → α

structure St (α : Type) where
  centroids : List (Centroid α)
  nSamples : Nat
  min : Option α
  max : Option α
  backlog : List (Centroid α)      -- newest first
  maxBacklog : Nat
  deriving Repr, BEq, DecidableEq, Inhabited

section
variable {α : Type} [Add α] [Sub α] [Mul α] [Div α] [LT α] [LE α]
  [DecidableLT α] [DecidableLE α] [OfNat α 0] [OfNat α 1]

def Centroid.mean (c : Centroid α) : α := c.sum / c.count
def Centroid.fuse (a b : Centroid α) : Centroid α := ⟨a.sum + b.sum, a.count + b.count⟩

def half : α := 1 / (1 + 1)

def new (maxBacklog : Nat) : St α := ⟨[], 0, none, none, [], maxBacklog⟩

def isEmpty (s : St α) : Bool := s.centroids.isEmpty && s.backlog.isEmpty

/-- `clear` (also resets `n_samples`) -/
def clear (s : St α) : St α := { s with centroids := [], nSamples := 0, min := none, max := none, backlog := [] }

def totalCount (cs : List (Centroid α)) : α := cs.foldl (fun a c => a + c.count) 0
def totalSum (cs : List (Centroid α)) : α := cs.foldl (fun a c => a + c.sum) 0

/-- the greedy fusion pass of `merge` -/
def mergeLoop (sf : ScaleFn α) (n : Nat) (s : α) :
    List (Centroid α) → Centroid α → α → α → List (Centroid α) → List (Centroid α)
  | [], cur, _, _, acc => (cur :: acc).reverse
  | next :: rest, cur, q0, qLimit, acc =>
    let q := q0 + (cur.count + next.count) / s
    if q ≤ qLimit then mergeLoop sf n s rest (cur.fuse next) q0 qLimit acc
    else
      let q0' := q0 + cur.count / s
      let qLimit' := sf.fInv (sf.f q0' n + 1) n
      mergeLoop sf n s rest next q0' qLimit' (cur :: acc)

/-- `merge`: no-op when the backlog is empty -/
def merge (sf : ScaleFn α) (s : St α) : St α :=
  if s.backlog.isEmpty then s else
  let x := (s.centroids ++ s.backlog.reverse).mergeSort (fun a b => decide (a.mean ≤ b.mean))
  match x with
  | [] => s
  | c0 :: rest =>
    let total := totalCount x
    let qLimit := sf.fInv (sf.f 0 s.nSamples + 1) s.nSamples
    { s with centroids := mergeLoop sf s.nSamples total rest c0 0 qLimit [], backlog := [] }

def minOpt (m : Option α) (x : α) : α := match m with | none => x | some y => if x < y then x else y
def maxOpt (m : Option α) (x : α) : α := match m with | none => x | some y => if y < x then x else y

/-- `insert_weighted` (finiteness of the arguments is checked by the driver glue);
`none` = the weight assertion fires -/
def insertWeighted (sf : ScaleFn α) (s : St α) (x w : α) : Option (St α) :=
  if w < 0 then none
  else if 0 < w then
    let s := { s with backlog := ⟨x * w, w⟩ :: s.backlog, nSamples := s.nSamples + 1,
                      min := some (minOpt s.min x), max := some (maxOpt s.max x) }
    some (if s.backlog.length > s.maxBacklog then merge sf s else s)
  else some s

/-- `interpolate`: `t` is clamped into `[0, 1]` (`t.max(0.).min(1.)`).  `f64::max` returns the other
operand when one is NaN, so a NaN `t` (0/0: a centroid whose half weight underflows to 0) becomes 0:
the test is written `0 ≤ t` (false for NaN), not `t < 0`. -/
def interpolate (a b t : α) : α :=
  let t := if 0 ≤ t then t else 0
  let t := if 1 < t then 1 else t
  t * b + (1 - t) * a

/-- `clamped_mean`: `c.mean().max(min).min(max)` -/
def clampedMean (mn mx : α) (c : Centroid α) : α :=
  let m := c.mean
  let m := if mn ≤ m then m else mn     -- `.max(min)`: a NaN mean becomes `min`
  if mx < m then mx else m

/-- the centroid loop of `quantile`: `some r` = returned from inside the loop, `none` = fell through
(right tail); the inner `Option` is `none` when the `i > 0` assertion / index underflow fires -/
def quantileLoop (mn mx limit : α) : List (Centroid α) → Option (Centroid α) → α → Option (Option α) × α
  | [], _, cum => (none, cum)
  | c :: rest, prev, cum =>
    if limit ≤ cum + c.count * half then
      match prev with
      | none => (some none, cum)   -- debug_assert!(i > 0)
      | some cl =>
        let cum' := cum - half * cl.count
        let delta := half * (cl.count + c.count)
        (some (some (interpolate (clampedMean mn mx cl) (clampedMean mn mx c) ((limit - cum') / delta))), cum)
    else quantileLoop mn mx limit rest (some c) (cum + c.count)

inductive QRes (α : Type) where
  | nan
  | val (x : α)
  | panic

/-- `TDigestInner::quantile` on a merged digest -/
def quantileInner (s : St α) (q : α) : QRes α :=
  match s.centroids, s.min, s.max with
  | [], _, _ => .nan
  | c0 :: _, some mn, some mx =>
    let total := totalCount s.centroids
    let limit := total * q
    if limit ≤ c0.count * half then
      .val (interpolate mn (clampedMean mn mx c0) (limit / (half * c0.count)))
    else
      match quantileLoop mn mx limit s.centroids none 0 with
      | (some (some v), _) => .val v
      | (some none, _) => .panic
      | (none, cum) =>
        match s.centroids.getLast? with
        | none => .panic
        | some cl =>
          let cum' := cum - half * cl.count
          let delta := half * cl.count
          .val (interpolate (clampedMean mn mx cl) mx ((limit - cum') / delta))
  | _ :: _, _, _ => .panic   -- unreachable: centroids non-empty implies min/max set

/-- the centroid loop of `cdf` -/
def cdfLoop (mn mx x total : α) : List (Centroid α) → α → α → α → Option α × α × α
  | [], _, lastMean, lastCum => (none, lastMean, lastCum)
  | c :: rest, cum, lastMean, lastCum =>
    let currentCum := cum + half * c.count
    let mean := clampedMean mn mx c
    if x < mean then
      let delta := mean - lastMean
      let t := (x - lastMean) / delta
      (some (interpolate lastCum currentCum t / total), lastMean, lastCum)
    else cdfLoop mn mx x total rest (cum + c.count) mean currentCum

/-- `TDigestInner::cdf` on a merged digest; `none` = assertion panic -/
def cdfInner (s : St α) (x : α) : Option α :=
  match s.centroids, s.min, s.max with
  | [], _, _ => some 0
  | _ :: _, some mn, some mx =>
    if x < mn then some 0 else
    let total := totalCount s.centroids
    match cdfLoop mn mx x total s.centroids 0 mn 0 with
    | (some r, _, _) => some r
    | (none, lastMean, lastCum) =>
      if x < mx then
        let delta := mx - lastMean
        let t := (x - lastMean) / delta
        some (interpolate lastCum total t / total)
      else some 1
  | _ :: _, _, _ => none

/-- public reads: compress first, then evaluate -/
def quantile (sf : ScaleFn α) (s : St α) (q : α) : St α × QRes α :=
  if 0 ≤ q ∧ q ≤ 1 then let s := merge sf s; (s, quantileInner s q) else (s, .panic)

def cdf (sf : ScaleFn α) (s : St α) (x : α) : St α × Option α :=
  let s := merge sf s; (s, cdfInner s x)

def count (sf : ScaleFn α) (s : St α) : St α × α := let s := merge sf s; (s, totalCount s.centroids)
def sum (sf : ScaleFn α) (s : St α) : St α × α := let s := merge sf s; (s, totalSum s.centroids)
def mean (sf : ScaleFn α) (s : St α) : St α × α :=
  let s := merge sf s; (s, totalSum s.centroids / totalCount s.centroids)
def nCentroids (sf : ScaleFn α) (s : St α) : St α × Nat := let s := merge sf s; (s, s.centroids.length)

/-- scale function `K0` (`delta/2 * q`, clamped), generic in the carrier -/
def k0 (delta : α) : ScaleFn α where
  f q _ :=
    let q := if 1 < q then 1 else q       -- q.min(1.)
    let q := if q < 0 then 0 else q       -- .max(0.)
    delta / (1 + 1) * q
  fInv k _ :=
    let hi := delta / (1 + 1)
    let k := if hi < k then hi else k
    let k := if k < 0 then 0 else k
    k * (1 + 1) / delta

end

/-- transcendental operations used by the scale functions K1, K2, K3 -/
class ScaleOps (α : Type) where
  pi : α
  sin : α → α
  asin : α → α
  log : α → α
  exp : α → α
  /-- `f64::is_infinite` (always `false` over a field) -/
  isInf : α → Bool
  ofNat : Nat → α

section Scales
variable {α : Type} [Add α] [Sub α] [Mul α] [Div α] [Neg α] [LT α] [LE α]
  [DecidableLT α] [DecidableLE α] [OfNat α 0] [OfNat α 1] [ScaleOps α]

/-- `x.min(hi).max(lo)` -/
def clampTo (x lo hi : α) : α :=
  let x := if hi < x then hi else x
  if x < lo then lo else x

def two : α := 1 + 1
def four : α := two + two

/-- scale function `K1`: `delta / (2π) · asin(2q − 1)` -/
def k1 (delta : α) : ScaleFn α where
  f q _ :=
    let q := clampTo q 0 1
    delta / (two * ScaleOps.pi) * ScaleOps.asin (two * q - 1)
  fInv k _ :=
    let range := delta / four       -- 0.25 * delta
    let k := clampTo k (-range) range
    (ScaleOps.sin (k * two * ScaleOps.pi / delta) + 1) / two

/-- `K2::x(n) = delta / (4 ln(n/delta) + 24)`; `K3` uses `+ 21`. -/
def scaleX (delta c : α) (n : Nat) : α :=
  delta / (four * ScaleOps.log (ScaleOps.ofNat n / delta) + c)

/-- scale function `K2`: `x(n) · ln(q / (1 − q))` -/
def k2 (delta c24 : α) : ScaleFn α where
  f q n :=
    let q := clampTo q 0 1
    scaleX delta c24 n * ScaleOps.log (q / (1 - q))
  fInv k n :=
    if ScaleOps.isInf k then (if 0 < k then 1 else 0)
    else
      let z := ScaleOps.exp (k / scaleX delta c24 n)
      z / (z + 1)

/-- scale function `K3`: `x(n) · (ln 2q` for `q ≤ 1/2`, `−ln 2(1 − q)` above`)` -/
def k3 (delta c21 : α) : ScaleFn α where
  f q n :=
    let q := clampTo q 0 1
    let y := if q ≤ half then ScaleOps.log (two * q) else -(ScaleOps.log (two * (1 - q)))
    scaleX delta c21 n * y
  fInv k n :=
    if ScaleOps.isInf k then (if 0 < k then 1 else 0)
    else
      let x := scaleX delta c21 n
      if k ≤ 0 then ScaleOps.exp (k / x) / two else 1 - ScaleOps.exp (-k / x) / two

end Scales

instance : ScaleOps Float where
  pi := Float.ofBits 0x400921FB54442D18
  sin := Float.sin
  asin := Float.asin
  log := Float.log
  exp := Float.exp
  isInf := Float.isInf
  ofNat := Float.ofNat

end Pds.TDigest
