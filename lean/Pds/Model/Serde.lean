/-
Model of `hyperloglog::serde` (Serialize / Deserialize of HyperLogLog).
A document is the ordered list of its fields with values already parsed by `serde_json`
(`none` = the value does not parse as the field's type).  The hasher type `H` is opaque.
-/
import Pds.Model.Hll
namespace Pds.Serde

inductive Field (H : Type) where
  | registers (v : Option (List Nat))     -- `Vec<u8>`: every entry < 256, else `none`
  | b (v : Option Nat)
  | buildhasher (v : Option H)
  | unknown
  deriving Repr

abbrev Doc (H : Type) := List (Field H)

def serialize {H : Type} (s : Hll.St) (h : H) : Doc H :=
  [.registers (some s.regs.toList), .b (some s.b), .buildhasher (some h)]

structure Acc (H : Type) where
  registers : Option (List Nat) := none
  b : Option Nat := none
  buildhasher : Option H := none

/-- the `while let Some(key) = map.next_key()?` loop of `visit_map`; `none` = `Err` -/
def visit {H : Type} : Doc H → Acc H → Option (Acc H)
  | [], acc => some acc
  | .unknown :: _, _ => none
  | .registers v :: rest, acc =>
    if acc.registers.isSome then none else
    match v with | none => none | some r => visit rest { acc with registers := some r }
  | .b v :: rest, acc =>
    if acc.b.isSome then none else
    match v with | none => none | some r => visit rest { acc with b := some r }
  | .buildhasher v :: rest, acc =>
    if acc.buildhasher.isSome then none else
    match v with | none => none | some r => visit rest { acc with buildhasher := some r }

/-- `Deserialize::deserialize`; `none` = `Err`.  The struct is built through the constructor's
checks (`4 ≤ b ≤ 18`, `len = 2^b`). -/
def deserialize {H : Type} (d : Doc H) : Option (Hll.St × H) :=
  match visit d {} with
  | none => none
  | some acc =>
    match acc.registers, acc.b, acc.buildhasher with
    | some r, some b, some h =>
      if r.all (· < 256) then (Hll.withRegisters b r.toArray).map (·, h) else none
    | _, _, _ => none

/-- A positional document (`[registers, b, buildhasher]`, the form compact formats and JSON
arrays use): the visitor implements `visit_map` only, so serde's default `visit_seq` answers
`invalid type: sequence` whatever the values are. -/
def deserializeSeq {H : Type} (_values : Doc H) : Option (Hll.St × H) := none

end Pds.Serde
