/-
Scripted hasher and scripted RNG: the *glue* that lets the executable model be driven with
exactly the hash values and random words the real crate sees in the harness.
Nothing here is the subject of a theorem; it is validated by the correspondence check only.
-/
namespace Pds.Script

/-- Parameters of the harness' `ScriptBuildHasher` (see harness/src/script.rs). -/
structure HashCfg where
  mul : UInt64 := 1
  add : UInt64 := 0
  sh : Nat := 64
  seed : UInt64 := 0
  deriving Repr, BEq, Inhabited

/-- `finish()` of the scripted hasher after the given sequence of written words. -/
def HashCfg.hash (c : HashCfg) (words : List Nat) : Nat :=
  let acc := words.foldl (fun (a : UInt64) w => ((a ^^^ UInt64.ofNat w) * c.mul) + c.add) c.seed
  let sh := c.sh % 256
  let r := if sh < 64 then acc ^^^ (acc >>> UInt64.ofNat sh) else acc
  r.toNat

/-- `BuildHasher::hash_one` of the scripted hasher: the harness overrides the provided method and
xors in a word taken from the bits of `sh` above the low eight (0 = not overridden). -/
def HashCfg.hashOne (c : HashCfg) (words : List Nat) : Nat :=
  (UInt64.ofNat (c.hash words) ^^^ (UInt64.ofNat (c.sh / 256) * 0x9E3779B97F4A7C15)).toNat

/-- splitmix64 with a queue of forced words in front. -/
structure Rng where
  forced : List UInt64 := []
  state : UInt64 := 0
  used : Nat := 0
  deriving Inhabited

def Rng.nextU64 (r : Rng) : UInt64 × Rng :=
  match r.forced with
  | w :: ws => (w, { r with forced := ws, used := r.used + 1 })
  | [] =>
    let s := r.state + 0x9E3779B97F4A7C15
    let z := s
    let z := (z ^^^ (z >>> 30)) * 0xBF58476D1CE4E5B9
    let z := (z ^^^ (z >>> 27)) * 0x94D049BB133111EB
    let z := z ^^^ (z >>> 31)
    (z, { r with state := s, used := r.used + 1 })

/-- rand 0.8 `gen::<bool>()`: sign bit of `next_u32()`; the harness' `next_u32` is the high half
of `next_u64`. -/
def Rng.bool (r : Rng) : Bool × Rng :=
  let (w, r) := r.nextU64
  (w >>> 63 == 1, r)

/-- rand 0.8 `gen_range(0..n)` on `usize` (widening multiply with rejection zone). Fuel bounds the
rejection loop; `none` is reported as `stuck` by the driver. -/
def Rng.below (n : Nat) (r : Rng) : Nat × Rng :=
  if n == 0 then (0, r) else
  let lz := 64 - (Nat.log2 n + 1)
  let zone := ((n <<< lz) % 2^64 + 2^64 - 1) % 2^64
  let rec go (fuel : Nat) (r : Rng) : Nat × Rng :=
    match fuel with
    | 0 => (0, r)
    | fuel + 1 =>
      let (w, r) := r.nextU64
      let p := w.toNat * n
      let hi := p / 2^64
      let lo := p % 2^64
      if lo ≤ zone then (hi, r) else go fuel r
  go 1000 r

/-- rand 0.8 `gen_range(0.0..1.0)` on `f64`: the top 52 bits as a fraction. -/
def Rng.unit (r : Rng) : Float × Rng :=
  let (w, r) := r.nextU64
  (Float.ofNat (w >>> 12).toNat / Float.ofNat (2^52), r)

end Pds.Script
