import Pds.Proofs.KernelTie.SizingBloom
import Pds.Proofs.KernelTie.SizingCuckoo
import Pds.Proofs.KernelTie.HashIter
import Pds.Proofs.KernelTie.Real
import Pds.Props.C07
/-!
# C07 — tie by translation: `BloomFilter::with_properties_and_hash`, `BloomFilter::len`,
`CuckooFilter::with_properties_and_hash_n`, `HashIter::next`
-/
namespace Pds.Tie.C07
open Pds Pds.Sizing Pds.KernelTie Pds.Generated.Kernels
variable {α : Type} [Field α] [LinearOrder α] [IsStrictOrderedRing α] [KOps α] [LawfulKOps α]
attribute [local instance] transc

theorem bloom_with_properties_translated (n : Nat) (p : α) :
    bloom_with_properties n p = bloomParams n p := bloom_with_properties_eq n p
theorem bloom_len_translated (m k x : Nat) : bloom_len α m k x = bloomLen (α := α) m k x := bloom_len_eq m k x
theorem cuckoo_with_properties_translated (bs : Nat) (load p : α) (n : Nat) :
    cuckoo_with_properties bs load p n = cuckooParams bs load p n := cuckoo_with_properties_eq bs load p n
/-- the `i`-th probe position of the model is what the translated `HashIter::next` computes from
`h1 = h_0(x) mod m`, `h2 = h_1(x) mod m`, `f(i)` -/
theorem bloom_positions_translated (hash : List Nat → Nat) (m k x i : Nat) (hm : m ≠ 0) (hi : i < k) :
    (HashIter.positions hash m k x).map (fun l => l[i]?) =
      some (some (hashiter_next i (hash [0, x] % m) (hash [1, x] % m) m (hash [i + 2] % m))) :=
  hashiter_next_eq hash m k x i hm hi

/-- C07's `bloom_params_usable`, for the *translated* constructor over ℝ: it accepts every `n ≥ 1`,
`0 < p < 1` and returns `k, m ≥ 1` -/
theorem bloom_with_properties_usable {n : ℕ} {p : ℝ} (hn : 1 ≤ n) (hp : 0 < p) (hp1 : p < 1) :
    ∃ k m, bloom_with_properties n p = some (k, m) ∧ 1 ≤ k ∧ 1 ≤ m ∧
      k = max 1 ⌊-Real.logb 2 p⌋₊ ∧ m = max 1 ⌊-((n : ℝ) * Real.log p) / (Real.log 2 * Real.log 2)⌋₊ := by
  obtain ⟨k, m, h, hk, hm, ek, em, _⟩ := Pds.Props.C07.bloom_params_usable hn hp hp1
  refine ⟨k, m, ?_, hk, hm, ek, em⟩
  rw [bloom_with_properties_eq, ← h]
  congr 1

/-- the two residues `h1`, `h2` of `HashIterBuilder::iter_for` as translated, and every probe position as `next` of them -/
theorem iter_for_translated (hash : List Nat → Nat) (m k x i : Nat) (hm : m ≠ 0) (hi : i < k) :
    ∃ h1 h2, hashiter_iter_for m (fun x i => hash [i, x]) x = Flow.ret (h1, h2) ∧
      (HashIter.positions hash m k x).map (fun l => l[i]?) = some (some (hashiter_next i h1 h2 m (hash [i + 2] % m))) :=
  hashiter_positions_eq hash m k x i hm hi

/-- the two public wrappers pass `(bucketsize, load_factor) = (4, 0.95)` and `(8, 0.98)` on to the translated sizing
function: the `b` and `load` at which the parameter theorem `cuckoo_params` of C07 is to be read -/
theorem cuckoo_props4_translated (p : α) (n : Nat) : cuckoo_props4_consts p n = (4, (95 : α) / 100) :=
  cuckoo_props4_consts_eq p n
theorem cuckoo_props8_translated (p : α) (n : Nat) : cuckoo_props8_consts p n = (8, (98 : α) / 100) :=
  cuckoo_props8_consts_eq p n

end Pds.Tie.C07
