import Pds.Proofs.KernelTie.TdCore
/-!
# C15 — tie by translation: `interpolate` and `clamped_mean` of `src/tdigest.rs`
The two functions through which `quantile` and `cdf` produce every value they return.
-/
namespace Pds.Tie.C15
open Pds Pds.TDigest Pds.KernelTie
variable {α : Type} [Field α] [LinearOrder α] [IsStrictOrderedRing α] [KOps α] [LawfulKOps α]

theorem interpolate_translated (a b t : α) :
    Pds.Generated.Kernels.interpolate a b t = TDigest.interpolate a b t := interpolate_eq a b t
theorem clamped_mean_translated (mn mx : α) (c : Centroid α) :
    Pds.Generated.Kernels.clamped_mean mn mx c.sum c.count = clampedMean mn mx c := clamped_mean_eq mn mx c

end Pds.Tie.C15
