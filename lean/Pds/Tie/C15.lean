import Pds.Proofs.KernelTie.TdGuardQ
import Pds.Proofs.KernelTie.TdCore
import Pds.Proofs.KernelTie.TdRead
import Pds.Props.C15
/-!
# C15 — tie by translation: `interpolate` and `clamped_mean` of `src/tdigest.rs`
The two functions through which `quantile` and `cdf` produce every value they return.
-/
namespace Pds.Tie.C15
open Pds Pds.TDigest Pds.KernelTie
variable {α : Type} [Field α] [LinearOrder α] [IsStrictOrderedRing α] [KOps α] [LawfulKOps α]

theorem interpolate_translated (a b t : α) :
    Pds.Generated.Kernels.interpolate a b t = TDigest.interpolate a b t := interpolate_eq a b t
theorem clamped_mean_translated (mn mx : α) (c : Centroid α) :
    Pds.Generated.Kernels.clamped_mean mn mx c.sum c.count = clampedMean mn mx c := clamped_mean_eq mn mx c

/-- `TDigestInner::quantile` as translated (loop over the centroids with `enumerate`, early returns, the
`debug_assert!(i > 0)`, `self.centroids[i - 1]`, both tails) is the model's `quantileInner` -/
theorem quantile_translated (s : St α) (mn mx q : α) (hmin : s.min = some mn) (hmax : s.max = some mx) :
    Pds.Generated.Kernels.td_quantile s.centroids mn mx q =
      match quantileInner s q with
      | .nan => Flow.ret KOps.nan
      | .val v => Flow.ret v
      | .panic => Flow.panic := td_quantile_eq s mn mx q hmin hmax
/-- `TDigestInner::cdf` as translated is the model's `cdfInner` -/
theorem cdf_translated (s : St α) (mn mx x : α) (hmin : s.min = some mn) (hmax : s.max = some mx) :
    Pds.Generated.Kernels.td_cdf s.centroids mn mx x =
      match cdfInner s x with | some r => Flow.ret r | none => Flow.panic := td_cdf_eq s mn mx x hmin hmax

/-- `quantile` answers NaN only on an empty digest -/
theorem nan_only_if_empty {s : St α} {q mn mx : α} (hmin : s.min = some mn) (hmax : s.max = some mx)
    (hq : quantileInner s q = .nan) : s.centroids = [] := by
  unfold quantileInner at hq
  cases hc : s.centroids with
  | nil => rfl
  | cons c0 cs =>
    exfalso
    rw [hc, hmin, hmax] at hq
    simp only at hq
    split at hq
    · cases hq
    · split at hq
      · cases hq
      · cases hq
      · cases hg : (c0 :: cs).getLast? with
        | none => simp at hg
        | some cl => rw [hg] at hq; cases hq

/-! ### the clauses of C15, for the translated `quantile` and `cdf` themselves -/

/-- what the translated `quantile` returns on a well-formed digest lies within `[min, max]` -/
theorem quantile_translated_in_range {s : St α} (h : WF s) {q v mn mx : α} (hq0 : 0 ≤ q) (hq1 : q ≤ 1)
    (hmin : s.min = some mn) (hmax : s.max = some mx)
    (hv : Pds.Generated.Kernels.td_quantile s.centroids mn mx q = Flow.ret v) (hne : s.centroids ≠ []) :
    mn ≤ v ∧ v ≤ mx := by
  rw [td_quantile_eq s mn mx q hmin hmax] at hv
  cases hq : quantileInner s q with
  | nan => exact absurd (nan_only_if_empty hmin hmax hq) hne
  | val w =>
    rw [hq] at hv
    have : w = v := by simpa using hv
    subst this
    exact Pds.Props.C15.quantile_in_range h hq0 hq1 hq hmin hmax
  | panic => rw [hq] at hv; simp at hv

/-- the translated `quantile` is non-decreasing in `q` -/
theorem quantile_translated_mono {s : St α} (h : WF s) {q₁ q₂ v₁ v₂ mn mx : α} (h0 : 0 ≤ q₁) (h12 : q₁ ≤ q₂) (h1 : q₂ ≤ 1)
    (hmin : s.min = some mn) (hmax : s.max = some mx) (hne : s.centroids ≠ [])
    (hv₁ : Pds.Generated.Kernels.td_quantile s.centroids mn mx q₁ = Flow.ret v₁)
    (hv₂ : Pds.Generated.Kernels.td_quantile s.centroids mn mx q₂ = Flow.ret v₂) : v₁ ≤ v₂ := by
  rw [td_quantile_eq s mn mx _ hmin hmax] at hv₁ hv₂
  have key : ∀ q v, (match quantileInner s q with
      | .nan => (Flow.ret KOps.nan : Flow α Unit) | .val w => Flow.ret w | .panic => Flow.panic) = Flow.ret v →
      quantileInner s q = .val v := by
    intro q v hv
    cases hq : quantileInner s q with
    | nan => exact absurd (nan_only_if_empty hmin hmax hq) hne
    | val w => rw [hq] at hv; simp at hv; rw [hv]
    | panic => rw [hq] at hv; simp at hv
  exact Pds.Props.C15.quantile_mono h h0 h12 h1 (key _ _ hv₁) (key _ _ hv₂)

/-- the translated `cdf` never panics on a well-formed digest and answers within `[0, 1]` -/
theorem cdf_translated_in_unit {s : St α} (h : WF s) (x : α) {mn mx : α} (hmin : s.min = some mn) (hmax : s.max = some mx) :
    ∃ v, Pds.Generated.Kernels.td_cdf s.centroids mn mx x = Flow.ret v ∧ 0 ≤ v ∧ v ≤ 1 := by
  obtain ⟨v, hv, h0, h1⟩ := Pds.Props.C15.cdf_in_unit h x
  exact ⟨v, by rw [td_cdf_eq s mn mx x hmin hmax, hv], h0, h1⟩

/-- the range assertion of the public `quantile` (`(0. ..=1.).contains(&q)`) as translated is the model's guard -/
theorem quantile_guard_translated (q : α) :
    Pds.Generated.Kernels.td_quantile_guard q = if 0 ≤ q ∧ q ≤ 1 then Flow.ret true else Flow.panic := td_quantile_guard_eq q

/-- the NaN assertion of the public `cdf` as translated -/
theorem cdf_guard_translated (x : α) :
    Pds.Generated.Kernels.td_cdf_guard x = if KOps.isNan x = true then Flow.panic else Flow.ret true := td_cdf_guard_eq x

end Pds.Tie.C15
