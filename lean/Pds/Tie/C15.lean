import Pds.Proofs.KernelTie.TdCore
import Pds.Proofs.KernelTie.TdRead
/-!
# C15 — tie by translation: `interpolate` and `clamped_mean` of `src/tdigest.rs`
The two functions through which `quantile` and `cdf` produce every value they return.
-/
namespace Pds.Tie.C15
open Pds Pds.TDigest Pds.KernelTie
variable {α : Type} [Field α] [LinearOrder α] [IsStrictOrderedRing α] [KOps α] [LawfulKOps α]

theorem interpolate_translated (a b t : α) :
    Pds.Generated.Kernels.interpolate a b t = TDigest.interpolate a b t := interpolate_eq a b t
theorem clamped_mean_translated (mn mx : α) (c : Centroid α) :
    Pds.Generated.Kernels.clamped_mean mn mx c.sum c.count = clampedMean mn mx c := clamped_mean_eq mn mx c

/-- `TDigestInner::quantile` as translated (loop over the centroids with `enumerate`, early returns, the
`debug_assert!(i > 0)`, `self.centroids[i - 1]`, both tails) is the model's `quantileInner` -/
theorem quantile_translated (s : St α) (mn mx q : α) (hmin : s.min = some mn) (hmax : s.max = some mx) :
    Pds.Generated.Kernels.td_quantile s.centroids mn mx q =
      match quantileInner s q with
      | .nan => Flow.ret KOps.nan
      | .val v => Flow.ret v
      | .panic => Flow.panic := td_quantile_eq s mn mx q hmin hmax
/-- `TDigestInner::cdf` as translated is the model's `cdfInner` -/
theorem cdf_translated (s : St α) (mn mx x : α) (hmin : s.min = some mn) (hmax : s.max = some mx) :
    Pds.Generated.Kernels.td_cdf s.centroids mn mx x =
      match cdfInner s x with | some r => Flow.ret r | none => Flow.panic := td_cdf_eq s mn mx x hmin hmax

end Pds.Tie.C15
