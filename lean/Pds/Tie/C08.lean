import Pds.Proofs.KernelTie.CmsQuery
import Pds.Proofs.KernelTie.MergeCms
import Pds.Proofs.KernelTie.CmsOps
import Pds.Proofs.KernelTie.SizingCms
import Pds.Proofs.KernelTie.HashIter
import Pds.Proofs.KernelTie.Real
import Pds.Props.C08
/-!
# C08 — tie by translation: `CountMinSketch::with_point_query_properties_and_hasher`, `HashIter::next`
-/
namespace Pds.Tie.C08
open Pds Pds.Sizing Pds.KernelTie Pds.Generated.Kernels
variable {α : Type} [Field α] [LinearOrder α] [IsStrictOrderedRing α] [KOps α] [LawfulKOps α]
attribute [local instance] transc

theorem cms_with_point_query_properties_translated (eps delta : α) (he : (KOps.e : α) = KOps.exp 1) :
    cms_with_point_query_properties eps delta = cmsParams eps delta :=
  cms_with_point_query_properties_eq eps delta he
theorem cms_columns_translated (hash : List Nat → Nat) (w d x i : Nat) (hw : w ≠ 0) (hi : i < d) :
    (HashIter.positions hash w d x).map (fun l => l[i]?) =
      some (some (hashiter_next i (hash [0, x] % w) (hash [1, x] % w) w (hash [i + 2] % w))) :=
  hashiter_next_eq hash w d x i hw hi

/-- C08's `cms_params`, for the *translated* constructor over ℝ -/
theorem cms_with_point_query_properties_real {ε δ : ℝ} (hε : 0 < ε) (hδ : 0 < δ) (hδ1 : δ < 1) :
    ∃ w d, cms_with_point_query_properties ε δ = some (w, d) ∧ w = ⌈Real.exp 1 / ε⌉₊ ∧ d = ⌈Real.log (1 / δ)⌉₊ ∧
      Real.exp 1 / ε ≤ (w : ℝ) ∧ 1 ≤ w ∧ 1 ≤ d ∧ Real.exp (-(d : ℝ)) ≤ δ := by
  obtain ⟨w, d, h, r⟩ := Pds.Props.C08.cms_params hε hδ hδ1
  refine ⟨w, d, ?_, r⟩
  rw [cms_with_point_query_properties_eq ε δ real_e, ← h]
  congr 1
  exact transc_real

/-- the histories of C08 are built from `add_n` and `merge`: both as translated are the model's -/
theorem cms_add_n_translated (s : Cms.St) (cols : List Nat) (n : Nat) :
    cms_add_n s.w s.cmax s.table.toList n cols =
      match Cms.addCols s cols n with
      | none => Flow.panic
      | some (s', r) => Flow.ret (r, s'.table.toList) := cms_add_n_eq s cols n

theorem cms_merge_translated (s o : Cms.St) :
    cms_merge s.w s.d s.cmax s.table.toList o.w o.d o.table.toList =
      match Cms.merge s o with
      | none => Flow.panic
      | some s' => Flow.cont s'.table.toList := cms_merge_eq s o

/-- `query_point` as translated (the iterator pipeline `enumerate → i·w + pos → table[x] → min().unwrap()`) on the element's
columns is the model's `queryCols`: the minimum of the addressed cells; `none` = an index panic or `d = 0` -/
theorem cms_query_point_translated (s : Cms.St) (cols : List Nat) :
    cms_query_point s.w s.table.toList cols =
      match Cms.queryCols s cols with
      | none => Flow.panic
      | some v => Flow.ret v := cms_query_point_eq s cols

/-- the two residues `h1`, `h2` of `HashIterBuilder::iter_for` as translated, and every probe position as `next` of them -/
theorem iter_for_translated (hash : List Nat → Nat) (m k x i : Nat) (hm : m ≠ 0) (hi : i < k) :
    ∃ h1 h2, hashiter_iter_for m (fun x i => hash [i, x]) x = Flow.ret (h1, h2) ∧
      (HashIter.positions hash m k x).map (fun l => l[i]?) = some (some (hashiter_next i h1 h2 m (hash [i + 2] % m))) :=
  hashiter_positions_eq hash m k x i hm hi

end Pds.Tie.C08
