import Pds.Proofs.KernelTie.Quotient
/-!
# C13 — tie by translation: `QuotientFilter::calc_quotient_remainder`
-/
namespace Pds.Tie.C13
open Pds Pds.KernelTie Pds.Generated.Kernels

theorem calc_quotient_remainder_translated (q r fp : Nat) :
    qf_calc_quotient_remainder q r fp = Quotient.calcQR q r fp := qf_calc_quotient_remainder_eq q r fp

end Pds.Tie.C13
