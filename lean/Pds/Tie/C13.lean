import Pds.Proofs.KernelTie.CtorQf
import Pds.Proofs.KernelTie.Quotient
import Pds.Proofs.KernelTie.QfOps
import Pds.Proofs.KernelTie.QfUnion
/-!
# C13 — tie by translation: `QuotientFilter::calc_quotient_remainder`
-/
namespace Pds.Tie.C13
open Pds Pds.KernelTie Pds.Generated.Kernels

theorem calc_quotient_remainder_translated (q r fp : Nat) :
    qf_calc_quotient_remainder q r fp = Quotient.calcQR q r fp := qf_calc_quotient_remainder_eq q r fp

/-- `QuotientFilter::scan` as translated — the walk back over shifted slots, the walk forward over runs and
occupied buckets, the search within the run, with the fuel `len + 1` for every `while`/`loop` — is the model's
`scan`, for every table size: the function on which `scan_correct`, `scan_insertion_point` and through them all
of C13 rest -/
theorem scan_translated {N : Nat} (t : Quotient.St N) (q : Fin N) (r : Nat) (onInsert : Bool) :
    qf_scan (occL t) (contL t) (shiftL t) (remL t) q.val r onInsert =
      match Quotient.scan t q r onInsert with
      | none => Flow.panic
      | some sr => Flow.ret ⟨sr.present, sr.position.val, sr.startOfRun.map (·.val)⟩ := qf_scan_eq t q r onInsert

/-- `QuotientFilter::insert_internal` as translated — the scan, the known / full exits, the three conditional
metadata writes at the insert position, the swap chain `while current_used { … }` with its
`panic!("infinite loop detected")`, `is_occupied.set(quotient, true)`, `n_elements += 1` — is the model's
`insertInternal` (`Ok(false)` ↦ 0, `Ok(true)` ↦ 1, `Err(QuotientFilterFull)` ↦ 2), for every table size -/
theorem insert_internal_translated {N : Nat} (t : Quotient.St N) (q : Fin N) (r : Nat) :
    qf_insert_internal (occL t) (contL t) (shiftL t) (remL t) t.n q.val r =
      match Quotient.insertInternal t q r with
      | none => Flow.panic
      | some (t', res) => Flow.ret (qfRes res, (occL t', contL t', shiftL t', remL t', t'.n)) := qf_insert_internal_eq t q r

/-- the public `query` / `insert` as translated, on the (quotient, remainder) that `calc_quotient_remainder`
(`calc_quotient_remainder_translated`) yields for the element's 64-bit hash: the model's `Quotient.query` /
`Quotient.insert` -/
theorem query_translated {N : Nat} (qb rb : Nat) (t : Quotient.St N) (fp quo rm : Nat)
    (hc : qf_calc_quotient_remainder qb rb fp = (quo, rm)) (h : quo < N) :
    qf_query (occL t) (contL t) (shiftL t) (remL t) quo rm =
      match Quotient.query qb rb t fp with
      | none => Flow.panic
      | some b => Flow.ret b := by
  have hq := qf_query_eq t ⟨quo, h⟩ rm
  simp only at hq
  rw [hq]
  rw [qf_calc_quotient_remainder_eq] at hc
  unfold Quotient.query
  rw [hc]
  simp only [h, dif_pos]
  cases Quotient.scan t ⟨quo, h⟩ rm false <;> rfl

theorem insert_translated {N : Nat} (qb rb : Nat) (t : Quotient.St N) (fp quo rm : Nat)
    (hc : qf_calc_quotient_remainder qb rb fp = (quo, rm)) (h : quo < N) :
    qf_insert (occL t) (contL t) (shiftL t) (remL t) t.n quo rm =
      match Quotient.insert qb rb t fp with
      | none => Flow.panic
      | some (t', res) => Flow.ret (qfRes res, (occL t', contL t', shiftL t', remL t', t'.n)) := by
  have hq := qf_insert_eq t ⟨quo, h⟩ rm
  simp only at hq
  rw [hq]
  rw [qf_calc_quotient_remainder_eq] at hc
  unfold Quotient.insert
  rw [hc]
  simp only [h, dif_pos]
  rfl

/-- `QuotientFilter::union` as translated is the model's `union` (for every table size; `Err(Full)` = 2 restores
the complete backup, `Ok(())` = 1) -/
theorem qf_union_translated {N : Nat} (qb rb : Nat) (t o : Quotient.St N) :
    qf_union qb rb (occL t) (contL t) (shiftL t) (remL t) t.n qb rb (occL o) (contL o) (shiftL o) (remL o) =
      match Quotient.union t o with
      | none => Flow.panic
      | some (t', .full) => Flow.ret (2, (occL t', contL t', shiftL t', remL t', t'.n))
      | some (t', .ok _) => Flow.ret (1, (occL t', contL t', shiftL t', remL t', t'.n)) := qf_union_eq qb rb t o

/-- a bit-width mismatch between the two filters is the `assert_eq!` panic -/
theorem qf_union_mismatch_translated (qb rb qb' rb' : Nat) (h : qb ≠ qb' ∨ rb ≠ rb') (a b c : List Bool) (d : List Nat) (n : Nat)
    (a' b' c' : List Bool) (d' : List Nat) :
    qf_union qb rb a b c d n qb' rb' a' b' c' d' = Flow.panic := qf_union_mismatch qb rb qb' rb' h a b c d n a' b' c' d'

/-- `QuotientFilter::with_params_and_hash` as translated (three assertions, `len = 1 << bits_quotient`) accepts exactly
the pairs of `paramsOk`, the hypothesis of the public-API theorems of C13, with `2 ^ q` slots -/
theorem with_params_translated (q r : Nat) :
    qf_with_params q r = if Quotient.paramsOk q r then Flow.ret (2 ^ q) else Flow.panic := qf_with_params_eq q r

end Pds.Tie.C13
