import Pds.Proofs.KernelTie.SizingLossy
import Pds.Proofs.KernelTie.LossyWindow
/-!
# C09 — tie by translation: `LossyCounter::with_epsilon` (the width) and the integer bound of `query`
-/
namespace Pds.Tie.C09
open Pds Pds.Sizing Pds.KernelTie Pds.Generated.Kernels
variable {α : Type} [Field α] [LinearOrder α] [IsStrictOrderedRing α] [KOps α] [LawfulKOps α]
attribute [local instance] transc

theorem lossy_with_epsilon_translated (eps : α) : lossy_with_epsilon eps = lossyWidth eps := lossy_with_epsilon_eq eps
theorem lossy_query_bound_translated (eps threshold : α) (n : Nat)
    (hneg : ∀ x : α, x < 0 → KOps.toNat x = KOps.toNat (0 : α)) :
    lossy_query_bound eps n threshold = lossyBound threshold eps n := lossy_query_bound_eq eps threshold n hneg

theorem add_window_translated (n w : Nat) :
    lossy_add_window n w = ((n + 1) % w = 0, (n + 1) / w + (if (n + 1) % w = 0 then 0 else 1)) := lossy_add_window_eq n w

end Pds.Tie.C09
