import Pds.Proofs.KernelTie.Reservoir
import Pds.Props.C05
import Pds.Proofs.KernelTie.ReservoirAdd
/-!
# C05 — tie by translation: `ReservoirSampling::draw_gap`

The gap formula is regenerated from the source (`Pds/Generated/Kernels/Reservoir.lean`); over ℝ it is the
expression of `gap_geometric_law`, so the geometric law — the fact `switch_uniform` needs — holds for the
gap *the code computes*: for a uniform draw `v ∈ [0, 1)` and `k ≤ seen`,
`P(gap ≥ s) = (1 − k/(seen+1))^s`, and `gap = 0` exactly when `v < k/(seen+1)`.
-/
namespace Pds.Tie.C05
open Pds Pds.KernelTie Pds.Generated.Kernels

theorem draw_gap_translated (k seen : Nat) (v : ℝ) :
    reservoir_draw_gap k seen v
      = ⌊Real.log (1 - v) / Real.log (1 - (k : ℝ) / ((seen + 1 : ℕ) : ℝ))⌋.toNat :=
  reservoir_draw_gap_real k seen v

/-- the geometric law for the translated `draw_gap` -/
theorem draw_gap_geometric {k seen : Nat} {v : ℝ} (hk : 0 < k) (hks : k ≤ seen) (hv : 0 ≤ v ∧ v < 1) (s : ℕ) :
    s ≤ reservoir_draw_gap k seen v ↔ 1 - v ≤ (1 - (k : ℝ) / ((seen + 1 : ℕ) : ℝ)) ^ s := by
  rw [draw_gap_translated]
  have hs : (0 : ℝ) < ((seen + 1 : ℕ) : ℝ) := by positivity
  have hp0 : (0 : ℝ) < (k : ℝ) / ((seen + 1 : ℕ) : ℝ) := div_pos (by exact_mod_cast hk) hs
  have hp1 : (k : ℝ) / ((seen + 1 : ℕ) : ℝ) < 1 := by
    rw [div_lt_one hs]; exact_mod_cast Nat.lt_succ_of_le hks
  exact Pds.Props.C05.gap_geometric_law ⟨by linarith [hv.2], by linarith [hv.1]⟩ ⟨hp0, hp1⟩ s

/-- the gap is zero — the next item is accepted — exactly when the uniform draw falls below the acceptance
probability `k / (seen + 1)` -/
theorem draw_gap_zero_iff {k seen : Nat} {v : ℝ} (hk : 0 < k) (hks : k ≤ seen) (hv : 0 ≤ v ∧ v < 1) :
    reservoir_draw_gap k seen v = 0 ↔ v < (k : ℝ) / ((seen + 1 : ℕ) : ℝ) := by
  have h1 := draw_gap_geometric hk hks hv 1
  constructor
  · intro h0
    by_contra hc
    have : 1 ≤ reservoir_draw_gap k seen v := h1.mpr (by simp only [pow_one]; linarith [not_lt.mp hc])
    omega
  · intro hlt
    by_contra hc
    have : 1 ≤ reservoir_draw_gap k seen v := Nat.one_le_iff_ne_zero.mpr hc
    have := h1.mp this
    simp only [pow_one] at this
    linarith

/-- `ReservoirSampling::add` as translated (three phases, the order of the RNG requests, the slot writes)
is the model's `add`, for every RNG interface and state -/
theorem add_translated {R : Type} (I : Reservoir.RngI R) (s : Reservoir.St R) (x : Nat) (hk : s.k * 4 < 2 ^ 64) :
    reservoir_add R I s.k s.rng s.res.toList s.i s.skipUntil x =
      match Reservoir.add I s x with
      | none => Flow.panic
      | some s' => Flow.cont (s'.rng, s'.res.toList, s'.i, s'.skipUntil) := reservoir_add_eq I s x hk

end Pds.Tie.C05
