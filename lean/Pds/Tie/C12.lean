import Pds.Proofs.KernelTie.CuckooUnion
import Pds.Proofs.KernelTie.QfOps
import Pds.Proofs.KernelTie.QfUnion
/-!
# C12 — tie by translation (flow mode): the rollback machinery of the cuckoo filter
`insert_internal` (what it logs), `restore_state` (how the log is replayed) and the public `insert`
(rollback exactly when `insert_internal` failed) as translated from the source are the model's.
-/
namespace Pds.Tie.C12
open Pds Pds.KernelTie Pds.Generated.Kernels Pds.Cuckoo

theorem insert_internal_translated {R : Type} (I : RngI R) (hash : List Nat → Nat) (bs nb kicks : Nat)
    (t : Array Nat) (n : Nat) (rng : R) (lg : List (Nat × Nat)) (f i1 i2 : Nat) :
    cuckoo_insert_internal R I (bucketOf hash nb) bs t.toList n rng f i1 i2 lg kicks =
      match insertInternal I hash bs nb kicks t n rng lg.reverse f i1 i2 with
      | none => Flow.panic
      | some st => Flow.ret (resB st.res, (st.table.toList, st.n, st.rng, st.log.reverse)) :=
  cuckoo_insert_internal_eq I hash bs nb kicks t n rng lg f i1 i2

theorem restore_state_translated (lg : List (Nat × Nat)) (t : Array Nat) (h : ∀ p ∈ lg, p.1 < t.size) :
    cuckoo_restore_state t.toList lg = Flow.cont (restore t lg.reverse).toList := cuckoo_restore_state_eq lg t h

theorem insert_translated {R : Type} (I : RngI R) (hash : List Nat → Nat) (kicks : Nat) (s : St R) (x : Nat) :
    cuckoo_insert R I (bucketOf hash s.nb) s.bs s.table.toList s.n s.rng (start hash s x).1 (start hash s x).2.1 (start hash s x).2.2 kicks =
      match Cuckoo.insert I hash kicks s x with
      | none => Flow.panic
      | some (s', r) => Flow.ret (resB r, (s'.table.toList, s'.n, s'.rng)) := cuckoo_insert_eq' I hash kicks s x

/-- every position `insert_internal` logs is a slot of the table, so the rollback never indexes out of bounds -/
theorem insert_internal_log_in_bounds {R : Type} (I : RngI R) (hash : List Nat → Nat) (bs nb kicks : Nat)
    (t : Array Nat) (n : Nat) (rng : R) (lg : Log) (f i1 i2 : Nat) (st : Step R)
    (h : insertInternal I hash bs nb kicks t n rng lg f i1 i2 = some st) (hl : LogOk t lg) :
    LogOk st.table st.log ∧ st.table.size = t.size := insertInternal_log I hash bs nb kicks t n rng lg f i1 i2 st h hl

/-- `union` as translated (assertions, walk over the other table, `insert_internal` per used slot, and on
failure `restore_state` + `n_elements = n_elements_backup` + `Err`) is the model's `union` -/
theorem union_translated {R : Type} (I : RngI R) (hash : List Nat → Nat) (kicks : Nat) (s o : St R) (hbs : 0 < s.bs) :
    cuckoo_union R I (bucketOf hash s.nb) s.bs s.nb s.lf s.table.toList s.n s.rng o.table.toList o.bs o.nb o.lf kicks =
      match Cuckoo.union I hash kicks s o with
      | none => Flow.panic
      | some (s', r) => Flow.ret (resB r, (s'.table.toList, s'.n, s'.rng)) := cuckoo_union_eq I hash kicks s o hbs

/-- the quotient filter's `insert_internal` as translated is the model's `insertInternal` (0 = `Ok(false)`,
1 = `Ok(true)`, 2 = `Err(QuotientFilterFull)`) -/
theorem qf_insert_internal_translated {N : Nat} (t : Quotient.St N) (q : Fin N) (r : Nat) :
    qf_insert_internal (occL t) (contL t) (shiftL t) (remL t) t.n q.val r =
      match Quotient.insertInternal t q r with
      | none => Flow.panic
      | some (t', res) => Flow.ret (qfRes res, (occL t', contL t', shiftL t', remL t', t'.n)) := qf_insert_internal_eq t q r

/-- `QuotientFilter::union` as translated is the model's `union` (for every table size; `Err(Full)` = 2 restores
the complete backup, `Ok(())` = 1) -/
theorem qf_union_translated {N : Nat} (qb rb : Nat) (t o : Quotient.St N) :
    qf_union qb rb (occL t) (contL t) (shiftL t) (remL t) t.n qb rb (occL o) (contL o) (shiftL o) (remL o) =
      match Quotient.union t o with
      | none => Flow.panic
      | some (t', .full) => Flow.ret (2, (occL t', contL t', shiftL t', remL t', t'.n))
      | some (t', .ok _) => Flow.ret (1, (occL t', contL t', shiftL t', remL t', t'.n)) := qf_union_eq qb rb t o

/-- a bit-width mismatch between the two filters is the `assert_eq!` panic -/
theorem qf_union_mismatch_translated (qb rb qb' rb' : Nat) (h : qb ≠ qb' ∨ rb ≠ rb') (a b c : List Bool) (d : List Nat) (n : Nat)
    (a' b' c' : List Bool) (d' : List Nat) :
    qf_union qb rb a b c d n qb' rb' a' b' c' d' = Flow.panic := qf_union_mismatch qb rb qb' rb' h a b c d n a' b' c' d'

end Pds.Tie.C12
