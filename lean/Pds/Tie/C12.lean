import Pds.Proofs.KernelTie.CuckooOps
/-!
# C12 — tie by translation (flow mode): the rollback machinery of the cuckoo filter
`insert_internal` (what it logs), `restore_state` (how the log is replayed) and the public `insert`
(rollback exactly when `insert_internal` failed) as translated from the source are the model's.
-/
namespace Pds.Tie.C12
open Pds Pds.KernelTie Pds.Generated.Kernels Pds.Cuckoo

theorem insert_internal_translated {R : Type} (I : RngI R) (hash : List Nat → Nat) (bs nb kicks : Nat)
    (t : Array Nat) (n : Nat) (rng : R) (lg : List (Nat × Nat)) (f i1 i2 : Nat) :
    cuckoo_insert_internal R I (bucketOf hash nb) bs t.toList n rng f i1 i2 lg kicks =
      match insertInternal I hash bs nb kicks t n rng lg.reverse f i1 i2 with
      | none => Flow.panic
      | some st => Flow.ret (resB st.res, (st.table.toList, st.n, st.rng, st.log.reverse)) :=
  cuckoo_insert_internal_eq I hash bs nb kicks t n rng lg f i1 i2

theorem restore_state_translated (lg : List (Nat × Nat)) (t : Array Nat) (h : ∀ p ∈ lg, p.1 < t.size) :
    cuckoo_restore_state t.toList lg = Flow.cont (restore t lg.reverse).toList := cuckoo_restore_state_eq lg t h

theorem insert_translated {R : Type} (I : RngI R) (hash : List Nat → Nat) (kicks : Nat) (s : St R) (x : Nat)
    (hlog : ∀ st, insertInternal I hash s.bs s.nb kicks s.table s.n s.rng [] (start hash s x).1 (start hash s x).2.1 (start hash s x).2.2 = some st →
      ∀ p ∈ st.log, p.1 < st.table.size) :
    cuckoo_insert R I (bucketOf hash s.nb) s.bs s.table.toList s.n s.rng (start hash s x).1 (start hash s x).2.1 (start hash s x).2.2 kicks =
      match Cuckoo.insert I hash kicks s x with
      | none => Flow.panic
      | some (s', r) => Flow.ret (resB r, (s'.table.toList, s'.n, s'.rng)) := cuckoo_insert_eq I hash kicks s x hlog

end Pds.Tie.C12
