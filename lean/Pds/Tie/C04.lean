import Pds.Proofs.KernelTie.TdScale
import Pds.Proofs.KernelTie.TdCore
import Pds.Props.C04
import Pds.Proofs.KernelTie.TdMerge
import Pds.Proofs.KernelTie.TdRead
import Pds.Proofs.KernelTie.Real
/-!
# C04 — tie by translation: the scale functions and centroid arithmetic of `src/tdigest.rs`

`K0_f … K3_f_inv`, `Centroid_fuse`, `Centroid_mean` are regenerated from the source on every run
(`Pds/Generated/Kernels/TdScale.lean`, `TdCore.lean`).  The theorems below state that the scale
functions the code defines *are* the model's `k0 δ`, `k1 δ`, `k2 δ 24`, `k3 δ 21`, so every C04 theorem
about the model's scale functions is a theorem about the translated ones (`centroid_bound_K0_translated`
spells one out).
-/
namespace Pds.Tie.C04
open Pds Pds.TDigest Pds.KernelTie Pds.Generated.Kernels
variable {α : Type} [Field α] [LinearOrder α] [IsStrictOrderedRing α] [KOps α] [LawfulKOps α]
attribute [local instance] scaleOps

theorem scale_K0_translated (δ : α) : genK0 δ = k0 δ := genK0_eq δ
theorem scale_K1_translated (δ : α) : genK1 δ = k1 δ := genK1_eq δ
theorem scale_K2_translated (δ : α) : genK2 δ = k2 δ 24 := genK2_eq δ
theorem scale_K3_translated (δ : α) : genK3 δ = k3 δ 21 := genK3_eq δ

theorem fuse_translated (a b : Centroid α) :
    Centroid_fuse a.sum a.count b.sum b.count = ((a.fuse b).sum, (a.fuse b).count) := centroid_fuse a b
theorem mean_translated (c : Centroid α) : Centroid_mean c.sum c.count = c.mean := centroid_mean c

/-- the size bound of C04, for the digest that runs the *translated* `K0::f` / `K0::f_inv` -/
theorem centroid_bound_K0_translated {δ : α} (hδ : 0 < δ) {mb : Nat} {ops : List (Op α)} {s : St α}
    (h : run (genK0 δ) (new mb) ops = some s) :
    ((nCentroids (genK0 δ) s).2 : α) < δ + 1 := by
  rw [genK0_eq] at h ⊢
  exact Pds.Props.C04.centroid_bound_K0 hδ h

/-- … and for the translated `K1` over ℝ (`Real.arcsin`, `Real.sin`, `Real.pi`) -/
theorem centroid_bound_K1_translated {δ : ℝ} (hδ : 0 < δ) {mb : Nat} {ops : List (Op ℝ)} {s : St ℝ}
    (h : run (genK1 δ) (new mb) ops = some s) :
    ((nCentroids (genK1 δ) s).2 : ℝ) < δ + 1 := by
  rw [genK1_eq] at h ⊢
  exact Pds.Props.C04.centroid_bound_K1 hδ h

/-! ### flow mode: the fusion pass of `merge`, `quantile`, `cdf` -/

/-- `TDigestInner::merge` after its sort, as translated, on the model's sorted input: it leaves exactly the
centroids of the model's `merge` (every C04 theorem about `merge` — sortedness, the greedy k-size invariant,
the cluster widths — is about this list) -/
theorem merge_translated (sf : ScaleFn α) (s : St α) :
    td_merge_pass s.backlog s.nSamples sf s.centroids
        ((s.centroids ++ s.backlog.reverse).mergeSort (fun a b => decide (a.mean ≤ b.mean))) =
      if s.backlog.isEmpty then Flow.ret s.centroids else Flow.cont (merge sf s).centroids := by
  rw [td_merge_pass_eq]
  by_cases hb : s.backlog.isEmpty
  · simp [hb]
  · simp only [hb, Bool.false_eq_true, if_false]
    have hne : (s.centroids ++ s.backlog.reverse).mergeSort (fun a b => decide (a.mean ≤ b.mean)) ≠ [] := by
      intro h
      have := congrArg List.length h
      rw [List.length_mergeSort] at this
      simp at this
      exact hb (by simp [this.2])
    unfold merge
    simp only [hb, Bool.false_eq_true, if_false]
    cases hx : (s.centroids ++ s.backlog.reverse).mergeSort (fun a b => decide (a.mean ≤ b.mean)) with
    | nil => exact absurd hx hne
    | cons c0 rest => simp

theorem quantile_translated (s : St α) (mn mx q : α) (hmin : s.min = some mn) (hmax : s.max = some mx) :
    td_quantile s.centroids mn mx q =
      match quantileInner s q with
      | .nan => Flow.ret KOps.nan
      | .val v => Flow.ret v
      | .panic => Flow.panic := td_quantile_eq s mn mx q hmin hmax
theorem cdf_translated (s : St α) (mn mx x : α) (hmin : s.min = some mn) (hmax : s.max = some mx) :
    td_cdf s.centroids mn mx x = match cdfInner s x with | some r => Flow.ret r | none => Flow.panic :=
  td_cdf_eq s mn mx x hmin hmax

end Pds.Tie.C04
