import Pds.Proofs.KernelTie.HllErr
import Pds.Proofs.KernelTie.HllCount
import Pds.Generated.Kernels.HllCount
import Pds.Props.C03
/-!
# C03 — tie by translation: `HyperLogLog::relative_error`, `am`, `linear_counting` and the decision skeleton of `count`
-/
namespace Pds.Tie.C03
open Pds Pds.KernelTie Pds.Generated.Kernels

theorem relative_error_translated (m : Nat) :
    (hll_relative_error m : ℝ) = Real.sqrt (3 * Real.log 2 - 1) / Real.sqrt (m : ℝ) := hll_relative_error_real m

/-- hence the advertised error of the translated function is `≈ 1.04/√m` -/
theorem relative_error_translated_bounds (m : Nat) (hm : 0 < m) :
    1.038 / Real.sqrt (m : ℝ) < (hll_relative_error m : ℝ) ∧ (hll_relative_error m : ℝ) < 1.04 / Real.sqrt (m : ℝ) := by
  rw [relative_error_translated]
  exact Pds.HllCount.RealFacts.relative_error_bounds (m : ℝ) (by exact_mod_cast hm)

theorem am_translated (m : Nat) :
    (hll_am m : ℝ) = if 128 ≤ m then (7213 / 10000 : ℝ) / (1 + (1079 / 1000) / (m : ℝ))
      else if 64 ≤ m then 709 / 1000 else if 32 ≤ m then 697 / 1000 else 673 / 1000 := hll_am_eq m

/-- `linear_counting` as translated, over ℝ: the `m · ln(m / v)` the small-range theorems of C03 are about -/
theorem linear_counting_translated (m v : Nat) :
    (hll_linear_counting m v : ℝ) = (m : ℝ) * Real.log ((m : ℝ) / (v : ℝ)) := by
  simp [hll_linear_counting, KOps.ofNat, KOps.log]

/-- the decision skeleton of `count` as translated computes the model's `countWith` (at `Float`), given the table
sum, the bias estimate and the threshold lookup, which stay hand-modelled (`count_total` shows the two lookups
succeed on every well-formed sketch) -/
theorem count_translated (cmp : Float → Float → Option HllCount.Cmp) (s : Hll.St) (ps : List Float) (thr : Nat)
    (hps : s.regs.toList.mapM (fun x => HllCount.pow2F[x]?) = some ps)
    (hthr : Generated.thresholds[s.b - Generated.thresholdOffset]? = some thr) :
    HllCount.countWith cmp s =
      (let m := Float.ofNat s.regs.size
       let e := HllCount.am s.regs.size * m * m * (1 / ps.foldl (· + ·) 0)
       (if e ≤ 5 * m then HllCount.estimateBias cmp s.b e else some 0).bind fun bv =>
         (hll_count (α := Float) s.regs.size (HllCount.am s.regs.size) (ps.foldl (· + ·) 0) bv (zeros s) thr).ret?) :=
  hll_count_float cmp s ps thr hps hthr

end Pds.Tie.C03
