import Pds.Proofs.KernelTie.HllErr
import Pds.Props.C03
/-!
# C03 — tie by translation: `HyperLogLog::relative_error` and `HyperLogLog::am`
-/
namespace Pds.Tie.C03
open Pds Pds.KernelTie Pds.Generated.Kernels

theorem relative_error_translated (m : Nat) :
    (hll_relative_error m : ℝ) = Real.sqrt (3 * Real.log 2 - 1) / Real.sqrt (m : ℝ) := hll_relative_error_real m

/-- hence the advertised error of the translated function is `≈ 1.04/√m` -/
theorem relative_error_translated_bounds (m : Nat) (hm : 0 < m) :
    1.038 / Real.sqrt (m : ℝ) < (hll_relative_error m : ℝ) ∧ (hll_relative_error m : ℝ) < 1.04 / Real.sqrt (m : ℝ) := by
  rw [relative_error_translated]
  exact Pds.HllCount.RealFacts.relative_error_bounds (m : ℝ) (by exact_mod_cast hm)

theorem am_translated (m : Nat) :
    (hll_am m : ℝ) = if 128 ≤ m then (7213 / 10000 : ℝ) / (1 + (1079 / 1000) / (m : ℝ))
      else if 64 ≤ m then 709 / 1000 else if 32 ≤ m then 697 / 1000 else 673 / 1000 := hll_am_eq m

end Pds.Tie.C03
