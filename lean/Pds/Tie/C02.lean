import Pds.Proofs.KernelTie.HashIter
/-!
# C02 — tie by translation: `HashIter::next` (the column of row `i`)
-/
namespace Pds.Tie.C02
open Pds Pds.KernelTie Pds.Generated.Kernels

theorem cms_columns_translated (hash : List Nat → Nat) (w d x i : Nat) (hw : w ≠ 0) (hi : i < d) :
    (HashIter.positions hash w d x).map (fun l => l[i]?) =
      some (some (hashiter_next i (hash [0, x] % w) (hash [1, x] % w) w (hash [i + 2] % w))) :=
  hashiter_next_eq hash w d x i hw hi
/-- hence every translated column is in range -/
theorem column_lt (i h1 h2 w f : Nat) (hw : w ≠ 0) : hashiter_next i h1 h2 w f < w := by
  unfold hashiter_next; exact Nat.mod_lt _ (Nat.pos_of_ne_zero hw)

end Pds.Tie.C02
