import Pds.Proofs.KernelTie.CmsQuery
import Pds.Proofs.KernelTie.MergeCms
import Pds.Proofs.KernelTie.HashIter
import Pds.Proofs.KernelTie.CmsOps
/-!
# C02 — tie by translation: `HashIter::next` (the column of row `i`)
-/
namespace Pds.Tie.C02
open Pds Pds.KernelTie Pds.Generated.Kernels

theorem cms_columns_translated (hash : List Nat → Nat) (w d x i : Nat) (hw : w ≠ 0) (hi : i < d) :
    (HashIter.positions hash w d x).map (fun l => l[i]?) =
      some (some (hashiter_next i (hash [0, x] % w) (hash [1, x] % w) w (hash [i + 2] % w))) :=
  hashiter_next_eq hash w d x i hw hi
/-- hence every translated column is in range -/
theorem column_lt (i h1 h2 w f : Nat) (hw : w ≠ 0) : hashiter_next i h1 h2 w f < w := by
  unfold hashiter_next; exact Nat.mod_lt _ (Nat.pos_of_ne_zero hw)

/-- `add_n` as translated (row loop, cell index `i * w + pos`, running minimum, both `checked_add`s), on the
model's state and the element's columns: the returned estimate and the table of the model's `addN` -/
theorem cms_add_n_translated (hash : List Nat → Nat) (s : Cms.St) (x n : Nat) (cols : List Nat)
    (hc : HashIter.positions hash s.w s.d x = some cols) :
    cms_add_n s.w s.cmax s.table.toList n cols =
      match Cms.addN hash s x n with
      | none => Flow.panic
      | some (s', r) => Flow.ret (r, s'.table.toList) := by
  rw [cms_add_n_eq]
  unfold Cms.addN
  rw [hc]
  rfl

/-- `CountMinSketch::merge` as translated (both `assert_eq!`, cells zipped with `checked_add(..).unwrap()`) is the
model's `merge` -/
theorem cms_merge_translated (s o : Cms.St) :
    cms_merge s.w s.d s.cmax s.table.toList o.w o.d o.table.toList =
      match Cms.merge s o with
      | none => Flow.panic
      | some s' => Flow.cont s'.table.toList := cms_merge_eq s o

/-- `query_point` as translated (the iterator pipeline `enumerate → i·w + pos → table[x] → min().unwrap()`) on the element's
columns is the model's `queryCols`: the minimum of the addressed cells; `none` = an index panic or `d = 0` -/
theorem cms_query_point_translated (s : Cms.St) (cols : List Nat) :
    cms_query_point s.w s.table.toList cols =
      match Cms.queryCols s cols with
      | none => Flow.panic
      | some v => Flow.ret v := cms_query_point_eq s cols

/-- the two residues `h1`, `h2` of `HashIterBuilder::iter_for` as translated, and every probe position as `next` of them -/
theorem iter_for_translated (hash : List Nat → Nat) (m k x i : Nat) (hm : m ≠ 0) (hi : i < k) :
    ∃ h1 h2, hashiter_iter_for m (fun x i => hash [i, x]) x = Flow.ret (h1, h2) ∧
      (HashIter.positions hash m k x).map (fun l => l[i]?) = some (some (hashiter_next i h1 h2 m (hash [i + 2] % m))) :=
  hashiter_positions_eq hash m k x i hm hi

end Pds.Tie.C02
