import Pds.Proofs.KernelTie.CtorHll
/-!
# C20 — tie by translation: the constructor the deserialiser ends in

`visit_map` is modelled by hand at the level of documents (tied by the correspondence on generated documents); its last
step is `HyperLogLog::with_registers_and_hash`, whose two assertions are the translated ones.
-/
namespace Pds.Tie.C20
open Pds Pds.KernelTie Pds.Generated.Kernels

/-- `HyperLogLog::with_registers_and_hash` as translated (both assertions) accepts exactly what the model's
`withRegisters` accepts and keeps the registers -/
theorem with_registers_translated (b : Nat) (regs : Array Nat) :
    hll_with_registers b regs.toList =
      match Hll.withRegisters b regs with
      | none => Flow.panic
      | some s => Flow.ret s.regs.toList := hll_with_registers_eq b regs

end Pds.Tie.C20
