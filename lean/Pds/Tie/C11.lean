import Pds.Proofs.KernelTie.Alloc
/-!
# C11 — tie by translation: the block count of `helpers::all_zero_intvector` (64-bit blocks)
-/
namespace Pds.Tie.C11
open Pds Pds.KernelTie Pds.Generated.Kernels

theorem all_zero_intvector_blocks_translated (e len : Nat) :
    all_zero_intvector_blocks e len 8 = if e * len < 2 ^ 64 then some (Alloc.nBlocks e len) else none :=
  all_zero_intvector_blocks_eq e len

/-- so the translated function allocates the tight number of blocks: `e·len ≤ 64·blocks < e·len + 64` -/
theorem blocks_tight_translated (e len b : Nat) (h : all_zero_intvector_blocks e len 8 = some b) :
    e * len ≤ 64 * b ∧ 64 * b < e * len + 64 := by
  rw [all_zero_intvector_blocks_eq] at h
  split at h
  · simp only [Option.some.injEq] at h; subst h; simp only [Alloc.nBlocks]; split <;> omega
  · exact absurd h (by simp)

end Pds.Tie.C11
