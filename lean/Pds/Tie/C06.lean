import Pds.Proofs.KernelTie.CuckooUnion
/-!
# C06 — tie by translation (flow mode): `CuckooFilter::union`
-/
namespace Pds.Tie.C06
open Pds Pds.KernelTie Pds.Generated.Kernels Pds.Cuckoo

theorem cuckoo_union_translated {R : Type} (I : RngI R) (hash : List Nat → Nat) (kicks : Nat) (s o : St R) (hbs : 0 < s.bs) :
    cuckoo_union R I (bucketOf hash s.nb) s.bs s.nb s.lf s.table.toList s.n s.rng o.table.toList o.bs o.nb o.lf kicks =
      match Cuckoo.union I hash kicks s o with
      | none => Flow.panic
      | some (s', r) => Flow.ret (resB r, (s'.table.toList, s'.n, s'.rng)) := cuckoo_union_eq I hash kicks s o hbs

end Pds.Tie.C06
