import Pds.Proofs.KernelTie.BloomOps
import Pds.Proofs.KernelTie.QfUnion
import Pds.Proofs.KernelTie.MergeHll
import Pds.Proofs.KernelTie.MergeCms
import Pds.Proofs.KernelTie.CuckooUnion
/-!
# C06 — tie by translation (flow mode): `CuckooFilter::union`
-/
namespace Pds.Tie.C06
open Pds Pds.KernelTie Pds.Generated.Kernels Pds.Cuckoo

theorem cuckoo_union_translated {R : Type} (I : RngI R) (hash : List Nat → Nat) (kicks : Nat) (s o : St R) (hbs : 0 < s.bs) :
    cuckoo_union R I (bucketOf hash s.nb) s.bs s.nb s.lf s.table.toList s.n s.rng o.table.toList o.bs o.nb o.lf kicks =
      match Cuckoo.union I hash kicks s o with
      | none => Flow.panic
      | some (s', r) => Flow.ret (resB r, (s'.table.toList, s'.n, s'.rng)) := cuckoo_union_eq I hash kicks s o hbs

/-- `HyperLogLog::merge` as translated (`assert_eq!(b)`, registers zipped with `cmp::max`) is the model's `merge` -/
theorem hll_merge_translated (s o : Hll.St) :
    hll_merge s.b s.regs.toList o.b o.regs.toList =
      match Hll.merge s o with
      | none => Flow.panic
      | some s' => Flow.cont s'.regs.toList := hll_merge_eq s o

/-- `CountMinSketch::merge` as translated (both `assert_eq!`, cells zipped with `checked_add(..).unwrap()`) is the
model's `merge` -/
theorem cms_merge_translated (s o : Cms.St) :
    cms_merge s.w s.d s.cmax s.table.toList o.w o.d o.table.toList =
      match Cms.merge s o with
      | none => Flow.panic
      | some s' => Flow.cont s'.table.toList := cms_merge_eq s o

/-- `QuotientFilter::union` as translated is the model's `union` -/
theorem qf_union_translated {N : Nat} (qb rb : Nat) (t o : Quotient.St N) :
    qf_union qb rb (occL t) (contL t) (shiftL t) (remL t) t.n qb rb (occL o) (contL o) (shiftL o) (remL o) =
      match Quotient.union t o with
      | none => Flow.panic
      | some (t', .full) => Flow.ret (2, (occL t', contL t', shiftL t', remL t', t'.n))
      | some (t', .ok _) => Flow.ret (1, (occL t', contL t', shiftL t', remL t', t'.n)) := qf_union_eq qb rb t o

/-- `BloomFilter::union` as translated (both `assert_eq!`, the bitwise or of the two bit sets) is the model's `union` -/
theorem bloom_union_translated (s o : Bloom.St) :
    bloom_union s.k s.bits.toList o.k o.bits.toList =
      match Bloom.union s o with
      | none => Flow.panic
      | some s' => Flow.cont s'.bits.toList := bloom_union_eq s o

end Pds.Tie.C06
