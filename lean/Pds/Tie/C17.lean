import Pds.Proofs.KernelTie.CtorHll
import Pds.Proofs.KernelTie.HllAdd
/-!
# C17 — tie by translation: register index and rank of `HyperLogLog::add_hashed`
-/
namespace Pds.Tie.C17
open Pds Pds.KernelTie Pds.Generated.Kernels

theorem add_hashed_translated (b h : Nat) : hll_add_hashed_jp b h = (h % 2 ^ b, Hll.rank b h) :=
  hll_add_hashed_eq b h

/-- `HyperLogLog::with_registers_and_hash` as translated (both assertions) accepts exactly what the model's
`withRegisters` accepts and keeps the registers -/
theorem with_registers_translated (b : Nat) (regs : Array Nat) :
    hll_with_registers b regs.toList =
      match Hll.withRegisters b regs with
      | none => Flow.panic
      | some s => Flow.ret s.regs.toList := hll_with_registers_eq b regs

/-- the whole `add_hashed` as translated (index, rank, register read, `max` write) is the model's `addHashed` -/
theorem add_hashed_full_translated (s : Hll.St) (h : Nat) :
    hll_add_hashed s.b s.regs.toList h =
      match Hll.addHashed s h with
      | none => Flow.panic
      | some s' => Flow.cont s'.regs.toList := hll_add_hashed_full_eq s h

end Pds.Tie.C17
