import Pds.Proofs.KernelTie.HllAdd
/-!
# C17 — tie by translation: register index and rank of `HyperLogLog::add_hashed`
-/
namespace Pds.Tie.C17
open Pds Pds.KernelTie Pds.Generated.Kernels

theorem add_hashed_translated (b h : Nat) : hll_add_hashed_jp b h = (h % 2 ^ b, Hll.rank b h) :=
  hll_add_hashed_eq b h

end Pds.Tie.C17
