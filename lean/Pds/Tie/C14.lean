import Pds.Proofs.KernelTie.CtorCuckoo
import Pds.Proofs.KernelTie.Cuckoo
import Pds.Proofs.KernelTie.CuckooOps
/-!
# C14 — tie by translation: `CuckooFilter::fingerprint` and `CuckooFilter::hash` (arithmetic after `finish()`)
-/
namespace Pds.Tie.C14
open Pds Pds.KernelTie Pds.Generated.Kernels

theorem fingerprint_translated (hash : List Nat → Nat) (lf x : Nat) :
    cuckoo_fingerprint lf (hash [0, x]) = Cuckoo.fingerprint hash lf x := cuckoo_fingerprint_eq hash lf x
theorem bucket_hash_translated (hash : List Nat → Nat) (j x : Nat) :
    cuckoo_bucket_hash (2 ^ j) (hash [1, x]) = Cuckoo.bucketOf hash (2 ^ j) x := cuckoo_bucket_hash_eq hash j x

/-! ### flow mode: the operations themselves -/

/-- `delete` as translated (two `remove_from_bucket` scans, `n_elements -= 1`) on the model's table -/
theorem delete_translated {R : Type} (hash : List Nat → Nat) (s : Cuckoo.St R) (x : Nat) :
    cuckoo_delete s.bs s.table.toList s.n (Cuckoo.start hash s x).1 (Cuckoo.start hash s x).2.1 (Cuckoo.start hash s x).2.2 =
      match Cuckoo.delete hash s x with
      | none => Flow.panic
      | some (s', b) => Flow.ret (b, (s'.table.toList, s'.n)) := by
  rw [cuckoo_delete_eq]
  unfold Cuckoo.delete
  cases h1 : Cuckoo.removeFromBucket s.table s.bs (Cuckoo.start hash s x).2.1 (Cuckoo.start hash s x).1 with
  | none => simp [h1]
  | some r1 =>
    cases r1 with
    | some t' => simp [h1]
    | none =>
      cases h2 : Cuckoo.removeFromBucket s.table s.bs (Cuckoo.start hash s x).2.2 (Cuckoo.start hash s x).1 with
      | none => simp [h1, h2]
      | some r2 => cases r2 <;> simp [h1, h2]

theorem query_translated {R : Type} (hash : List Nat → Nat) (s : Cuckoo.St R) (x : Nat) :
    cuckoo_query s.bs s.table.toList (Cuckoo.start hash s x).1 (Cuckoo.start hash s x).2.1 (Cuckoo.start hash s x).2.2 =
      match Cuckoo.query hash s x with
      | none => Flow.panic
      | some b => Flow.ret b := by
  rw [cuckoo_query_eq]
  unfold Cuckoo.query
  cases h1 : Cuckoo.hasInBucket s.table s.bs (Cuckoo.start hash s x).2.1 (Cuckoo.start hash s x).1 with
  | none => simp [h1]
  | some b1 =>
    cases b1 with
    | true => simp [h1]
    | false => simp only [h1]; rfl

/-- `insert_internal` as translated (both direct writes, the coin, the eviction loop with its RNG requests,
the undo log) is the model's `insertInternal`, for every hasher, RNG interface and kick limit -/
theorem insert_internal_translated {R : Type} (I : Cuckoo.RngI R) (hash : List Nat → Nat) (bs nb kicks : Nat)
    (t : Array Nat) (n : Nat) (rng : R) (lg : List (Nat × Nat)) (f i1 i2 : Nat) :
    cuckoo_insert_internal R I (Cuckoo.bucketOf hash nb) bs t.toList n rng f i1 i2 lg kicks =
      match Cuckoo.insertInternal I hash bs nb kicks t n rng lg.reverse f i1 i2 with
      | none => Flow.panic
      | some st => Flow.ret (resB st.res, (st.table.toList, st.n, st.rng, st.log.reverse)) :=
  cuckoo_insert_internal_eq I hash bs nb kicks t n rng lg f i1 i2

/-- the constructor guard: the model's `new` accepts exactly what the translated `with_params_and_hash` accepts (and the
packed table can be allocated for) -/
theorem cuckoo_with_params_translated {R : Type} (rng : R) (bs nb lf : Nat) :
    (Cuckoo.new rng bs nb lf).isSome ↔ (cuckoo_with_params bs nb lf = Flow.ret (nb * bs) ∧ lf * (nb * bs) < 2 ^ 64) :=
  cuckoo_with_params_eq rng bs nb lf

end Pds.Tie.C14
