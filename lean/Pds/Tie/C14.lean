import Pds.Proofs.KernelTie.Cuckoo
/-!
# C14 — tie by translation: `CuckooFilter::fingerprint` and `CuckooFilter::hash` (arithmetic after `finish()`)
-/
namespace Pds.Tie.C14
open Pds Pds.KernelTie Pds.Generated.Kernels

theorem fingerprint_translated (hash : List Nat → Nat) (lf x : Nat) :
    cuckoo_fingerprint lf (hash [0, x]) = Cuckoo.fingerprint hash lf x := cuckoo_fingerprint_eq hash lf x
theorem bucket_hash_translated (hash : List Nat → Nat) (j x : Nat) :
    cuckoo_bucket_hash (2 ^ j) (hash [1, x]) = Cuckoo.bucketOf hash (2 ^ j) x := cuckoo_bucket_hash_eq hash j x

end Pds.Tie.C14
