import Pds.Proofs.KernelTie.ReservoirAdd
import Pds.Proofs.KernelTie.ReservoirExtend
import Pds.Props.C18
/-!
# C18 — tie by translation (flow mode): `ReservoirSampling::add` and `clear`
-/
namespace Pds.Tie.C18
open Pds Pds.KernelTie Pds.Generated.Kernels Pds.Reservoir

theorem add_translated {R : Type} (I : RngI R) (s : St R) (x : Nat) (hk : s.k * 4 < 2 ^ 64) :
    reservoir_add R I s.k s.rng s.res.toList s.i s.skipUntil x =
      match Reservoir.add I s x with
      | none => Flow.panic
      | some s' => Flow.cont (s'.rng, s'.res.toList, s'.i, s'.skipUntil) := reservoir_add_eq I s x hk

theorem clear_translated {R : Type} (s : St R) :
    reservoir_clear R s.rng s.res.toList s.i s.skipUntil =
      Flow.cont ((Reservoir.clear s).rng, (Reservoir.clear s).res.toList, (Reservoir.clear s).i, (Reservoir.clear s).skipUntil) :=
  reservoir_clear_eq s

/-- `Extend::extend` as translated (`for elem in iter { self.add(elem) }`) is the left fold of the model's `add`, so the
theorems of C18 about every history of adds cover a sampler filled through `extend` as well -/
theorem extend_translated {R : Type} (I : RngI R) (s : St R) (xs : List Nat) (hk : s.k * 4 < 2 ^ 64) :
    reservoir_extend R I s.k s.rng s.res.toList s.i s.skipUntil xs =
      match xs.foldlM (Reservoir.add I) s with
      | none => Flow.panic
      | some s' => Flow.cont (s'.rng, s'.res.toList, s'.i, s'.skipUntil) := reservoir_extend_eq I s xs hk

end Pds.Tie.C18
