import Pds.Proofs.KernelTie.CtorCuckoo
import Pds.Proofs.KernelTie.BloomOps
import Pds.Proofs.KernelTie.QfOps
import Pds.Proofs.KernelTie.Cuckoo
import Pds.Proofs.KernelTie.CuckooUnion
/-!
# C01 — tie by translation (flow mode): the loops of `BloomFilter::insert` and `BloomFilter::query`
-/
namespace Pds.Tie.C01
open Pds Pds.KernelTie Pds.Generated.Kernels Pds.Bloom

/-- `insert` as translated, on the model's state and the element's probe positions: it answers
`Ok(!was_present)` and leaves the bits of the model's `insert` -/
theorem bloom_insert_translated (hash : List Nat → Nat) (s : St) (x : Nat) (ps : List Nat)
    (hps : HashIter.positions hash s.m s.k x = some ps) :
    bloom_insert s.bits.toList ps =
      match Bloom.insert hash s x with
      | none => Flow.panic
      | some (s', r) => Flow.ret (r, s'.bits.toList) := by
  rw [bloom_insert_eq]
  unfold Bloom.insert
  rw [hps]
  cases h : putAll s.bits ps true with
  | none => simp [h]
  | some r => simp [h]

theorem bloom_query_translated (hash : List Nat → Nat) (s : St) (x : Nat) (ps : List Nat)
    (hps : HashIter.positions hash s.m s.k x = some ps) :
    bloom_query s.bits.toList ps =
      match Bloom.query hash s x with
      | none => Flow.panic
      | some b => Flow.ret b := by
  rw [bloom_query_eq]
  unfold Bloom.query
  rw [hps]
  rfl

/-! ### cuckoo filter: fingerprint, query, insert, union as translated -/
open Pds.Cuckoo in
theorem cuckoo_fingerprint_translated (hash : List Nat → Nat) (lf x : Nat) :
    cuckoo_fingerprint lf (hash [0, x]) = Cuckoo.fingerprint hash lf x := cuckoo_fingerprint_eq hash lf x

open Pds.Cuckoo in
theorem cuckoo_insert_translated {R : Type} (I : RngI R) (hash : List Nat → Nat) (kicks : Nat) (s : Cuckoo.St R) (x : Nat) :
    cuckoo_insert R I (bucketOf hash s.nb) s.bs s.table.toList s.n s.rng (start hash s x).1 (start hash s x).2.1 (start hash s x).2.2 kicks =
      match Cuckoo.insert I hash kicks s x with
      | none => Flow.panic
      | some (s', r) => Flow.ret (resB r, (s'.table.toList, s'.n, s'.rng)) := cuckoo_insert_eq' I hash kicks s x

open Pds.Cuckoo in
theorem cuckoo_union_translated {R : Type} (I : RngI R) (hash : List Nat → Nat) (kicks : Nat) (s o : Cuckoo.St R) (hbs : 0 < s.bs) :
    cuckoo_union R I (bucketOf hash s.nb) s.bs s.nb s.lf s.table.toList s.n s.rng o.table.toList o.bs o.nb o.lf kicks =
      match Cuckoo.union I hash kicks s o with
      | none => Flow.panic
      | some (s', r) => Flow.ret (resB r, (s'.table.toList, s'.n, s'.rng)) := cuckoo_union_eq I hash kicks s o hbs

/-- the quotient filter's `insert_internal` as translated is the model's `insertInternal` (0 = `Ok(false)`,
1 = `Ok(true)`, 2 = `Err(QuotientFilterFull)`) -/
theorem qf_insert_internal_translated {N : Nat} (t : Quotient.St N) (q : Fin N) (r : Nat) :
    qf_insert_internal (occL t) (contL t) (shiftL t) (remL t) t.n q.val r =
      match Quotient.insertInternal t q r with
      | none => Flow.panic
      | some (t', res) => Flow.ret (qfRes res, (occL t', contL t', shiftL t', remL t', t'.n)) := qf_insert_internal_eq t q r

/-- the constructor guard: the model's `new` accepts exactly what the translated `with_params_and_hash` accepts (and the
packed table can be allocated for) -/
theorem cuckoo_with_params_translated {R : Type} (rng : R) (bs nb lf : Nat) :
    (Cuckoo.new rng bs nb lf).isSome ↔ (cuckoo_with_params bs nb lf = Flow.ret (nb * bs) ∧ lf * (nb * bs) < 2 ^ 64) :=
  cuckoo_with_params_eq rng bs nb lf

/-- `BloomFilter::union` as translated (both `assert_eq!`, the bitwise or of the two bit sets) is the model's `union` -/
theorem bloom_union_translated (s o : Bloom.St) :
    bloom_union s.k s.bits.toList o.k o.bits.toList =
      match Bloom.union s o with
      | none => Flow.panic
      | some s' => Flow.cont s'.bits.toList := bloom_union_eq s o

end Pds.Tie.C01
