import Pds.Proofs.KernelTie.BloomOps
/-!
# C01 — tie by translation (flow mode): the loops of `BloomFilter::insert` and `BloomFilter::query`
-/
namespace Pds.Tie.C01
open Pds Pds.KernelTie Pds.Generated.Kernels Pds.Bloom

/-- `insert` as translated, on the model's state and the element's probe positions: it answers
`Ok(!was_present)` and leaves the bits of the model's `insert` -/
theorem bloom_insert_translated (hash : List Nat → Nat) (s : St) (x : Nat) (ps : List Nat)
    (hps : HashIter.positions hash s.m s.k x = some ps) :
    bloom_insert s.bits.toList ps =
      match Bloom.insert hash s x with
      | none => Flow.panic
      | some (s', r) => Flow.ret (r, s'.bits.toList) := by
  rw [bloom_insert_eq]
  unfold Bloom.insert
  rw [hps]
  cases h : putAll s.bits ps true with
  | none => simp [h]
  | some r => simp [h]

theorem bloom_query_translated (hash : List Nat → Nat) (s : St) (x : Nat) (ps : List Nat)
    (hps : HashIter.positions hash s.m s.k x = some ps) :
    bloom_query s.bits.toList ps =
      match Bloom.query hash s x with
      | none => Flow.panic
      | some b => Flow.ret b := by
  rw [bloom_query_eq]
  unfold Bloom.query
  rw [hps]
  rfl

end Pds.Tie.C01
