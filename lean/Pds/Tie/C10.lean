import Pds.Proofs.KernelTie.CmsOps
import Pds.Proofs.KernelTie.ClearCms
import Pds.Model.CmsHeap
/-!
# C10 — tie by translation: the sketch inside `CMSHeap`

`CMSHeap::add` first runs `self.cms.add(obj)` (= `add_n(obj, &1)`) and decides on the returned estimate; the heap and the
map stay hand-modelled (tied by the correspondence), the sketch update and `clear` are the translated functions.
-/
namespace Pds.Tie.C10
open Pds Pds.KernelTie Pds.Generated.Kernels

/-- the sketch step of `CmsHeap.add` is the translated `add_n` with `n = 1`: same estimate, same table -/
theorem cms_add_n_translated (s : Cms.St) (cols : List Nat) :
    cms_add_n s.w s.cmax s.table.toList 1 cols =
      match Cms.addCols s cols 1 with
      | none => Flow.panic
      | some (s', r) => Flow.ret (r, s'.table.toList) := cms_add_n_eq s cols 1

/-- a panic of the sketch step is a panic of `CmsHeap.add`, and otherwise the new state carries the translated table -/
theorem add_uses_translated_sketch (s : CmsHeap.St) (x : Nat) (cols : List Nat) :
    (cms_add_n s.cms.w s.cms.cmax s.cms.table.toList 1 cols = Flow.panic → CmsHeap.add s x cols = none) ∧
    (∀ s', CmsHeap.add s x cols = some s' →
      ∃ r, cms_add_n s.cms.w s.cms.cmax s.cms.table.toList 1 cols = Flow.ret (r, s'.cms.table.toList)) := by
  rw [cms_add_n_eq]
  unfold CmsHeap.add
  cases h : Cms.addCols s.cms cols 1 with
  | none => simp
  | some p =>
    obtain ⟨cms, count⟩ := p
    refine ⟨by simp, ?_⟩
    intro s' hs'
    refine ⟨count, ?_⟩
    simp only at hs' ⊢
    split at hs'
    · cases hs'; rfl
    · split at hs'
      · cases hs'; rfl
      · split at hs'
        · cases hs'
        · split at hs' <;> cases hs' <;> rfl

/-- `CMSHeap::clear` clears the sketch with the translated `clear` -/
theorem clear_translated (s : CmsHeap.St) (h : s.cms.w * s.cms.d < 2 ^ 64) :
    cms_clear s.cms.w s.cms.d s.cms.table.toList = Flow.cont (CmsHeap.clear s).cms.table.toList := cms_clear_eq s.cms h
theorem cms_is_empty_translated (s : Cms.St) : cms_is_empty s.table.toList = Cms.isEmpty s := cms_is_empty_eq s

end Pds.Tie.C10
