import Pds.Proofs.KernelTie.Clear
import Pds.Proofs.KernelTie.ClearCms
/-!
# C19 — tie by translation: `clear` / `is_empty` as translated from the source are the model's
(cuckoo, quotient and Bloom filter, reservoir sampler, HyperLogLog, count-min sketch; `is_empty` of the t-digest).  The C19
theorems `*_clear_eq_new` are about these model functions.
-/
namespace Pds.Tie.C19
open Pds Pds.KernelTie Pds.Generated.Kernels

theorem cuckoo_clear_translated {R : Type} (s : Cuckoo.St R) :
    cuckoo_clear s.table.toList s.n = Flow.cont ((Cuckoo.clear s).table.toList, (Cuckoo.clear s).n) := cuckoo_clear_eq s
theorem cuckoo_is_empty_translated (n : Nat) : cuckoo_is_empty n = (n == 0) := cuckoo_is_empty_eq n
theorem reservoir_clear_translated {R : Type} (s : Reservoir.St R) :
    reservoir_clear R s.rng s.res.toList s.i s.skipUntil =
      Flow.cont ((Reservoir.clear s).rng, (Reservoir.clear s).res.toList, (Reservoir.clear s).i, (Reservoir.clear s).skipUntil) :=
  reservoir_clear_eq s
theorem reservoir_is_empty_translated {R : Type} (s : Reservoir.St R) : reservoir_is_empty s.i = Reservoir.isEmpty s :=
  reservoir_is_empty_eq s
theorem hll_clear_translated (s : Hll.St) : hll_clear s.regs.toList = Flow.cont (Hll.clear s).regs.toList := hll_clear_eq s
theorem cms_clear_translated (s : Cms.St) (h : s.w * s.d < 2 ^ 64) :
    cms_clear s.w s.d s.table.toList = Flow.cont (Cms.clear s).table.toList := cms_clear_eq s h
theorem td_is_empty_translated {α : Type} (s : TDigest.St α) : td_is_empty s.centroids s.backlog = TDigest.isEmpty s :=
  td_is_empty_eq s
theorem qf_clear_translated {N : Nat} (t : Quotient.St N) :
    qf_clear (occL t) (contL t) (shiftL t) (remL t) t.n =
      Flow.cont (occL (Quotient.clear t), contL (Quotient.clear t), shiftL (Quotient.clear t), remL (Quotient.clear t),
        (Quotient.clear t).n) := qf_clear_eq t
theorem bloom_clear_translated (s : Bloom.St) : bloom_clear s.bits.toList = Flow.cont (Bloom.clear s).bits.toList :=
  bloom_clear_eq s
theorem hll_is_empty_translated (s : Hll.St) : hll_is_empty s.regs.toList = Hll.isEmpty s := hll_is_empty_eq s
theorem qf_is_empty_translated (n : Nat) : qf_is_empty n = (n == 0) := qf_is_empty_eq n
theorem qf_len_translated (n : Nat) : qf_len n = n := qf_len_eq n
theorem cms_is_empty_translated (s : Cms.St) : cms_is_empty s.table.toList = Cms.isEmpty s := cms_is_empty_eq s

end Pds.Tie.C19
