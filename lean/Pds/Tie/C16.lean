import Pds.Proofs.KernelTie.TdCore
import Pds.Proofs.KernelTie.TdRead
/-!
# C16 — tie by translation: `Centroid::fuse` and `Centroid::mean` of `src/tdigest.rs`
(the only arithmetic on which count/sum/mean depend).
-/
namespace Pds.Tie.C16
open Pds Pds.TDigest Pds.KernelTie Pds.Generated.Kernels
variable {α : Type} [Field α] [LinearOrder α] [IsStrictOrderedRing α] [KOps α] [LawfulKOps α]

theorem fuse_translated (a b : Centroid α) :
    Centroid_fuse a.sum a.count b.sum b.count = ((a.fuse b).sum, (a.fuse b).count) := centroid_fuse a b
theorem mean_translated (c : Centroid α) : Centroid_mean c.sum c.count = c.mean := centroid_mean c

theorem count_translated (cs : List (Centroid α)) : td_count cs = totalCount cs := td_count_eq cs

end Pds.Tie.C16
