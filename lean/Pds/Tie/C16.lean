import Pds.Proofs.KernelTie.TdGuard
import Pds.Proofs.KernelTie.TdGuardQ
import Pds.Proofs.KernelTie.TdCore
import Pds.Proofs.KernelTie.TdRead
/-!
# C16 — tie by translation: `Centroid::fuse` and `Centroid::mean` of `src/tdigest.rs`
(the only arithmetic on which count/sum/mean depend).
-/
namespace Pds.Tie.C16
open Pds Pds.TDigest Pds.KernelTie Pds.Generated.Kernels
variable {α : Type} [Field α] [LinearOrder α] [IsStrictOrderedRing α] [KOps α] [LawfulKOps α]

theorem fuse_translated (a b : Centroid α) :
    Centroid_fuse a.sum a.count b.sum b.count = ((a.fuse b).sum, (a.fuse b).count) := centroid_fuse a b
theorem mean_translated (c : Centroid α) : Centroid_mean c.sum c.count = c.mean := centroid_mean c

theorem count_translated (cs : List (Centroid α)) : td_count cs = totalCount cs := td_count_eq cs

/-- the public `insert_weighted` as translated has the branches of the model's `insertWeighted` (finite arguments) -/
theorem insert_guard_translated (sf : ScaleFn α) (s : St α) (x w : α) (hx : KOps.isFinite x = true) (hw : KOps.isFinite w = true) :
    (td_insert_guard x w = Flow.panic ↔ insertWeighted sf s x w = none) ∧
    (td_insert_guard x w = Flow.ret false → insertWeighted sf s x w = some s) ∧
    (td_insert_guard x w = Flow.ret true ↔ 0 < w) := by
  rw [td_insert_guard_eq x w hx hw]
  unfold insertWeighted
  rcases lt_trichotomy w 0 with h | h | h
  · have h2 : ¬ (0 : α) < w := not_lt.mpr (le_of_lt h)
    simp [h, h2]
  · subst h; simp
  · have h2 : ¬ w < 0 := not_lt.mpr (le_of_lt h)
    simp [h, h2]
/-- a non-finite value or weight is the assertion panic -/
theorem insert_guard_not_finite (x w : α) (h : KOps.isFinite x = false ∨ KOps.isFinite w = false) :
    td_insert_guard x w = Flow.panic := td_insert_guard_not_finite x w h
/-- the range assertion of the public `quantile` as translated is the guard of the model's `quantile` -/
theorem quantile_guard_translated (sf : ScaleFn α) (s : St α) (q : α) :
    td_quantile_guard q = Flow.panic ↔ (TDigest.quantile sf s q).2 = QRes.panic ∧ ¬ (0 ≤ q ∧ q ≤ 1) := by
  rw [td_quantile_guard_eq]
  unfold TDigest.quantile
  by_cases h : 0 ≤ q ∧ q ≤ 1
  · simp [h]
  · simp [h]

end Pds.Tie.C16
