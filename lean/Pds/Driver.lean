/-
Line-protocol driver of the executable model (glue; mirrors harness/src/exec.rs).
Every non-comment line gives exactly one answer line. Unknown or malformed lines answer `bad-op`,
which the orchestrator treats as a failure of the check itself.
-/
import Std.Data.HashMap
import Pds.Model.Script
import Pds.Model.Hll
import Pds.Model.HllCount
import Pds.Model.Bloom
import Pds.Model.Cms
import Pds.Model.Cuckoo
import Pds.Model.Quotient
import Pds.Model.Reservoir
import Pds.Model.Lossy
import Pds.Model.CmsHeap
import Pds.Model.TDigest
import Pds.Model.Serde
import Pds.Model.Sizing
import Pds.Model.Alloc

namespace Pds.Driver
open Pds Pds.Script

/-- quotient filter of any size, packed existentially -/
structure QfInst where
  q : Nat
  r : Nat
  N : Nat
  st : Quotient.St N

structure TdInst where
  scale : Nat
  delta : Float
  sf : TDigest.ScaleFn Float
  st : TDigest.St Float

inductive Inst where
  | hll (s : Hll.St) (bh : HashCfg)
  | bloom (s : Bloom.St) (bh : HashCfg)
  | cms (s : Cms.St) (bh : HashCfg)
  | cuckoo (s : Cuckoo.St Rng) (bh : HashCfg)
  | qf (s : QfInst) (bh : HashCfg)
  | set (s : List Nat)
  | res (s : Reservoir.St Rng)
  | lossy (s : Lossy.St) (eps : Float)
  | heap (s : CmsHeap.St)
  | td (s : TdInst)
  | poisoned
  deriving Inhabited

def cuckooRng : Cuckoo.RngI Rng := { bool := Rng.bool, below := Rng.below }

/-- `draw_gap(seen)`: `⌊ln u / ln(1 - k/(seen+1))⌋` with `u = 1 - gen_range(0.0..1.0)` -/
def resGap (k seen : Nat) (r : Rng) : Nat × Rng :=
  let (v, r) := r.unit
  let u := 1 - v
  let p := Float.ofNat k / Float.ofNat (seen + 1)
  ((u.log / (1 - p).log).floor.toUInt64.toNat, r)

def resRng : Reservoir.RngI Rng := { below := Rng.below, gap := resGap }

def piF : Float := Float.ofBits 0x400921FB54442D18

def clampF (x lo hi : Float) : Float :=  -- x.min(hi).max(lo)
  let x := if hi < x then hi else x
  if x < lo then lo else x

def isInf (x : Float) : Bool := x.isInf

def scaleFn (scale : Nat) (delta : Float) : TDigest.ScaleFn Float :=
  match scale with
  | 0 => TDigest.k0 delta
  | 1 => TDigest.k1 delta
  | 2 => TDigest.k2 delta 24
  | _ => TDigest.k3 delta 21

def posInf : Float := 1.0 / 0.0
def negInf : Float := -1.0 / 0.0

structure DState where
  insts : Std.HashMap Nat Inst := {}
  bh : HashCfg := {}

/-- Outcome of one instance operation. -/
inductive Out where
  | ans (a : String)                       -- observation, instance unchanged
  | upd (i : Inst) (a : String := "ok")    -- instance replaced
  | mk (j : Nat) (i : Inst) (a : String := "ok")  -- another instance created, self unchanged
  | panic                                  -- the real code panics; instance is poisoned
  | bad

def hexVal (c : Char) : Option Nat :=
  if '0' ≤ c ∧ c ≤ '9' then some (c.toNat - '0'.toNat)
  else if 'a' ≤ c ∧ c ≤ 'f' then some (c.toNat - 'a'.toNat + 10)
  else none

def parseHex (s : String) : Option Nat :=
  s.toList.foldl (fun acc c => do let a ← acc; let v ← hexVal c; pure (a * 16 + v)) (some 0)

def parseFloat (s : String) : Option Float := (parseHex s).map fun n => Float.ofBits (UInt64.ofNat n)

def hexDigit (n : Nat) : Char := if n < 10 then Char.ofNat (48 + n) else Char.ofNat (87 + n)

def fb (x : Float) : String :=
  let n := x.toBits.toNat
  let ds := (List.range 16).map fun i => hexDigit ((n >>> (4 * (15 - i))) % 16)
  "f:" ++ String.ofList ds

def b2s (b : Bool) : String := if b then "true" else "false"

def nats (l : List String) : Option (List Nat) := l.mapM String.toNat?

def regsRepr (regs : Array Nat) : String :=
  if regs.size ≤ 1024 then
    s!"{regs.size} " ++ " ".intercalate (regs.toList.map toString)
  else
    let acc := regs.foldl (fun acc r => (acc * 31 + r + 1) % 1000000007) 0
    let nz := regs.foldl (fun c r => if r != 0 then c + 1 else c) 0
    s!"{regs.size} sum {acc} nz {nz}"

def isCtor (op : String) : Bool :=
  op.endsWith ".new" || op.endsWith ".neww" || op.endsWith ".newe" || op.endsWith ".with" ||
  op.endsWith ".props" || op.endsWith ".deser"

def splitNats (s : String) : Option (List Nat) :=
  if s.isEmpty then some [] else (s.splitOn ",").mapM String.toNat?

/-- token of a serialised document (see harness/src/serde_doc.rs) -/
def parseField (tok : String) : Option (Serde.Field HashCfg) :=
  match tok.splitOn ":" with
  | ["R", v] => match splitNats v with
    | some l => some (.registers (if l.all (· < 256) then some l else none))
    | none => none
  | ["B", v] => v.toNat?.map fun n => .b (if n < 2^64 then some n else none)
  | ["H", v] => match splitNats v with
    | some [m, a, sh, seed] =>
      some (.buildhasher (if m < 2^64 ∧ a < 2^64 ∧ sh < 2^32 ∧ seed < 2^64 then
        some { mul := UInt64.ofNat m, add := UInt64.ofNat a, sh := sh, seed := UInt64.ofNat seed } else none))
    | _ => none
  | ["Bs", _] => some (.b none)
  | ["Rs", _] => some (.registers none)
  | ["Hn"] => some (.buildhasher none)
  | [k, _] => if k.startsWith "X" then some .unknown else none
  | _ => none

def fieldTok (f : Serde.Field HashCfg) : String :=
  match f with
  | .registers (some l) => "R:" ++ ",".intercalate (l.map toString)
  | .b (some n) => s!"B:{n}"
  | .buildhasher (some h) => s!"H:{h.mul.toNat},{h.add.toNat},{h.sh},{h.seed.toNat}"
  | _ => "?"

/-- constructors: `none` inside = the real constructor panics -/
def ctor (s : DState) (op : String) (args : List Nat) (_raw : List String) : Option (Option Inst × String) :=
  match op, args with
  | "hll.new", [b] => some ((Hll.new b).map (.hll · s.bh), "ok")
  | "hll.with", b :: regs => some ((Hll.withRegisters b regs.toArray).map (.hll · s.bh), "ok")
  | "hll.deser", _ =>
    -- a leading `A` token: the same values as a positional (JSON array) document
    let (seq, _raw) := match _raw with
      | "A" :: rest => (true, rest)
      | ["N"] => (true, [])          -- the document is a bare number: `invalid type`, as for a sequence
      | _ => (false, _raw)
    match _raw.mapM parseField with
    | none => none
    | some doc => match (if seq then Serde.deserializeSeq doc else Serde.deserialize doc) with
      | some (h, bh) => some (some (.hll h bh), "ok")
      | none => some (some .poisoned, "err")   -- an `Err` leaves no usable instance behind
  | "bloom.new", [m, k] => some ((Bloom.new m k).map (.bloom · s.bh), "ok")
  | "bloom.props", [n, _] =>
    match _raw with
    | [_, p] => match parseFloat p with
      | some p => match Sizing.bloomParams n p with
        | some (k, m) => match Bloom.new m k with
          | some f => some (some (.bloom f s.bh), s!"ok {k} {m}")
          | none => some (none, "")
        | none => some (none, "")
      | none => none
    | _ => none
  | "cms.new", [_, w, d] =>
    match _raw with
    | ct :: _ =>
      let cmax? : Option Nat := match ct with
        | "u8" => some (2^8 - 1) | "u16" => some (2^16 - 1) | "u32" => some (2^32 - 1)
        | "u64" => some (2^64 - 1) | "usize" => some (2^64 - 1) | _ => none
      match cmax? with
      | some cmax => some ((Cms.new w d cmax).map (.cms · s.bh), "ok")
      | none => none
    | _ => none
  | "cms.props", _ =>
    match _raw.mapM parseFloat with
    | some [eps, delta] => match Sizing.cmsParams eps delta with
      | some (w, d) => match Cms.new w d (2^64 - 1) with
        | some c => some (some (.cms c s.bh), s!"ok {w} {d}")
        | none => some (none, "")
      | none => some (none, "")
    | _ => none
  | "cuckoo.new", seed :: bs :: nb :: lf :: forced =>
    let rng : Rng := { forced := forced.map UInt64.ofNat, state := UInt64.ofNat seed }
    some ((Cuckoo.new rng bs nb lf).map (.cuckoo · s.bh), "ok")
  | "cuckoo.props", [which, _, n, seed] =>
    match _raw with
    | [_, p, _, _] => match parseFloat p with
      | some p =>
        let rng : Rng := { state := UInt64.ofNat seed }
        let pr := if which = 4 then Sizing.cuckooParams 4 (0.95 : Float) p n else Sizing.cuckooParams 8 (0.98 : Float) p n
        match pr with
        | some (bs, nb, lf) => match Cuckoo.new rng bs nb lf with
          | some f => some (some (.cuckoo f s.bh), s!"ok {bs} {nb} {lf}")
          | none => some (none, "")
        | none => some (none, "")
      | none => none
    | _ => none
  | "qf.new", [q, r] =>
    if Quotient.paramsOk q r then
      if q ≤ 30 then some (some (.qf ⟨q, r, 2 ^ q, Quotient.empty (2 ^ q)⟩ s.bh), "ok") else none
    else some (none, "")
  | "set.new", [] => some (some (.set []), "ok")
  | "res.new", k :: seed :: forced =>
    let rng : Rng := { forced := forced.map UInt64.ofNat, state := UInt64.ofNat seed }
    some ((Reservoir.new k rng).map .res, "ok")
  | "lossy.neww", [w] => some ((Lossy.new w).map (.lossy · (1 / Float.ofNat w)), "ok")
  | "lossy.newe", _ =>
    match _raw.mapM parseFloat with
    | some [eps] => match Sizing.lossyWidth eps with
      | some w => some ((Lossy.new w).map (.lossy · eps), "ok")
      | none => some (none, "")
    | _ => none
  | "heap.props", k :: _ =>
    match _raw with
    | [_, eps, delta] => match parseFloat eps, parseFloat delta with
      | some eps, some delta => match Sizing.cmsParams eps delta with
        | some (w, d) => match Cms.new w d (2^64 - 1) with
          | some c => some ((CmsHeap.new k c).map .heap, s!"ok {w} {d}")
          | none => some (none, "")
        | none => some (none, "")
      | _, _ => none
    | _ => none
  | "heap.new", [k, w, d] =>
    match Cms.new w d (2^64 - 1) with
    | some c => some ((CmsHeap.new k c).map .heap, "ok")
    | none => some (none, "")
  | "td.new", [scale, _, bl] =>
    match _raw with
    | [_, d, _] => match parseFloat d with
      | some delta =>
        if delta > 1 ∧ delta.isFinite ∧ scale ≤ 3 then
          some (some (.td ⟨scale, delta, scaleFn scale delta, TDigest.new bl⟩), "ok")
        else some (none, "")
      | none => none
    | _ => none
  | _, _ => none

def opHll (s : DState) (h : Hll.St) (bh : HashCfg) (op : String) (a : List Nat) : Out :=
  match op, a with
  | "hll.add", [k] => match Hll.addHashed h (bh.hashOne [k]) with
    | some h' => .upd (.hll h' bh)
    | none => .panic
  | "hll.addh", [k] => match Hll.addHashed h k with
    | some h' => .upd (.hll h' bh)
    | none => .panic
  | "hll.extend", xs =>
    match xs.foldlM (fun h k => Hll.addHashed h (bh.hashOne [k])) h with
    | some h' => .upd (.hll h' bh)
    | none => .panic
  | "hll.addmany", [seed, n] =>
    let rec go (fuel : Nat) (r : Rng) (h : Hll.St) : Option Hll.St :=
      match fuel with
      | 0 => some h
      | fuel + 1 =>
        let (w, r) := r.nextU64
        match Hll.addHashed h w.toNat with
        | some h' => go fuel r h'
        | none => none
    match go n { state := UInt64.ofNat seed } h with
    | some h' => .upd (.hll h' bh)
    | none => .panic
  | "hll.merge", [j] => match s.insts[j]? with
    | some (.hll o obh) =>
      match Hll.merge h o with
      | some h' => if obh == bh then .upd (.hll h' bh) else .panic
      | none => .panic
    | _ => .bad
  | "hll.clear", [] => .upd (.hll (Hll.clear h) bh)
  | "hll.empty", [] => .ans (b2s (Hll.isEmpty h))
  | "hll.count", [] => match HllCount.count h with
    | some n => .ans (toString n)
    | none => .panic
  | "hll.relerr", [] => .ans (fb (HllCount.relativeError h))
  | "hll.ser", [] => .ans (" ".intercalate ((Serde.serialize h bh).map fieldTok))
  | "hll.regs", [] => .ans (s!"{h.b} " ++ regsRepr h.regs)
  | "hll.rebuild", [j] => match Hll.withRegisters h.b h.regs with
    | some h' => .mk j (.hll h' bh)
    | none => .mk j .poisoned "panic"
  | "hll.eq", [j] => match s.insts[j]? with
    | some (.hll o obh) => .ans (b2s (h.b == o.b && h.regs == o.regs && obh == bh))
    | some .poisoned => .ans "poisoned"
    | _ => .bad
  | "hll.clone", [j] => .mk j (.hll h bh)
  | _, _ => .bad

def floats (raw : List String) : Option (List Float) := raw.mapM parseFloat

def opBloom (s : DState) (f : Bloom.St) (bh : HashCfg) (op : String) (a : List Nat) : Out :=
  match op, a with
  | "bloom.insert", [x] => match Bloom.insert bh.hash f x with
    | some (f', r) => .upd (.bloom f' bh) (b2s r)
    | none => .panic
  | "bloom.query", [x] => match Bloom.query bh.hash f x with
    | some r => .ans (b2s r)
    | none => .panic
  | "bloom.union", [j] => match s.insts[j]? with
    | some (.bloom o obh) => match Bloom.union f o with
      | some f' => if obh == bh then .upd (.bloom f' bh) else .panic
      | none => .panic
    | _ => .bad
  | "bloom.clear", [] => .upd (.bloom (Bloom.clear f) bh)
  | "bloom.len", [] => .ans (toString (Bloom.len f))
  | "bloom.empty", [] => .ans (b2s (Bloom.isEmpty f))
  | "bloom.getters", [] => .ans s!"{f.m} {f.k}"
  | "bloom.clone", [j] => .mk j (.bloom f bh)
  | _, _ => .bad

def opSet (s : DState) (l : List Nat) (op : String) (a : List Nat) : Out :=
  match op, a with
  | "set.insert", [x] => if l.contains x then .ans "false" else .upd (.set (x :: l)) "true"
  | "set.query", [x] => .ans (b2s (l.contains x))
  | "set.union", [j] => match s.insts[j]? with
    | some (.set o) => .upd (.set (o.foldl (fun acc x => if acc.contains x then acc else x :: acc) l))
    | _ => .bad
  | "set.clear", [] => .upd (.set [])
  | "set.len", [] => .ans (toString l.length)
  | "set.empty", [] => .ans (b2s l.isEmpty)
  | "set.clone", [j] => .mk j (.set l)
  | _, _ => .bad

def opCms (s : DState) (c : Cms.St) (bh : HashCfg) (op : String) (a : List Nat) : Out :=
  match op, a with
  | "cms.add", [x] => match Cms.addN bh.hash c x 1 with
    | some (c', r) => .upd (.cms c' bh) (toString r)
    | none => .panic
  | "cms.addn", [x, n] => match Cms.addN bh.hash c x n with
    | some (c', r) => .upd (.cms c' bh) (toString r)
    | none => .panic
  | "cms.query", [x] => match Cms.query bh.hash c x with
    | some r => .ans (toString r)
    | none => .panic
  | "cms.merge", [j] => match s.insts[j]? with
    | some (.cms o obh) =>
      if c.d = o.d ∧ c.w = o.w ∧ !(obh == bh) then .panic else
      match Cms.merge c o with
      | some c' => .upd (.cms c' bh)
      | none => .panic
    | _ => .bad
  | "cms.clear", [] => .upd (.cms (Cms.clear c) bh)
  | "cms.empty", [] => .ans (b2s (Cms.isEmpty c))
  | "cms.getters", [] => .ans s!"{c.w} {c.d}"
  | "cms.clone", [j] => .mk j (.cms c bh)
  | _, _ => .bad

def res2s : Cuckoo.Res → String
  | .ok b => b2s b
  | .full => "full"

def opCuckoo (s : DState) (f : Cuckoo.St Rng) (bh : HashCfg) (op : String) (a : List Nat) : Out :=
  let kicks := Pds.Generated.maxNumKicks
  match op, a with
  | "cuckoo.insert", [x] => match Cuckoo.insert cuckooRng bh.hash kicks f x with
    | some (f', r) => .upd (.cuckoo f' bh) (res2s r)
    | none => .panic
  | "cuckoo.delete", [x] => match Cuckoo.delete bh.hash f x with
    | some (f', r) => .upd (.cuckoo f' bh) (b2s r)
    | none => .panic
  | "cuckoo.query", [x] => match Cuckoo.query bh.hash f x with
    | some r => .ans (b2s r)
    | none => .panic
  | "cuckoo.union", [j] => match s.insts[j]? with
    | some (.cuckoo o obh) =>
      if f.bs = o.bs ∧ f.nb = o.nb ∧ f.lf = o.lf ∧ !(obh == bh) then .panic else
      match Cuckoo.union cuckooRng bh.hash kicks f o with
      | some (f', .ok _) => .upd (.cuckoo f' bh) "ok"
      | some (f', .full) => .upd (.cuckoo f' bh) "full"
      | none => .panic
    | _ => .bad
  | "cuckoo.len", [] => .ans (toString f.n)
  | "cuckoo.empty", [] => .ans (b2s (f.n == 0))
  | "cuckoo.clear", [] => .upd (.cuckoo (Cuckoo.clear f) bh)
  | "cuckoo.getters", [] => .ans s!"{f.bs} {f.nb} {f.lf}"
  | "cuckoo.clone", [j] => .mk j (.cuckoo f bh)
  | _, _ => .bad

def qres2s : Quotient.Res → String
  | .ok b => b2s b
  | .full => "full"

def opQf (s : DState) (f : QfInst) (bh : HashCfg) (op : String) (a : List Nat) : Out :=
  match op, a with
  | "qf.insert", [x] => match Quotient.insert f.q f.r f.st (bh.hashOne [x]) with
    | some (st', r) => .upd (.qf { f with st := st' } bh) (qres2s r)
    | none => .panic
  | "qf.query", [x] => match Quotient.query f.q f.r f.st (bh.hashOne [x]) with
    | some r => .ans (b2s r)
    | none => .panic
  | "qf.union", [j] => match s.insts[j]? with
    | some (.qf o obh) =>
      if h : o.N = f.N then
        if f.q = o.q ∧ f.r = o.r then
          if !(obh == bh) then .panic else
          match Quotient.union f.st (h ▸ o.st) with
          | some (st', .ok _) => .upd (.qf { f with st := st' } bh) "ok"
          | some (st', .full) => .upd (.qf { f with st := st' } bh) "full"
          | none => .panic
        else .panic
      else .panic
    | _ => .bad
  | "qf.len", [] => .ans (toString f.st.n)
  | "qf.empty", [] => .ans (b2s (f.st.n == 0))
  | "qf.clear", [] => .upd (.qf { f with st := Quotient.clear f.st } bh)
  | "qf.getters", [] => .ans s!"{f.q} {f.r}"
  | "qf.clone", [j] => .mk j (.qf f bh)
  | _, _ => .bad

def opRes (r : Reservoir.St Rng) (op : String) (a : List Nat) : Out :=
  match op, a with
  | "res.add", [x] => match Reservoir.add resRng r x with
    | some r' => .upd (.res r')
    | none => .panic
  | "res.extend", xs =>
    let rec go : List Nat → Reservoir.St Rng → Option (Reservoir.St Rng)
      | [], r => some r
      | x :: rest, r => match Reservoir.add resRng r x with
        | some r' => go rest r'
        | none => none
    match go xs r with
    | some r' => .upd (.res r')
    | none => .panic
  | "res.extendf", xs =>
    -- `extend` through a filtering iterator: items ≥ 2^40 never reach the sampler
    let rec goF : List Nat → Reservoir.St Rng → Option (Reservoir.St Rng)
      | [], r => some r
      | x :: rest, r => match Reservoir.add resRng r x with
        | some r' => goF rest r'
        | none => none
    match goF (xs.filter (· < 2^40)) r with
    | some r' => .upd (.res r')
    | none => .panic
  | "res.extendp", j :: xs =>
    -- `extend` from an iterator that panics after `j` items (caught by the caller): `j` items consumed
    let rec goP : List Nat → Reservoir.St Rng → Option (Reservoir.St Rng)
      | [], r => some r
      | x :: rest, r => match Reservoir.add resRng r x with
        | some r' => goP rest r'
        | none => none
    match goP (xs.take j) r with
    | some r' => .upd (.res r') (if j < xs.length then "caught" else "ok")
    | none => .panic
  | "res.get", [] => .ans (s!"{r.k} {r.i} : " ++ " ".intercalate (r.res.toList.map toString))
  | "res.empty", [] => .ans (b2s (Reservoir.isEmpty r))
  | "res.clear", [] => .upd (.res (Reservoir.clear r))
  | "res.clone", [j] => .mk j (.res r)
  | _, _ => .bad

def sortNats (l : List Nat) : List Nat := l.mergeSort (fun a b => decide (a ≤ b))

def opLossy (l : Lossy.St) (eps : Float) (op : String) (a : List Nat) (raw : List String) : Out :=
  match op, a with
  | "lossy.add", [x] => let (l', r) := Lossy.add l x; .upd (.lossy l' eps) (b2s r)
  | "lossy.addrep", [x, n] =>
    let rec go (fuel : Nat) (l : Lossy.St) (last : Bool) : Lossy.St × Bool :=
      match fuel with
      | 0 => (l, last)
      | fuel + 1 => let (l', r) := Lossy.add l x; go fuel l' r
    let (l', r) := go n l false
    .upd (.lossy l' eps) s!"{b2s r} {l'.n}"
  | "lossy.query", [_] => match floats raw with
    | some [thr] =>
      let ks := sortNats (Lossy.queryBound l (Sizing.lossyBound thr eps l.n))
      .ans ("[" ++ " ".intercalate (ks.map toString) ++ "]")
    | _ => .bad
  | "lossy.n", [] => .ans (toString l.n)
  | "lossy.getters", [] => .ans s!"{fb eps} {l.width}"
  | "lossy.clear", [] => .upd (.lossy (Lossy.clear l) eps)
  | "lossy.clone", [j] => .mk j (.lossy l eps)
  | _, _ => .bad

/-- `id:class:c0,c1,…` items of `heap.extend` -/
def parseHeapItem (tok : String) : Option (Nat × List Nat) :=
  match tok.splitOn ":" with
  | [id, _class, cols] => do
    let i ← id.toNat?
    let cs ← splitNats cols
    pure (i, cs)
  | _ => none

def opHeap (h : CmsHeap.St) (op : String) (a : List Nat) (raw : List String) : Out :=
  if op == "heap.extend" then
    match raw.mapM parseHeapItem with
    | none => .bad
    | some items =>
      match items.foldlM (fun h (it : Nat × List Nat) => CmsHeap.add h it.1 it.2) h with
      | some h' => .upd (.heap h')
      | none => .panic
  else
  match op, a with
  | "heap.add", x :: _class :: cols => match CmsHeap.add h x cols with
    | some h' => .upd (.heap h')
    | none => .panic
  | "heap.iter", [] => .ans ("[" ++ " ".intercalate ((CmsHeap.iter h).map toString) ++ "]")
  | "heap.empty", [] => .ans (b2s (CmsHeap.isEmpty h))
  | "heap.clear", [] => .upd (.heap (CmsHeap.clear h))
  | "heap.clone", [j] => .mk j (.heap h)
  | _, _ => .bad

def opTd (d : TdInst) (op : String) (a : List Nat) (raw : List String) : Out :=
  let up (st : TDigest.St Float) (ans : String) : Out := .upd (.td { d with st := st }) ans
  match op with
  | "td.insert" | "td.insertw" => match floats raw with
    | some [x] =>
      if !x.isFinite then .panic else
      match TDigest.insertWeighted d.sf d.st x 1 with
      | some st => up st "ok"
      | none => .panic
    | some [x, w] =>
      if !x.isFinite || !w.isFinite || !(w ≥ 0) then .panic else
      match TDigest.insertWeighted d.sf d.st x w with
      | some st => up st "ok"
      | none => .panic
    | _ => .bad
  | "td.quantile" => match floats raw with
    | some [q] =>
      match TDigest.quantile d.sf d.st q with
      | (st, .val v) => up st (fb v)
      | (st, .nan) => up st (fb (0.0 / 0.0))
      | (_, .panic) => .panic
    | _ => .bad
  | "td.cdf" => match floats raw with
    | some [x] =>
      if x.isNaN then .panic else
      match TDigest.cdf d.sf d.st x with
      | (st, some v) => up st (fb v)
      | (_, none) => .panic
    | _ => .bad
  | "td.count" => let (st, v) := TDigest.count d.sf d.st; up st (fb v)
  | "td.sum" => let (st, v) := TDigest.sum d.sf d.st; up st (fb v)
  | "td.mean" => let (st, v) := TDigest.mean d.sf d.st; up st (fb v)
  | "td.min" => .ans (fb (d.st.min.getD posInf))
  | "td.max" => .ans (fb (d.st.max.getD negInf))
  | "td.ncent" => let (st, v) := TDigest.nCentroids d.sf d.st; up st (toString v)
  | "td.empty" => .ans (b2s (TDigest.isEmpty d.st))
  | "td.clear" => up (TDigest.clear d.st) "ok"
  | "td.getters" => .ans s!"{fb d.delta} {d.st.maxBacklog}"
  | "td.clone" => match a with
    | [j] => .mk j (.td d)
    | _ => .bad
  | _ => .bad

def step1 (s : DState) (toks : List String) : DState × String :=
  match toks with
  | "case" :: _ => ({}, " ".intercalate toks)
  | ["hasher", mul, add, sh, seed] =>
    match mul.toNat?, add.toNat?, sh.toNat?, seed.toNat? with
    | some mul, some add, some sh, some seed =>
      ({ s with bh := { mul := UInt64.ofNat mul, add := UInt64.ofNat add, sh := sh, seed := UInt64.ofNat seed } }, "ok")
    | _, _, _, _ => (s, "bad-op")
  | op :: id :: raw =>
    match id.toNat? with
    | none => (s, "bad-op")
    | some id =>
      -- numeric view of the arguments (non-numeric tokens, e.g. float bit patterns, map to 0 and
      -- are re-read from `raw` by the ops that use them)
      let args := raw.map fun t => t.toNat?.getD 0
      if op == "mem.cuckoo" then
        match args with
        | [bs, nb, lf] => (s, toString (Alloc.cuckooBytes bs nb lf))
        | _ => (s, "bad-op")
      else if op == "mem.qf" then
        match args with
        | [q, r] => (s, toString (Alloc.qfBytes q r))
        | _ => (s, "bad-op")
      else if isCtor op then
        match ctor s op args raw with
        | some (some i, a) => ({ s with insts := s.insts.insert id i }, a)
        | some (none, _) => ({ s with insts := s.insts.insert id .poisoned }, "panic")
        | none => (s, "bad-op")
      else if op == "drop" then ({ s with insts := s.insts.erase id }, "ok") else
      if op.endsWith ".clonefrom" then
        -- `Clone::clone_from`: the receiver becomes a copy of the source
        match s.insts[id]?, args with
        | none, _ => (s, "bad-op")
        | some .poisoned, _ => (s, "poisoned")
        | some _, [j] =>
          (match s.insts[j]? with
           | some .poisoned => (s, "poisoned")
           | some src => ({ s with insts := s.insts.insert id src }, "ok")
           | none => (s, "bad-op"))
        | some _, _ => (s, "bad-op")
      else
      let otherPoisoned := (op.endsWith ".union" || op.endsWith ".merge") &&
        (match args with
         | j :: _ => (match s.insts[j]? with | some .poisoned => true | _ => false)
         | [] => false)
      match s.insts[id]? with
      | none => (s, "bad-op")
      | some .poisoned => (s, "poisoned")
      | some inst =>
        if otherPoisoned then (s, "poisoned") else
        -- take the instance out of the map so that array updates are in place
        let s0 := { s with insts := s.insts.erase id }
        let out := match inst with
          | .hll h bh => opHll s h bh op args
          | .bloom f bh => opBloom s f bh op args
          | .cms c bh => opCms s c bh op args
          | .cuckoo f bh => opCuckoo s f bh op args
          | .qf f bh => opQf s f bh op args
          | .set l => opSet s l op args
          | .res r => opRes r op args
          | .lossy l eps => opLossy l eps op args raw
          | .heap h => opHeap h op args raw
          | .td d => opTd d op args raw
          | .poisoned => .bad
        match out with
        | .ans a => ({ s0 with insts := s0.insts.insert id inst }, a)
        | .upd i a => ({ s0 with insts := s0.insts.insert id i }, a)
        | .mk j i a => ({ s0 with insts := (s0.insts.insert id inst).insert j i }, a)
        | .panic => ({ s0 with insts := s0.insts.insert id .poisoned }, "panic")
        | .bad => ({ s0 with insts := s0.insts.insert id inst }, "bad-op")
  | _ => (s, "bad-op")

/-- `both <op> <i> <j> args…` runs `<op>` on `i`, then on `j`, and answers `a | b`. -/
def step (s : DState) (toks : List String) : DState × String :=
  match toks with
  | "both" :: op :: i :: j :: args =>
    let (s, a) := step1 s (op :: i :: args)
    let (s, b) := step1 s (op :: j :: args)
    (s, a ++ " | " ++ b)
  | _ => step1 s toks

end Pds.Driver
