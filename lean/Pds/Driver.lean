/-
Line-protocol driver of the executable model (glue; mirrors harness/src/exec.rs).
Every non-comment line gives exactly one answer line. Unknown or malformed lines answer `bad-op`,
which the orchestrator treats as a failure of the check itself.
-/
import Std.Data.HashMap
import Pds.Model.Script
import Pds.Model.Hll
import Pds.Model.HllCount

namespace Pds.Driver
open Pds Pds.Script

inductive Inst where
  | hll (s : Hll.St) (bh : HashCfg)
  | poisoned
  deriving Inhabited

structure DState where
  insts : Std.HashMap Nat Inst := {}
  bh : HashCfg := {}

/-- Outcome of one instance operation. -/
inductive Out where
  | ans (a : String)                       -- observation, instance unchanged
  | upd (i : Inst) (a : String := "ok")    -- instance replaced
  | mk (j : Nat) (i : Inst) (a : String := "ok")  -- another instance created, self unchanged
  | panic                                  -- the real code panics; instance is poisoned
  | bad

def hexVal (c : Char) : Option Nat :=
  if '0' ≤ c ∧ c ≤ '9' then some (c.toNat - '0'.toNat)
  else if 'a' ≤ c ∧ c ≤ 'f' then some (c.toNat - 'a'.toNat + 10)
  else none

def parseHex (s : String) : Option Nat :=
  s.toList.foldl (fun acc c => do let a ← acc; let v ← hexVal c; pure (a * 16 + v)) (some 0)

def parseFloat (s : String) : Option Float := (parseHex s).map fun n => Float.ofBits (UInt64.ofNat n)

def hexDigit (n : Nat) : Char := if n < 10 then Char.ofNat (48 + n) else Char.ofNat (87 + n)

def fb (x : Float) : String :=
  let n := x.toBits.toNat
  let ds := (List.range 16).map fun i => hexDigit ((n >>> (4 * (15 - i))) % 16)
  "f:" ++ String.ofList ds

def b2s (b : Bool) : String := if b then "true" else "false"

def nats (l : List String) : Option (List Nat) := l.mapM String.toNat?

def regsRepr (regs : Array Nat) : String :=
  if regs.size ≤ 1024 then
    s!"{regs.size} " ++ " ".intercalate (regs.toList.map toString)
  else
    let acc := regs.foldl (fun acc r => (acc * 31 + r + 1) % 1000000007) 0
    let nz := regs.foldl (fun c r => if r != 0 then c + 1 else c) 0
    s!"{regs.size} sum {acc} nz {nz}"

def isCtor (op : String) : Bool :=
  op.endsWith ".new" || op.endsWith ".neww" || op.endsWith ".newe" || op.endsWith ".with" ||
  op.endsWith ".props" || op.endsWith ".deser"

/-- constructors: `none` inside = the real constructor panics -/
def ctor (s : DState) (op : String) (args : List Nat) (_raw : List String) : Option (Option Inst × String) :=
  match op, args with
  | "hll.new", [b] => some ((Hll.new b).map (.hll · s.bh), "ok")
  | "hll.with", b :: regs => some ((Hll.withRegisters b regs.toArray).map (.hll · s.bh), "ok")
  | _, _ => none

def opHll (s : DState) (h : Hll.St) (bh : HashCfg) (op : String) (a : List Nat) : Out :=
  match op, a with
  | "hll.add", [k] => match Hll.addHashed h (bh.hash [k]) with
    | some h' => .upd (.hll h' bh)
    | none => .panic
  | "hll.addh", [k] => match Hll.addHashed h k with
    | some h' => .upd (.hll h' bh)
    | none => .panic
  | "hll.merge", [j] => match s.insts[j]? with
    | some (.hll o obh) =>
      match Hll.merge h o with
      | some h' => if obh == bh then .upd (.hll h' bh) else .panic
      | none => .panic
    | _ => .bad
  | "hll.clear", [] => .upd (.hll (Hll.clear h) bh)
  | "hll.empty", [] => .ans (b2s (Hll.isEmpty h))
  | "hll.count", [] => match HllCount.count h with
    | some n => .ans (toString n)
    | none => .panic
  | "hll.relerr", [] => .ans (fb (HllCount.relativeError h))
  | "hll.regs", [] => .ans (s!"{h.b} " ++ regsRepr h.regs)
  | "hll.rebuild", [j] => match Hll.withRegisters h.b h.regs with
    | some h' => .mk j (.hll h' bh)
    | none => .mk j .poisoned "panic"
  | "hll.clone", [j] => .mk j (.hll h bh)
  | _, _ => .bad

def step (s : DState) (toks : List String) : DState × String :=
  match toks with
  | "case" :: _ => ({}, " ".intercalate toks)
  | ["hasher", mul, add, sh, seed] =>
    match mul.toNat?, add.toNat?, sh.toNat?, seed.toNat? with
    | some mul, some add, some sh, some seed =>
      ({ s with bh := { mul := UInt64.ofNat mul, add := UInt64.ofNat add, sh := sh, seed := UInt64.ofNat seed } }, "ok")
    | _, _, _, _ => (s, "bad-op")
  | op :: id :: raw =>
    match id.toNat? with
    | none => (s, "bad-op")
    | some id =>
      -- numeric view of the arguments (non-numeric tokens, e.g. float bit patterns, map to 0 and
      -- are re-read from `raw` by the ops that use them)
      let args := raw.map fun t => t.toNat?.getD 0
      if isCtor op then
        match ctor s op args raw with
        | some (some i, a) => ({ s with insts := s.insts.insert id i }, a)
        | some (none, _) => ({ s with insts := s.insts.insert id .poisoned }, "panic")
        | none => (s, "bad-op")
      else if op == "drop" then ({ s with insts := s.insts.erase id }, "ok") else
      match s.insts[id]? with
      | none => (s, "bad-op")
      | some .poisoned => (s, "poisoned")
      | some inst =>
        -- take the instance out of the map so that array updates are in place
        let s0 := { s with insts := s.insts.erase id }
        let out := match inst with
          | .hll h bh => opHll s h bh op args
          | .poisoned => .bad
        match out with
        | .ans a => ({ s0 with insts := s0.insts.insert id inst }, a)
        | .upd i a => ({ s0 with insts := s0.insts.insert id i }, a)
        | .mk j i a => ({ s0 with insts := (s0.insts.insert id inst).insert j i }, a)
        | .panic => ({ s0 with insts := s0.insts.insert id .poisoned }, "panic")
        | .bad => ({ s0 with insts := s0.insts.insert id inst }, "bad-op")
  | _ => (s, "bad-op")

end Pds.Driver
