import Pds.Proofs.CmsTable
/-!
Histories of a count-min sketch and the abstraction "table = function of the weighted stream".
-/
namespace Pds.Cms

/-- One operation of a history.  The argument of `merge` is the history that built the other
sketch (same `w d cmax hash`). -/
inductive Op where
  | addN (x n : Nat)
  | merge (other : List Op)
  | clear

mutual
/-- run a history from state `s`; `none` = some step panicked (counter overflow) -/
def runFrom (hash : List Nat → Nat) (w d cmax : Nat) : List Op → St → Option St
  | [], s => some s
  | op :: ops, s =>
    match step hash w d cmax op s with
    | none => none
    | some s' => runFrom hash w d cmax ops s'
def step (hash : List Nat → Nat) (w d cmax : Nat) : Op → St → Option St
  | .addN x n, s => (addN hash s x n).map (·.1)
  | .merge o, s =>
    match new w d cmax with
    | none => none
    | some s0 =>
      match runFrom hash w d cmax o s0 with
      | none => none
      | some so => merge s so
  | .clear, s => some (clear s)
end

/-- run a history on a fresh sketch -/
def run (hash : List Nat → Nat) (w d cmax : Nat) (h : List Op) : Option St :=
  match new w d cmax with
  | none => none
  | some s0 => runFrom hash w d cmax h s0

mutual
/-- the weighted stream `(element, weight)` a history contributes since its last `clear`
(a merged sketch contributes its own stream) -/
def streamFrom : List Op → List (Nat × Nat) → List (Nat × Nat)
  | [], acc => acc
  | op :: ops, acc => streamFrom ops (streamStep op acc)
def streamStep : Op → List (Nat × Nat) → List (Nat × Nat)
  | .addN x n, acc => acc ++ [(x, n)]
  | .merge o, acc => acc ++ streamFrom o []
  | .clear, _ => []
end

def stream (h : List Op) : List (Nat × Nat) := streamFrom h []

/-- total weight of `x` in a stream -/
def weightOf (x : Nat) (str : List (Nat × Nat)) : Nat := (str.map fun e => if e.1 = x then e.2 else 0).sum
/-- total weight of a stream -/
def total (str : List (Nat × Nat)) : Nat := (str.map (·.2)).sum

def trueWeight (h : List Op) (x : Nat) : Nat := weightOf x (stream h)
def totalWeight (h : List Op) : Nat := total (stream h)

/-- the column list of `x` -/
def colsOf (hash : List Nat → Nat) (w d x : Nat) : List Nat := (HashIter.positions hash w d x).getD []

/-- what a stream contributes to cell `(r, c)` -/
def cellSum (hash : List Nat → Nat) (w d r c : Nat) (str : List (Nat × Nat)) : Nat :=
  (str.map fun e => if (colsOf hash w d e.1)[r]? = some c then e.2 else 0).sum

example : run (fun l => l.sum) 3 2 10 [.addN 1 2, .merge [.addN 1 3], .clear, .addN 4 5] =
  some ⟨3, 2, 10, #[5, 0, 0, 5, 0, 0]⟩ := by decide
example : stream [.addN 1 2, .merge [.addN 1 3, .clear, .addN 7 1], .addN 4 5] = [(1,2),(7,1),(4,5)] := by decide


/-! ### sums -/

theorem sum_map_le_sum_map {α : Type} (l : List α) (f g : α → Nat) (h : ∀ a ∈ l, f a ≤ g a) :
    (l.map f).sum ≤ (l.map g).sum := by
  induction l with
  | nil => simp
  | cons a l ih =>
    simp only [List.map_cons, List.sum_cons]
    have := h a List.mem_cons_self
    have := ih (fun b hb => h b (List.mem_cons_of_mem _ hb))
    omega

theorem sum_map_add {α : Type} (l : List α) (f g : α → Nat) :
    (l.map fun a => f a + g a).sum = (l.map f).sum + (l.map g).sum := by
  induction l with
  | nil => simp
  | cons a l ih => simp only [List.map_cons, List.sum_cons, ih]; omega

theorem sum_range_ite (w c0 n : Nat) :
    ((List.range w).map fun c => if c0 = c then n else 0).sum = if c0 < w then n else 0 := by
  induction w with
  | zero => simp
  | succ w ih =>
    rw [List.range_succ, List.map_append, List.sum_append, ih]
    by_cases h1 : c0 < w
    · have : c0 ≠ w := by omega
      have h2 : c0 < w + 1 := by omega
      simp [h1, h2, this]
    · by_cases h2 : c0 = w
      · subst h2; simp
      · have h3 : ¬ c0 < w + 1 := by omega
        simp [h1, h2, h3]

theorem weightOf_append (x : Nat) (a b : List (Nat × Nat)) :
    weightOf x (a ++ b) = weightOf x a + weightOf x b := by simp [weightOf]
theorem total_append (a b : List (Nat × Nat)) : total (a ++ b) = total a + total b := by simp [total]
theorem cellSum_append (hash : List Nat → Nat) (w d r c : Nat) (a b : List (Nat × Nat)) :
    cellSum hash w d r c (a ++ b) = cellSum hash w d r c a + cellSum hash w d r c b := by simp [cellSum]

theorem weightOf_le_total (x : Nat) (str : List (Nat × Nat)) : weightOf x str ≤ total str := by
  apply sum_map_le_sum_map; intro e _; split <;> omega

theorem cellSum_le_total (hash : List Nat → Nat) (w d r c : Nat) (str : List (Nat × Nat)) :
    cellSum hash w d r c str ≤ total str := by
  apply sum_map_le_sum_map; intro e _; split <;> omega

/-- the cell of `x` in row `r` receives at least the weight of `x` -/
theorem weightOf_le_cellSum (hash : List Nat → Nat) (w d r c x : Nat) (str : List (Nat × Nat))
    (h : (colsOf hash w d x)[r]? = some c) : weightOf x str ≤ cellSum hash w d r c str := by
  apply sum_map_le_sum_map; intro e _
  by_cases he : e.1 = x
  · subst he; simp [h]
  · simp [he]

theorem weightOf_eq_total {x : Nat} {str : List (Nat × Nat)} (h : ∀ e ∈ str, e.1 = x) :
    weightOf x str = total str := by
  unfold weightOf total
  congr 1
  apply List.map_congr_left
  intro e he; simp [h e he]

/-! ### column lists -/

theorem colsOf_wf (hash : List Nat → Nat) {w : Nat} (hw : 0 < w) (d x : Nat) :
    HashIter.positions hash w d x = some (colsOf hash w d x) ∧ WFCols w d (colsOf hash w d x) := by
  obtain ⟨ps, e, hl, hlt⟩ := HashIter.positions_some hash hw d x
  simp only [colsOf, e, Option.getD_some]
  exact ⟨trivial, hl, hlt⟩

/-- every row of the table receives each stream entry exactly once -/
theorem rowSum_cellSum (hash : List Nat → Nat) {w d r : Nat} (hw : 0 < w) (hr : r < d)
    (str : List (Nat × Nat)) :
    ((List.range w).map fun c => cellSum hash w d r c str).sum = total str := by
  induction str with
  | nil =>
    have : ∀ l : List Nat, (l.map fun _ => 0).sum = 0 := by
      intro l; induction l <;> simp_all
    simpa [cellSum, total] using this _
  | cons e str ih =>
    obtain ⟨_, hl, hlt⟩ := colsOf_wf hash hw d e.1
    have hrl : r < (colsOf hash w d e.1).length := by rw [hl]; exact hr
    have hc0 : (colsOf hash w d e.1)[r] < w := hlt _ (List.getElem_mem hrl)
    have hcons : ∀ c, cellSum hash w d r c (e :: str) =
        (if (colsOf hash w d e.1)[r] = c then e.2 else 0) + cellSum hash w d r c str := by
      intro c; simp [cellSum, List.getElem?_eq_getElem hrl]
    simp only [hcons]
    rw [sum_map_add, ih, sum_range_ite, if_pos hc0]
    simp [total]

/-! ### the invariant -/

/-- The invariant tying a state to the weighted stream it has absorbed since the last clear. -/
structure Inv (hash : List Nat → Nat) (w d cmax : Nat) (s : St) (str : List (Nat × Nat)) : Prop where
  hw : s.w = w
  hd : s.d = d
  hcmax : s.cmax = cmax
  hsize : s.table.size = w * d
  hcell : ∀ r c, c < w → cell s.table (r * w + c) = cellSum hash w d r c str
  hle : ∀ j, cell s.table j ≤ cmax

theorem cell_replicate_zero (m j : Nat) : cell (Array.replicate m 0) j = 0 := by
  simp only [cell, Array.getElem?_replicate]; split <;> rfl

theorem new_some {w : Nat} (hw : 0 < w) (d cmax : Nat) :
    new w d cmax = some ⟨w, d, cmax, Array.replicate (w * d) 0⟩ := by
  simp [new, HashIter.builderOk_of_pos hw]

theorem inv_fresh (hash : List Nat → Nat) (w d cmax : Nat) :
    Inv hash w d cmax ⟨w, d, cmax, Array.replicate (w * d) 0⟩ [] :=
  ⟨rfl, rfl, rfl, by simp, fun r c _ => by simp [cell_replicate_zero, cellSum],
    fun j => by simp [cell_replicate_zero]⟩

theorem inv_clear {hash : List Nat → Nat} {w d cmax : Nat} {s : St} {str : List (Nat × Nat)}
    (h : Inv hash w d cmax s str) : Inv hash w d cmax (clear s) [] := by
  have := inv_fresh hash w d cmax
  unfold clear
  rw [h.hw, h.hd]
  exact ⟨rfl, rfl, h.hcmax, this.hsize, this.hcell, this.hle⟩

theorem inv_unique {hash : List Nat → Nat} {w d cmax : Nat} {s s' : St} {str : List (Nat × Nat)}
    (hw : 0 < w) (h : Inv hash w d cmax s str) (h' : Inv hash w d cmax s' str) : s = s' := by
  have ht : s.table = s'.table := by
    apply array_ext_cell (by rw [h.hsize, h'.hsize])
    intro j hj
    obtain ⟨e, hlt⟩ := rowcol_decomp hw j
    rw [e, h.hcell _ _ hlt, h'.hcell _ _ hlt]
  cases s; cases s'
  have := h.hw; have := h'.hw; have := h.hd; have := h'.hd; have := h.hcmax; have := h'.hcmax
  simp_all

theorem inv_addN {hash : List Nat → Nat} {w d cmax : Nat} {s s' : St} {str : List (Nat × Nat)}
    (hw : 0 < w) (hd : 0 < d) (h : Inv hash w d cmax s str) {x n r : Nat}
    (ha : addN hash s x n = some (s', r)) : Inv hash w d cmax s' (str ++ [(x, n)]) := by
  obtain ⟨hpos, hwf⟩ := colsOf_wf hash hw d x
  unfold addN at ha
  rw [h.hw, h.hd, hpos] at ha
  simp only at ha
  have hsz : s.table.size = s.w * s.d := by rw [h.hw, h.hd]; exact h.hsize
  obtain ⟨hnone, hsome⟩ := addCols_spec hsz (by rw [h.hw, h.hd]; exact hwf) (by rw [h.hd]; exact hd) n
  obtain ⟨e1, e2, e3, e4, e5, _⟩ := hsome s' r ha
  have hno : ¬ ∃ v ∈ rowVals s.w s.table 0 (colsOf hash w d x), s.cmax < v + n := by
    rw [← hnone, ha]; simp
  rw [h.hw] at e5
  refine ⟨e1.trans h.hw, e2.trans h.hd, e3.trans h.hcmax, e4.trans h.hsize, ?_, ?_⟩
  · intro r c hc
    rw [e5 r c hc, h.hcell r c hc, cellSum_append]
    simp [cellSum]
  · intro j
    by_cases hj : j < s'.table.size
    · obtain ⟨e, hlt⟩ := rowcol_decomp hw j
      rw [e, e5 _ _ hlt]
      split
      · rename_i hhit
        apply Nat.le_of_not_lt
        intro hgt
        apply hno
        refine ⟨_, mem_rowVals.mpr ⟨j / w, ?_, rfl⟩, ?_⟩
        · exact (List.getElem?_eq_some_iff.mp hhit).1
        · have := (List.getElem?_eq_some_iff.mp hhit).2
          rw [this, Nat.zero_add, h.hw, h.hcmax]; exact hgt
      · rw [← e]; simpa using h.hle j
    · rw [cell_of_ge (Nat.not_lt.mp hj)]; exact Nat.zero_le _

theorem inv_merge {hash : List Nat → Nat} {w d cmax : Nat} {s o s' : St} {str str' : List (Nat × Nat)}
    (h : Inv hash w d cmax s str) (ho : Inv hash w d cmax o str')
    (hm : merge s o = some s') : Inv hash w d cmax s' (str ++ str') := by
  obtain ⟨hnone, hsome⟩ := merge_spec (s := s) (o := o) (by rw [h.hsize, ho.hsize])
  obtain ⟨e1, e2, e3, e4, e5⟩ := hsome s' hm
  have hno : ¬ (¬ (s.d = o.d ∧ s.w = o.w) ∨ ∃ j, s.cmax < cell s.table j + cell o.table j) := by
    rw [← hnone, hm]; simp
  refine ⟨e1.trans h.hw, e2.trans h.hd, e3.trans h.hcmax, e4.trans h.hsize, ?_, ?_⟩
  · intro r c hc
    rw [e5, h.hcell r c hc, ho.hcell r c hc, cellSum_append]
  · intro j
    rw [e5]
    apply Nat.le_of_not_lt
    intro hgt
    exact hno (Or.inr ⟨j, by rw [h.hcmax]; exact hgt⟩)

/-! ### every reachable state satisfies the invariant -/

theorem run_eq {hash : List Nat → Nat} {w : Nat} (hw : 0 < w) (d cmax : Nat) (h : List Op) :
    run hash w d cmax h = runFrom hash w d cmax h ⟨w, d, cmax, Array.replicate (w * d) 0⟩ := by
  simp [run, new_some hw]

theorem step_merge {hash : List Nat → Nat} {w d cmax : Nat} (o : List Op) (s : St) :
    step hash w d cmax (.merge o) s = (run hash w d cmax o).bind (merge s) := by
  rw [step, run]
  cases new w d cmax with
  | none => rfl
  | some s0 => simp only; cases runFrom hash w d cmax o s0 <;> rfl

mutual
theorem runFrom_inv {hash : List Nat → Nat} {w d cmax : Nat} (hw : 0 < w) (hd : 0 < d) :
    ∀ (ops : List Op) (s s' : St) (str : List (Nat × Nat)), Inv hash w d cmax s str →
      runFrom hash w d cmax ops s = some s' → Inv hash w d cmax s' (streamFrom ops str)
  | [], s, s', str, hi, hr => by
    simp only [runFrom, Option.some.injEq] at hr; subst hr; simpa [streamFrom] using hi
  | op :: ops, s, s', str, hi, hr => by
    rw [runFrom] at hr
    cases hs : step hash w d cmax op s with
    | none => rw [hs] at hr; cases hr
    | some s1 =>
      rw [hs] at hr
      rw [streamFrom]
      exact runFrom_inv hw hd ops s1 s' _ (step_inv hw hd op s s1 str hi hs) hr
theorem step_inv {hash : List Nat → Nat} {w d cmax : Nat} (hw : 0 < w) (hd : 0 < d) :
    ∀ (op : Op) (s s' : St) (str : List (Nat × Nat)), Inv hash w d cmax s str →
      step hash w d cmax op s = some s' → Inv hash w d cmax s' (streamStep op str)
  | .addN x n, s, s', str, hi, hr => by
    simp only [step, Option.map_eq_some_iff] at hr
    obtain ⟨⟨s1, r⟩, ha, rfl⟩ := hr
    exact inv_addN hw hd hi ha
  | .merge o, s, s', str, hi, hr => by
    rw [step_merge, run_eq hw] at hr
    cases ho : runFrom hash w d cmax o ⟨w, d, cmax, Array.replicate (w * d) 0⟩ with
    | none => rw [ho] at hr; cases hr
    | some so =>
      rw [ho] at hr
      have := runFrom_inv hw hd o _ so [] (inv_fresh hash w d cmax) ho
      rw [streamStep]
      exact inv_merge hi this hr
  | .clear, s, s', str, hi, hr => by
    simp only [step, Option.some.injEq] at hr; subst hr
    exact inv_clear hi
end

theorem run_inv {hash : List Nat → Nat} {w d cmax : Nat} (hw : 0 < w) (hd : 0 < d) {h : List Op} {s : St}
    (hr : run hash w d cmax h = some s) : Inv hash w d cmax s (stream h) := by
  rw [run_eq hw] at hr
  exact runFrom_inv hw hd h _ s [] (inv_fresh hash w d cmax) hr

end Pds.Cms
