import Pds.Proofs.CmsTable
/-!
Histories of a count-min sketch and the abstraction "table = function of the weighted stream".
-/
namespace Pds.Cms

/-- One operation of a history.  The argument of `merge` is the history that built the other
sketch (same `w d cmax hash`). -/
inductive Op where
  | addN (x n : Nat)
  | merge (other : List Op)
  | clear

mutual
/-- run a history from state `s`; `none` = some step panicked (counter overflow) -/
def runFrom (hash : List Nat → Nat) (w d cmax : Nat) : List Op → St → Option St
  | [], s => some s
  | op :: ops, s =>
    match step hash w d cmax op s with
    | none => none
    | some s' => runFrom hash w d cmax ops s'
def step (hash : List Nat → Nat) (w d cmax : Nat) : Op → St → Option St
  | .addN x n, s => (addN hash s x n).map (·.1)
  | .merge o, s =>
    match new w d cmax with
    | none => none
    | some s0 =>
      match runFrom hash w d cmax o s0 with
      | none => none
      | some so => merge s so
  | .clear, s => some (clear s)
end

/-- run a history on a fresh sketch -/
def run (hash : List Nat → Nat) (w d cmax : Nat) (h : List Op) : Option St :=
  match new w d cmax with
  | none => none
  | some s0 => runFrom hash w d cmax h s0

mutual
/-- the weighted stream `(element, weight)` a history contributes since its last `clear`
(a merged sketch contributes its own stream) -/
def streamFrom : List Op → List (Nat × Nat) → List (Nat × Nat)
  | [], acc => acc
  | op :: ops, acc => streamFrom ops (streamStep op acc)
def streamStep : Op → List (Nat × Nat) → List (Nat × Nat)
  | .addN x n, acc => acc ++ [(x, n)]
  | .merge o, acc => acc ++ streamFrom o []
  | .clear, _ => []
end

def stream (h : List Op) : List (Nat × Nat) := streamFrom h []

/-- total weight of `x` in a stream -/
def weightOf (x : Nat) (str : List (Nat × Nat)) : Nat := (str.map fun e => if e.1 = x then e.2 else 0).sum
/-- total weight of a stream -/
def total (str : List (Nat × Nat)) : Nat := (str.map (·.2)).sum

def trueWeight (h : List Op) (x : Nat) : Nat := weightOf x (stream h)
def totalWeight (h : List Op) : Nat := total (stream h)

/-- the column list of `x` -/
def colsOf (hash : List Nat → Nat) (w d x : Nat) : List Nat := (HashIter.positions hash w d x).getD []

/-- what a stream contributes to cell `(r, c)` -/
def cellSum (hash : List Nat → Nat) (w d r c : Nat) (str : List (Nat × Nat)) : Nat :=
  (str.map fun e => if (colsOf hash w d e.1)[r]? = some c then e.2 else 0).sum

example : run (fun l => l.sum) 3 2 10 [.addN 1 2, .merge [.addN 1 3], .clear, .addN 4 5] =
  some ⟨3, 2, 10, #[5, 0, 0, 5, 0, 0]⟩ := by decide
example : stream [.addN 1 2, .merge [.addN 1 3, .clear, .addN 7 1], .addN 4 5] = [(1,2),(7,1),(4,5)] := by decide


/-! ### sums -/

theorem sum_map_le_sum_map {α : Type} (l : List α) (f g : α → Nat) (h : ∀ a ∈ l, f a ≤ g a) :
    (l.map f).sum ≤ (l.map g).sum := by
  induction l with
  | nil => simp
  | cons a l ih =>
    simp only [List.map_cons, List.sum_cons]
    have := h a List.mem_cons_self
    have := ih (fun b hb => h b (List.mem_cons_of_mem _ hb))
    omega

theorem sum_map_add {α : Type} (l : List α) (f g : α → Nat) :
    (l.map fun a => f a + g a).sum = (l.map f).sum + (l.map g).sum := by
  induction l with
  | nil => simp
  | cons a l ih => simp only [List.map_cons, List.sum_cons, ih]; omega

theorem sum_range_ite (w c0 n : Nat) :
    ((List.range w).map fun c => if c0 = c then n else 0).sum = if c0 < w then n else 0 := by
  induction w with
  | zero => simp
  | succ w ih =>
    rw [List.range_succ, List.map_append, List.sum_append, ih]
    by_cases h1 : c0 < w
    · have : c0 ≠ w := by omega
      have h2 : c0 < w + 1 := by omega
      simp [h1, h2, this]
    · by_cases h2 : c0 = w
      · subst h2; simp
      · have h3 : ¬ c0 < w + 1 := by omega
        simp [h1, h2, h3]

theorem weightOf_append (x : Nat) (a b : List (Nat × Nat)) :
    weightOf x (a ++ b) = weightOf x a + weightOf x b := by simp [weightOf]
theorem total_append (a b : List (Nat × Nat)) : total (a ++ b) = total a + total b := by simp [total]
theorem cellSum_append (hash : List Nat → Nat) (w d r c : Nat) (a b : List (Nat × Nat)) :
    cellSum hash w d r c (a ++ b) = cellSum hash w d r c a + cellSum hash w d r c b := by simp [cellSum]

theorem weightOf_le_total (x : Nat) (str : List (Nat × Nat)) : weightOf x str ≤ total str := by
  apply sum_map_le_sum_map; intro e _; split <;> omega

theorem cellSum_le_total (hash : List Nat → Nat) (w d r c : Nat) (str : List (Nat × Nat)) :
    cellSum hash w d r c str ≤ total str := by
  apply sum_map_le_sum_map; intro e _; split <;> omega

/-- the cell of `x` in row `r` receives at least the weight of `x` -/
theorem weightOf_le_cellSum (hash : List Nat → Nat) (w d r c x : Nat) (str : List (Nat × Nat))
    (h : (colsOf hash w d x)[r]? = some c) : weightOf x str ≤ cellSum hash w d r c str := by
  apply sum_map_le_sum_map; intro e _
  by_cases he : e.1 = x
  · subst he; simp [h]
  · simp [he]

theorem weightOf_eq_total {x : Nat} {str : List (Nat × Nat)} (h : ∀ e ∈ str, e.1 = x) :
    weightOf x str = total str := by
  unfold weightOf total
  congr 1
  apply List.map_congr_left
  intro e he; simp [h e he]

/-! ### column lists -/

theorem colsOf_wf (hash : List Nat → Nat) {w : Nat} (hw : 0 < w) (d x : Nat) :
    HashIter.positions hash w d x = some (colsOf hash w d x) ∧ WFCols w d (colsOf hash w d x) := by
  obtain ⟨ps, e, hl, hlt⟩ := HashIter.positions_some hash hw d x
  simp only [colsOf, e, Option.getD_some]
  exact ⟨trivial, hl, hlt⟩

/-- every row of the table receives each stream entry exactly once -/
theorem rowSum_cellSum (hash : List Nat → Nat) {w d r : Nat} (hw : 0 < w) (hr : r < d)
    (str : List (Nat × Nat)) :
    ((List.range w).map fun c => cellSum hash w d r c str).sum = total str := by
  induction str with
  | nil =>
    have : ∀ l : List Nat, (l.map fun _ => 0).sum = 0 := by
      intro l; induction l <;> simp_all
    simpa [cellSum, total] using this _
  | cons e str ih =>
    obtain ⟨_, hl, hlt⟩ := colsOf_wf hash hw d e.1
    have hrl : r < (colsOf hash w d e.1).length := by rw [hl]; exact hr
    have hc0 : (colsOf hash w d e.1)[r] < w := hlt _ (List.getElem_mem hrl)
    have hcons : ∀ c, cellSum hash w d r c (e :: str) =
        (if (colsOf hash w d e.1)[r] = c then e.2 else 0) + cellSum hash w d r c str := by
      intro c; simp [cellSum, List.getElem?_eq_getElem hrl]
    simp only [hcons]
    rw [sum_map_add, ih, sum_range_ite, if_pos hc0]
    simp [total]

/-! ### the invariant -/

/-- The invariant tying a state to the weighted stream it has absorbed since the last clear. -/
structure Inv (hash : List Nat → Nat) (w d cmax : Nat) (s : St) (str : List (Nat × Nat)) : Prop where
  hw : s.w = w
  hd : s.d = d
  hcmax : s.cmax = cmax
  hsize : s.table.size = w * d
  hcell : ∀ r c, c < w → cell s.table (r * w + c) = cellSum hash w d r c str
  hle : ∀ j, cell s.table j ≤ cmax

theorem cell_replicate_zero (m j : Nat) : cell (Array.replicate m 0) j = 0 := by
  simp only [cell, Array.getElem?_replicate]; split <;> rfl

theorem new_some {w : Nat} (hw : 0 < w) (d cmax : Nat) :
    new w d cmax = some ⟨w, d, cmax, Array.replicate (w * d) 0⟩ := by
  simp [new, HashIter.builderOk_of_pos hw]

theorem inv_fresh (hash : List Nat → Nat) (w d cmax : Nat) :
    Inv hash w d cmax ⟨w, d, cmax, Array.replicate (w * d) 0⟩ [] :=
  ⟨rfl, rfl, rfl, by simp, fun r c _ => by simp [cell_replicate_zero, cellSum],
    fun j => by simp [cell_replicate_zero]⟩

theorem inv_clear {hash : List Nat → Nat} {w d cmax : Nat} {s : St} {str : List (Nat × Nat)}
    (h : Inv hash w d cmax s str) : Inv hash w d cmax (clear s) [] := by
  have := inv_fresh hash w d cmax
  unfold clear
  rw [h.hw, h.hd]
  exact ⟨rfl, rfl, h.hcmax, this.hsize, this.hcell, this.hle⟩

theorem inv_unique {hash : List Nat → Nat} {w d cmax : Nat} {s s' : St} {str : List (Nat × Nat)}
    (hw : 0 < w) (h : Inv hash w d cmax s str) (h' : Inv hash w d cmax s' str) : s = s' := by
  have ht : s.table = s'.table := by
    apply array_ext_cell (by rw [h.hsize, h'.hsize])
    intro j hj
    obtain ⟨e, hlt⟩ := rowcol_decomp hw j
    rw [e, h.hcell _ _ hlt, h'.hcell _ _ hlt]
  cases s; cases s'
  have := h.hw; have := h'.hw; have := h.hd; have := h'.hd; have := h.hcmax; have := h'.hcmax
  simp_all

theorem inv_addN {hash : List Nat → Nat} {w d cmax : Nat} {s s' : St} {str : List (Nat × Nat)}
    (hw : 0 < w) (hd : 0 < d) (h : Inv hash w d cmax s str) {x n r : Nat}
    (ha : addN hash s x n = some (s', r)) : Inv hash w d cmax s' (str ++ [(x, n)]) := by
  obtain ⟨hpos, hwf⟩ := colsOf_wf hash hw d x
  unfold addN at ha
  rw [h.hw, h.hd, hpos] at ha
  simp only at ha
  have hsz : s.table.size = s.w * s.d := by rw [h.hw, h.hd]; exact h.hsize
  obtain ⟨hnone, hsome⟩ := addCols_spec hsz (by rw [h.hw, h.hd]; exact hwf) (by rw [h.hd]; exact hd) n
  obtain ⟨e1, e2, e3, e4, e5, _⟩ := hsome s' r ha
  have hno : ¬ ∃ v ∈ rowVals s.w s.table 0 (colsOf hash w d x), s.cmax < v + n := by
    rw [← hnone, ha]; simp
  rw [h.hw] at e5
  refine ⟨e1.trans h.hw, e2.trans h.hd, e3.trans h.hcmax, e4.trans h.hsize, ?_, ?_⟩
  · intro r c hc
    rw [e5 r c hc, h.hcell r c hc, cellSum_append]
    simp [cellSum]
  · intro j
    by_cases hj : j < s'.table.size
    · obtain ⟨e, hlt⟩ := rowcol_decomp hw j
      rw [e, e5 _ _ hlt]
      split
      · rename_i hhit
        apply Nat.le_of_not_lt
        intro hgt
        apply hno
        refine ⟨_, mem_rowVals.mpr ⟨j / w, ?_, rfl⟩, ?_⟩
        · exact (List.getElem?_eq_some_iff.mp hhit).1
        · have := (List.getElem?_eq_some_iff.mp hhit).2
          rw [this, Nat.zero_add, h.hw, h.hcmax]; exact hgt
      · rw [← e]; simpa using h.hle j
    · rw [cell_of_ge (Nat.not_lt.mp hj)]; exact Nat.zero_le _

theorem inv_merge {hash : List Nat → Nat} {w d cmax : Nat} {s o s' : St} {str str' : List (Nat × Nat)}
    (h : Inv hash w d cmax s str) (ho : Inv hash w d cmax o str')
    (hm : merge s o = some s') : Inv hash w d cmax s' (str ++ str') := by
  obtain ⟨hnone, hsome⟩ := merge_spec (s := s) (o := o) (by rw [h.hsize, ho.hsize])
  obtain ⟨e1, e2, e3, e4, e5⟩ := hsome s' hm
  have hno : ¬ (¬ (s.d = o.d ∧ s.w = o.w) ∨ ∃ j, s.cmax < cell s.table j + cell o.table j) := by
    rw [← hnone, hm]; simp
  refine ⟨e1.trans h.hw, e2.trans h.hd, e3.trans h.hcmax, e4.trans h.hsize, ?_, ?_⟩
  · intro r c hc
    rw [e5, h.hcell r c hc, ho.hcell r c hc, cellSum_append]
  · intro j
    rw [e5]
    apply Nat.le_of_not_lt
    intro hgt
    exact hno (Or.inr ⟨j, by rw [h.hcmax]; exact hgt⟩)

/-! ### every reachable state satisfies the invariant -/

theorem run_eq {hash : List Nat → Nat} {w : Nat} (hw : 0 < w) (d cmax : Nat) (h : List Op) :
    run hash w d cmax h = runFrom hash w d cmax h ⟨w, d, cmax, Array.replicate (w * d) 0⟩ := by
  simp [run, new_some hw]

theorem step_merge {hash : List Nat → Nat} {w d cmax : Nat} (o : List Op) (s : St) :
    step hash w d cmax (.merge o) s = (run hash w d cmax o).bind (merge s) := by
  rw [step, run]
  cases new w d cmax with
  | none => rfl
  | some s0 => simp only; cases runFrom hash w d cmax o s0 <;> rfl

mutual
theorem runFrom_inv {hash : List Nat → Nat} {w d cmax : Nat} (hw : 0 < w) (hd : 0 < d) :
    ∀ (ops : List Op) (s s' : St) (str : List (Nat × Nat)), Inv hash w d cmax s str →
      runFrom hash w d cmax ops s = some s' → Inv hash w d cmax s' (streamFrom ops str)
  | [], s, s', str, hi, hr => by
    simp only [runFrom, Option.some.injEq] at hr; subst hr; simpa [streamFrom] using hi
  | op :: ops, s, s', str, hi, hr => by
    rw [runFrom] at hr
    cases hs : step hash w d cmax op s with
    | none => rw [hs] at hr; cases hr
    | some s1 =>
      rw [hs] at hr
      rw [streamFrom]
      exact runFrom_inv hw hd ops s1 s' _ (step_inv hw hd op s s1 str hi hs) hr
theorem step_inv {hash : List Nat → Nat} {w d cmax : Nat} (hw : 0 < w) (hd : 0 < d) :
    ∀ (op : Op) (s s' : St) (str : List (Nat × Nat)), Inv hash w d cmax s str →
      step hash w d cmax op s = some s' → Inv hash w d cmax s' (streamStep op str)
  | .addN x n, s, s', str, hi, hr => by
    simp only [step, Option.map_eq_some_iff] at hr
    obtain ⟨⟨s1, r⟩, ha, rfl⟩ := hr
    exact inv_addN hw hd hi ha
  | .merge o, s, s', str, hi, hr => by
    rw [step_merge, run_eq hw] at hr
    cases ho : runFrom hash w d cmax o ⟨w, d, cmax, Array.replicate (w * d) 0⟩ with
    | none => rw [ho] at hr; cases hr
    | some so =>
      rw [ho] at hr
      have := runFrom_inv hw hd o _ so [] (inv_fresh hash w d cmax) ho
      rw [streamStep]
      exact inv_merge hi this hr
  | .clear, s, s', str, hi, hr => by
    simp only [step, Option.some.injEq] at hr; subst hr
    exact inv_clear hi
end

theorem run_inv {hash : List Nat → Nat} {w d cmax : Nat} (hw : 0 < w) (hd : 0 < d) {h : List Op} {s : St}
    (hr : run hash w d cmax h = some s) : Inv hash w d cmax s (stream h) := by
  rw [run_eq hw] at hr
  exact runFrom_inv hw hd h _ s [] (inv_fresh hash w d cmax) hr


/-! ### histories: prefixes and stream equations -/

theorem runFrom_append (hash : List Nat → Nat) (w d cmax : Nat) (a b : List Op) (s : St) :
    runFrom hash w d cmax (a ++ b) s = (runFrom hash w d cmax a s).bind (runFrom hash w d cmax b) := by
  induction a generalizing s with
  | nil => simp [runFrom]
  | cons op a ih =>
    simp only [List.cons_append, runFrom]
    cases step hash w d cmax op s with
    | none => rfl
    | some s1 => exact ih s1

theorem run_append (hash : List Nat → Nat) (w d cmax : Nat) (a b : List Op) :
    run hash w d cmax (a ++ b) = (run hash w d cmax a).bind (runFrom hash w d cmax b) := by
  unfold run
  cases new w d cmax with
  | none => rfl
  | some s0 => exact runFrom_append hash w d cmax a b s0

theorem streamFrom_append (a b : List Op) (acc : List (Nat × Nat)) :
    streamFrom (a ++ b) acc = streamFrom b (streamFrom a acc) := by
  induction a generalizing acc with
  | nil => simp [streamFrom]
  | cons op a ih => simp only [List.cons_append, streamFrom]; exact ih _

theorem stream_nil : stream [] = [] := by simp [stream, streamFrom]
theorem stream_snoc (h : List Op) (op : Op) : stream (h ++ [op]) = streamStep op (stream h) := by
  simp [stream, streamFrom_append, streamFrom]
theorem stream_snoc_addN (h : List Op) (x n : Nat) : stream (h ++ [.addN x n]) = stream h ++ [(x, n)] := by
  rw [stream_snoc, streamStep]
theorem stream_snoc_merge (h o : List Op) : stream (h ++ [.merge o]) = stream h ++ stream o := by
  rw [stream_snoc, streamStep]; rfl
theorem stream_snoc_clear (h : List Op) : stream (h ++ [.clear]) = [] := by
  rw [stream_snoc, streamStep]

/-! ### consequences of the invariant -/

/-- A state that satisfies the structural part of the invariant. -/
def Valid (s : St) : Prop := 0 < s.w ∧ 0 < s.d ∧ s.table.size = s.w * s.d

theorem Inv.valid {hash : List Nat → Nat} {w d cmax : Nat} {s : St} {str : List (Nat × Nat)}
    (hw : 0 < w) (hd : 0 < d) (h : Inv hash w d cmax s str) : Valid s :=
  ⟨by rw [h.hw]; exact hw, by rw [h.hd]; exact hd, by rw [h.hw, h.hd]; exact h.hsize⟩

theorem query_eq {hash : List Nat → Nat} {s : St} (hv : Valid s) (x : Nat) :
    query hash s x = queryCols s (colsOf hash s.w s.d x) := by
  unfold query; rw [(colsOf_wf hash hv.1 s.d x).1]

theorem addN_eq {hash : List Nat → Nat} {s : St} (hv : Valid s) (x n : Nat) :
    addN hash s x n = addCols s (colsOf hash s.w s.d x) n := by
  unfold addN; rw [(colsOf_wf hash hv.1 s.d x).1]

/-- `query_point` succeeds on a valid state and returns the minimum over the rows. -/
theorem query_spec {hash : List Nat → Nat} {s : St} (hv : Valid s) (x : Nat) :
    ∃ v, query hash s x = some v ∧
      (∀ r (h : r < (colsOf hash s.w s.d x).length), v ≤ cell s.table (r * s.w + (colsOf hash s.w s.d x)[r])) ∧
      ∃ r, ∃ h : r < (colsOf hash s.w s.d x).length, v = cell s.table (r * s.w + (colsOf hash s.w s.d x)[r]) := by
  obtain ⟨v, hq, hm⟩ := queryCols_spec hv.2.2 (colsOf_wf hash hv.1 s.d x).2 hv.2.1
  exact ⟨v, by rw [query_eq hv]; exact hq, isMin_rowVals_zero.mp hm⟩

theorem query_bounds {hash : List Nat → Nat} {w d cmax : Nat} {s : St} {str : List (Nat × Nat)}
    (hw : 0 < w) (hd : 0 < d) (h : Inv hash w d cmax s str) (x : Nat) :
    ∃ v, query hash s x = some v ∧ weightOf x str ≤ v ∧ v ≤ total str := by
  have hv := h.valid hw hd
  have e1 := h.hw
  have e2 := h.hd
  subst e1 e2
  obtain ⟨v, hq, hlb, r, hr, hat⟩ := query_spec (hash := hash) hv x
  have hlt := (colsOf_wf hash hv.1 s.d x).2.2 _ (List.getElem_mem hr)
  rw [h.hcell _ _ hlt] at hat
  refine ⟨v, hq, ?_, ?_⟩
  · rw [hat]
    apply weightOf_le_cellSum
    exact List.getElem?_eq_getElem hr
  · rw [hat]; exact cellSum_le_total ..

/-- the value returned by `add_n` is `query_point` in the new state -/
theorem addN_returns_query {hash : List Nat → Nat} {s s' : St} (hv : Valid s) {x n r : Nat}
    (ha : addN hash s x n = some (s', r)) : query hash s' x = some r := by
  obtain ⟨_, hwf⟩ := colsOf_wf hash hv.1 s.d x
  rw [addN_eq hv] at ha
  obtain ⟨e1, e2, e3, e4, e5, v, hmin, rfl⟩ := (addCols_spec hv.2.2 hwf hv.2.1 n).2 s' r ha
  have hv' : Valid s' := ⟨by rw [e1]; exact hv.1, by rw [e2]; exact hv.2.1, by rw [e1, e2, e4]; exact hv.2.2⟩
  rw [query_eq hv', e1, e2]
  have hwf' : WFCols s'.w s'.d (colsOf hash s.w s.d x) := by rw [e1, e2]; exact hwf
  obtain ⟨v', hq, hmin'⟩ := queryCols_spec hv'.2.2 hwf' hv'.2.1
  rw [hq]
  have hrv : rowVals s'.w s'.table 0 (colsOf hash s.w s.d x) =
      (rowVals s.w s.table 0 (colsOf hash s.w s.d x)).map (· + n) := by
    rw [e1]
    apply rowVals_congr
    intro r hr
    rw [Nat.zero_add, e5 r _ (hwf.2 _ (List.getElem_mem hr)), List.getElem?_eq_getElem hr]
    simp
  rw [hrv] at hmin'
  rw [hmin'.unique (isMin_map_add n hmin)]

/-- `add_n` panics iff one of the visited counters would exceed `cmax`. -/
theorem addN_eq_none_iff {hash : List Nat → Nat} {s : St} (hv : Valid s) (x n : Nat) :
    addN hash s x n = none ↔
      ∃ r, ∃ h : r < (colsOf hash s.w s.d x).length,
        s.cmax < cell s.table (r * s.w + (colsOf hash s.w s.d x)[r]) + n := by
  rw [addN_eq hv, (addCols_spec hv.2.2 (colsOf_wf hash hv.1 s.d x).2 hv.2.1 n).1]
  constructor
  · rintro ⟨v, hv, hlt⟩
    obtain ⟨r, hr, rfl⟩ := mem_rowVals.mp hv
    exact ⟨r, hr, by simpa using hlt⟩
  · rintro ⟨r, hr, hlt⟩
    exact ⟨_, mem_rowVals.mpr ⟨r, hr, rfl⟩, by simpa using hlt⟩


theorem colsOf_eq {hash : List Nat → Nat} {w d x : Nat} {cols : List Nat}
    (h : HashIter.positions hash w d x = some cols) : colsOf hash w d x = cols := by
  simp [colsOf, h]

/-- row/column arithmetic of a column list: in range, and distinct rows are distinct cells -/
theorem wfcols_index {w d : Nat} {cols : List Nat} (h : WFCols w d cols) :
    (∀ i (hi : i < cols.length), cols[i] < w ∧ i * w + cols[i] < w * d) ∧
    (∀ i i' (hi : i < cols.length) (hi' : i' < cols.length),
      i * w + cols[i] = i' * w + cols[i'] → i = i') := by
  refine ⟨?_, ?_⟩
  · intro i hi
    have hc := h.2 _ (List.getElem_mem hi)
    exact ⟨hc, rowcol_lt (by rw [← h.1]; exact hi) hc⟩
  · intro i i' hi hi' e
    exact (rowcol_inj (h.2 _ (List.getElem_mem hi)) (h.2 _ (List.getElem_mem hi')) e).1

/-- every row of a reachable table sums to the total weight -/
theorem inv_row_sum {hash : List Nat → Nat} {w d cmax : Nat} {s : St} {str : List (Nat × Nat)}
    (hw : 0 < w) (h : Inv hash w d cmax s str) {r : Nat} (hr : r < d) :
    ((List.range w).map fun c => cell s.table (r * w + c)).sum = total str := by
  rw [← rowSum_cellSum hash hw hr str]
  congr 1
  apply List.map_congr_left
  intro c hc
  exact h.hcell r c (List.mem_range.mp hc)

/-- the cell of `x` in each row is at least the weight of `x` -/
theorem inv_cell_ge {hash : List Nat → Nat} {w d cmax : Nat} {s : St} {str : List (Nat × Nat)}
    (hw : 0 < w) (h : Inv hash w d cmax s str) (x : Nat) {r : Nat}
    (hr : r < (colsOf hash w d x).length) :
    weightOf x str ≤ cell s.table (r * w + (colsOf hash w d x)[r]) := by
  rw [h.hcell _ _ ((colsOf_wf hash hw d x).2.2 _ (List.getElem_mem hr))]
  exact weightOf_le_cellSum _ _ _ _ _ _ _ (List.getElem?_eq_getElem hr)

theorem query_single {hash : List Nat → Nat} {w d cmax : Nat} {s : St} {str : List (Nat × Nat)}
    (hw : 0 < w) (hd : 0 < d) (h : Inv hash w d cmax s str) {x : Nat} (hx : ∀ e ∈ str, e.1 = x) :
    query hash s x = some (weightOf x str) := by
  obtain ⟨v, hq, h1, h2⟩ := query_bounds hw hd h x
  rw [← weightOf_eq_total hx] at h2
  rw [hq, Nat.le_antisymm h2 h1]

theorem inv_table_le {hash : List Nat → Nat} {w d cmax : Nat} {s : St} {str : List (Nat × Nat)}
    (h : Inv hash w d cmax s str) (j : Nat) (hj : j < s.table.size) : s.table[j] ≤ cmax := by
  rw [← cell_of_lt hj]; exact h.hle j

end Pds.Cms
