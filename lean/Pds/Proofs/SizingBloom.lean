import Pds.Proofs.SizingReal
import Pds.Proofs.BloomUnion
import Mathlib.Data.Finset.Card
import Mathlib.Data.Finset.Union
import Mathlib.Data.List.Dedup
import Mathlib.Algebra.Order.BigOperators.Group.Finset
/-!
`BloomFilter::len()` over `ℝ`: the estimator `−(m/k)·ln(1 − X/m)` lies between `X/k` and
`(X/k)(1 + X/m)` for `X ≤ m/2`, and the number `X` of set bits of an insert-only filter is at most
`k` times the number of distinct inserted elements.
-/
namespace Pds.Sizing

/-- `t ≤ −ln(1 − t) ≤ t + t²` on `[0, 1/2]` -/
theorem neg_log_one_sub_bounds {t : ℝ} (h0 : 0 ≤ t) (h1 : t ≤ 1 / 2) :
    t ≤ -Real.log (1 - t) ∧ -Real.log (1 - t) ≤ t + t ^ 2 := by
  have hpos : 0 < 1 - t := by linarith
  constructor
  · have := Real.log_le_sub_one_of_pos hpos
    linarith
  · have hs : 0 ≤ t + t ^ 2 := by positivity
    have hq := Real.quadratic_le_exp_of_nonneg hs
    have hE : 0 < Real.exp (t + t ^ 2) := Real.exp_pos _
    have key : 1 ≤ (1 - t) * Real.exp (t + t ^ 2) := by
      have h2 : 1 ≤ (1 - t) * (1 + (t + t ^ 2) + (t + t ^ 2) ^ 2 / 2) := by
        have : (1 - t) * (1 + (t + t ^ 2) + (t + t ^ 2) ^ 2 / 2) - 1
            = t ^ 2 / 2 * (1 - t - t ^ 2 - t ^ 3) := by ring
        have h3 : 0 ≤ 1 - t - t ^ 2 - t ^ 3 := by
          nlinarith [mul_nonneg h0 h0, mul_nonneg (mul_nonneg h0 h0) h0]
        nlinarith [mul_nonneg (by positivity : (0 : ℝ) ≤ t ^ 2 / 2) h3]
      nlinarith [mul_le_mul_of_nonneg_left hq (le_of_lt hpos)]
    have : Real.log 1 ≤ Real.log ((1 - t) * Real.exp (t + t ^ 2)) :=
      Real.log_le_log (by norm_num) key
    rw [Real.log_one, Real.log_mul (ne_of_gt hpos) (ne_of_gt hE), Real.log_exp] at this
    linarith

/-- the real number whose truncation is `len()` -/
noncomputable def bloomLenReal (m k X : ℝ) : ℝ := (-m) / k * Real.log (1 - X / m)

theorem bloomLen_eq (m k x : ℕ) : bloomLen (α := ℝ) m k x = ⌊bloomLenReal m k x⌋₊ := rfl

/-- `X/k ≤ −(m/k)·ln(1 − X/m) ≤ (X/k)·(1 + X/m)` for `0 ≤ X ≤ m/2` -/
theorem bloomLenReal_bounds {m k X : ℝ} (hm : 0 < m) (hk : 0 < k) (hX0 : 0 ≤ X) (hX : X ≤ m / 2) :
    X / k ≤ bloomLenReal m k X ∧ bloomLenReal m k X ≤ X / k * (1 + X / m) := by
  have ht0 : 0 ≤ X / m := div_nonneg hX0 (le_of_lt hm)
  have ht1 : X / m ≤ 1 / 2 := by rw [div_le_iff₀ hm]; linarith
  obtain ⟨h1, h2⟩ := neg_log_one_sub_bounds ht0 ht1
  have hmk : 0 < m / k := div_pos hm hk
  have e : bloomLenReal m k X = m / k * (-Real.log (1 - X / m)) := by
    unfold bloomLenReal; ring
  have e1 : X / k = m / k * (X / m) := by field_simp
  have e2 : X / k * (1 + X / m) = m / k * (X / m + (X / m) ^ 2) := by field_simp
  rw [e, e2, e1]
  constructor
  · exact mul_le_mul_of_nonneg_left h1 (le_of_lt hmk)
  · exact mul_le_mul_of_nonneg_left h2 (le_of_lt hmk)

/-- `len()` over `ℝ` for `2X ≤ m`: `X/k − 1 < len ≤ (X/k)(1 + X/m)` -/
theorem bloomLen_floor {m k x : ℕ} (hm : 0 < m) (hk : 0 < k) (hx : 2 * x ≤ m) :
    bloomLen (α := ℝ) m k x = ⌊(-(m : ℝ)) / k * Real.log (1 - (x : ℝ) / m)⌋₊ ∧
      (x : ℝ) / k - 1 < (bloomLen (α := ℝ) m k x : ℝ) ∧
      (bloomLen (α := ℝ) m k x : ℝ) ≤ (x : ℝ) / k * (1 + (x : ℝ) / m) := by
  have hm' : (0 : ℝ) < m := by exact_mod_cast hm
  have hk' : (0 : ℝ) < k := by exact_mod_cast hk
  have hx' : (x : ℝ) ≤ (m : ℝ) / 2 := by
    have : (2 : ℝ) * x ≤ m := by exact_mod_cast hx
    linarith
  obtain ⟨h1, h2⟩ := bloomLenReal_bounds hm' hk' (Nat.cast_nonneg x) hx'
  have h0 : 0 ≤ bloomLenReal m k x := le_trans (by positivity) h1
  refine ⟨rfl, ?_, ?_⟩
  · rw [bloomLen_eq]
    have := Nat.lt_floor_add_one (bloomLenReal m k x)
    linarith
  · rw [bloomLen_eq]
    exact le_trans (Nat.floor_le h0) h2

end Pds.Sizing

namespace Pds.Bloom
open Finset

/-- the set of set bit positions -/
def setBits (s : St) : Finset ℕ := (range s.m).filter fun j => bit s.bits j = true

theorem foldl_ones (l : List Bool) (c : ℕ) :
    l.foldl (fun c b => if b then c + 1 else c) c = c + l.count true := by
  induction l generalizing c with
  | nil => simp
  | cons b l ih =>
    rw [List.foldl_cons, ih]
    cases b
    · simp
    · simp; omega

theorem count_true_eq_card (l : List Bool) :
    l.count true = ((range l.length).filter fun j => l[j]?.getD false = true).card := by
  induction l using List.reverseRecOn with
  | nil => simp
  | append_singleton l b ih =>
    rw [List.count_append, List.length_append, List.length_singleton, range_add_one,
      filter_insert]
    have hcongr : ((range l.length).filter fun j => (l ++ [b])[j]?.getD false = true)
        = (range l.length).filter fun j => l[j]?.getD false = true := by
      apply filter_congr
      intro j hj
      rw [List.getElem?_append_left (mem_range.mp hj)]
    rw [hcongr]
    cases b
    · simp [ih]
    · have hn : l.length ∉ (range l.length).filter fun j => l[j]?.getD false = true := by
        simp
      simp [ih, card_insert_of_notMem hn]

/-- `ones` (the model of `count_ones`) is the number of set bit positions -/
theorem ones_eq_card (s : St) : ones s = (setBits s).card := by
  unfold ones setBits St.m
  rw [← Array.foldl_toList, foldl_ones, Nat.zero_add, count_true_eq_card]
  simp only [bit, Array.length_toList, Array.getElem?_toList]
  congr

/-- the set bits of an insert-only filter lie in the union of the position lists -/
theorem setBits_subset {hash : List Nat → Nat} {m k : Nat} {A : List Nat} {s : St}
    (hb : ∀ j, bit s.bits j = true ↔ ∃ x ∈ A, j ∈ posOf hash m k x) :
    setBits s ⊆ A.toFinset.biUnion fun x => (posOf hash m k x).toFinset := by
  intro j hj
  obtain ⟨x, hx, hjx⟩ := (hb j).mp (mem_filter.mp hj).2
  exact mem_biUnion.mpr ⟨x, List.mem_toFinset.mpr hx, List.mem_toFinset.mpr hjx⟩

/-- each insert sets at most `k` bits: `X ≤ k · #distinct inserted elements` -/
theorem ones_le (hash : List Nat → Nat) {m : Nat} (hm : 0 < m) (k : Nat) (A : List Nat) :
    ∃ s, run hash m k (inserts A) = some s ∧ s.k = k ∧ s.m = m ∧
      ones s ≤ k * A.toFinset.card ∧ ones s ≤ m := by
  obtain ⟨s, hr, hk, hm', hb⟩ := run_inserts_spec hash hm k A
  refine ⟨s, hr, hk, hm', ?_, ?_⟩
  · rw [ones_eq_card, Nat.mul_comm]
    refine (card_le_card (setBits_subset hb)).trans ?_
    apply card_biUnion_le_card_mul
    intro x _
    exact (List.toFinset_card_le _).trans (le_of_eq (posOf_spec hash hm k x).2.1)
  · rw [ones_eq_card, ← hm']
    exact (card_filter_le _ _).trans (le_of_eq (card_range _))

/-- `len() ≤ D·(1 + X/m) ≤ 1.5·D` while at most half of the bits are set -/
theorem bloomLen_le_distinct (hash : List Nat → Nat) {m k : Nat} (hm : 0 < m) (hk : 0 < k)
    (A : List Nat) :
    ∃ s, run hash m k (inserts A) = some s ∧ (2 * ones s ≤ m →
      (Pds.Sizing.bloomLen (α := ℝ) m k (ones s) : ℝ) ≤ (A.toFinset.card : ℝ) * (1 + (ones s : ℝ) / m) ∧
      (Pds.Sizing.bloomLen (α := ℝ) m k (ones s) : ℝ) ≤ 3 / 2 * (A.toFinset.card : ℝ)) := by
  obtain ⟨s, h1, _, _, h4, _⟩ := ones_le hash hm k A
  refine ⟨s, h1, fun hx => ?_⟩
  obtain ⟨_, _, hub⟩ := Pds.Sizing.bloomLen_floor hm hk hx
  have hm' : (0 : ℝ) < m := by exact_mod_cast hm
  have hk' : (0 : ℝ) < k := by exact_mod_cast hk
  have hXk : (ones s : ℝ) / k ≤ A.toFinset.card := by
    rw [div_le_iff₀ hk']
    have : (ones s : ℝ) ≤ ((k * A.toFinset.card : ℕ) : ℝ) := by exact_mod_cast h4
    rw [Nat.cast_mul] at this
    linarith
  have hXm : (ones s : ℝ) / m ≤ 1 / 2 := by
    rw [div_le_iff₀ hm']
    have : (2 : ℝ) * ones s ≤ m := by exact_mod_cast hx
    linarith
  have hXm0 : 0 ≤ (ones s : ℝ) / m := by positivity
  have hD : (0 : ℝ) ≤ A.toFinset.card := Nat.cast_nonneg _
  have h1' : (ones s : ℝ) / k * (1 + (ones s : ℝ) / m) ≤
      (A.toFinset.card : ℝ) * (1 + (ones s : ℝ) / m) :=
    mul_le_mul_of_nonneg_right hXk (by linarith)
  constructor
  · linarith
  · nlinarith

end Pds.Bloom
