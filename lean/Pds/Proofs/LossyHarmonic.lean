import Mathlib.Tactic.Linarith
import Mathlib.Tactic.Ring
import Mathlib.Tactic.FieldSimp
import Mathlib.Tactic.Positivity
import Mathlib.Data.Rat.Defs
import Mathlib.Algebra.Order.Field.Basic
import Mathlib.Algebra.BigOperators.Group.Finset.Basic
/-! Manku–Motwani harmonic counting argument for lossy counting (entries ≤ w * H b). -/
namespace Pds.Proofs.LossyHarmonic

/-- harmonic number H b = 1 + 1/2 + … + 1/b -/
def H : Nat → ℚ
  | 0 => 0
  | n + 1 => H n + 1 / ((n : ℚ) + 1)

@[simp] theorem H_zero : H 0 = 0 := rfl

theorem H_succ (n : Nat) : H (n + 1) = H n + 1 / ((n : ℚ) + 1) := rfl

theorem H_eq_sum (b : Nat) : H b = ∑ i ∈ Finset.range b, (1 : ℚ) / ((i : ℚ) + 1) := by
  induction b with
  | zero => simp
  | succ n ih => rw [H_succ, Finset.sum_range_succ, ih]

theorem H_step_nonneg (n : Nat) : (0 : ℚ) ≤ 1 / ((n : ℚ) + 1) := by positivity

theorem H_nonneg (b : Nat) : 0 ≤ H b := by
  induction b with
  | zero => simp
  | succ n ih =>
    rw [H_succ]
    have := H_step_nonneg n
    linarith

theorem H_le_succ (b : Nat) : H b ≤ H (b + 1) := by
  rw [H_succ]
  have := H_step_nonneg b
  linarith

theorem H_mono {a b : Nat} (h : a ≤ b) : H a ≤ H b := by
  induction h with
  | refl => exact le_refl _
  | step _ ih => exact le_trans ih (H_le_succ _)

/-- `F l j` : total frequency of the entries of age `≤ j`. -/
def F : List (Nat × Nat) → Nat → ℚ
  | [], _ => 0
  | e :: l, j => (if e.1 ≤ j then (e.2 : ℚ) else 0) + F l j

/-- `G l j` : Abel-weighted partial sum. -/
def G : List (Nat × Nat) → Nat → ℚ
  | [], _ => 0
  | e :: l, j =>
    (if e.1 ≤ j then (e.2 : ℚ) * (1 / (e.1 : ℚ) - 1 / ((j : ℚ) + 1)) else 0) + G l j

/-- `S l = Σ f / i`. -/
def S : List (Nat × Nat) → ℚ
  | [] => 0
  | e :: l => (e.2 : ℚ) / (e.1 : ℚ) + S l

theorem F_cast (l : List (Nat × Nat)) (j : Nat) :
    ((((l.filter (fun e => decide (e.1 ≤ j))).map (·.2)).sum : Nat) : ℚ) = F l j := by
  induction l with
  | nil => simp [F]
  | cons e l ih =>
    by_cases h : e.1 ≤ j
    · simp only [List.filter_cons, h, decide_true, if_true, List.map_cons, List.sum_cons,
        Nat.cast_add, F, ih]
    · simp only [List.filter_cons, h, decide_false, if_false, F, ih, zero_add, Bool.false_eq_true]

theorem G_step (l : List (Nat × Nat)) (j : Nat) :
    G l (j + 1) = G l j + (1 / ((j : ℚ) + 1) - 1 / ((j : ℚ) + 2)) * F l (j + 1) := by
  induction l with
  | nil => simp [G, F]
  | cons e l ih =>
    simp only [G, F, ih]
    rcases Nat.lt_trichotomy e.1 (j + 1) with h | h | h
    · have h1 : e.1 ≤ j := by omega
      have h2 : e.1 ≤ j + 1 := by omega
      simp only [h1, h2, if_true]
      push_cast
      ring
    · have h1 : ¬ e.1 ≤ j := by omega
      have h2 : e.1 ≤ j + 1 := by omega
      simp only [h1, h2, if_true, if_false]
      rw [h]
      push_cast
      ring
    · have h1 : ¬ e.1 ≤ j := by omega
      have h2 : ¬ e.1 ≤ j + 1 := by omega
      simp only [h1, h2, if_false]
      ring

theorem G_zero (l : List (Nat × Nat)) (hl : ∀ e ∈ l, 1 ≤ e.1) : G l 0 = 0 := by
  induction l with
  | nil => rfl
  | cons e l ih =>
    have h1 : ¬ e.1 ≤ 0 := by
      have := hl e (List.mem_cons_self ..)
      omega
    simp only [G, h1, if_false, zero_add]
    exact ih (fun x hx => hl x (List.mem_cons_of_mem _ hx))

theorem length_le_S (l : List (Nat × Nat)) (hl : ∀ e ∈ l, 1 ≤ e.1 ∧ e.1 ≤ e.2) :
    (l.length : ℚ) ≤ S l := by
  induction l with
  | nil => simp [S]
  | cons e l ih =>
    have ih' := ih (fun x hx => hl x (List.mem_cons_of_mem _ hx))
    obtain ⟨h1, h2⟩ := hl e (List.mem_cons_self ..)
    have hpos : (0 : ℚ) < (e.1 : ℚ) := by exact_mod_cast h1
    have hle : (e.1 : ℚ) ≤ (e.2 : ℚ) := by exact_mod_cast h2
    have : (1 : ℚ) ≤ (e.2 : ℚ) / (e.1 : ℚ) := by
      rw [le_div_iff₀ hpos]; linarith
    simp only [S, List.length_cons, Nat.cast_add, Nat.cast_one]
    linarith

theorem S_eq (l : List (Nat × Nat)) (b : Nat) (hl : ∀ e ∈ l, e.1 ≤ b) :
    S l = G l b + F l b / ((b : ℚ) + 1) := by
  induction l with
  | nil => simp [S, G, F]
  | cons e l ih =>
    have ih' := ih (fun x hx => hl x (List.mem_cons_of_mem _ hx))
    have h1 := hl e (List.mem_cons_self ..)
    simp only [S, G, F, h1, if_true, ih']
    ring

theorem G_le (w b : Nat) (l : List (Nat × Nat)) (hl : ∀ e ∈ l, 1 ≤ e.1)
    (hF : ∀ j, j ≤ b → F l j ≤ (j : ℚ) * w) :
    ∀ j, j ≤ b → G l j ≤ (w : ℚ) * (H (j + 1) - 1) := by
  intro j
  induction j with
  | zero =>
    intro _
    rw [G_zero l hl]
    simp [H]
  | succ j ih =>
    intro hj
    have ihj := ih (by omega)
    have hFj := hF (j + 1) hj
    have hpos : (0 : ℚ) ≤ 1 / ((j : ℚ) + 1) - 1 / ((j : ℚ) + 2) := by
      have hj0 : (0 : ℚ) ≤ (j : ℚ) := Nat.cast_nonneg j
      rw [sub_nonneg]
      apply one_div_le_one_div_of_le <;> linarith
    have hmul := mul_le_mul_of_nonneg_left hFj hpos
    rw [G_step, H_succ (j + 1)]
    push_cast at hmul ⊢
    have hj0 : (0 : ℚ) ≤ (j : ℚ) := Nat.cast_nonneg j
    have e1 : (1 / ((j : ℚ) + 1) - 1 / ((j : ℚ) + 2)) * (((j : ℚ) + 1) * (w : ℚ))
        = (w : ℚ) * (1 / ((j : ℚ) + 1 + 1)) := by
      have : (j : ℚ) + 1 ≠ 0 := by positivity
      have : (j : ℚ) + 2 ≠ 0 := by positivity
      have : (j : ℚ) + 1 + 1 ≠ 0 := by positivity
      field_simp
      ring
    linarith

/-- Manku–Motwani counting argument.  `l` lists pairs `(i, f)`: an entry of age `i` windows
(`1 ≤ i ≤ b`) with frequency `f ≥ i`; the entries of age `≤ j` account for at most `j * w`
stream elements.  Then there are at most `w * H b` entries. -/
theorem harmonic_count (w b : Nat) (l : List (Nat × Nat))
    (hl : ∀ e ∈ l, 1 ≤ e.1 ∧ e.1 ≤ b ∧ e.1 ≤ e.2)
    (hw : ∀ j, j ≤ b → ((l.filter (fun e => decide (e.1 ≤ j))).map (·.2)).sum ≤ j * w) :
    (l.length : ℚ) ≤ w * H b := by
  have hF : ∀ j, j ≤ b → F l j ≤ (j : ℚ) * w := by
    intro j hj
    rw [← F_cast]
    exact_mod_cast hw j hj
  have h1 := length_le_S l (fun e he => ⟨(hl e he).1, (hl e he).2.2⟩)
  have h2 := S_eq l b (fun e he => (hl e he).2.1)
  have h3 := G_le w b l (fun e he => (hl e he).1) hF b (le_refl _)
  have h4 := hF b (le_refl _)
  have hb : (0 : ℚ) < (b : ℚ) + 1 := by positivity
  have h5 : F l b / ((b : ℚ) + 1) ≤ (b : ℚ) * w / ((b : ℚ) + 1) :=
    div_le_div_of_nonneg_right h4 hb.le
  rw [H_succ] at h3
  have e1 : (w : ℚ) * (H b + 1 / ((b : ℚ) + 1) - 1) + (b : ℚ) * w / ((b : ℚ) + 1)
      = (w : ℚ) * H b := by
    have : (b : ℚ) + 1 ≠ 0 := hb.ne'
    field_simp
    ring
  linarith

end Pds.Proofs.LossyHarmonic
