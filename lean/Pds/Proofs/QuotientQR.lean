import Pds.Proofs.QuotientRefine
/-!
Index arithmetic of `calc_quotient_remainder` and the public `insert` / `query`.
-/
namespace Pds.Quotient

theorem paramsOk_iff {q r : Nat} : paramsOk q r = true ↔ (0 < r ∧ r ≤ 64 ∧ 0 < q ∧ r + q ≤ 64) := by
  simp [paramsOk, and_assoc]

theorem sub_div_mul (x m : Nat) : x - x / m * m = x % m := by
  have := Nat.div_add_mod x m
  rw [Nat.mul_comm] at this
  omega

theorem calcQR_eq {q r fp : Nat} (hp : paramsOk q r = true) (hfp : fp < 2 ^ 64) :
    calcQR q r fp = ((fp % 2 ^ (q + r)) / 2 ^ r, fp % 2 ^ r) := by
  obtain ⟨h1, h2, h3, h4⟩ := paramsOk_iff.mp hp
  have hclean : fp - (if 64 - r - q > 0 then fp / 2 ^ (64 - (64 - r - q)) * 2 ^ (64 - (64 - r - q)) else 0)
      = fp % 2 ^ (q + r) := by
    by_cases c : 64 - r - q > 0
    · rw [if_pos c, show 64 - (64 - r - q) = q + r by omega, sub_div_mul]
    · rw [if_neg c, show q + r = 64 by omega, Nat.mod_eq_of_lt hfp]; rfl
  unfold calcQR
  simp only [Nat.shiftRight_eq_div_pow, Nat.shiftLeft_eq, sub_div_mul]
  rw [hclean]
  congr 1
  exact Nat.mod_mod_of_dvd fp (Nat.pow_dvd_pow 2 (by omega))

theorem quo_lt (q r fp : Nat) : (fp % 2 ^ (q + r)) / 2 ^ r < 2 ^ q := by
  rw [Nat.div_lt_iff_lt_mul (Nat.two_pow_pos r), ← Nat.pow_add]
  exact Nat.mod_lt _ (Nat.two_pow_pos _)

theorem rem_lt (r fp : Nat) : fp % 2 ^ r < 2 ^ r := Nat.mod_lt _ (Nat.two_pow_pos _)

/-- the (quotient, remainder) pair a 64-bit hash is mapped to -/
def key (q r fp : Nat) : Fin (2 ^ q) × Nat := (⟨(fp % 2 ^ (q + r)) / 2 ^ r, quo_lt q r fp⟩, fp % 2 ^ r)

theorem key_eq_iff (q r fp1 fp2 : Nat) :
    key q r fp1 = key q r fp2 ↔ fp1 % 2 ^ (q + r) = fp2 % 2 ^ (q + r) := by
  simp only [key, Prod.mk.injEq, Fin.mk.injEq]
  have hd : ∀ fp, fp % 2 ^ r = (fp % 2 ^ (q + r)) % 2 ^ r := fun fp =>
    (Nat.mod_mod_of_dvd fp (Nat.pow_dvd_pow 2 (by omega))).symm
  constructor
  · rintro ⟨h1, h2⟩
    rw [hd fp1, hd fp2] at h2
    have e1 := Nat.div_add_mod (fp1 % 2 ^ (q + r)) (2 ^ r)
    have e2 := Nat.div_add_mod (fp2 % 2 ^ (q + r)) (2 ^ r)
    rw [← e1, ← e2, h1, h2]
  · intro h
    rw [hd fp1, hd fp2, h]
    exact ⟨rfl, rfl⟩

theorem insert_eq {q r fp : Nat} (hp : paramsOk q r = true) (hfp : fp < 2 ^ 64) (t : St (2 ^ q)) :
    insert q r t fp = insertInternal t (key q r fp).1 (key q r fp).2 := by
  unfold insert
  rw [calcQR_eq hp hfp]
  simp only [quo_lt, dite_true, key]

theorem query_eq {q r fp : Nat} (hp : paramsOk q r = true) (hfp : fp < 2 ^ 64) (t : St (2 ^ q)) :
    query q r t fp = (scan t (key q r fp).1 (key q r fp).2 false).map (·.present) := by
  unfold query
  rw [calcQR_eq hp hfp]
  simp only [quo_lt, dite_true, key]

/-- run a list of hashes through the public `insert` -/
def runPub (q r : Nat) (t : St (2 ^ q)) : List Nat → Option (St (2 ^ q) × List Res)
  | [] => some (t, [])
  | fp :: fps =>
    match insert q r t fp with
    | none => none
    | some (t', res) => (runPub q r t' fps).map (fun p => (p.1, res :: p.2))

theorem runPub_eq {q r : Nat} (hp : paramsOk q r = true) (fps : List Nat)
    (hfps : ∀ fp ∈ fps, fp < 2 ^ 64) (t : St (2 ^ q)) :
    runPub q r t fps = runFrom t (fps.map (key q r)) := by
  induction fps generalizing t with
  | nil => rfl
  | cons fp fps ih =>
    simp only [runPub, List.map_cons, runFrom]
    rw [insert_eq hp (hfps fp (by simp))]
    cases insertInternal t (key q r fp).1 (key q r fp).2 with
    | none => rfl
    | some p =>
      simp only
      rw [ih (fun fp h => hfps fp (by simp [h]))]

end Pds.Quotient
