import Pds.Proofs.QuotientUnion2
/-!
`union`, part 3: the outer loop over cluster starts, and `union` itself.
-/
namespace Pds.Quotient
variable {N : Nat}

/-- re-basing does not change which pair a slot stores -/
theorem rebase_pairAt {o : St N} {z : Fin N} {qt : Nat → Nat} (h : LInv o z qt) {m : Nat}
    (hm : m < N) (hs : (o.at z m).shift = false) {j : Nat} (hj : j < N)
    (hu : (o.at (pos z m) j).used = true) :
    ∃ kg, kg < N ∧ pos z kg = pos (pos z m) j ∧ o.at z kg = o.at (pos z m) j ∧
      pairAt o (pos z m) (rebQt N m qt) j = pairAt o z qt kg := by
  have hge := h.ge_of_unshifted hs
  by_cases c : j + m < N
  · refine ⟨j + m, c, ?_, (at_rebase1 o z).symm, ?_⟩
    · rw [pos_pos]; congr 1; omega
    · rw [at_rebase1] at hu
      have := hge _ (by omega) c hu
      simp only [pairAt, rebQt1 qt c, pos_pos, at_rebase1]
      congr 2; omega
  · have c : N ≤ j + m := by omega
    refine ⟨j + m - N, by omega, ?_, (at_rebase2 o z c).symm, ?_⟩
    · rw [pos_pos, ← pos_add_N z (j + m - N)]; congr 1; omega
    · simp only [pairAt, rebQt2 qt c, pos_pos, at_rebase2 o z c]
      congr 1
      rw [← pos_add_N z (qt (j + m - N))]; congr 1
      rw [at_rebase2 o z c] at hu
      have := h.le _ (by omega) hu
      omega

/-- `b` starts a cluster -/
def IsStart (o : St N) (b : Fin N) : Prop := (o.get b).occ = true ∧ (o.get b).shift = false

/-- `x` is stored in the cluster that starts at `b` (reference-free formulation) -/
def InCl (o : St N) (z0 : Fin N) (qt0 : Nat → Nat) (b : Fin N) (x : Fin N × Nat) : Prop :=
  ∃ k, k < N ∧ (∀ m, 0 < m → m ≤ k → (o.at b m).shift = true) ∧
    ∃ kg, kg < N ∧ pos z0 kg = pos b k ∧ (o.at z0 kg).used = true ∧ x = pairAt o z0 qt0 kg

/-- processing one cluster start: the insert of the first element plus the cluster walk -/
theorem union_one {o : St N} {z0 : Fin N} {qt0 : Nat → Nat} (h0 : LInv o z0 qt0) {i : Fin N}
    (hi : IsStart o i) {t : St N} {U : Finset (Fin N × Nat)} (hr : Rep t U) :
    ∃ t1, insertInternal t i (o.get i).rem = some (t1, (specStep U (i, (o.get i).rem)).2) ∧
      (((specStep U (i, (o.get i).rem)).2 = .full ∧ FullWit o z0 qt0 U) ∨
       ((specStep U (i, (o.get i).rem)).2 ≠ .full ∧
        ∃ t' res, unionCluster o i (N + 1) (incr i) i [] t1 = some (t', res) ∧
          ((res = .full ∧ FullWit o z0 qt0 U) ∨ (res = .ok true ∧ ∃ U', Rep t' U' ∧
            ∀ x, x ∈ U' ↔ (x ∈ U ∨ InCl o z0 qt0 i x))))) := by
  obtain ⟨m, hm, rfl⟩ := exists_pos z0 i
  have hs : (o.at z0 m).shift = false := hi.2
  have hb := h0.rebase hm hs
  have hocc0 : (o.at (pos z0 m) 0).occ = true := by simpa [St.at] using hi.1
  have hN : 0 < N := by omega
  have hq0 : rebQt N m qt0 0 = 0 := hb.qt_zero hN (LInv.used_of_occ hocc0)
  obtain ⟨t1, h1, h2⟩ := rep_insert hr (pos z0 m, (o.get (pos z0 m)).rem)
  refine ⟨t1, h1, ?_⟩
  have habs0 : Abs o z0 qt0 (pos z0 m) (o.get (pos z0 m)).rem := by
    rw [← h0.rebase_abs hm hs]
    exact ⟨0, hN, LInv.used_of_occ hocc0, by rw [hq0]; simp, by simp [St.at]⟩
  by_cases hfull : (specStep U (pos z0 m, (o.get (pos z0 m)).rem)).2 = .full
  · have hf := (specStep_full_iff _ _).mp hfull
    exact Or.inl ⟨hfull, U, _, fun y hy => Or.inl hy, hf.2, hf.1, habs0⟩
  · refine Or.inr ⟨hfull, ?_⟩
    have hQ : QOk o (pos z0 m) (rebQt N m qt0 0) 0 [] := by
      refine ⟨List.Pairwise.nil, fun a => ?_⟩
      simp only [List.not_mem_nil, false_iff]
      omega
    obtain ⟨t', res, c1, c2⟩ := unionCluster_spec hb hocc0 (N + 1) 0 [] t1 _ (by omega) (by omega)
      (fun m h1 h2 => by omega) hQ h2
    rw [hq0] at c1
    simp only [pos_zero, List.map_nil] at c1
    have hi1 : incr (pos z0 m) = pos (pos z0 m) (0 + 1) := by
      have := incr_pos (pos z0 m) 0; simpa using this
    refine ⟨t', res, by rw [hi1]; exact c1, ?_⟩
    rcases c2 with ⟨c2, W, x, w1, w2, w3, w4⟩ | ⟨c2, len, U', d1, d2, d3, d4, d5, d6⟩
    · refine Or.inl ⟨c2, W, x, fun y hy => ?_, w2, w3, (h0.rebase_abs hm hs _ _).mp w4⟩
      rcases w1 y hy with hy | hy
      · rcases (specStep_mem_notfull _ _ _ hfull).mp hy with hy | rfl
        · exact Or.inl hy
        · exact Or.inr habs0
      · exact Or.inr ((h0.rebase_abs hm hs _ _).mp hy)
    · refine Or.inr ⟨c2, U', d5, ?_⟩
      have hpair0 : (pos z0 m, (o.get (pos z0 m)).rem) = pairAt o (pos z0 m) (rebQt N m qt0) 0 := by
        simp [pairAt, hq0, St.at]
      have husedlt : ∀ k, k < len → (o.at (pos z0 m) k).used = true := by
        intro k hk
        by_cases e : k = 0
        · subst e; exact LInv.used_of_occ hocc0
        · exact LInv.used_of_shift (d3 k (by omega) hk)
      intro x
      rw [d6, specStep_mem_notfull _ _ _ hfull]
      constructor
      · rintro ((hx | hx) | ⟨k, k1, k2, hx⟩)
        · exact Or.inl hx
        · right
          obtain ⟨kg, g1, g2, g3, g4⟩ := rebase_pairAt h0 hm hs (j := 0) hN (husedlt 0 (by omega))
          refine ⟨0, hN, fun m h1 h2 => by omega, kg, g1, g2, by rw [g3]; exact husedlt 0 (by omega), ?_⟩
          rw [hx, hpair0, g4]
        · right
          obtain ⟨kg, g1, g2, g3, g4⟩ := rebase_pairAt h0 hm hs (j := k) (by omega) (husedlt k k2)
          refine ⟨k, by omega, fun m h1 h2 => d3 m h1 (by omega), kg, g1, g2,
            by rw [g3]; exact husedlt k k2, ?_⟩
          rw [hx, g4]
      · rintro (hx | ⟨k, k1, k2, kg, g1, g2, g3, g4⟩)
        · exact Or.inl (Or.inl hx)
        · have hklen : k < len := by
            by_cases c : k < len
            · exact c
            · exfalso
              have h1 := d4 (by omega)
              have h2 := k2 len (by omega) (by omega)
              rw [h1] at h2; cases h2
          obtain ⟨kg', g1', g2', g3', g4'⟩ := rebase_pairAt h0 hm hs (j := k) k1 (husedlt k hklen)
          have hkg : kg = kg' := pos_inj g1 g1' (by rw [g2, g2'])
          subst hkg
          by_cases e : k = 0
          · subst e
            exact Or.inl (Or.inr (by rw [g4, ← g4', hpair0]))
          · exact Or.inr ⟨k, by omega, hklen, by rw [g4, g4']⟩

end Pds.Quotient
